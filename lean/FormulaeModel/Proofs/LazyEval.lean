import FormulaeModel.Spec.C12
set_option linter.unusedSimpArgs false
/-
Helper lemmas for C12: on the Python alphabet the lazy tree built with the documented operator
tables exists, and evaluating it is Python's evaluation of the tree (chains excepted).
-/
namespace FormulaeModel.Lazy
open FormulaeModel FormulaeModel.Spec.C12

/-- the documented binary table, read through `operator.__name__`, is Python's meaning of the
token, and the printed symbol is Python's spelling -/
theorem doc_binary_op (k : Kind) :
    (lookup documentedOps.binary k.name).bind BinOp.ofName? = pyBinOp k := by
  cases k <;> decide

theorem doc_binary_sym (k : Kind) :
    (lookup documentedOps.binary k.name).bind (lookup documentedOps.symbols)
      = (pyBinOp k).map (fun _ => pySymbol k) := by
  cases k <;> decide

theorem doc_unary_op (k : Kind) :
    (lookup documentedOps.unary k.name).bind UnOp.ofName? = pyUnOp k := by
  cases k <;> decide

theorem doc_unary_sym (k : Kind) :
    (lookup documentedOps.unary k.name).bind (lookup documentedOps.symbols)
      = (pyUnOp k).map (fun _ => pySymbol k) := by
  cases k <;> decide

theorem doc_binary (k : Kind) (o : BinOp) (h : pyBinOp k = some o) :
    ∃ fn, lookup documentedOps.binary k.name = some fn ∧ BinOp.ofName? fn = some o ∧
      lookup documentedOps.symbols fn = some (pySymbol k) := by
  have h1 := doc_binary_op k
  have h2 := doc_binary_sym k
  rw [h] at h1 h2
  cases hf : lookup documentedOps.binary k.name with
  | none => simp [hf] at h1
  | some fn => exact ⟨fn, rfl, by simpa [hf] using h1, by simpa [hf] using h2⟩

theorem doc_unary (k : Kind) (o : UnOp) (h : pyUnOp k = some o) :
    ∃ fn, lookup documentedOps.unary k.name = some fn ∧ UnOp.ofName? fn = some o ∧
      lookup documentedOps.symbols fn = some (pySymbol k) := by
  have h1 := doc_unary_op k
  have h2 := doc_unary_sym k
  rw [h] at h1 h2
  cases hf : lookup documentedOps.unary k.name with
  | none => simp [hf] at h1
  | some fn => exact ⟨fn, rfl, by simpa [hf] using h1, by simpa [hf] using h2⟩

theorem literal_ok (env : Env) (t : Token) (h : pyLiteralOk t = true) :
    ∃ l, resolveLiteral t = .ok l ∧ l.eval env = pyLiteralVal t := by
  obtain ⟨k, lx⟩ := t
  cases k <;> simp [pyLiteralOk] at h
  · -- NUMBER
    have hn : (numberLit lx).isSome = true := by
      unfold pyNumberOk at h
      split at h <;> simp_all
    cases hv : numberLit lx with
    | none => simp [hv] at hn
    | some v =>
      exact ⟨.value v none, by simp [resolveLiteral, hv], by simp [Lazy.eval, pyLiteralVal, hv]⟩
  · -- PYTHON_LITERAL
    rcases h with (h | h) | h <;> subst h
    · exact ⟨.value .pyTrue none, by simp [resolveLiteral],
        by simp [Lazy.eval, pyLiteralVal, LitVal.toVal]⟩
    · exact ⟨.value .pyFalse none, by simp [resolveLiteral],
        by simp [Lazy.eval, pyLiteralVal, LitVal.toVal]⟩
    · exact ⟨.value .pyNone none, by simp [resolveLiteral],
        by simp [Lazy.eval, pyLiteralVal, LitVal.toVal]⟩
  · -- STRING
    exact ⟨.value (.str (dropEnds lx)) (some lx), by simp [resolveLiteral],
      by simp [Lazy.eval, pyLiteralVal, LitVal.toVal]⟩

theorem find_none_of_not_mem (k : String) : ∀ (rest : LazyKw), k ∉ rest.keys → rest.find? k = none
  | .nil, _ => by simp [LazyKw.find?]
  | .cons k' a' r, h => by
    simp only [LazyKw.keys, List.mem_cons, not_or] at h
    have hne : (k' == k) = false := by simpa using fun hh => h.1 hh.symm
    simp [LazyKw.find?, hne, find_none_of_not_mem k r h.2]

theorem kwCons_fresh (k : String) (a : Lazy) (rest : LazyKw) (h : k ∉ rest.keys) :
    kwCons k a rest = .cons k a rest := by
  simp [kwCons, find_none_of_not_mem k rest h]

theorem plainVariable_eq (c : Expr) (h : isPlainVariable c = true) : ∃ n, c = .variable n := by
  cases c <;> simp [isPlainVariable] at h
  exact ⟨_, rfl⟩

section
variable (env : Env)

/-- what `LazyCall.eval` passes to the callee -/
def evalPacked (p : LazyArgs × LazyKw) : Except EvalErr (List Val × List (String × Val)) := do
  let xs ← p.1.eval env
  let ks ← p.2.eval env
  pure (xs, ks)

mutual
theorem eval_resolve : ∀ (e : Expr), alpha e = true → chainless e = true →
    ∃ t, resolve documentedOps e = .ok t ∧ t.eval env = pyEval env e
  | .binary l op r, ha, hc => by
    simp only [alpha, Bool.and_eq_true] at ha
    simp only [chainless, Bool.and_eq_true, Bool.not_eq_true'] at hc
    obtain ⟨tl, hl1, hl2⟩ := eval_resolve l ha.1.2 hc.1.1
    obtain ⟨tr, hr1, hr2⟩ := eval_resolve r ha.2 hc.1.2
    cases ho : pyBinOp op.kind with
    | none => simp [ho] at ha
    | some o =>
      obtain ⟨fn, hf1, hf2, hf3⟩ := doc_binary op.kind o ho
      refine ⟨.op2 fn (pySymbol op.kind) tl tr, ?_, ?_⟩
      · simp [resolve, hf1, hl1, hr1, hf3, bind, Except.bind, pure, Except.pure]
      · simp [Lazy.eval, pyEval, ho, hc.2, hl2, hr2, applyBin, hf2]
  | .unary op r, ha, hc => by
    simp only [alpha, Bool.and_eq_true] at ha
    simp only [chainless] at hc
    obtain ⟨tr, hr1, hr2⟩ := eval_resolve r ha.2 hc
    cases ho : pyUnOp op.kind with
    | none => simp [ho] at ha
    | some o =>
      obtain ⟨fn, hf1, hf2, hf3⟩ := doc_unary op.kind o ho
      refine ⟨.op1 fn (pySymbol op.kind) tr, ?_, ?_⟩
      · simp [resolve, hf1, hr1, hf3, bind, Except.bind, pure, Except.pure]
      · simp [Lazy.eval, pyEval, ho, hr2, applyUn, hf2]
  | .call c lp as rp, ha, hc => by
    simp only [alpha, Bool.and_eq_true, decide_eq_true_eq] at ha
    simp only [chainless, Bool.and_eq_true] at hc
    obtain ⟨la, lk, h1, _, _, h4⟩ := eval_resolveArgs as false ha.1.2 hc.2 ha.2
    obtain ⟨n, rfl⟩ := plainVariable_eq c ha.1.1.1.1
    refine ⟨.call n.lexeme la lk, ?_, ?_⟩
    · simp [resolve, h1, assignName, bind, Except.bind, pure, Except.pure]
    · simp only [Lazy.eval, pyEval]
      cases env.fn n.lexeme with
      | none => rfl
      | some f =>
        simp only [evalPacked] at h4
        rw [← h4]
        simp only [bind, Except.bind, pure, Except.pure]
        cases la.eval env <;> simp
        cases lk.eval env <;> simp
  | .grouping lp e rp, ha, hc => by
    simp only [alpha, Bool.and_eq_true] at ha
    simp only [chainless] at hc
    obtain ⟨t, h1, h2⟩ := eval_resolve e ha.2 hc
    exact ⟨t, by simpa [resolve] using h1, by simpa [pyEval] using h2⟩
  | .variable n, _, _ => by
    refine ⟨.var n.lexeme, by simp [resolve, pure, Except.pure], ?_⟩
    simp only [Lazy.eval, pyEval]
    cases env.var n.lexeme <;> rfl
  | .literal t, ha, _ => by
    simp only [alpha] at ha
    obtain ⟨l, h1, h2⟩ := literal_ok env t ha
    exact ⟨l, by simpa [resolve] using h1, by simpa [pyEval] using h2⟩
  | .quoted _, ha, _ => by simp [alpha] at ha
  | .subset .., ha, _ => by simp [alpha] at ha
  | .brace .., ha, _ => by simp [alpha] at ha
  | .assign .., ha, _ => by simp [alpha] at ha
theorem eval_resolveArgs : ∀ (as : Args) (kw : Bool), alphaArgs as kw = true →
    chainlessArgs as = true → (kwNames as).Nodup →
    ∃ la lk, resolveArgs documentedOps as = .ok (la, lk) ∧ (kw = true → la = .nil) ∧
      lk.keys = kwNames as ∧ evalPacked env (la, lk) = pyEvalArgs env as
  | .nil, _, _, _, _ => by
    exact ⟨.nil, .nil, by simp [resolveArgs, pure, Except.pure], by simp,
      by simp [LazyKw.keys, kwNames], by simp [evalPacked, LazyArgs.eval, LazyKw.eval, pyEvalArgs, bind, Except.bind, pure, Except.pure]⟩
  | .last e, kw, ha, hc, hn => by
    simp only [chainlessArgs] at hc
    cases e with
    | assign n eq v =>
      simp only [alphaArgs, Bool.and_eq_true] at ha
      simp only [chainless] at hc
      obtain ⟨t, h1, h2⟩ := eval_resolve v ha.2 hc
      obtain ⟨k, rfl⟩ := plainVariable_eq n ha.1.1
      refine ⟨.nil, .cons k.lexeme t .nil, ?_, by simp, ?_, ?_⟩
      · simp [resolveArgs, h1, assignName, packArg, kwCons, LazyKw.find?, bind, Except.bind, pure, Except.pure]
      · simp [LazyKw.keys, kwNames, assignName]
      · simp only [evalPacked, LazyArgs.eval, LazyKw.eval, pyEvalArgs, h2, bind, Except.bind, pure, Except.pure]
        cases pyEval env v <;> rfl
    | _ =>
      simp only [alphaArgs, Bool.and_eq_true, Bool.not_eq_true'] at ha
      obtain ⟨t, h1, h2⟩ := eval_resolve _ ha.2 hc
      refine ⟨.cons t .nil, .nil, ?_, ?_, ?_, ?_⟩
      · simp [resolveArgs, h1, packArg, bind, Except.bind, pure, Except.pure]
      · intro h; simp [h] at ha
      · simp [LazyKw.keys, kwNames]
      · simp only [evalPacked, LazyArgs.eval, LazyKw.eval, pyEvalArgs, h2, bind, Except.bind, pure, Except.pure]
        generalize pyEval env _ = X
        cases X <;> rfl
  | .more e c rest, kw, ha, hc, hn => by
    simp only [chainlessArgs, Bool.and_eq_true] at hc
    cases e with
    | assign n eq v =>
      unfold alphaArgs at ha
      simp only [Bool.and_eq_true] at ha
      simp only [chainless] at hc
      obtain ⟨t, h1, h2⟩ := eval_resolve v ha.2.1.2 hc.1
      obtain ⟨k, rfl⟩ := plainVariable_eq n ha.2.1.1.1
      simp only [kwNames, assignName, Option.toList, List.singleton_append, List.nodup_cons] at hn
      obtain ⟨la, lk, r1, r2, r3, r4⟩ := eval_resolveArgs rest true ha.2.2 hc.2 hn.2
      have hla := r2 rfl
      subst hla
      have hfresh : k.lexeme ∉ lk.keys := by rw [r3]; exact hn.1
      refine ⟨.nil, .cons k.lexeme t lk, ?_, by simp, ?_, ?_⟩
      · simp [resolveArgs, h1, r1, assignName, packArg, kwCons_fresh _ _ _ hfresh, bind, Except.bind, pure, Except.pure]
      · simp [LazyKw.keys, kwNames, assignName, r3]
      · simp only [evalPacked, LazyArgs.eval, LazyKw.eval, pyEvalArgs, h2, bind, Except.bind, pure, Except.pure] at r4 ⊢
        rw [← r4]
        cases pyEval env v <;> simp
        cases lk.eval env <;> simp
    | _ =>
      unfold alphaArgs at ha
      simp only [Bool.and_eq_true, Bool.not_eq_true'] at ha
      obtain ⟨t, h1, h2⟩ := eval_resolve _ ha.2.1.2 hc.1
      have hn' : (kwNames rest).Nodup := by simpa [kwNames] using hn
      obtain ⟨la, lk, r1, _, r3, r4⟩ := eval_resolveArgs rest false ha.2.2 hc.2 hn'
      refine ⟨.cons t la, lk, ?_, ?_, ?_, ?_⟩
      · simp [resolveArgs, h1, r1, packArg, bind, Except.bind, pure, Except.pure]
      · intro h; simp [h] at ha
      · simp [kwNames, r3]
      · simp only [evalPacked, LazyArgs.eval, LazyKw.eval, pyEvalArgs, h2, bind, Except.bind, pure, Except.pure] at r4 ⊢
        rw [← r4]
        generalize pyEval env _ = X
        cases X <;> try rfl
        cases la.eval env <;> simp
        cases lk.eval env <;> simp
end

end

end FormulaeModel.Lazy
