import FormulaeModel.Model.Env
import FormulaeModel.Spec.C11
/-
Helper lemmas for C11 (name resolution): dict lookup = "binds", nested lookup = first match over
the flattened scope list, characterisation of the first match, walking the call stack.
-/
namespace FormulaeModel.Env
open FormulaeModel.Spec.C11

theorem lookup_eq_binds (s : Scope) (n : String) : s.lookup n = binds s n := by
  induction s with
  | nil => rfl
  | cons kv r ih =>
    obtain ⟨k, v⟩ := kv
    by_cases h : k = n
    · simp [Scope.lookup, binds, h]
    · simp [Scope.lookup, binds, h]
      simpa [binds] using ih

theorem firstMatch_nil (n : String) : firstMatch [] n = none := rfl

theorem firstMatch_cons (s : Scope) (ss : List Scope) (n : String) :
    firstMatch (s :: ss) n = (binds s n).or (firstMatch ss n) := by
  simp only [firstMatch, List.findSome?_cons]
  split <;> simp_all

theorem firstMatch_append (a b : List Scope) (n : String) :
    firstMatch (a ++ b) n = (firstMatch a n).or (firstMatch b n) := by
  induction a with
  | nil => simp [firstMatch_nil]
  | cons s a ih =>
    simp only [List.cons_append, firstMatch_cons]
    cases h : binds s n <;> simp [ih]

mutual
theorem lookup_flatten : ∀ (ns : Ns) (n : String), ns.lookup n = firstMatch ns.flatten n
  | .dict s, n => by
    simp [Ns.lookup, Ns.flatten, firstMatch_cons, firstMatch_nil, lookup_eq_binds]
  | .vld ds, n => by
    simp only [Ns.lookup, Ns.flatten]
    exact lookupList_flatten ds n
theorem lookupList_flatten : ∀ (ds : List Ns) (n : String),
    Ns.lookupList ds n = firstMatch (Ns.flatten.flattenList ds) n
  | [], n => by simp [Ns.lookupList, Ns.flatten.flattenList, firstMatch_nil]
  | d :: ds, n => by
    simp only [Ns.lookupList, Ns.flatten.flattenList, firstMatch_append]
    rw [lookup_flatten d n, lookupList_flatten ds n]
    cases firstMatch d.flatten n <;> rfl
end

theorem flattenList_map_dict (ss : List Scope) : Ns.flatten.flattenList (ss.map Ns.dict) = ss := by
  induction ss with
  | nil => rfl
  | cons s ss ih => simp [Ns.flatten.flattenList, Ns.flatten, ih]

/-- First match, positionally: some scope `i` binds the name to `v` and no earlier scope binds it. -/
theorem firstMatch_iff (ss : List Scope) (n : String) (v : Val) :
    firstMatch ss n = some v ↔
      ∃ i s, ss[i]? = some s ∧ binds s n = some v ∧
        ∀ (j : Nat) t, j < i → ss[j]? = some t → binds t n = none := by
  induction ss with
  | nil => simp [firstMatch_nil]
  | cons s ss ih =>
    rw [firstMatch_cons]
    cases hb : binds s n with
    | some w =>
      constructor
      · intro h
        refine ⟨0, s, by simp, ?_, ?_⟩
        · simp at h; rw [h] at hb; exact hb
        · intro j t hj; omega
      · rintro ⟨i, s', hi, hv, hmin⟩
        cases i with
        | zero => simp at hi; subst hi; rw [hb] at hv; simpa using hv
        | succ i =>
          have := hmin 0 s (by omega) (by simp)
          rw [hb] at this; cases this
    | none =>
      rw [Option.none_or, ih]
      constructor
      · rintro ⟨i, s', hi, hv, hmin⟩
        refine ⟨i + 1, s', by simpa using hi, hv, ?_⟩
        intro j t hj hjt
        cases j with
        | zero => simp at hjt; subst hjt; exact hb
        | succ j => exact hmin j t (by omega) (by simpa using hjt)
      · rintro ⟨i, s', hi, hv, hmin⟩
        cases i with
        | zero => simp at hi; subst hi; rw [hb] at hv; cases hv
        | succ i =>
          refine ⟨i, s', by simpa using hi, hv, ?_⟩
          intro j t hj hjt
          exact hmin (j + 1) t (by omega) (by simpa using hjt)

theorem firstMatch_none_iff (ss : List Scope) (n : String) :
    firstMatch ss n = none ↔ ∀ s ∈ ss, binds s n = none := by
  simp [firstMatch]

/-! ### the call stack -/

theorem walkBack_drop (k : Nat) (st : List Frame) (h : k ≤ st.length) :
    walkBack k st = .ok (st.drop k) := by
  induction k generalizing st with
  | zero => simp [walkBack]
  | succ k ih =>
    cases st with
    | nil => simp at h
    | cons f st => simp [walkBack]; exact ih st (by simpa using h)

theorem walkBack_too_deep (k : Nat) (st : List Frame) (h : st.length < k) :
    walkBack k st = .error .valueError := by
  induction k generalizing st with
  | zero => omega
  | succ k ih =>
    cases st with
    | nil => simp [walkBack]
    | cons f st => simp [walkBack]; exact ih st (by simp at h; omega)

theorem getattrChain_follow (v : Val) (path : List String) :
    outcomeOf (getattrChain v path) = follow v path := by
  induction path generalizing v with
  | nil => cases v; simp [getattrChain, follow, outcomeOf]
  | cons a rest ih =>
    obtain ⟨t, attrs⟩ := v
    simp only [getattrChain, getattr, follow, lookup_eq_binds]
    cases h : binds attrs a with
    | none => simp [outcomeOf]
    | some w => simpa using ih w

theorem select_lookup (s : Scope) (cols : List String) (n : String) (h : n ∈ cols) :
    (s.select cols).lookup n = s.lookup n := by
  induction s with
  | nil => rfl
  | cons kv r ih =>
    obtain ⟨k, v⟩ := kv
    simp only [Scope.select, List.filter_cons]
    by_cases hk : k = n
    · subst hk
      simp [Scope.lookup, h]
    · by_cases hc : cols.contains k = true
      · simp only [hc, if_true, Scope.lookup, hk, if_false]
        simpa [Scope.select] using ih
      · simp only [hc, Scope.lookup, hk, if_false]
        simpa [Scope.select] using ih

theorem select_lookup_absent (s : Scope) (cols : List String) (n : String) (h : n ∉ cols) :
    (s.select cols).lookup n = none := by
  induction s with
  | nil => rfl
  | cons kv r ih =>
    obtain ⟨k, v⟩ := kv
    simp only [Scope.select, List.filter_cons]
    by_cases hc : cols.contains k = true
    · have hk : k ≠ n := by
        intro e; subst e; simp at hc; exact h hc
      simp only [hc, if_true, Scope.lookup, hk, if_false]
      simpa [Scope.select] using ih
    · simp only [hc]
      simpa [Scope.select] using ih

end FormulaeModel.Env
