import FormulaeModel.Proofs.GroupBlockNew
set_option linter.unusedSimpArgs false
set_option linter.unusedVariables false
/-
Helper lemmas for C10 (new-group rule, part 2): `newTerm` of the grouping factor and `newGroup`.
-/
namespace FormulaeModel.Design
open FormulaeModel

/-- (levels, value in row `r`) of every grouping component -/
def qsAt (comps : List CompState) (cols : List (List (Option Level))) (r : Nat) :
    List (List Level × Option Level) :=
  List.zipWith (fun c xs => (c.levels, xs.getD r none)) comps cols

theorem rowCell_eq_cellOf (comps : List CompState) (cols : List (List (Option Level))) (r : Nat) :
    rowCell (comps.map (·.levels)) cols r = cellOf (qsAt comps cols r) := by
  induction comps generalizing cols with
  | nil => simp [rowCell, cellOf, qsAt]
  | cons c comps ih =>
    cases cols with
    | nil => simp [rowCell, cellOf, qsAt]
    | cons xs cols =>
      have := ih cols
      simp only [rowCell, cellOf, qsAt, List.map_cons, List.zip_cons_cons, List.zipWith_cons_cons,
        List.mapM_cons] at this ⊢
      rw [this]

theorem qsAt_lengths (comps : List CompState) (cols : List (List (Option Level))) (r : Nat)
    (h : comps.length = cols.length) :
    (qsAt comps cols r).map (·.1.length) = comps.map (·.levels.length) := by
  induction comps generalizing cols with
  | nil => simp [qsAt]
  | cons c comps ih =>
    cases cols with
    | nil => simp at h
    | cons xs cols =>
      simp only [List.length_cons, Nat.add_right_cancel_iff] at h
      have := ih cols h
      simp only [qsAt, List.zipWith_cons_cons, List.map_cons] at this ⊢
      rw [this]

/-- the indicator matrix of the new data: per component one `indRow` per value, then the n-ary
interaction -/
def newFactorMatrix (comps : List CompState) (cols : List (List (Option Level))) : Matrix :=
  reduceMatrices (List.zipWith (fun c xs => xs.map (indRow c.levels)) comps cols)

theorem zipWith_rows_at (comps : List CompState) (cols : List (List (Option Level))) (r : Nat)
    (h : ∀ m ∈ List.zipWith (fun (c : CompState) (xs : List (Option Level)) => xs.map (indRow c.levels)) comps cols,
      r < m.length) :
    (List.zipWith (fun (c : CompState) (xs : List (Option Level)) => xs.map (indRow c.levels)) comps cols).map
        (fun m => m.getD r []) =
      (qsAt comps cols r).map (fun q => indRow q.1 q.2) := by
  induction comps generalizing cols with
  | nil => simp [qsAt]
  | cons c comps ih =>
    cases cols with
    | nil => simp [qsAt]
    | cons xs cols =>
      simp only [List.zipWith_cons_cons, List.mem_cons, forall_eq_or_imp, List.length_map] at h
      simp only [qsAt, List.zipWith_cons_cons, List.map_cons]
      rw [show List.zipWith (fun c xs => (c.levels, xs.getD r none)) comps cols = qsAt comps cols r from rfl,
        ← ih cols h.2]
      congr 1
      simp [List.getD_eq_getElem?_getD, List.getElem?_eq_getElem h.1]

/-- **rows of the new indicator matrix**: the indicator row of the row's cell, or zeros when a
grouping value of the row was not seen in training -/
theorem newFactorMatrix_row (comps : List CompState) (cols : List (List (Option Level))) (r : Nat)
    (hr : r < (newFactorMatrix comps cols).length) :
    (newFactorMatrix comps cols)[r] = newCellRow (qsAt comps cols r) := by
  have hlen : ∀ m ∈ List.zipWith (fun (c : CompState) (xs : List (Option Level)) =>
      xs.map (indRow c.levels)) comps cols, r < m.length := by
    intro m hm
    have := reduceMatrices_length_le _ m hm
    unfold newFactorMatrix at hr
    omega
  have hrows := zipWith_rows_at comps cols r hlen
  cases comps with
  | nil => simp [newFactorMatrix, reduceMatrices] at hr
  | cons c comps =>
    cases cols with
    | nil => simp [newFactorMatrix, reduceMatrices] at hr
    | cons xs cols =>
      simp only [newFactorMatrix, List.zipWith_cons_cons, reduceMatrices] at hr ⊢
      simp only [List.zipWith_cons_cons, List.mem_cons, forall_eq_or_imp] at hlen
      have hrow := foldl_interactionMatrix_row _ (xs.map (indRow c.levels)) r hlen.1 hlen.2
      rw [List.getElem?_eq_getElem hr] at hrow
      simp only [Option.some.injEq] at hrow
      rw [hrow]
      simp only [List.zipWith_cons_cons, List.map_cons, qsAt, List.cons.injEq] at hrows
      rw [hrows.1, hrows.2]
      exact reduceRows_indRow (c.levels, xs.getD r none) _

theorem zipWith_any_flag (comps : List CompState) (cols : List (List (Option Level))) (b : Bool) :
    (List.zipWith (fun (c : CompState) (xs : List (Option Level)) =>
        (xs.map (indRow c.levels), xs.any (isUnseen c.levels) && b)) comps cols).any (·.2) =
      (anyUnseen comps cols && b) := by
  induction comps generalizing cols with
  | nil => simp [anyUnseen]
  | cons c comps ih =>
    cases cols with
    | nil => simp [anyUnseen]
    | cons xs cols =>
      simp only [List.zipWith_cons_cons, List.any_cons, ih cols]
      simp only [anyUnseen, List.zip_cons_cons, List.any_cons]
      generalize xs.any (isUnseen c.levels) = a
      generalize (comps.zip cols).any (fun p => p.2.any (isUnseen p.1.levels)) = d
      cases a <;> cases d <;> cases b <;> rfl

theorem zipWith_fst (comps : List CompState) (cols : List (List (Option Level))) (b : Bool) :
    (List.zipWith (fun (c : CompState) (xs : List (Option Level)) =>
        (xs.map (indRow c.levels), xs.any (isUnseen c.levels) && b)) comps cols).map (·.1) =
      List.zipWith (fun (c : CompState) (xs : List (Option Level)) => xs.map (indRow c.levels)) comps cols := by
  induction comps generalizing cols with
  | nil => simp
  | cons c comps ih =>
    cases cols with
    | nil => simp
    | cons xs cols => simp [ih cols]

/-- **the grouping factor on new data** -/
theorem newTerm_factor (t : TermState) (hS : FactorState t.comps) (env : Env) (mode : UnseenMode)
    (cols : List (List (Option Level))) (hcols : newFactorColumns t.comps env = .ok cols) :
    newTerm t env mode =
      if anyUnseen t.comps cols && mode == .error then
        .error (.valueError "levels not present in the original data set")
      else .ok (newFactorMatrix t.comps cols, anyUnseen t.comps cols && mode == .warning) := by
  unfold newTerm
  rw [mapM_newComp_factor t.comps hS env mode cols hcols]
  split
  · rfl
  · simp only [ok_bind, pure, Except.pure, zipWith_any_flag, zipWith_fst, newFactorMatrix]

/-- the effect part of `(e | g)` on new data -/
def newEffect (g : GroupState) (env : Env) (mode : UnseenMode) : M (Matrix × Bool) :=
  match g.expr with
  | none => pure (onesCol env.frame.nrows, false)
  | some t => newTerm t env mode

/-- the indicator matrix with the column `GroupSpecificTerm.eval_new_data` appends when some row
is all zero: 1 on exactly those rows -/
def appendNew (ji : Matrix) : Matrix :=
  if ji.any isZeroRow then ji.map (fun r => r ++ [some (if isZeroRow r then 1 else 0)]) else ji

theorem newGroup_eq (g : GroupState) (env : Env) (mode : UnseenMode) :
    newGroup g env mode = (do
      let p ← newEffect g env mode
      let q ← newTerm g.factor env mode
      pure (khatriRao (appendNew q.1) p.1, p.2 || q.2)) := by
  unfold newGroup newEffect
  cases g.expr <;> rfl

theorem cols_length (comps : List CompState) (env : Env) (cols : List (List (Option Level)))
    (hcols : newFactorColumns comps env = .ok cols) : comps.length = cols.length :=
  ((mapM_ok_get _ _ _ hcols).1).symm

/-- **new-group rule, `error` mode**: an unseen grouping value makes the evaluation raise -/
theorem newGroup_error (g : GroupState) (hS : FactorState g.factor.comps) (env : Env)
    (cols : List (List (Option Level))) (hcols : newFactorColumns g.factor.comps env = .ok cols)
    (p : Matrix × Bool) (hp : newEffect g env .error = .ok p)
    (hu : anyUnseen g.factor.comps cols = true) :
    newGroup g env .error = .error (.valueError "levels not present in the original data set") := by
  rw [newGroup_eq, hp, newTerm_factor g.factor hS env .error cols hcols, hu]
  rfl

/-- **new-group rule, the block**: every row of the new block is the Kronecker product of the
(possibly extended) indicator row with the effect row -/
theorem newGroup_block (g : GroupState) (hS : FactorState g.factor.comps) (env : Env) (mode : UnseenMode)
    (cols : List (List (Option Level))) (hcols : newFactorColumns g.factor.comps env = .ok cols)
    (M : Matrix) (w : Bool) (h : newGroup g env mode = .ok (M, w)) :
    ∃ X w1, newEffect g env mode = .ok (X, w1) ∧
      (anyUnseen g.factor.comps cols && mode == .error) = false ∧
      w = (w1 || (anyUnseen g.factor.comps cols && mode == .warning)) ∧
      ((newFactorMatrix g.factor.comps cols).any isZeroRow = true ↔
        ∃ r, r < (newFactorMatrix g.factor.comps cols).length ∧
          rowCell (g.factor.comps.map (·.levels)) cols r = none) ∧
      ∀ r (hr : r < M.length), ∃ x, X[r]? = some x ∧ r < (newFactorMatrix g.factor.comps cols).length ∧
        ((newFactorMatrix g.factor.comps cols).any isZeroRow = false →
          ∃ ps, rowCell (g.factor.comps.map (·.levels)) cols r = some ps ∧
            cellIndex 0 ps < cellCount 1 (g.factor.comps.map (·.levels.length)) ∧
            M[r] = rowProd (unitE (cellCount 1 (g.factor.comps.map (·.levels.length))) (cellIndex 0 ps)) x) ∧
        ((newFactorMatrix g.factor.comps cols).any isZeroRow = true →
          M[r] = rowProd (unitE (cellCount 1 (g.factor.comps.map (·.levels.length)) + 1)
            (match rowCell (g.factor.comps.map (·.levels)) cols r with
             | some ps => cellIndex 0 ps
             | none => cellCount 1 (g.factor.comps.map (·.levels.length)))) x) := by
  have hlenc := cols_length _ _ _ hcols
  rw [newGroup_eq, newTerm_factor g.factor hS env mode cols hcols] at h
  simp only [bind_ok] at h
  obtain ⟨⟨X, w1⟩, hX, q, hq, h⟩ := h
  split at hq
  · simp at hq
  · rename_i hne
    simp only [Except.ok.injEq] at hq
    subst hq
    simp only [pure_ok, Prod.mk.injEq] at h
    obtain ⟨hM, hw⟩ := h
    have hG : ∀ r, (qsAt g.factor.comps cols r).map (·.1.length) = g.factor.comps.map (·.levels.length) :=
      fun r => qsAt_lengths _ _ r hlenc
    -- rows of the indicator matrix
    have hrow : ∀ r (hr : r < (newFactorMatrix g.factor.comps cols).length),
        (newFactorMatrix g.factor.comps cols)[r] = newCellRow (qsAt g.factor.comps cols r) :=
      fun r hr => newFactorMatrix_row _ _ r hr
    have hzero : ∀ r (hr : r < (newFactorMatrix g.factor.comps cols).length),
        isZeroRow (newFactorMatrix g.factor.comps cols)[r] =
          (rowCell (g.factor.comps.map (·.levels)) cols r).isNone := by
      intro r hr
      rw [hrow r hr, isZeroRow_newCellRow, rowCell_eq_cellOf]
    have hany : (newFactorMatrix g.factor.comps cols).any isZeroRow = true ↔
        ∃ r, r < (newFactorMatrix g.factor.comps cols).length ∧
          rowCell (g.factor.comps.map (·.levels)) cols r = none := by
      rw [List.any_eq_true]
      constructor
      · rintro ⟨row, hmem, hz⟩
        obtain ⟨r, hr, rfl⟩ := List.mem_iff_getElem.1 hmem
        rw [hzero r hr] at hz
        exact ⟨r, hr, by simpa using hz⟩
      · rintro ⟨r, hr, hnone⟩
        exact ⟨_, List.getElem_mem hr, by rw [hzero r hr, hnone]; rfl⟩
    refine ⟨X, w1, hX, by simpa using hne, hw.symm, hany, ?_⟩
    intro r hr
    subst hM
    have hr' := hr
    simp only [khatriRao, interactionMatrix_length] at hr'
    have hrX : r < X.length := by omega
    have hrA : r < (appendNew (newFactorMatrix g.factor.comps cols)).length := by omega
    have hrJ : r < (newFactorMatrix g.factor.comps cols).length := by
      unfold appendNew at hrA
      split at hrA
      · simpa using hrA
      · exact hrA
    refine ⟨X[r], List.getElem?_eq_getElem hrX, hrJ, ?_, ?_⟩
    · intro hfalse
      have hz := hzero r hrJ
      have : isZeroRow (newFactorMatrix g.factor.comps cols)[r] = false := by
        rw [List.any_eq_false] at hfalse
        simpa using hfalse _ (List.getElem_mem hrJ)
      rw [this] at hz
      cases hps : rowCell (g.factor.comps.map (·.levels)) cols r with
      | none => rw [hps] at hz; simp at hz
      | some ps =>
        have hps' : cellOf (qsAt g.factor.comps cols r) = some ps := by rw [← rowCell_eq_cellOf]; exact hps
        have hJr := hrow r hrJ
        simp only [newCellRow, hps', hG] at hJr
        have hnz : isZeroRow (unitE (cellCount 1 (g.factor.comps.map (·.levels.length))) (cellIndex 0 ps)) = false := by
          rw [← hJr]; exact this
        have hlt : cellIndex 0 ps < cellCount 1 (g.factor.comps.map (·.levels.length)) := by
          rcases Nat.lt_or_ge (cellIndex 0 ps) (cellCount 1 (g.factor.comps.map (·.levels.length))) with h1 | h1
          · exact h1
          · exfalso
            have : isZeroRow (unitE (cellCount 1 (g.factor.comps.map (·.levels.length))) (cellIndex 0 ps)) = true := by
              simp only [isZeroRow, List.all_eq_true]
              intro x hx
              obtain ⟨k, hk, rfl⟩ := List.mem_iff_getElem.1 hx
              rw [unitE_getElem]
              have hk' : k < cellCount 1 (g.factor.comps.map (·.levels.length)) := by
                simpa [unitE_length] using hk
              have : ¬ k = cellIndex 0 ps := by omega
              simp [this]
            rw [this] at hnz
            exact absurd hnz (by decide)
        refine ⟨ps, rfl, hlt, ?_⟩
        have hA : appendNew (newFactorMatrix g.factor.comps cols) = newFactorMatrix g.factor.comps cols := by
          simp [appendNew, hfalse]
        simp only [khatriRao]
        rw [interactionMatrix_row _ X r hrA hrX]
        congr 1
        simp only [hA]
        exact hJr
    · intro htrue
      have hA : appendNew (newFactorMatrix g.factor.comps cols) =
          (newFactorMatrix g.factor.comps cols).map (fun r => r ++ [some (if isZeroRow r then 1 else 0)]) := by
        simp [appendNew, htrue]
      simp only [khatriRao]
      rw [interactionMatrix_row _ X r hrA hrX]
      congr 1
      simp only [hA, List.getElem_map]
      have hJr := hrow r hrJ
      have hz := hzero r hrJ
      cases hps : rowCell (g.factor.comps.map (·.levels)) cols r with
      | none =>
        have hps' : cellOf (qsAt g.factor.comps cols r) = none := by rw [← rowCell_eq_cellOf]; exact hps
        simp only [newCellRow, hps', hG] at hJr
        rw [hps] at hz
        simp only [hz]
        simp only [hJr, Option.isNone_none, if_true]
        exact zeroE_append_one _
      | some ps =>
        have hps' : cellOf (qsAt g.factor.comps cols r) = some ps := by rw [← rowCell_eq_cellOf]; exact hps
        simp only [newCellRow, hps', hG] at hJr
        rw [hps] at hz
        simp only [hz]
        simp only [hJr, Option.isNone_some, Bool.false_eq_true, if_false]
        apply unitE_append_zero
        -- the cell index is in range
        obtain ⟨h1, h2⟩ := cellOf_some_lt _ ps hps'
        rw [hG] at h2
        cases ps with
        | nil =>
          have : g.factor.comps.map (·.levels.length) = [] := by rw [← h2]; rfl
          simp [this, cellIndex, cellCount]
        | cons p ps =>
          have := (foldl_rowProd_unitE ps p.1 p.2 (h1 p (by simp)) (fun q hq => h1 q (by simp [hq]))).2
          rw [cellIndex_zero_cons, ← h2, List.map_cons, cellCount_one_cons]
          exact this

end FormulaeModel.Design
