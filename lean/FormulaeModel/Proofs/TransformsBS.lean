import FormulaeModel.Proofs.TransformsBasic
import Mathlib.Tactic.SplitIfs
/-
Helper lemmas for C14 / BSpline: lengths, sorting, the stages of `_initialize`.
-/
namespace FormulaeModel.Transforms

theorem length_insertSorted (a : Rat) (l : List Rat) : (insertSorted a l).length = l.length + 1 := by
  induction l with
  | nil => rfl
  | cons b l ih => simp only [insertSorted]; split <;> simp [ih]

theorem length_sort (l : List Rat) : (sort l).length = l.length := by
  induction l with
  | nil => rfl
  | cons a l ih => simp [sort, length_insertSorted, ih]

theorem mem_insertSorted (a b : Rat) (l : List Rat) : b ∈ insertSorted a l ↔ b = a ∨ b ∈ l := by
  induction l with
  | nil => simp [insertSorted]
  | cons c l ih =>
    simp only [insertSorted]; split
    · simp
    · simp [ih]; tauto

theorem mem_sort (b : Rat) (l : List Rat) : b ∈ sort l ↔ b ∈ l := by
  induction l with
  | nil => simp [sort]
  | cons a l ih => simp [sort, mem_insertSorted, ih]

theorem length_replicate2 (lo hi : Rat) (n : Nat) : (replicate2 lo hi n).length = 2 * n := by
  induction n with
  | zero => rfl
  | succ n ih => simp [replicate2, ih]; omega

theorem mem_replicate2 (lo hi b : Rat) (n : Nat) (h : b ∈ replicate2 lo hi n) : b = lo ∨ b = hi := by
  induction n with
  | zero => simp [replicate2] at h
  | succ n ih => simp only [replicate2, List.mem_cons] at h; tauto

theorem length_range1 (m : Nat) : (range1 m).length = m := by
  induction m with
  | zero => rfl
  | succ m ih => simp [range1, ih]

theorem innerFromData_length {x : List Rat} {m : Nat} {l : List Rat}
    (h : innerFromData x m = .ok l) : l.length = m := by
  unfold innerFromData at h
  split at h
  · simp at h
  · simp only [Except.ok.injEq] at h; subst h; simp [length_range1]

theorem checkDegree_ok {a : DegArg} {d : Nat} (h : checkDegree a = .ok d) :
    ∃ z : Int, a = .int z ∧ 0 ≤ z ∧ d = z.toNat := by
  unfold checkDegree at h
  split at h
  · simp at h
  · rename_i z
    split at h
    · simp at h
    · simp only [Except.ok.injEq] at h
      exact ⟨z, rfl, by omega, h.symm⟩

theorem innerCount_ok {d : Int} {order : Nat} {icpt : Bool} {n : Nat}
    (h : innerCount d order icpt = .ok n) :
    (n : Int) = d - (order : Int) + (if icpt then 0 else 1) := by
  unfold innerCount at h
  cases icpt <;> simp only [Bool.false_eq_true, if_false, if_true] at h ⊢ <;>
  · split at h
    · simp at h
    · simp only [Except.ok.injEq] at h; omega

/-- what an accepted `if df is not None:` block guarantees -/
theorem dfBranch_ok {x : List Rat} {df : DfArg} {knots : KnotsArg} {order : Nat} {icpt : Bool}
    {r : Option (List Rat)} (h : dfBranch x df knots order icpt = .ok r) :
    (df = .none ∧ r = none) ∨
    (∃ d isF n, dfValue df = some (d, isF) ∧ innerCount d order icpt = .ok n ∧
      ((∃ len, knotsLen knots = some len ∧ len = n ∧ r = none) ∨
       (knotsLen knots = none ∧ isF = false ∧ ∃ l, innerFromData x n = .ok l ∧ r = some l))) := by
  unfold dfBranch at h
  split at h
  · rename_i hd
    left
    cases df <;> simp_all [dfValue]
  · rename_i d isF hd
    right
    split at h
    · simp at h
    · rename_i n hn
      refine ⟨d, isF, n, hd, hn, ?_⟩
      split at h
      · rename_i len hl
        split at h
        · simp at h
        · rename_i hlen
          left
          simp only [Except.ok.injEq] at h
          exact ⟨len, hl, by simpa using hlen, h.symm⟩
      · rename_i hl
        right
        split at h
        · simp at h
        · rename_i hF
          split at h
          · simp at h
          · rename_i l hl'
            simp only [Except.ok.injEq] at h
            exact ⟨hl, by simpa using hF, l, hl', h.symm⟩

theorem finishKnots_ok {lower upper : Rat} {knots : KnotsArg} {fromDf : Option (List Rat)}
    {order : Nat} {t : List Rat} (h : finishKnots lower upper knots fromDf order = .ok t) :
    lower ≤ upper ∧ ∃ inner,
      ((knots = .vec inner) ∨ (knots = .none ∧ fromDf = some inner)) ∧
      (∀ k ∈ inner, lower ≤ k ∧ k ≤ upper) ∧
      t = sort (replicate2 lower upper order ++ inner) := by
  unfold finishKnots at h
  split at h
  · simp at h
  · rename_i hlu
    refine ⟨not_lt.mp hlu, ?_⟩
    simp only at h
    split at h
    · simp at h
    · rename_i inner hin
      split at h
      · simp at h
      · rename_i hlo
        split at h
        · simp at h
        · rename_i hhi
          simp only [Except.ok.injEq] at h
          refine ⟨inner, ?_, ?_, h.symm⟩
          · split at hin
            · simp at hin
            · simp only [Except.ok.injEq] at hin; left; rw [hin]
            · simp only [Except.ok.injEq] at hin; right; rw [hin]; exact ⟨rfl, rfl⟩
            · simp at hin
          · intro k hk
            simp only [List.any_eq_true, decide_eq_true_eq, not_exists, not_and, not_lt] at hlo hhi
            exact ⟨hlo k hk, hhi k hk⟩

theorem boundOr_ok {g d : Option Rat} {b : Rat} (h : boundOr g d = .ok b) :
    g = some b ∨ (g = none ∧ d = some b) := by
  unfold boundOr at h
  split at h
  · simp only [Except.ok.injEq] at h; left; rw [h]
  · split at h
    · simp only [Except.ok.injEq] at h; right; exact ⟨rfl, by rw [h]⟩
    · simp at h

/-- Everything an accepted `_initialize` guarantees, stage by stage. -/
structure BsAccepted (x : List Rat) (a : BsArgs) (p : BsParams) where
  z : Int
  fromDf : Option (List Rat)
  lower : Rat
  upper : Rat
  inner : List Rat
  hdeg : a.degree = .int z
  hz : 0 ≤ z
  hpdeg : p.degree = z.toNat
  hicpt : p.intercept = a.intercept
  hgiven : checkGiven a.df a.knots = .ok ()
  hdfty : checkDfType a.df = .ok ()
  hdf : dfBranch x a.df a.knots (z.toNat + 1) a.intercept = .ok fromDf
  hlo : boundOr a.lower (min? x) = .ok lower
  hhi : boundOr a.upper (max? x) = .ok upper
  hle : lower ≤ upper
  hinner : (a.knots = .vec inner) ∨ (a.knots = .none ∧ fromDf = some inner)
  hin : ∀ k ∈ inner, lower ≤ k ∧ k ≤ upper
  hknots : p.knots = sort (replicate2 lower upper (z.toNat + 1) ++ inner)

theorem bsInitialize_ok {x : List Rat} {a : BsArgs} {p : BsParams}
    (h : bsInitialize x a = .ok p) : ∃ _ : BsAccepted x a p, True := by
  unfold bsInitialize at h
  split at h
  · simp at h
  rename_i degree hd
  split at h
  · simp at h
  rename_i hg
  split at h
  · simp at h
  rename_i ht
  split at h
  · simp at h
  rename_i fromDf hdf
  split at h
  · simp at h
  rename_i lower hlo
  split at h
  · simp at h
  rename_i upper hhi
  unfold bsFinish at h
  split at h
  · simp at h
  rename_i t hfin
  simp only [Except.ok.injEq] at h
  obtain ⟨z, hz1, hz2, hz3⟩ := checkDegree_ok hd
  obtain ⟨hle, inner, hinner, hin, hk⟩ := finishKnots_ok hfin
  subst hz3
  subst h
  exact ⟨⟨z, fromDf, lower, upper, inner, hz1, hz2, rfl, rfl, hg, ht, hdf, hlo, hhi, hle, hinner,
    hin, hk⟩, trivial⟩

theorem BsAccepted.knots_length {x a p} (A : BsAccepted x a p) :
    p.knots.length = 2 * (p.degree + 1) + A.inner.length := by
  rw [A.hknots, length_sort, List.length_append, length_replicate2, A.hpdeg]

theorem BsAccepted.nBases {x a p} (A : BsAccepted x a p) :
    nBases p = p.degree + 1 + A.inner.length := by
  unfold Transforms.nBases; rw [A.knots_length]; omega

theorem BsAccepted.nCols {x a p} (A : BsAccepted x a p) :
    bsNCols p = A.inner.length + p.degree + (if p.intercept then 1 else 0) := by
  unfold bsNCols; rw [A.nBases]; split <;> omega

/-- with `df` given, the number of inner knots is `df - order (+1)` -/
theorem BsAccepted.inner_length_df {x a p} (A : BsAccepted x a p) {f : Int} (hf : a.df = .int f) :
    (A.inner.length : Int) = f - ((p.degree : Int) + 1) + (if a.intercept then 0 else 1) := by
  have hdf := A.hdf
  rw [hf] at hdf
  rcases dfBranch_ok hdf with ⟨h, _⟩ | ⟨d, isF, n, hv, hn, hcase⟩
  · simp at h
  · simp only [dfValue, Option.some.injEq, Prod.mk.injEq] at hv
    obtain ⟨rfl, rfl⟩ := hv
    have hn' := innerCount_ok hn
    have hl : A.inner.length = n := by
      rcases hcase with ⟨len, hlen, rfl, hr⟩ | ⟨hnone, _, l, hl, hr⟩
      · rcases A.hinner with hk | ⟨hk, hfd⟩
        · rw [hk] at hlen; simp only [knotsLen, Option.some.injEq] at hlen; exact hlen
        · rw [hr] at hfd; simp at hfd
      · rcases A.hinner with hk | ⟨hk, hfd⟩
        · rw [hk] at hnone; simp [knotsLen] at hnone
        · rw [hr] at hfd; simp only [Option.some.injEq] at hfd; subst hfd
          exact innerFromData_length hl
    rw [hl, hn', A.hpdeg]
    push_cast
    rw [Int.toNat_of_nonneg A.hz]

theorem length_rowAux (f : Nat → Rat) (a n : Nat) : (rowAux f a n).length = n := by
  induction n generalizing a with
  | zero => rfl
  | succ n ih => simp [rowAux, ih]

theorem length_bsRow (p : BsParams) (v : Rat) : (bsRow p v).length = bsNCols p := by
  unfold bsRow bsNCols bsFullRow
  split <;> simp [length_rowAux]

open Spec.C14 in
section
def quantOf (x : List Rat) (m : Nat) : List Rat := (range1 m).map (fun i => percentile (sort x) i m)

theorem any_lt_iff (l : List Rat) (lo hi : Rat) :
    ((l.any (fun k => decide (k < lo)) = false) ∧ (l.any (fun k => decide (hi < k)) = false)) ↔ allInside lo hi l = true := by
  induction l with
  | nil => simp [allInside]
  | cons a l ih =>
    simp only [List.any_cons, Bool.or_eq_false_iff, decide_eq_false_iff_not, not_lt] 
    simp only [allInside, List.all_cons, Bool.and_eq_true, decide_eq_true_eq] at ih ⊢
    constructor
    · rintro ⟨⟨h1, h2⟩, h3, h4⟩
      exact ⟨⟨h1, h3⟩, ih.mp ⟨h2, h4⟩⟩
    · rintro ⟨⟨h1, h3⟩, h⟩
      have := ih.mpr h
      exact ⟨⟨h1, this.1⟩, h3, this.2⟩

theorem exists_ok_map {α β : Type} (r : Except Err α) (g : α → β) :
    (∃ p, (match r with | .error e => Except.error e | .ok t => Except.ok (g t)) = Except.ok p)
      ↔ ∃ t, r = .ok t := by
  cases r <;> simp

theorem finishKnots_isOk (lo hi : Rat) (k : KnotsArg) (fd : Option (List Rat)) (o : Nat) :
    (∃ t, finishKnots lo hi k fd o = .ok t) ↔
      (lo ≤ hi ∧ match k, fd with
        | .nested _, _ => False
        | .vec l, _ => allInside lo hi l = true
        | .none, some l => allInside lo hi l = true
        | .none, none => False) := by
  unfold finishKnots
  by_cases hlu : hi < lo
  · simp [hlu, not_le.mpr hlu]
  · simp only [hlu, if_false, not_lt.mp hlu, true_and]
    cases k with
    | nested n => simp
    | vec l =>
      simp only
      rw [← any_lt_iff]
      split_ifs <;> simp_all
    | none =>
      cases fd with
      | none => simp
      | some l =>
        simp only
        rw [← any_lt_iff]
        split_ifs <;> simp_all

theorem bsFinish_isOk (icpt : Bool) (deg : Nat) (lo hi : Rat) (k : KnotsArg) (fd : Option (List Rat)) :
    (∃ p, bsFinish icpt deg lo hi k fd = .ok p) ↔
      (lo ≤ hi ∧ match k, fd with
        | .nested _, _ => False
        | .vec l, _ => allInside lo hi l = true
        | .none, some l => allInside lo hi l = true
        | .none, none => False) := by
  rw [← finishKnots_isOk lo hi k fd (deg + 1)]
  unfold bsFinish
  cases finishKnots lo hi k fd (deg + 1) <;> simp

theorem bs_valid_iff (b : Rat) (l : List Rat) (a : BsArgs) (hf : a.df ≠ .float true)
    (dmin dmax : Rat) (hmin : min? (b :: l) = some dmin) (hmax : max? (b :: l) = some dmax) :
    (∃ p, bsInitialize (b :: l) a = .ok p) ↔ validBsArgs dmin dmax (quantOf (b :: l)) a = true := by
  obtain ⟨df, knots, degree, icpt, lower, upper⟩ := a
  cases degree with
  | nonInt => simp [bsInitialize, checkDegree, validBsArgs]
  | int d =>
    by_cases hd : d < 0
    · simp [bsInitialize, checkDegree, validBsArgs, hd]
    · have hb1 : boundOr lower (some dmin) = .ok (lower.getD dmin) := by cases lower <;> rfl
      have hb2 : boundOr upper (some dmax) = .ok (upper.getD dmax) := by cases upper <;> rfl
      have hdn : ((d.toNat : Nat) : Int) = d := Int.toNat_of_nonneg (not_lt.mp hd)
      simp only [bsInitialize, checkDegree, hd, if_false, validBsArgs, hmin, hmax, hb1, hb2]
      cases df with
      | none =>
        cases knots with
        | none => simp [checkGiven]
        | vec ks =>
          simp only [checkGiven, checkDfType, dfBranch, dfValue]
          rw [bsFinish_isOk]
          simp [not_lt.mp hd]
        | nested n =>
          simp only [checkGiven, checkDfType, dfBranch, dfValue]
          rw [bsFinish_isOk]
          simp
      | int f =>
        simp only [checkGiven, checkDfType, dfBranch, dfValue, innerCount]
        have hN : (f - ((d.toNat + 1 : Nat) : Int) + if icpt = true then 0 else 1)
            = (f - (d + 1) + if icpt = true then 0 else 1) := by push_cast; rw [hdn]
        rw [hN]
        generalize (f - (d + 1) + if icpt = true then 0 else 1) = N
        by_cases hN0 : N < 0
        · simp [hN0, not_le.mpr hN0]
        · simp only [hN0, if_false]
          have hN1 : 0 ≤ N := not_lt.mp hN0
          cases knots with
          | none =>
            simp only [knotsLen, innerFromData, Bool.false_eq_true, if_false]
            rw [bsFinish_isOk]
            simp [not_lt.mp hd, hN1, quantOf]
          | vec ks =>
            simp only [knotsLen]
            by_cases hlen : ks.length = N.toNat
            · have : (ks.length : Int) = N := by omega
              simp only [hlen, ne_eq, not_true_eq_false, if_false]
              rw [bsFinish_isOk]
              simp [not_lt.mp hd, hN1, ← hlen, this]
            · have : ¬ (ks.length : Int) = N := by omega
              simp [hlen, this]
          | nested n =>
            simp only [knotsLen]
            by_cases hlen : n = N.toNat
            · simp only [hlen, ne_eq, not_true_eq_false, if_false]
              rw [bsFinish_isOk]
              simp
            · simp [hlen]
      | float z =>
        cases z with
        | true => exact absurd rfl hf
        | false => cases knots <;> simp [checkGiven, checkDfType]

theorem checkDegree_err {a : DegArg} {e : Err} (h : checkDegree a = .error e) : e = .value := by
  unfold checkDegree at h
  split at h
  · simpa using h.symm
  · split at h
    · simpa using h.symm
    · simp at h

theorem checkGiven_err {a : DfArg} {k : KnotsArg} {e : Err} (h : checkGiven a k = .error e) :
    e = .value := by
  unfold checkGiven at h
  split at h
  · simpa using h.symm
  · simp at h

theorem checkDfType_err {a : DfArg} {e : Err} (h : checkDfType a = .error e) : e = .value := by
  unfold checkDfType at h
  split at h
  · simpa using h.symm
  · simp at h

theorem innerCount_err {d : Int} {o : Nat} {i : Bool} {e : Err} (h : innerCount d o i = .error e) :
    e = .value := by
  unfold innerCount at h
  cases i <;> simp only [Bool.false_eq_true, if_false, if_true] at h <;>
  · split at h
    · simpa using h.symm
    · simp at h

theorem dfBranch_err {b : Rat} {l : List Rat} {df : DfArg} {k : KnotsArg} {o : Nat} {i : Bool}
    {e : Err} (hf : ∀ z, df ≠ .float z) (h : dfBranch (b :: l) df k o i = .error e) : e = .value := by
  cases df with
  | float z => exact absurd rfl (hf z)
  | none => simp [dfBranch, dfValue] at h
  | int f =>
    simp only [dfBranch, dfValue] at h
    split at h
    · rename_i e' he
      simp only [Except.error.injEq] at h; subst h
      exact innerCount_err he
    · split at h
      · split at h
        · simpa using h.symm
        · simp at h
      · simp [innerFromData] at h

theorem finishKnots_err {lo hi : Rat} {k : KnotsArg} {fd : Option (List Rat)} {o : Nat} {e : Err}
    (h : finishKnots lo hi k fd o = .error e) : e = .value := by
  unfold finishKnots at h
  split at h
  · simpa using h.symm
  · simp only at h
    split at h
    · rename_i e' he
      simp only [Except.error.injEq] at h; subst h
      split at he <;> simp at he <;> exact he.symm
    · split at h
      · simpa using h.symm
      · split at h
        · simpa using h.symm
        · simp at h

/-- on non-empty data and apart from a float `df`, every refusal is a ValueError -/
theorem bsInitialize_error_class (b : Rat) (l : List Rat) (a : BsArgs) (hf : ∀ z, a.df ≠ .float z)
    (e : Err) (h : bsInitialize (b :: l) a = .error e) : e = .value := by
  have hb1 : ∀ g : Option Rat, boundOr g (min? (b :: l)) = .ok (g.getD ((min? (b :: l)).getD 0)) := by
    intro g; cases g <;> rfl
  have hb2 : ∀ g : Option Rat, boundOr g (max? (b :: l)) = .ok (g.getD ((max? (b :: l)).getD 0)) := by
    intro g; cases g <;> rfl
  unfold bsInitialize at h
  simp only [hb1, hb2] at h
  split at h
  · rename_i e' he; simp only [Except.error.injEq] at h; subst h; exact checkDegree_err he
  split at h
  · rename_i e' he; simp only [Except.error.injEq] at h; subst h; exact checkGiven_err he
  split at h
  · rename_i e' he; simp only [Except.error.injEq] at h; subst h; exact checkDfType_err he
  split at h
  · rename_i e' he; simp only [Except.error.injEq] at h; subst h; exact dfBranch_err hf he
  unfold bsFinish at h
  split at h
  · rename_i e' he; simp only [Except.error.injEq] at h; subst h; exact finishKnots_err he
  · simp at h
end

end FormulaeModel.Transforms
