import FormulaeModel.Model.Contrasts
import FormulaeModel.Spec.C03
/-
Lemmas about the model of contrasts.py:

* set-like helpers (`dedup`, `subset`, `eqv`, `setAdd`, `Dict.set`)
* the interval of a subterm, `inIv`, and the absorb step lemma
  `interval(new) = interval(long) ⊔ interval(short)` (disjoint union)
* the counting invariant `cnt` through `absorbInto`, `simplifyStep`, `simplifyLoop`
  (no `assert` is reached, the fuel suffices)
-/
set_option linter.unusedSimpArgs false
namespace FormulaeModel.Contrasts

/-! ### set-like helpers -/

theorem mem_dedup {α : Type} [BEq α] [LawfulBEq α] (x : α) (l : List α) : x ∈ dedup l ↔ x ∈ l := by
  induction l with
  | nil => simp [dedup]
  | cons y ys ih =>
    simp only [dedup]
    split <;> simp_all

theorem nodup_dedup {α : Type} [BEq α] [LawfulBEq α] (l : List α) : (dedup l).Nodup := by
  induction l with
  | nil => simp [dedup]
  | cons y ys ih =>
    simp only [dedup]
    split
    · exact ih
    · rename_i h
      rw [List.nodup_cons, mem_dedup]
      exact ⟨by simpa using h, ih⟩

theorem dedup_of_nodup {α : Type} [BEq α] [LawfulBEq α] {l : List α} (h : l.Nodup) : dedup l = l := by
  induction l with
  | nil => rfl
  | cons y ys ih =>
    rw [List.nodup_cons] at h
    simp only [dedup]
    split
    · rename_i hc; exact absurd (by simpa using hc) h.1
    · rw [ih h.2]

theorem subset_iff {a b : Subterm} : subset a b = true ↔ ∀ e ∈ a, e ∈ b := by
  simp [subset]

theorem eqv_iff {a b : Subterm} : eqv a b = true ↔ ∀ e, e ∈ a ↔ e ∈ b := by
  simp only [eqv, Bool.and_eq_true, subset_iff]
  constructor
  · rintro ⟨h1, h2⟩ e; exact ⟨h1 e, h2 e⟩
  · intro h; exact ⟨fun e he => (h e).1 he, fun e he => (h e).2 he⟩

theorem mem_setAdd {s : Subterm} {e x : EFactor} : x ∈ setAdd s e ↔ x ∈ s ∨ x = e := by
  unfold setAdd
  split
  · rename_i h
    have : e ∈ s := by simpa using h
    grind
  · simp

/-! ### intervals -/

/-- every factor occurs at most once in the subterm -/
def WF (s : Subterm) : Prop := (s.map (·.1)).Nodup

/-- `U` (a list of factor names read as a set) lies in the interval of the subterm / coding `s`:
every reduced factor of `s` is in `U`, and `U` only has factors of `s`. -/
def inIv (s : List (Factor × Bool)) (U : List Factor) : Bool :=
  s.all (fun e => e.2 || U.contains e.1) && U.all (fun u => s.any (fun e => e.1 == u))

theorem inIv_iff {s : List (Factor × Bool)} {U : List Factor} :
    inIv s U = true ↔ (∀ f b, (f, b) ∈ s → b = false → f ∈ U) ∧ (∀ u ∈ U, ∃ b, (u, b) ∈ s) := by
  simp only [inIv, Bool.and_eq_true, List.all_eq_true, List.any_eq_true, Bool.or_eq_true,
    List.contains_iff_mem, beq_iff_eq, Prod.forall, Prod.exists]
  constructor
  · rintro ⟨h1, h2⟩
    refine ⟨fun f b hm hb => ?_, fun u hu => ?_⟩
    · rcases h1 f b hm with h | h
      · simp [hb] at h
      · exact h
    · obtain ⟨a, b, hm, rfl⟩ := h2 u hu
      exact ⟨b, hm⟩
  · rintro ⟨h1, h2⟩
    refine ⟨fun f b hm => ?_, fun u hu => ?_⟩
    · cases b with
      | true => exact Or.inl rfl
      | false => exact Or.inr (h1 f false hm rfl)
    · obtain ⟨b, hm⟩ := h2 u hu
      exact ⟨u, b, hm, rfl⟩

theorem WF.unique {s : Subterm} (h : WF s) {f : Factor} {b b' : Bool}
    (h1 : (f, b) ∈ s) (h2 : (f, b') ∈ s) : b = b' := by
  unfold WF at h
  induction s with
  | nil => simp at h1
  | cons x xs ih =>
    simp only [List.map_cons, List.nodup_cons, List.mem_map, not_exists, not_and] at h
    rcases List.mem_cons.1 h1 with h1' | h1' <;> rcases List.mem_cons.1 h2 with h2' | h2'
    · rw [← h2'] at h1'; simpa using h1'
    · exact absurd (by rw [← h1']) (h.1 _ h2')
    · exact absurd (by rw [← h2']) (h.1 _ h1')
    · exact ih h.2 h1' h2'

theorem WF.nodup {s : Subterm} (h : WF s) : s.Nodup := by
  unfold WF at h
  induction s with
  | nil => simp
  | cons x xs ih =>
    simp only [List.map_cons, List.nodup_cons, List.mem_map, not_exists, not_and] at h
    rw [List.nodup_cons]
    exact ⟨fun hx => h.1 x hx rfl, ih h.2⟩

/-! ### `absorb` -/

theorem filter_notin_length {α : Type} [BEq α] [LawfulBEq α] :
    ∀ (long short : List α), long.Nodup → short.Nodup → (∀ e ∈ short, e ∈ long) →
      (long.filter (fun e => !short.contains e)).length + short.length = long.length := by
  intro long
  induction long with
  | nil =>
    intro short _ _ hs
    cases short with
    | nil => simp
    | cons a as => exact absurd (hs a (List.mem_cons_self)) (by simp)
  | cons x xs ih =>
    intro short hl hsn hs
    rw [List.nodup_cons] at hl
    by_cases hx : x ∈ short
    · have h1 := ih (short.erase x) hl.2 (hsn.erase x) (by
        intro e he
        have hne : e ≠ x := by
          intro h; subst h; exact (List.Nodup.mem_erase_iff hsn).1 he |>.1 rfl
        have := hs e (List.mem_of_mem_erase he)
        simpa [hne] using this)
      have h2 : xs.filter (fun e => !(short.erase x).contains e) = xs.filter (fun e => !short.contains e) := by
        apply List.filter_congr
        intro e he
        have hne : e ≠ x := by intro h; subst h; exact hl.1 he
        simp [List.mem_erase_of_ne hne]
      have h3 := List.length_erase_of_mem hx
      have h4 : short.length ≥ 1 := List.length_pos_of_mem hx
      have hc : short.contains x = true := by simpa using hx
      rw [h2] at h1
      simp only [List.filter_cons, hc, Bool.not_true, Bool.false_eq_true, if_false, List.length_cons]
      omega
    · have h1 := ih short hl.2 hsn (by
        intro e he
        have := hs e he
        rcases List.mem_cons.1 this with h | h
        · subst h; exact absurd he hx
        · exact h)
      have hc : short.contains x = false := by simpa using hx
      simp only [List.filter_cons, hc, Bool.not_false, if_true, List.length_cons]
      omega

/-- the reduced factors of a subterm: the least element of its interval -/
def redOf (s : Subterm) : List Factor := (s.filter (fun e => !e.2)).map (·.1)

theorem mem_redOf {s : Subterm} {f : Factor} : f ∈ redOf s ↔ (f, false) ∈ s := by
  simp only [redOf, List.mem_map, List.mem_filter, Prod.exists]
  constructor
  · rintro ⟨a, b, ⟨hm, hb⟩, rfl⟩
    cases b <;> simp_all
  · intro h; exact ⟨f, false, ⟨h, by simp⟩, rfl⟩

theorem inIv_redOf (s : Subterm) : inIv s (redOf s) = true := by
  rw [inIv_iff]
  refine ⟨fun f b hm hb => ?_, fun u hu => ?_⟩
  · subst hb; exact mem_redOf.2 hm
  · exact ⟨false, mem_redOf.1 hu⟩

/-- what `long.absorb(short)` returns -/
structure AbsorbOut (long short new : Subterm) (f : Factor) : Prop where
  memLong : ∀ x, x ∈ long ↔ x ∈ short ∨ x = (f, false)
  memNew : ∀ x, x ∈ new ↔ x ∈ short ∨ x = (f, true)
  fresh : ∀ b, (f, b) ∉ short
  wfNew : WF new

theorem wf_setAdd {short : Subterm} {f : Factor} (hs : WF short) (hf : ∀ b, (f, b) ∉ short) :
    WF (setAdd short (f, true)) := by
  have hc : short.contains (f, true) = false := by simpa using hf true
  simp only [setAdd, hc, Bool.false_eq_true, if_false, WF, List.map_append, List.map_cons, List.map_nil]
  rw [List.nodup_append]
  refine ⟨hs, by simp, ?_⟩
  intro a ha b hb
  simp only [List.mem_singleton] at hb
  subst hb
  simp only [List.mem_map, Prod.exists] at ha
  obtain ⟨a', b', hm, rfl⟩ := ha
  intro h; subst h
  exact hf b' hm

theorem absorb_ok {long short : Subterm} (hl : WF long) (hs : WF short)
    (hc : canAbsorb long short = true)
    (hd : ∀ U, ¬ (inIv long U = true ∧ inIv short U = true)) :
    ∃ f new, absorb long short = .ok new ∧ AbsorbOut long short new f := by
  simp only [canAbsorb, Bool.and_eq_true, beq_iff_eq, subset_iff] at hc
  obtain ⟨hlen, hsub⟩ := hc
  have hcount := filter_notin_length long short hl.nodup hs.nodup hsub
  have h1 : (long.filter (fun e => !short.contains e)).length = 1 := by omega
  obtain ⟨e, he⟩ := List.length_eq_one_iff.1 h1
  have hmem : ∀ x, x ∈ long ↔ x ∈ short ∨ x = e := by
    intro x
    constructor
    · intro hx
      by_cases hxs : x ∈ short
      · exact Or.inl hxs
      · have : x ∈ long.filter (fun e => !short.contains e) := by
          rw [List.mem_filter]; exact ⟨hx, by simpa using hxs⟩
        rw [he] at this
        exact Or.inr (by simpa using this)
    · rintro (hx | rfl)
      · exact hsub x hx
      · have : x ∈ long.filter (fun e => !short.contains e) := by rw [he]; simp
        exact (List.mem_filter.1 this).1
  have he_long : e ∈ long := (hmem e).2 (Or.inr rfl)
  have he_short : e ∉ short := by
    have : e ∈ long.filter (fun e => !short.contains e) := by rw [he]; simp
    simpa using (List.mem_filter.1 this).2
  obtain ⟨f, b⟩ := e
  have hfresh : ∀ b', (f, b') ∉ short := by
    intro b' hb'
    have := hl.unique he_long (hsub _ hb')
    subst this
    exact he_short hb'
  cases b with
  | true =>
    exfalso
    apply hd (redOf short)
    refine ⟨?_, inIv_redOf short⟩
    rw [inIv_iff]
    refine ⟨fun g c hm hcf => ?_, fun u hu => ?_⟩
    · rcases (hmem (g, c)).1 hm with h | h
      · subst hcf; exact mem_redOf.2 h
      · simp only [Prod.mk.injEq] at h; rw [h.2] at hcf; simp at hcf
    · exact ⟨false, hsub _ (mem_redOf.1 hu)⟩
  | false =>
    refine ⟨f, setAdd short (f, true), ?_, ⟨hmem, fun x => mem_setAdd, hfresh, wf_setAdd hs hfresh⟩⟩
    simp only [absorb, he]
    simp


/-- **Step lemma**: the interval of the absorption is the disjoint union of the two intervals. -/
theorem AbsorbOut.interval {long short new : Subterm} {f : Factor} (h : AbsorbOut long short new f)
    (U : List Factor) :
    (inIv new U = true ↔ (inIv long U = true ∨ inIv short U = true)) ∧
    ¬ (inIv long U = true ∧ inIv short U = true) := by
  obtain ⟨hL, hN, hF, _⟩ := h
  simp only [inIv_iff]
  by_cases hU : f ∈ U <;> grind

/-- indicator of membership in the interval -/
def ind (s : Subterm) (U : List Factor) : Nat := if inIv s U then 1 else 0

theorem AbsorbOut.ind_eq {long short new : Subterm} {f : Factor} (h : AbsorbOut long short new f)
    (U : List Factor) : ind new U = ind long U + ind short U := by
  have := h.interval U
  unfold ind
  by_cases h1 : inIv new U = true <;> by_cases h2 : inIv long U = true <;>
    by_cases h3 : inIv short U = true <;> simp_all

/-! ### the counting invariant through the greedy loop -/

/-- how many subterms of the list have `U` in their interval -/
def cnt (subs : List Subterm) (U : List Factor) : Nat := subs.countP (fun s => inIv s U)

theorem cnt_cons (s : Subterm) (subs : List Subterm) (U : List Factor) :
    cnt (s :: subs) U = cnt subs U + ind s U := by
  simp [cnt, ind, List.countP_cons]

theorem ind_le_cnt {l : Subterm} {subs : List Subterm} (h : l ∈ subs) (U : List Factor) :
    ind l U ≤ cnt subs U := by
  induction subs with
  | nil => simp at h
  | cons x xs ih =>
    rw [cnt_cons]
    rcases List.mem_cons.1 h with rfl | h
    · omega
    · have := ih h; omega

theorem ind_le_one (s : Subterm) (U : List Factor) : ind s U ≤ 1 := by
  unfold ind; split <;> omega

theorem absorbInto_spec (short : Subterm) (rest : List Subterm) (hws : WF short)
    (hwr : ∀ s ∈ rest, WF s)
    (hd : ∀ l ∈ rest, ∀ U, ¬ (inIv l U = true ∧ inIv short U = true)) :
    absorbInto short rest = .ok none ∨
    ∃ r, absorbInto short rest = .ok (some r) ∧ r.length = rest.length ∧ (∀ s ∈ r, WF s) ∧
      ∀ U, cnt r U = cnt rest U + ind short U := by
  induction rest with
  | nil => left; rfl
  | cons long rest ih =>
    unfold absorbInto
    by_cases hc : canAbsorb long short = true
    · right
      obtain ⟨f, new, hok, hout⟩ := absorb_ok (hwr long (by simp)) hws hc (hd long (by simp))
      refine ⟨new :: rest, by simp [hc, hok], by simp, ?_, ?_⟩
      · intro s hs
        rcases List.mem_cons.1 hs with rfl | hs
        · exact hout.wfNew
        · exact hwr s (by simp [hs])
      · intro U
        rw [cnt_cons, cnt_cons, hout.ind_eq U]; omega
    · simp only [hc, Bool.false_eq_true, if_false]
      rcases ih (fun s hs => hwr s (by simp [hs])) (fun l hl => hd l (by simp [hl])) with h | ⟨r, h, hlen, hw, hcnt⟩
      · left; simp [h]
      · right
        refine ⟨long :: r, by simp [h], by simp [hlen], ?_, ?_⟩
        · intro s hs
          rcases List.mem_cons.1 hs with rfl | hs
          · exact hwr s (by simp)
          · exact hw s hs
        · intro U
          rw [cnt_cons, cnt_cons, hcnt U]; omega

theorem simplifyStep_spec (subs : List Subterm) (hw : ∀ s ∈ subs, WF s) (hd : ∀ U, cnt subs U ≤ 1) :
    simplifyStep subs = .ok none ∨
    ∃ r, simplifyStep subs = .ok (some r) ∧ r.length + 1 = subs.length ∧ (∀ s ∈ r, WF s) ∧
      ∀ U, cnt r U = cnt subs U := by
  induction subs with
  | nil => left; rfl
  | cons short rest ih =>
    unfold simplifyStep
    have hdis : ∀ l ∈ rest, ∀ U, ¬ (inIv l U = true ∧ inIv short U = true) := by
      intro l hl U ⟨h1, h2⟩
      have := hd U
      rw [cnt_cons] at this
      have h3 := ind_le_cnt hl U
      simp only [ind, h1, h2, if_true] at this h3
      omega
    rcases absorbInto_spec short rest (hw short (by simp)) (fun s hs => hw s (by simp [hs])) hdis with
      h | ⟨r, h, hlen, hwr, hcnt⟩
    · simp only [h]
      have hd' : ∀ U, cnt rest U ≤ 1 := by
        intro U; have := hd U; rw [cnt_cons] at this; omega
      rcases ih (fun s hs => hw s (by simp [hs])) hd' with h' | ⟨r, h', hlen, hwr, hcnt⟩
      · left; simp [h']
      · right
        refine ⟨short :: r, by simp [h'], by simp [hlen], ?_, ?_⟩
        · intro s hs
          rcases List.mem_cons.1 hs with rfl | hs
          · exact hw s (by simp)
          · exact hwr s hs
        · intro U; rw [cnt_cons, cnt_cons, hcnt U]
    · right
      refine ⟨r, by simp [h], by simp [hlen], hwr, ?_⟩
      intro U; rw [cnt_cons, hcnt U]

theorem simplifyLoop_spec (n : Nat) : ∀ (subs : List Subterm), subs.length ≤ n → (∀ s ∈ subs, WF s) →
    (∀ U, cnt subs U ≤ 1) →
    ∃ r, simplifyLoop n subs = .ok r ∧ (∀ s ∈ r, WF s) ∧ ∀ U, cnt r U = cnt subs U := by
  induction n with
  | zero =>
    intro subs hn hw hd
    have : subs = [] := List.eq_nil_of_length_eq_zero (by omega)
    subst this
    exact ⟨[], rfl, hw, fun _ => rfl⟩
  | succ n ih =>
    intro subs hn hw hd
    unfold simplifyLoop
    rcases simplifyStep_spec subs hw hd with h | ⟨r, h, hlen, hwr, hcnt⟩
    · exact ⟨subs, by simp [h], hw, fun _ => rfl⟩
    · simp only [h]
      obtain ⟨r', h', hw', hc'⟩ := ih r (by omega) hwr (fun U => by rw [hcnt U]; exact hd U)
      exact ⟨r', h', hw', fun U => by rw [hc' U, hcnt U]⟩

/-- the greedy loop never reaches an `assert`, never runs out of fuel, and preserves the number of
intervals every `U` lies in -/
theorem simplifySubterms_spec (subs : List Subterm) (hw : ∀ s ∈ subs, WF s) (hd : ∀ U, cnt subs U ≤ 1) :
    ∃ r, simplifySubterms subs = .ok r ∧ (∀ s ∈ r, WF s) ∧ ∀ U, cnt r U = cnt subs U :=
  simplifyLoop_spec subs.length subs (Nat.le_refl _) hw hd

/-! ### `_sorted_subsets` enumerates every subset exactly once -/

theorem insertBy_perm {α : Type} (lt : α → α → Bool) (x : α) (l : List α) :
    (insertBy lt x l).Perm (x :: l) := by
  induction l with
  | nil => simp [insertBy]
  | cons y ys ih =>
    unfold insertBy
    split
    · exact ((List.perm_cons y).2 ih).trans (List.Perm.swap x y ys)
    · exact List.Perm.refl _

theorem sortBy_perm {α : Type} (lt : α → α → Bool) (l : List α) : (sortBy lt l).Perm l := by
  induction l with
  | nil => simp [sortBy]
  | cons x xs ih =>
    unfold sortBy
    exact (insertBy_perm lt x _).trans ((List.perm_cons x).2 ih)

theorem subsetsRaw_map {α β : Type} (f : α → β) (l : List α) :
    subsetsRaw (l.map f) = (subsetsRaw l).map (fun s => s.map f) := by
  induction l with
  | nil => simp [subsetsRaw]
  | cons x xs ih =>
    simp only [List.map_cons, subsetsRaw, ih, List.flatMap_map, List.map_flatMap]
    simp

theorem sortedSubsets_perm {α : Type} (l : List α) : (sortedSubsets l).Perm (subsetsRaw l) := by
  unfold sortedSubsets
  have h : subsetsRaw l = (subsetsRaw l.zipIdx).map (fun s => s.map (·.1)) := by
    rw [← subsetsRaw_map, List.zipIdx_map_fst]
  rw [h]
  exact (((sortBy_perm _ _).trans (sortBy_perm _ _)).map _)

theorem subsetsRaw_sublist {α : Type} (l : List α) : ∀ s ∈ subsetsRaw l, s.Sublist l := by
  induction l with
  | nil => intro s hs; simp [subsetsRaw] at hs; subst hs; exact List.Sublist.refl _
  | cons x xs ih =>
    intro s hs
    simp only [subsetsRaw, List.mem_flatMap, List.mem_cons, List.not_mem_nil, or_false] at hs
    obtain ⟨t, ht, rfl | rfl⟩ := hs
    · exact (ih _ ht).cons x
    · exact (ih _ ht).cons_cons x

theorem memEq_iff {S U : List Factor} : memEq S U = true ↔ ∀ x, x ∈ S ↔ x ∈ U := by
  simp only [memEq, Bool.and_eq_true, List.all_eq_true, List.contains_iff_mem]
  constructor
  · rintro ⟨h1, h2⟩ x; exact ⟨h1 x, h2 x⟩
  · intro h; exact ⟨fun x hx => (h x).1 hx, fun x hx => (h x).2 hx⟩


theorem flatMap_pair_perm {α : Type} (x : α) (l : List (List α)) :
    (l.flatMap (fun s => [s, x :: s])).Perm (l ++ l.map (x :: ·)) := by
  induction l with
  | nil => simp
  | cons s l ih =>
    simp only [List.flatMap_cons, List.cons_append, List.nil_append, List.map_cons]
    refine (List.perm_cons s).2 ?_
    exact ((List.perm_cons (x :: s)).2 ih).trans List.perm_middle.symm

theorem if_iff_congr {p q : Prop} [Decidable p] [Decidable q] (h : p ↔ q) :
    (if p then 1 else 0 : Nat) = if q then 1 else 0 := by
  by_cases hp : p
  · simp [hp, h.1 hp]
  · have hq : ¬ q := fun hq => hp (h.2 hq)
    simp [hp, hq]

theorem subsetsRaw_count (cs : List Factor) (hnd : cs.Nodup) (U : List Factor) :
    (subsetsRaw cs).countP (fun S => memEq S U) = if (∀ u ∈ U, u ∈ cs) then 1 else 0 := by
  induction cs generalizing U with
  | nil =>
    simp only [subsetsRaw, List.countP_cons, List.countP_nil, Nat.zero_add]
    apply if_iff_congr
    rw [memEq_iff]
    constructor
    · intro h u hu; exact (h u).2 hu
    · intro h x; constructor
      · intro hx; simp at hx
      · intro hx; exact h x hx
  | cons x xs ih =>
    rw [List.nodup_cons] at hnd
    have hx_notin : ∀ s ∈ subsetsRaw xs, x ∉ s := fun s hs hx =>
      hnd.1 ((subsetsRaw_sublist xs s hs).subset hx)
    simp only [subsetsRaw]
    rw [(flatMap_pair_perm x (subsetsRaw xs)).countP_eq, List.countP_append, List.countP_map]
    by_cases hxU : x ∈ U
    · have h1 : (subsetsRaw xs).countP (fun S => memEq S U) = 0 := by
        rw [List.countP_eq_zero]
        intro s hs
        rw [memEq_iff]; intro h; exact hx_notin s hs ((h x).2 hxU)
      have h2 : (subsetsRaw xs).countP ((fun S => memEq S U) ∘ (x :: ·)) =
          (subsetsRaw xs).countP (fun S => memEq S (U.filter (· != x))) := by
        apply List.countP_congr
        intro s hs
        have hns := hx_notin s hs
        simp only [Function.comp, memEq_iff, List.mem_cons, List.mem_filter, bne_iff_ne, ne_eq]
        constructor
        · intro h y
          constructor
          · intro hy; exact ⟨(h y).1 (Or.inr hy), fun hyx => hns (hyx ▸ hy)⟩
          · rintro ⟨hyU, hyx⟩
            rcases (h y).2 hyU with h' | h'
            · exact absurd h' hyx
            · exact h'
        · intro h y
          constructor
          · rintro (rfl | hy)
            · exact hxU
            · exact ((h y).1 hy).1
          · intro hyU
            by_cases hyx : y = x
            · exact Or.inl hyx
            · exact Or.inr ((h y).2 ⟨hyU, hyx⟩)
      rw [h1, h2, ih hnd.2, Nat.zero_add]
      apply if_iff_congr
      simp only [List.mem_filter, bne_iff_ne, ne_eq, List.mem_cons]
      constructor
      · intro h u hu
        by_cases hux : u = x
        · exact Or.inl hux
        · exact Or.inr (h u ⟨hu, hux⟩)
      · rintro h u ⟨hu, hux⟩
        rcases h u hu with h' | h'
        · exact absurd h' hux
        · exact h'
    · have h2 : (subsetsRaw xs).countP ((fun S => memEq S U) ∘ (x :: ·)) = 0 := by
        rw [List.countP_eq_zero]
        intro s hs
        simp only [Function.comp, memEq_iff]
        intro h; exact hxU ((h x).1 (by simp))
      rw [h2, ih hnd.2, Nat.add_zero]
      apply if_iff_congr
      constructor
      · intro h u hu; exact List.mem_cons_of_mem _ (h u hu)
      · intro h u hu
        rcases List.mem_cons.1 (h u hu) with h' | h'
        · subst h'; exact absurd hu hxU
        · exact h'

theorem sortedSubsets_count (cs : List Factor) (hnd : cs.Nodup) (U : List Factor) :
    (sortedSubsets cs).countP (fun S => memEq S U) = if (∀ u ∈ U, u ∈ cs) then 1 else 0 := by
  rw [(sortedSubsets_perm cs).countP_eq, subsetsRaw_count cs hnd U]

theorem sortedSubsets_sublist (cs : List Factor) : ∀ s ∈ sortedSubsets cs, s.Sublist cs := by
  intro s hs
  exact subsetsRaw_sublist cs s ((sortedSubsets_perm cs).mem_iff.1 hs)

/-! ### `pick_contrast` -/

theorem dict_set_fresh {β : Type} (d : Dict β) (k : String) (v : β) (h : ∀ e ∈ d, e.1 ≠ k) :
    Dict.set d k v = d ++ [(k, v)] := by
  induction d with
  | nil => rfl
  | cons e d ih =>
    obtain ⟨k', v'⟩ := e
    have hne : k' ≠ k := h (k', v') (by simp)
    have : (k' == k) = false := by simpa using hne
    simp only [Dict.set, this, Bool.false_eq_true, if_false, List.cons_append]
    rw [ih (fun e he => h e (by simp [he]))]

theorem toCoding_aux (s : Subterm) (acc : Dict Bool) (hs : WF s)
    (hdisj : ∀ e ∈ acc, ∀ e' ∈ s, e.1 ≠ e'.1) :
    s.foldl (fun d e => Dict.set d e.1 e.2) acc = acc ++ s := by
  induction s generalizing acc with
  | nil => simp
  | cons x xs ih =>
    simp only [List.foldl_cons]
    rw [dict_set_fresh acc x.1 x.2 (fun e he => hdisj e he x (by simp))]
    unfold WF at hs
    simp only [List.map_cons, List.nodup_cons, List.mem_map, not_exists, not_and] at hs
    rw [ih (acc ++ [(x.1, x.2)]) hs.2]
    · simp
    · intro e he e' he'
      rcases List.mem_append.1 he with h | h
      · exact hdisj e h e' (by simp [he'])
      · simp only [List.mem_singleton] at h
        subst h
        intro heq
        exact hs.1 e' he' heq.symm

theorem toCoding_of_wf {s : Subterm} (hs : WF s) : toCoding s = s := by
  unfold toCoding
  rw [toCoding_aux s [] hs (by simp)]
  simp

/-- the all-reduced subterm of a subset -/
def mkRed (S : List Factor) : Subterm := mkSubterm (S.map (fun f => (f, false)))

theorem mem_mkRed {S : List Factor} {x : EFactor} : x ∈ mkRed S ↔ x.1 ∈ S ∧ x.2 = false := by
  obtain ⟨f, b⟩ := x
  simp only [mkRed, mkSubterm, mem_dedup, List.mem_map, Prod.mk.injEq]
  constructor
  · rintro ⟨a, ha, rfl, rfl⟩; exact ⟨ha, rfl⟩
  · rintro ⟨h1, h2⟩; exact ⟨f, h1, rfl, h2.symm⟩

theorem wf_of_allRed {l : Subterm} (hn : l.Nodup) (hr : ∀ x ∈ l, x.2 = false) : WF l := by
  unfold WF
  induction l with
  | nil => simp
  | cons x xs ih =>
    rw [List.nodup_cons] at hn
    simp only [List.map_cons, List.nodup_cons, List.mem_map, not_exists, not_and]
    refine ⟨?_, ih hn.2 (fun y hy => hr y (by simp [hy]))⟩
    intro y hy hxy
    have h1 := hr x (by simp)
    have h2 := hr y (by simp [hy])
    have : y = x := Prod.ext hxy (by rw [h1, h2])
    subst this
    exact hn.1 hy

theorem wf_mkRed (S : List Factor) : WF (mkRed S) :=
  wf_of_allRed (nodup_dedup _) (fun _ hx => (mem_mkRed.1 hx).2)

theorem eqv_mkRed {S S' : List Factor} : eqv (mkRed S) (mkRed S') = memEq S S' := by
  rw [Bool.eq_iff_iff, eqv_iff, memEq_iff]
  constructor
  · intro h f
    have := h (f, false)
    simpa [mem_mkRed] using this
  · intro h x
    simp only [mem_mkRed, h x.1]

theorem inIv_mkRed {S U : List Factor} : inIv (mkRed S) U = memEq S U := by
  rw [Bool.eq_iff_iff, inIv_iff, memEq_iff]
  constructor
  · rintro ⟨h1, h2⟩ f
    constructor
    · intro hf; exact h1 f false (mem_mkRed.2 ⟨hf, rfl⟩) rfl
    · intro hf; obtain ⟨b, hb⟩ := h2 f hf; exact (mem_mkRed.1 hb).1
  · intro h
    refine ⟨fun f b hm _ => (h f).1 (mem_mkRed.1 hm).1, fun u hu => ⟨false, mem_mkRed.2 ⟨(h u).2 hu, rfl⟩⟩⟩

theorem inDown_iff {prev : List (List Factor)} {U : List Factor} :
    inDown prev U = true ↔ ∃ cs ∈ prev, ∀ u ∈ U, u ∈ cs := by
  simp [inDown]

theorem inDown_congr {prev : List (List Factor)} {S U : List Factor} (h : memEq S U = true) :
    inDown prev S = inDown prev U := by
  rw [memEq_iff] at h
  rw [Bool.eq_iff_iff, inDown_iff, inDown_iff]
  constructor
  · rintro ⟨cs, hcs, hs⟩; exact ⟨cs, hcs, fun u hu => hs u ((h u).2 hu)⟩
  · rintro ⟨cs, hcs, hs⟩; exact ⟨cs, hcs, fun u hu => hs u ((h u).1 hu)⟩

theorem inDown_append {prev : List (List Factor)} {cs U : List Factor} :
    inDown (prev ++ [cs]) U = (inDown prev U || U.all (fun u => cs.contains u)) := by
  simp [inDown, List.any_append]

/-- invariant of `used_subterms`: it holds exactly the all-reduced subterms of the subsets of the
terms seen so far -/
def UsedInv (used : List Subterm) (prev : List (List Factor)) : Prop :=
  ∀ S : List Factor, used.any (fun u => eqv (mkRed S) u) = inDown prev S

theorem pickContrast_spec (cs : List Factor) (hnd : cs.Nodup) (used : List Subterm)
    (prev : List (List Factor)) (hinv : UsedInv used prev) :
    ∃ codings used', pickContrast cs used = .ok (codings, used') ∧ UsedInv used' (prev ++ [cs]) ∧
      (∀ c ∈ codings, WF c) ∧
      ∀ U, cnt codings U = if (∀ u ∈ U, u ∈ cs) ∧ inDown prev U = false then 1 else 0 := by
  -- the new subterms
  let subs := sortedSubsets cs
  let subterms := (subs.map (fun S => mkSubterm (S.map (fun f => (f, false))))).filter
    (fun st => !(used.any (fun u => eqv st u)))
  have hsub_eq : subterms = (subs.filter (fun S => !inDown prev S)).map mkRed := by
    simp only [subterms, List.filter_map]
    congr 1
    apply List.filter_congr
    intro S _
    simp only [Function.comp]
    have := hinv S
    simp only [mkRed] at this
    rw [this]
  have hwf : ∀ s ∈ subterms, WF s := by
    intro s hs
    rw [hsub_eq] at hs
    obtain ⟨S, _, rfl⟩ := List.mem_map.1 hs
    exact wf_mkRed S
  have hcnt : ∀ U, cnt subterms U = if (∀ u ∈ U, u ∈ cs) ∧ inDown prev U = false then 1 else 0 := by
    intro U
    rw [hsub_eq]
    simp only [cnt, List.countP_map, List.countP_filter, Function.comp_def, inIv_mkRed]
    have : subs.countP (fun S => memEq S U && !inDown prev S) =
        subs.countP (fun S => memEq S U && !inDown prev U) := by
      apply List.countP_congr
      intro S _
      by_cases h : memEq S U = true
      · simp [h, inDown_congr h]
      · simp [h]
    rw [this]
    by_cases hd : inDown prev U = true
    · simp [hd]
    · have hd' : inDown prev U = false := by simpa using hd
      simp only [hd', Bool.not_false, Bool.and_true, and_true]
      exact sortedSubsets_count cs hnd U
  have hle : ∀ U, cnt subterms U ≤ 1 := by
    intro U; rw [hcnt U]; split <;> omega
  obtain ⟨final, hfin, hwfin, hcfin⟩ := simplifySubterms_spec subterms hwf hle
  refine ⟨final.map toCoding, used ++ subterms, ?_, ?_, ?_, ?_⟩
  · simp only [pickContrast]
    show (match simplifySubterms subterms with
      | .ok final => Except.ok (final.map toCoding, used ++ subterms)
      | .error e => .error e) = _
    rw [hfin]
  · intro S
    rw [List.any_append, hinv S, inDown_append]
    by_cases hd : inDown prev S = true
    · simp [hd]
    have hd' : inDown prev S = false := by simpa using hd
    rw [hd', Bool.false_or, Bool.false_or, hsub_eq, Bool.eq_iff_iff]
    simp only [List.any_eq_true, List.mem_map, List.mem_filter, List.all_eq_true,
      List.contains_iff_mem]
    constructor
    · rintro ⟨_, ⟨S', ⟨hS', _⟩, rfl⟩, he⟩
      rw [eqv_mkRed, memEq_iff] at he
      intro u hu
      exact (sortedSubsets_sublist cs S' hS').subset ((he u).1 hu)
    · intro h
      have hc := sortedSubsets_count cs hnd S
      rw [if_pos h] at hc
      have hpos : 0 < (sortedSubsets cs).countP (fun S' => memEq S' S) := by omega
      obtain ⟨S', hS', hm⟩ := List.countP_pos_iff.1 hpos
      refine ⟨mkRed S', ⟨S', ⟨hS', ?_⟩, rfl⟩, ?_⟩
      · rw [inDown_congr hm, hd']; rfl
      · rw [eqv_mkRed]
        rw [memEq_iff] at hm ⊢
        intro x; exact (hm x).symm
  · intro c hc
    obtain ⟨s, hs, rfl⟩ := List.mem_map.1 hc
    rw [toCoding_of_wf (hwfin s hs)]
    exact hwfin s hs
  · intro U
    have : final.map toCoding = final := by
      rw [← List.map_id final]
      simp only [List.map_map]
      apply List.map_congr_left
      intro s hs
      simp [toCoding_of_wf (hwfin s hs)]
    rw [this, hcfin U, hcnt U]

/-! ### `pick_contrasts`: induction over the terms of the group -/

theorem cnt_append (a b : List Subterm) (U : List Factor) : cnt (a ++ b) U = cnt a U + cnt b U := by
  simp [cnt, List.countP_append]

theorem inDown_app {a b : List (List Factor)} {U : List Factor} :
    inDown (a ++ b) U = (inDown a U || inDown b U) := by
  simp [inDown, List.any_append]

theorem inDown_cons {cs : List Factor} {r : List (List Factor)} {U : List Factor} :
    inDown (cs :: r) U = (U.all (fun u => cs.contains u) || inDown r U) := by
  simp [inDown]

theorem pickContrastsAux_spec (rest : List (String × List Factor)) :
    (∀ t ∈ rest, t.2.Nodup) → ∀ (used : List Subterm) (prev : List (List Factor)), UsedInv used prev →
    ∃ out, pickContrastsAux used rest = .ok out ∧ out.map (·.1) = rest.map (·.1) ∧
      (∀ e ∈ out, ∀ c ∈ e.2, WF c) ∧
      ∀ U, cnt (out.flatMap (·.2)) U =
        if inDown (prev ++ rest.map (·.2)) U = true ∧ inDown prev U = false then 1 else 0 := by
  induction rest with
  | nil =>
    intro _ used prev _
    refine ⟨[], rfl, rfl, by simp, ?_⟩
    intro U
    simp only [List.flatMap_nil, List.map_nil, List.append_nil, cnt, List.countP_nil]
    by_cases h : inDown prev U = true <;> simp [h]
  | cons t rest ih =>
    intro hnd used prev hinv
    obtain ⟨name, cs⟩ := t
    obtain ⟨codings, used', hpc, hinv', hwf, hcnt⟩ :=
      pickContrast_spec cs (hnd (name, cs) (by simp)) used prev hinv
    obtain ⟨out, hout, hnames, hwfo, hcnto⟩ :=
      ih (fun t ht => hnd t (by simp [ht])) used' (prev ++ [cs]) hinv'
    refine ⟨(name, codings) :: out, ?_, ?_, ?_, ?_⟩
    · simp only [pickContrastsAux, hpc, hout]
    · simp [hnames]
    · intro e he c hc
      rcases List.mem_cons.1 he with rfl | he
      · exact hwf c hc
      · exact hwfo e he c hc
    · intro U
      simp only [List.flatMap_cons, cnt_append, hcnt U, hcnto U, List.map_cons]
      have e1 : inDown (prev ++ [cs] ++ rest.map (·.2)) U = inDown (prev ++ cs :: rest.map (·.2)) U := by
        simp
      rw [e1]
      simp only [inDown_app, inDown_cons]
      have hB : (∀ u ∈ U, u ∈ cs) ↔ U.all (fun u => cs.contains u) = true := by simp
      simp only [hB]
      cases inDown prev U <;> cases U.all (fun u => cs.contains u) <;>
        cases inDown (rest.map (·.2)) U <;> simp [inDown]

/-- **Partition theorem for `pick_contrasts`** (in the vocabulary of this file). -/
theorem pickContrasts_spec (g : List (String × List Factor)) (hnd : ∀ t ∈ g, t.2.Nodup) :
    ∃ out, pickContrasts g = .ok out ∧ out.map (·.1) = g.map (·.1) ∧
      (∀ e ∈ out, ∀ c ∈ e.2, WF c) ∧
      ∀ U, cnt (out.flatMap (·.2)) U = if inDown (g.map (·.2)) U = true then 1 else 0 := by
  obtain ⟨out, h1, h2, h3, h4⟩ := pickContrastsAux_spec g hnd [] [] (fun S => by simp [inDown])
  refine ⟨out, h1, h2, h3, ?_⟩
  intro U
  rw [h4 U]
  have : inDown ([] : List (List Factor)) U = false := rfl
  simp only [this, List.nil_append, and_true]

/-! ### margins-first groups: every term gets exactly one coding -/

theorem simplifySubterms_single (s : Subterm) : simplifySubterms [s] = .ok [s] := by
  simp [simplifySubterms, simplifyLoop, simplifyStep, absorbInto]

theorem pickContrast_single (cs : List Factor) (hnd : cs.Nodup) (used : List Subterm)
    (prev : List (List Factor)) (hinv : UsedInv used prev) (hm : marginsBefore prev cs = true)
    (codings : List Coding) (used' : List Subterm)
    (h : pickContrast cs used = .ok (codings, used')) : codings.length = 1 := by
  simp only [marginsBefore, Bool.and_eq_true, List.all_eq_true, Bool.or_eq_true,
    Bool.not_eq_true'] at hm
  obtain ⟨hm1, hm2⟩ := hm
  have hfilter : ((sortedSubsets cs).map (fun S => mkSubterm (S.map (fun f => (f, false))))).filter
      (fun st => !(used.any (fun u => eqv st u))) =
      ((sortedSubsets cs).filter (fun S => !inDown prev S)).map mkRed := by
    simp only [List.filter_map]
    congr 1
    apply List.filter_congr
    intro S _
    have := hinv S
    simp only [mkRed] at this
    simp only [Function.comp, this]
  have hlen : ((sortedSubsets cs).filter (fun S => !inDown prev S)).length = 1 := by
    rw [← List.countP_eq_length_filter]
    have : (sortedSubsets cs).countP (fun S => !inDown prev S) =
        (sortedSubsets cs).countP (fun S => memEq S cs) := by
      apply List.countP_congr
      intro S hS
      constructor
      · intro h1
        rcases hm1 S hS with h2 | h2
        · exact h2
        · simp [h2] at h1
      · intro h1
        rw [inDown_congr h1, hm2]; rfl
    rw [this, sortedSubsets_count cs hnd cs]
    simp
  obtain ⟨S, hS⟩ := List.length_eq_one_iff.1 hlen
  simp only [pickContrast, hfilter, hS, List.map_cons, List.map_nil, simplifySubterms_single] at h
  injection h with h
  rw [← (Prod.mk.inj h).1]
  rfl

/-- the first term of a group without intercept: a single factor takes the constant with it -/
theorem pickContrast_first (cs : List Factor) (hlen : cs.length ≤ 1) (used : List Subterm)
    (hinv : UsedInv used []) (codings : List Coding) (used' : List Subterm)
    (h : pickContrast cs used = .ok (codings, used')) : codings.length = 1 := by
  have hu : ∀ st : Subterm, (used.any (fun u => eqv st u)) = false ∨ True := fun _ => Or.inr trivial
  have hused : ∀ S : List Factor, used.any (fun u => eqv (mkRed S) u) = false := by
    intro S; rw [hinv S]; rfl
  match cs, hlen with
  | [], _ =>
    have h0 := hused []
    simp only [mkRed, mkSubterm, List.map_nil, dedup] at h0
    simp [pickContrast, sortedSubsets, subsetsRaw, sortBy, insertBy, mkSubterm, dedup, h0,
      simplifySubterms, simplifyLoop, simplifyStep, absorbInto] at h
    rw [← h.1]; rfl
  | [f], _ =>
    have h0 := hused []
    have h1 := hused [f]
    simp only [mkRed, mkSubterm, List.map_nil, List.map_cons, dedup, List.contains_nil,
      Bool.false_eq_true, if_false] at h0 h1
    simp [pickContrast, sortedSubsets, subsetsRaw, sortBy, insertBy, lexLt, mkSubterm, dedup, h0, h1,
      simplifySubterms, simplifyLoop, simplifyStep, absorbInto, canAbsorb, subset, absorb, setAdd,
      List.zipIdx] at h
    rw [← h.1]; rfl

theorem pickContrastsAux_hier (rest : List (String × List Factor)) :
    (∀ t ∈ rest, t.2.Nodup) → ∀ (used : List Subterm) (prev : List (List Factor)),
    UsedInv used prev → hierAux prev rest = true →
    ∀ out, pickContrastsAux used rest = .ok out → ∀ e ∈ out, e.2.length = 1 := by
  induction rest with
  | nil =>
    intro _ used prev _ _ out h e he
    simp only [pickContrastsAux] at h
    injection h with h; subst h; simp at he
  | cons t rest ih =>
    intro hnd used prev hinv hh out h e he
    obtain ⟨name, cs⟩ := t
    simp only [hierAux, Bool.and_eq_true, Bool.or_eq_true, decide_eq_true_eq] at hh
    obtain ⟨hh1, hh2⟩ := hh
    obtain ⟨codings, used', hpc, hinv', _, _⟩ :=
      pickContrast_spec cs (hnd (name, cs) (by simp)) used prev hinv
    simp only [pickContrastsAux, hpc] at h
    cases hrest : pickContrastsAux used' rest with
    | error err => simp [hrest] at h
    | ok tail =>
      simp only [hrest] at h
      injection h with h; subst h
      rcases List.mem_cons.1 he with rfl | he
      · rcases hh1 with hm | ⟨hp, hl⟩
        · exact pickContrast_single cs (hnd (name, cs) (by simp)) used prev hinv hm codings used' hpc
        · have : prev = [] := by simpa using hp
          subst this
          exact pickContrast_first cs hl used hinv codings used' hpc
      · exact ih (fun t ht => hnd t (by simp [ht])) used' (prev ++ [cs]) hinv' hh2 tail hrest e he

theorem pickContrasts_hier (g : List (String × List Factor)) (hnd : ∀ t ∈ g, t.2.Nodup)
    (hh : hierGroup g = true) :
    ∃ out, pickContrasts g = .ok out ∧ out.map (·.1) = g.map (·.1) ∧ ∀ e ∈ out, e.2.length = 1 := by
  obtain ⟨out, hok, hn, _⟩ := pickContrasts_spec g hnd
  exact ⟨out, hok, hn, pickContrastsAux_hier g hnd [] [] (fun S => by simp [inDown]) hh out hok⟩


/-! ### per-term facts about the returned codings -/

/-- the codings of one term only mention its factors, and when there is any coding at all, one of
them mentions every factor of the term -/
def TermFacts (cs : List Factor) (codings : List Coding) : Prop :=
  (∀ c ∈ codings, WF c) ∧
  (∀ c ∈ codings, ∀ f b, (f, b) ∈ c → f ∈ cs) ∧
  (codings ≠ [] → ∃ c ∈ codings, ∀ f ∈ cs, ∃ b, (f, b) ∈ c)

theorem cnt_pos_of_mem {codings : List Subterm} {c : Subterm} {U : List Factor}
    (hc : c ∈ codings) (hi : inIv c U = true) : 0 < cnt codings U := by
  have := ind_le_cnt hc U
  simp only [ind, hi, if_true] at this
  omega

theorem exists_of_cnt_pos {codings : List Subterm} {U : List Factor} (h : 0 < cnt codings U) :
    ∃ c ∈ codings, inIv c U = true := by
  simpa [cnt] using List.countP_pos_iff.1 h

theorem inIv_allFactors (c : Subterm) : inIv c (c.map (·.1)) = true := by
  rw [inIv_iff]
  refine ⟨fun f b hm _ => List.mem_map.2 ⟨(f, b), hm, rfl⟩, fun u hu => ?_⟩
  obtain ⟨⟨f, b⟩, hm, rfl⟩ := List.mem_map.1 hu
  exact ⟨b, hm⟩

theorem pickContrast_facts (cs : List Factor) (hnd : cs.Nodup) (used : List Subterm)
    (prev : List (List Factor)) (hinv : UsedInv used prev) (codings : List Coding)
    (used' : List Subterm) (h : pickContrast cs used = .ok (codings, used')) : TermFacts cs codings := by
  obtain ⟨codings', used'', hpc, _, hwf, hcnt⟩ := pickContrast_spec cs hnd used prev hinv
  rw [h] at hpc
  injection hpc with hpc
  obtain ⟨rfl, rfl⟩ := Prod.mk.inj hpc
  have hsub : ∀ c ∈ codings, ∀ U, inIv c U = true → (∀ u ∈ U, u ∈ cs) ∧ inDown prev U = false := by
    intro c hc U hi
    have hp := cnt_pos_of_mem hc hi
    rw [hcnt U] at hp
    by_cases hh : (∀ u ∈ U, u ∈ cs) ∧ inDown prev U = false
    · exact hh
    · simp [hh] at hp
  refine ⟨hwf, ?_, ?_⟩
  · intro c hc f b hm
    exact (hsub c hc _ (inIv_allFactors c)).1 f (List.mem_map.2 ⟨(f, b), hm, rfl⟩)
  · intro hne
    obtain ⟨c0, hc0⟩ := List.exists_mem_of_ne_nil _ hne
    obtain ⟨h1, h2⟩ := hsub c0 hc0 _ (inIv_redOf c0)
    have hcs : inDown prev cs = false := by
      rw [Bool.eq_false_iff]
      intro hd
      obtain ⟨p, hp, hps⟩ := inDown_iff.1 hd
      have : inDown prev (redOf c0) = true := inDown_iff.2 ⟨p, hp, fun u hu => hps u (h1 u hu)⟩
      rw [h2] at this; cases this
    have hone : 0 < cnt codings cs := by
      rw [hcnt cs]; simp [hcs]
    obtain ⟨c, hc, hi⟩ := exists_of_cnt_pos hone
    exact ⟨c, hc, fun f hf => (inIv_iff.1 hi).2 f hf⟩

theorem pickContrastsAux_facts (rest : List (String × List Factor)) :
    (∀ t ∈ rest, t.2.Nodup) → ∀ (used : List Subterm) (prev : List (List Factor)), UsedInv used prev →
    ∀ out, pickContrastsAux used rest = .ok out →
      ∀ e ∈ out, ∃ t ∈ rest, e.1 = t.1 ∧ TermFacts t.2 e.2 := by
  induction rest with
  | nil =>
    intro _ used prev _ out h e he
    simp only [pickContrastsAux] at h
    injection h with h; subst h; simp at he
  | cons t rest ih =>
    intro hnd used prev hinv out h e he
    obtain ⟨name, cs⟩ := t
    obtain ⟨codings, used', hpc, hinv', _, _⟩ :=
      pickContrast_spec cs (hnd (name, cs) (by simp)) used prev hinv
    simp only [pickContrastsAux, hpc] at h
    cases hrest : pickContrastsAux used' rest with
    | error err => simp [hrest] at h
    | ok tail =>
      simp only [hrest] at h
      injection h with h; subst h
      rcases List.mem_cons.1 he with rfl | he
      · exact ⟨(name, cs), by simp, rfl,
          pickContrast_facts cs (hnd (name, cs) (by simp)) used prev hinv codings used' hpc⟩
      · obtain ⟨t, ht, h1, h2⟩ :=
          ih (fun t ht => hnd t (by simp [ht])) used' (prev ++ [cs]) hinv' tail hrest e he
        exact ⟨t, by simp [ht], h1, h2⟩

/-- everything the pipeline proof needs about one analysis group -/
theorem pickContrasts_group (g : List (String × List Factor)) (hnd : ∀ t ∈ g, t.2.Nodup) :
    ∃ out, pickContrasts g = .ok out ∧ out.map (·.1) = g.map (·.1) ∧
      (∀ U, cnt (out.flatMap (·.2)) U = if inDown (g.map (·.2)) U = true then 1 else 0) ∧
      (∀ e ∈ out, ∃ t ∈ g, e.1 = t.1 ∧ TermFacts t.2 e.2) := by
  obtain ⟨out, hok, hn, _, hc⟩ := pickContrasts_spec g hnd
  refine ⟨out, hok, hn, hc, ?_⟩
  exact pickContrastsAux_facts g hnd [] [] (fun S => by simp [inDown]) out hok


end FormulaeModel.Contrasts
