import FormulaeModel.Proofs.RowsEval
set_option linter.unusedSimpArgs false
set_option linter.unusedSectionVars false
/-
Helper lemmas for C06 (part 7): a purely syntactic sufficient condition for the data part of the
guard.  `D13Free env e` (defined through the evaluated arguments of the `C/T/S` call nodes) holds
whenever no `C/T/S` call of `e` is written with a `levels` argument and no name in `e` refers to an
ordered categorical column of the training frame.
-/
namespace FormulaeModel.Design
open FormulaeModel

/-- the keyword of an argument expression (`name = value`) -/
def kwName : Expr → Option String
  | .assign (.variable t) _ _ => some t.lexeme
  | _ => none

def posCount : Args → Nat
  | .nil => 0
  | .last e => if (kwName e).isSome then 0 else 1
  | .more e _ rest => (if (kwName e).isSome then 0 else 1) + posCount rest

def kwNames : Args → List String
  | .nil => []
  | .last e => (kwName e).toList
  | .more e _ rest => (kwName e).toList ++ kwNames rest

def boxCallees : List String := ["C", "T", "S"]

mutual
/-- no `C/T/S` call is written with a third positional argument or a keyword `levels` -/
def NoLevelsArg : Expr → Bool
  | .grouping _ e _ => NoLevelsArg e
  | .unary _ r => NoLevelsArg r
  | .binary l _ r => NoLevelsArg l && NoLevelsArg r
  | .call c _ as _ =>
    NoLevelsArgArgs as &&
    (match c with
     | .variable n =>
       if boxCallees.contains n.lexeme then decide (posCount as ≤ 2) && !(kwNames as).contains "levels"
       else true
     | _ => true)
  | .brace _ e _ => NoLevelsArg e
  | .assign _ _ v => NoLevelsArg v
  | _ => true
def NoLevelsArgArgs : Args → Bool
  | .nil => true
  | .last e => NoLevelsArg e
  | .more e _ rest => NoLevelsArg e && NoLevelsArgArgs rest
end

/-- the column `name` of the frame (if any) is not an ordered categorical -/
def unorderedCol (env : Env) (name : String) : Bool :=
  match env.frame.col? name with
  | some c => (match c.kind with
    | .categorical true _ => false
    | _ => true)
  | none => true

mutual
/-- no name in the expression refers to an ordered categorical column of the frame -/
def UnorderedNames (env : Env) : Expr → Bool
  | .grouping _ e _ => UnorderedNames env e
  | .unary _ r => UnorderedNames env r
  | .binary l _ r => UnorderedNames env l && UnorderedNames env r
  | .call _ _ as _ => UnorderedNamesArgs env as
  | .brace _ e _ => UnorderedNames env e
  | .assign _ _ v => UnorderedNames env v
  | .variable n => unorderedCol env n.lexeme
  | .subset n _ _ _ => unorderedCol env n.lexeme
  | .quoted t => unorderedCol env (String.ofList ((t.lexeme.toList.drop 1).dropLast))
  | .literal _ => true
def UnorderedNamesArgs (env : Env) : Args → Bool
  | .nil => true
  | .last e => UnorderedNames env e
  | .more e _ rest => UnorderedNames env e && UnorderedNamesArgs env rest
end

theorem lookupName_notOrdered (env : Env) (hn : env.namesScalar = true) (name : String) (v : Val)
    (hu : unorderedCol env name = true) (h : lookupName env name = .ok v) : v.notOrdered = true := by
  unfold lookupName at h
  unfold unorderedCol at hu
  cases hc : env.frame.col? name with
  | some c =>
    simp only [hc, pure_ok] at h hu
    subst h
    unfold colVal
    cases hk : c.kind with
    | numeric b => rfl
    | string => rfl
    | categorical o cats =>
      rw [hk] at hu
      cases o with
      | false => rfl
      | true => simp at hu
  | none =>
    simp only [hc] at h
    split at h
    · simp only [pure_ok] at h; subst h; rfl
    · split at h
      · simp only [pure_ok] at h; subst h; rfl
      · split at h
        · rename_i p hp
          simp only [pure_ok] at h
          subst h
          have hm := List.mem_of_find?_eq_some hp
          simp only [Env.namesScalar, List.all_eq_true] at hn
          have := hn p hm
          revert this
          cases p.2 <;> simp [Val.isScalar, Val.notOrdered]
        · simp at h

theorem vecOp_notOrdered (f : Rat → Rat → Option Rat) (a b c : Val) (h : vecOp f a b = .ok c) :
    c.notOrdered = true := by
  unfold vecOp at h
  repeat' split at h
  all_goals first
    | (simp at h; done)
    | (simp only [pure_ok] at h; subst h; rfl)

def CallArgs.unordered (a : CallArgs) : Prop :=
  (∀ v ∈ a.pos, v.notOrdered = true) ∧ (∀ p ∈ a.kw, p.2.notOrdered = true)

theorem CallArgs.get_unordered (a : CallArgs) (h : a.unordered) (i : Nat) (name : String) :
    (a.get i name).notOrdered = true := by
  simp only [CallArgs.get]
  cases hp : a.pos[i]? with
  | some v => exact h.1 v (List.mem_of_getElem? hp)
  | none =>
    cases hk : List.find? (fun x => x.1 == name) a.kw with
    | none => rfl
    | some p => exact h.2 p (List.mem_of_find?_eq_some hk)

theorem err_bind {α β : Type} (e : Err) (f : α → M β) :
    ((Except.error e : M α) >>= f) = Except.error e := rfl

theorem binaryFn_notOrdered (x s v : Val) (h : binaryFn x s = .ok v) : v.notOrdered = true := by
  unfold binaryFn at h
  repeat' split at h
  all_goals (try simp only [err_bind, pure_bind] at h)
  all_goals (repeat' split at h)
  all_goals first
    | (cases h; done)
    | (simp only [pure_ok] at h; subst h; rfl)

theorem proportionFn_notOrdered (s t v : Val) (h : proportionFn s t = .ok v) : v.notOrdered = true := by
  unfold proportionFn at h
  split at h
  · simp only [] at h
    repeat' split at h
    all_goals (try simp only [err_bind, pure_bind] at h)
    all_goals (repeat' split at h)
    all_goals first
      | (cases h; done)
      | (simp only [pure_ok] at h; subst h; rfl)
  · cases h

theorem applyCallee_notOrdered (callee : String) (a : CallArgs) (own : Option Rat) (v : Val) (o : Option Rat)
    (ha : a.unordered) (h : applyCallee callee a own = .ok (v, o)) : v.notOrdered = true := by
  unfold applyCallee at h
  split at h
  · split at h
    · rename_i w hw
      simp only [pure_ok, Prod.mk.injEq] at h
      obtain ⟨rfl, _⟩ := h
      exact ha.1 _ (by simp [hw])
    · simp at h
  · repeat' split at h
    all_goals first
      | (simp at h; done)
      | (simp only [pure_ok, Prod.mk.injEq] at h; obtain ⟨rfl, _⟩ := h; rfl)
  · simp only [pure_ok, Prod.mk.injEq] at h; obtain ⟨rfl, _⟩ := h; rfl
  · simp only [pure_ok, Prod.mk.injEq] at h; obtain ⟨rfl, _⟩ := h; rfl
  · simp only [bind_ok] at h
    obtain ⟨c, _, l, _, h⟩ := h
    split at h
    · simp only [bind_ok, pure_ok, Prod.mk.injEq] at h
      obtain ⟨_, _, rfl, _⟩ := h; rfl
    · simp only [bind_ok, pure_ok, Prod.mk.injEq] at h
      obtain ⟨_, _, _, _, rfl, _⟩ := h; rfl
  · simp only [bind_ok, pure_ok, Prod.mk.injEq] at h
    obtain ⟨_, _, _, _, _, _, rfl, _⟩ := h; rfl
  · simp only [bind_ok, pure_ok, Prod.mk.injEq] at h
    obtain ⟨_, _, _, _, _, _, rfl, _⟩ := h; rfl
  · split at h
    · simp only [pure_ok, Prod.mk.injEq] at h; obtain ⟨rfl, _⟩ := h; rfl
    · simp only [pure_ok, Prod.mk.injEq] at h; obtain ⟨rfl, _⟩ := h; rfl
    · simp at h
  · simp at h

theorem finishCall_notOrdered (callee : String) (a : CallArgs) (own : Option Rat) (v : Val) (o : Option Rat)
    (ha : a.unordered) (h : finishCall callee a own = .ok (v, o)) : v.notOrdered = true := by
  unfold finishCall at h
  split at h
  · simp only [bind_ok, pure_ok, Prod.mk.injEq] at h
    obtain ⟨w, hw, rfl, _⟩ := h
    exact binaryFn_notOrdered _ _ _ hw
  · simp only [bind_ok, pure_ok, Prod.mk.injEq] at h
    obtain ⟨w, hw, rfl, _⟩ := h
    exact binaryFn_notOrdered _ _ _ hw
  · simp only [bind_ok, pure_ok, Prod.mk.injEq] at h
    obtain ⟨w, hw, rfl, _⟩ := h
    exact proportionFn_notOrdered _ _ _ hw
  · simp only [bind_ok, pure_ok, Prod.mk.injEq] at h
    obtain ⟨w, hw, rfl, _⟩ := h
    exact proportionFn_notOrdered _ _ _ hw
  · simp only [bind_ok, pure_ok, Prod.mk.injEq] at h
    obtain ⟨w, hw, rfl, _⟩ := h
    exact proportionFn_notOrdered _ _ _ hw
  · exact applyCallee_notOrdered callee a own v o ha h


theorem CallArgs.unordered_snoc_pos (acc : CallArgs) (x : Val) (h : acc.unordered) (hx : x.notOrdered = true) :
    CallArgs.unordered ⟨acc.pos ++ [x], acc.kw⟩ := by
  refine ⟨?_, h.2⟩
  intro v hv
  simp only [List.mem_append, List.mem_singleton] at hv
  rcases hv with hv | rfl
  · exact h.1 v hv
  · exact hx

theorem CallArgs.unordered_snoc_kw (acc : CallArgs) (k : String) (x : Val) (h : acc.unordered)
    (hx : x.notOrdered = true) : CallArgs.unordered ⟨acc.pos, acc.kw ++ [(k, x)]⟩ := by
  refine ⟨h.1, ?_⟩
  intro p hp
  simp only [List.mem_append, List.mem_singleton] at hp
  rcases hp with hp | rfl
  · exact h.2 p hp
  · exact hx

section
variable (env : Env) (hn : env.namesScalar = true)
include hn

mutual
/-- no expression over unordered names evaluates to an ordered categorical; the keyword reported
by `evalArg` is the syntactic one -/
theorem evalArg_unordered : ∀ (e : Expr), UnorderedNames env e = true →
    ∀ (ts : Option TS) (kw : Option String) (v : Val) (t : TS), evalArg env e ts = .ok (kw, v, t) →
      v.notOrdered = true ∧ kw = kwName e
  | .grouping lp e rp, hu, ts, kw, v, t, h => by
    simp only [UnorderedNames] at hu
    simp only [evalArg, bind_ok, pure_ok, Prod.mk.injEq] at h
    obtain ⟨⟨v', t'⟩, h1, rfl, rfl, rfl⟩ := h
    rw [posOnly_ok] at h1
    exact ⟨(evalArg_unordered e hu _ _ _ _ h1).1, rfl⟩
  | .variable n, hu, ts, kw, v, t, h => by
    simp only [UnorderedNames] at hu
    simp only [evalArg, bind_ok, pure_ok, Prod.mk.injEq] at h
    obtain ⟨v', h1, rfl, rfl, rfl⟩ := h
    exact ⟨lookupName_notOrdered env hn _ _ hu h1, rfl⟩
  | .subset n _ _ _, hu, ts, kw, v, t, h => by
    simp only [UnorderedNames] at hu
    simp only [evalArg, bind_ok, pure_ok, Prod.mk.injEq] at h
    obtain ⟨v', h1, rfl, rfl, rfl⟩ := h
    exact ⟨lookupName_notOrdered env hn _ _ hu h1, rfl⟩
  | .quoted q, hu, ts, kw, v, t, h => by
    simp only [UnorderedNames] at hu
    simp only [evalArg, bind_ok, pure_ok, Prod.mk.injEq] at h
    obtain ⟨v', h1, rfl, rfl, rfl⟩ := h
    exact ⟨lookupName_notOrdered env hn _ _ hu h1, rfl⟩
  | .literal q, hu, ts, kw, v, t, h => by
    simp only [evalArg] at h
    repeat' split at h
    all_goals first
      | (cases h; done)
      | (simp only [pure_ok, Prod.mk.injEq] at h; obtain ⟨rfl, rfl, rfl⟩ := h; exact ⟨rfl, rfl⟩)
  | .unary op r, hu, ts, kw, v, t, h => by
    simp only [UnorderedNames] at hu
    simp only [evalArg, bind_ok] at h
    obtain ⟨⟨v', t'⟩, h1, h3⟩ := h
    rw [posOnly_ok] at h1
    simp only at h3
    split at h3
    · simp only [bind_ok, pure_ok, Prod.mk.injEq] at h3
      obtain ⟨w, hw, rfl, rfl, rfl⟩ := h3
      exact ⟨vecOp_notOrdered _ _ _ _ hw, rfl⟩
    · simp only [pure_ok, Prod.mk.injEq] at h3
      obtain ⟨rfl, rfl, rfl⟩ := h3
      exact ⟨(evalArg_unordered r hu _ _ _ _ h1).1, rfl⟩
  | .binary l op r, hu, ts, kw, v, t, h => by
    simp only [evalArg, bind_ok] at h
    obtain ⟨⟨a, sa⟩, h1, ⟨b, sb⟩, h1', h3⟩ := h
    simp only at h3
    repeat' split at h3
    all_goals first
      | (cases h3; done)
      | (simp only [bind_ok, pure_ok, Prod.mk.injEq] at h3
         obtain ⟨w, hw, rfl, rfl, rfl⟩ := h3
         exact ⟨vecOp_notOrdered _ _ _ _ hw, rfl⟩)
  | .call c lp as rp, hu, ts, kw, v, t, h => by
    cases c
    case «variable» n =>
      simp only [UnorderedNames] at hu
      simp only [evalArg, bind_ok] at h
      obtain ⟨⟨args, sts⟩, h1, ⟨v', own⟩, h3, h4⟩ := h
      simp only [pure_ok, Prod.mk.injEq] at h4
      obtain ⟨rfl, rfl, rfl⟩ := h4
      have := (evalArgs_unordered as hu ts 0 ⟨[], []⟩ args sts (by simp [CallArgs.unordered]) h1).1
      exact ⟨finishCall_notOrdered _ _ _ _ _ this h3, rfl⟩
    all_goals simp [evalArg] at h
  | .brace lb e rb, hu, ts, kw, v, t, h => by
    simp only [UnorderedNames] at hu
    simp only [evalArg, bind_ok, pure_ok, Prod.mk.injEq] at h
    obtain ⟨⟨v', t'⟩, h1, rfl, rfl, rfl⟩ := h
    rw [posOnly_ok] at h1
    exact ⟨(evalArg_unordered e hu _ _ _ _ h1).1, rfl⟩
  | .assign n eq x, hu, ts, kw, v, t, h => by
    simp only [UnorderedNames] at hu
    simp only [evalArg, bind_ok] at h
    obtain ⟨⟨v', t'⟩, h1, h3⟩ := h
    rw [posOnly_ok] at h1
    split at h3
    · simp only [pure_ok, Prod.mk.injEq] at h3
      obtain ⟨rfl, rfl, rfl⟩ := h3
      exact ⟨(evalArg_unordered x hu _ _ _ _ h1).1, rfl⟩
    · simp at h3
/-- the evaluated argument list: no ordered categorical among the values; as many positional
values and exactly the keywords that are written -/
theorem evalArgs_unordered : ∀ (as : Args), UnorderedNamesArgs env as = true →
    ∀ (ts : Option TS) (i : Nat) (acc a : CallArgs) (sts : List TS), acc.unordered →
      evalArgs env as ts i acc = .ok (a, sts) →
      a.unordered ∧ a.pos.length = acc.pos.length + posCount as ∧
        a.kw.map (·.1) = acc.kw.map (·.1) ++ kwNames as
  | .nil, hu, ts, i, acc, a, sts, hacc, h => by
    simp only [evalArgs, pure_ok, Prod.mk.injEq] at h
    obtain ⟨rfl, rfl⟩ := h
    exact ⟨hacc, by simp [posCount], by simp [kwNames]⟩
  | .last e, hu, ts, i, acc, a, sts, hacc, h => by
    simp only [UnorderedNamesArgs] at hu
    simp only [evalArgs, bind_ok] at h
    obtain ⟨⟨kw, x, st⟩, h1, h3⟩ := h
    obtain ⟨hx, hkw⟩ := evalArg_unordered e hu _ _ _ _ h1
    cases kw with
    | some k =>
      simp only [pure_ok, Prod.mk.injEq] at h3
      obtain ⟨rfl, rfl⟩ := h3
      refine ⟨CallArgs.unordered_snoc_kw _ _ _ hacc hx, ?_, ?_⟩
      · simp [posCount, ← hkw]
      · simp [kwNames, ← hkw]
    | none =>
      simp only [pure_ok, Prod.mk.injEq] at h3
      obtain ⟨rfl, rfl⟩ := h3
      refine ⟨CallArgs.unordered_snoc_pos _ _ hacc hx, ?_, ?_⟩
      · simp [posCount, ← hkw]
      · simp [kwNames, ← hkw]
  | .more e c rest, hu, ts, i, acc, a, sts, hacc, h => by
    simp only [UnorderedNamesArgs, Bool.and_eq_true] at hu
    simp only [evalArgs, bind_ok] at h
    obtain ⟨⟨kw, x, st⟩, h1, h3⟩ := h
    obtain ⟨hx, hkw⟩ := evalArg_unordered e hu.1 _ _ _ _ h1
    cases kw with
    | some k =>
      simp only [bind_ok, pure_ok, Prod.mk.injEq] at h3
      obtain ⟨⟨a', sts'⟩, h4, rfl, rfl⟩ := h3
      obtain ⟨ha, hp, hk⟩ := evalArgs_unordered rest hu.2 ts (i + 1) _ a' sts'
        (CallArgs.unordered_snoc_kw _ _ _ hacc hx) h4
      refine ⟨ha, ?_, ?_⟩
      · simp only [posCount, ← hkw, Option.isSome_some, if_true] at hp ⊢; omega
      · simp only [kwNames, ← hkw, List.map_append, List.map_cons, List.map_nil, Option.toList_some,
          List.append_assoc] at hk ⊢
        exact hk
    | none =>
      simp only [bind_ok, pure_ok, Prod.mk.injEq] at h3
      obtain ⟨⟨a', sts'⟩, h4, rfl, rfl⟩ := h3
      obtain ⟨ha, hp, hk⟩ := evalArgs_unordered rest hu.2 ts (i + 1) _ a' sts'
        (CallArgs.unordered_snoc_pos _ _ hacc hx) h4
      refine ⟨ha, ?_, ?_⟩
      · simp only [posCount, ← hkw, Option.isSome_none, Bool.false_eq_true, if_false,
          List.length_append, List.length_singleton] at hp ⊢; omega
      · simp only [kwNames, ← hkw, Option.toList_none, List.nil_append] at hk ⊢
        exact hk
end
end


theorem CallArgs.get_levels_none (a : CallArgs) (hp : a.pos.length ≤ 2)
    (hk : "levels" ∉ a.kw.map (·.1)) : a.get 2 "levels" = .pyNone := by
  simp only [CallArgs.get]
  rw [List.getElem?_eq_none (by omega)]
  have : List.find? (fun x => x.1 == "levels") a.kw = none := by
    rw [List.find?_eq_none]
    intro p hp' hpe
    apply hk
    simp only [List.mem_map]
    exact ⟨p, hp', by simpa using hpe⟩
  simp [this]

section
variable (env : Env) (hn : env.namesScalar = true)
include hn

mutual
/-- **the data part of the guard, syntactically**: if no `C/T/S` call is written with a `levels`
argument and no name refers to an ordered categorical column, the expression is outside D13 -/
theorem d13Free_of_syntactic : ∀ (e : Expr), NoLevelsArg e = true → UnorderedNames env e = true →
    D13Free env e = true
  | .grouping _ e _, h1, h2 => by
    simp only [NoLevelsArg, UnorderedNames, D13Free] at *; exact d13Free_of_syntactic e h1 h2
  | .unary _ r, h1, h2 => by
    simp only [NoLevelsArg, UnorderedNames, D13Free] at *; exact d13Free_of_syntactic r h1 h2
  | .binary l _ r, h1, h2 => by
    simp only [NoLevelsArg, UnorderedNames, D13Free, Bool.and_eq_true] at *
    exact ⟨d13Free_of_syntactic l h1.1 h2.1, d13Free_of_syntactic r h1.2 h2.2⟩
  | .call c _ as _, h1, h2 => by
    simp only [NoLevelsArg, UnorderedNames, D13Free, Bool.and_eq_true] at *
    refine ⟨d13FreeArgs_of_syntactic as h1.1 h2, ?_⟩
    cases c
    case «variable» n =>
      simp only
      cases he : evalArgs env as none 0 ⟨[], []⟩ with
      | error _ => rfl
      | ok r =>
        obtain ⟨a, sts⟩ := r
        simp only
        obtain ⟨hu, hp, hk⟩ := evalArgs_unordered env hn as h2 none 0 ⟨[], []⟩ a sts
          (by simp [CallArgs.unordered]) he
        have h12 := h1.2
        simp only at h12
        unfold d13ArgsOk
        by_cases hb : boxCallees.contains n.lexeme = true
        · simp only [hb, if_true, Bool.and_eq_true, decide_eq_true_eq, Bool.not_eq_true'] at h12
          have hcond : (n.lexeme == "C" || n.lexeme == "T" || n.lexeme == "S") = true := by
            simpa [boxCallees, Bool.or_assoc] using hb
          simp only [hcond, if_true, Bool.and_eq_true]
          constructor
          · rw [CallArgs.get_levels_none a (by simp at hp; omega) (by
              rw [hk]
              have := h12.2
              intro hm
              simp only [List.map_nil, List.nil_append] at hm
              rw [← List.contains_iff_mem] at hm
              rw [hm] at this
              cases this)]
            rfl
          · exact CallArgs.get_unordered a hu 0 "data"
        · have hcond : (n.lexeme == "C" || n.lexeme == "T" || n.lexeme == "S") = false := by
            simpa [boxCallees, Bool.or_assoc] using hb
          simp [hcond]
    all_goals rfl
  | .brace _ e _, h1, h2 => by
    simp only [NoLevelsArg, UnorderedNames, D13Free] at *; exact d13Free_of_syntactic e h1 h2
  | .assign _ _ v, h1, h2 => by
    simp only [NoLevelsArg, UnorderedNames, D13Free] at *; exact d13Free_of_syntactic v h1 h2
  | .variable _, _, _ => rfl
  | .subset _ _ _ _, _, _ => rfl
  | .quoted _, _, _ => rfl
  | .literal _, _, _ => rfl
theorem d13FreeArgs_of_syntactic : ∀ (as : Args), NoLevelsArgArgs as = true →
    UnorderedNamesArgs env as = true → D13FreeArgs env as = true
  | .nil, _, _ => rfl
  | .last e, h1, h2 => by
    simp only [NoLevelsArgArgs, UnorderedNamesArgs, D13FreeArgs] at *; exact d13Free_of_syntactic e h1 h2
  | .more e _ rest, h1, h2 => by
    simp only [NoLevelsArgArgs, UnorderedNamesArgs, D13FreeArgs, Bool.and_eq_true] at *
    exact ⟨d13Free_of_syntactic e h1.1 h2.1, d13FreeArgs_of_syntactic rest h1.2 h2.2⟩
end
end


end FormulaeModel.Design
