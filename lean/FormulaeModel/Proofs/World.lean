import FormulaeModel.Model.World
/-
Helper lemmas for C07: the evaluator of call trees returns a state of the shape of the tree, and
on a state of that shape (prediction) it returns the state it was given.
-/
namespace FormulaeModel.World
open FormulaeModel FormulaeModel.Design

theorem posOnly_ok {r : M ArgR} {v : Val} {st : TS} (h : posOnly r = .ok (v, st)) :
    ∃ k, r = .ok (k, v, st) := by
  unfold posOnly at h
  cases r with
  | error e => simp [bind, Except.bind] at h
  | ok a =>
    obtain ⟨k, v', st'⟩ := a
    cases k <;> simp [bind, Except.bind, pure, Except.pure] at h
    · exact ⟨none, by simp [h]⟩

theorem drop_cons {α} : ∀ (cs : List α) (i : Nat) (s : α) (rest : List α),
    cs.drop i = s :: rest → cs[i]? = some s ∧ cs.drop (i + 1) = rest
  | [], i, s, rest, h => by simp at h
  | c :: cs, 0, s, rest, h => by simp at h; simp [h]
  | c :: cs, i + 1, s, rest, h => by
    simp only [List.drop_succ_cons] at h
    have := drop_cons cs i s rest h
    simpa using this

/-- what a call does to the state of its own transform instance: `center` leaves it set (and as it
was if it was set); every other modelled callee returns it as it was -/
theorem applyCallee_own (callee : String) (a : CallArgs) (own : Option Rat) (v : Val)
    (own' : Option Rat) (h : applyCallee callee a own = .ok (v, own')) :
    (callee ≠ "center" → own' = own) ∧ (callee = "center" → own'.isSome) ∧
    (own.isSome → own' = own) := by
  unfold applyCallee at h
  simp only [bind, Except.bind, pure, Except.pure] at h
  repeat' split at h
  all_goals (try (simp at h; done))
  all_goals (simp at h; grind)

theorem finishCall_own (callee : String) (a : CallArgs) (own : Option Rat) (v : Val)
    (own' : Option Rat) (h : finishCall callee a own = .ok (v, own')) :
    (callee ≠ "center" → own' = own) ∧ (callee = "center" → own'.isSome) ∧
    (own.isSome → own' = own) := by
  unfold finishCall at h
  split at h
  case h_6 => exact applyCallee_own _ _ _ _ _ h
  all_goals
    simp only [bind, Except.bind, pure, Except.pure] at h
    split at h <;> simp at h
    simp [h.2]


-- ---------------------------------------------------------------------------------------------
-- every state returned by the evaluator has the shape of the call tree
-- ---------------------------------------------------------------------------------------------
mutual
theorem evalArg_shape (env : Env) : ∀ (e : Expr) (ts : Option TS) (k : Option String) (v : Val)
    (t : TS), evalArg env e ts = .ok (k, v, t) → shapeOf e t = true
  | .grouping _ e _, ts, k, v, t, h => by
    simp only [evalArg, bind, Except.bind, pure, Except.pure] at h
    split at h
    · simp at h
    · rename_i x hx
      obtain ⟨v1, s1⟩ := x
      obtain ⟨k1, hk⟩ := posOnly_ok hx
      have := evalArg_shape env e ts k1 v1 s1 hk
      simp at h
      simp [shapeOf, ← h.2.2, this]
  | .variable n, ts, k, v, t, h => by
    simp only [evalArg, bind, Except.bind, pure, Except.pure] at h
    split at h <;> simp at h
    simp [shapeOf, ← h.2.2]
  | .subset n _ _ _, ts, k, v, t, h => by
    simp only [evalArg, bind, Except.bind, pure, Except.pure] at h
    split at h <;> simp at h
    simp [shapeOf, ← h.2.2]
  | .quoted q, ts, k, v, t, h => by
    simp only [evalArg, bind, Except.bind, pure, Except.pure] at h
    split at h <;> simp at h
    simp [shapeOf, ← h.2.2]
  | .literal q, ts, k, v, t, h => by
    simp only [evalArg, bind, Except.bind, pure, Except.pure] at h
    repeat' split at h
    all_goals (try (simp at h; done))
    all_goals (simp at h; simp [shapeOf, ← h.2.2])
  | .unary op r, ts, k, v, t, h => by
    simp only [evalArg, bind, Except.bind, pure, Except.pure] at h
    split at h
    · simp at h
    · rename_i x hx
      obtain ⟨v1, s1⟩ := x
      obtain ⟨k1, hk⟩ := posOnly_ok hx
      have := evalArg_shape env r _ k1 v1 s1 hk
      repeat' split at h
      all_goals (try (simp at h; done))
      all_goals (simp at h; simp [shapeOf, ← h.2.2, this])
  | .binary l op r, ts, k, v, t, h => by
    simp only [evalArg, bind, Except.bind, pure, Except.pure] at h
    split at h
    · simp at h
    · rename_i x hx
      obtain ⟨v1, s1⟩ := x
      obtain ⟨k1, hk⟩ := posOnly_ok hx
      have h1 := evalArg_shape env l _ k1 v1 s1 hk
      simp only at h
      split at h
      · simp at h
      · rename_i y hy
        obtain ⟨v2, s2⟩ := y
        obtain ⟨k2, hk2⟩ := posOnly_ok hy
        have h2 := evalArg_shape env r _ k2 v2 s2 hk2
        repeat' split at h
        all_goals (try (simp at h; done))
        all_goals (simp at h; simp [shapeOf, ← h.2.2, h1, h2])
  | .call c _ as _, ts, k, v, t, h => by
    simp only [evalArg, bind, Except.bind, pure, Except.pure] at h
    split at h
    · rename_i n
      split at h
      · simp at h
      · rename_i x hx
        obtain ⟨a, sts⟩ := x
        have h1 := evalArgs_shape env as ts 0 ⟨[], []⟩ a sts hx
        simp only at h
        split at h
        · simp at h
        · rename_i y hy
          obtain ⟨v2, own⟩ := y
          have h2 := finishCall_own _ _ _ _ _ hy
          simp at h
          simp only [shapeOf, ← h.2.2, h1, Bool.and_true, Bool.or_eq_true, bne_iff_ne, ne_eq]
          by_cases hc : n.lexeme = "center"
          · exact Or.inr (h2.2.1 hc)
          · exact Or.inl (by simpa using hc)
    · simp at h
  | .brace _ e _, ts, k, v, t, h => by
    simp only [evalArg, bind, Except.bind, pure, Except.pure] at h
    split at h
    · simp at h
    · rename_i x hx
      obtain ⟨v1, s1⟩ := x
      obtain ⟨k1, hk⟩ := posOnly_ok hx
      have := evalArg_shape env e _ k1 v1 s1 hk
      simp at h
      simp [shapeOf, ← h.2.2, this]
  | .assign n _ e, ts, k, v, t, h => by
    simp only [evalArg, bind, Except.bind, pure, Except.pure] at h
    split at h
    · simp at h
    · rename_i x hx
      obtain ⟨v1, s1⟩ := x
      obtain ⟨k1, hk⟩ := posOnly_ok hx
      have := evalArg_shape env e ts k1 v1 s1 hk
      split at h <;> simp at h
      simp [shapeOf, ← h.2.2, this]
theorem evalArgs_shape (env : Env) : ∀ (as : Args) (ts : Option TS) (i : Nat) (acc : CallArgs)
    (r : CallArgs) (sts : List TS), evalArgs env as ts i acc = .ok (r, sts) → shapesOf as sts = true
  | .nil, ts, i, acc, r, sts, h => by
    simp only [evalArgs, pure, Except.pure] at h
    simp at h; obtain ⟨-, h2⟩ := h; subst h2; simp [shapesOf]
  | .last e, ts, i, acc, r, sts, h => by
    simp only [evalArgs, bind, Except.bind, pure, Except.pure] at h
    split at h
    · simp at h
    · rename_i x hx
      obtain ⟨k1, v1, s1⟩ := x
      have := evalArg_shape env e _ k1 v1 s1 hx
      split at h <;> simp at h <;> (rename_i hh; simp at hh; simp [shapesOf, ← h.2, ← hh.2.2, this])
  | .more e _ rest, ts, i, acc, r, sts, h => by
    simp only [evalArgs, bind, Except.bind, pure, Except.pure] at h
    split at h
    · simp at h
    · rename_i x hx
      obtain ⟨k1, v1, s1⟩ := x
      have h1 := evalArg_shape env e _ k1 v1 s1 hx
      split at h
      all_goals
        rename_i hh
        simp at hh
        split at h
        · simp at h
        · rename_i y hy
          obtain ⟨a2, sts2⟩ := y
          have h2 := evalArgs_shape env rest ts (i + 1) _ a2 sts2 hy
          simp at h
          simp [shapesOf, ← h.2, ← hh.2.2, h1, h2]
end

-- ---------------------------------------------------------------------------------------------
-- on a state of the shape of the call tree, the evaluator returns the state it was given
-- ---------------------------------------------------------------------------------------------
theorem shapeOf_unary {op : Token} {r : Expr} {t : TS} (h : shapeOf (.unary op r) t = true) :
    ∃ s, t = .node none [s] ∧ shapeOf r s = true := by
  unfold shapeOf at h
  split at h <;> simp_all

theorem shapeOf_leafy {e : Expr} {t : TS}
    (he : (∃ n, e = .variable n) ∨ (∃ a b c d, e = .subset a b c d) ∨ (∃ q, e = .quoted q) ∨ (∃ q, e = .literal q))
    (h : shapeOf e t = true) : t = .leaf := by
  unfold shapeOf at h
  split at h <;> simp_all

theorem shapeOf_binary {op : Token} {l r : Expr} {t : TS} (h : shapeOf (.binary l op r) t = true) :
    ∃ a b, t = .node none [a, b] ∧ shapeOf l a = true ∧ shapeOf r b = true := by
  unfold shapeOf at h
  split at h <;> simp_all
  exact ⟨_, _, ⟨rfl, rfl⟩, h⟩

theorem shapeOf_brace {lb rb : Token} {e : Expr} {t : TS} (h : shapeOf (.brace lb e rb) t = true) :
    ∃ s, t = .node none [s] ∧ shapeOf e s = true := by
  unfold shapeOf at h
  split at h <;> simp_all

theorem shapeOf_call {c : Expr} {lp rp : Token} {as : Args} {t : TS} (h : shapeOf (.call c lp as rp) t = true) :
    ∃ n own cs, c = .variable n ∧ t = .node own cs ∧ (n.lexeme = "center" → own.isSome) ∧ shapesOf as cs = true := by
  unfold shapeOf at h
  split at h <;> simp_all
  grind

theorem shapesOf_last {e : Expr} {cs : List TS} (h : shapesOf (.last e) cs = true) :
    ∃ s, cs = [s] ∧ shapeOf e s = true := by
  unfold shapesOf at h
  split at h <;> simp_all

theorem shapesOf_more {e : Expr} {c : Token} {rest : Args} {cs : List TS}
    (h : shapesOf (.more e c rest) cs = true) :
    ∃ s cs', cs = s :: cs' ∧ shapeOf e s = true ∧ shapesOf rest cs' = true := by
  unfold shapesOf at h
  split at h <;> simp_all
  exact ⟨_, _, ⟨rfl, rfl⟩, h⟩

theorem shapesOf_nil {cs : List TS} (h : shapesOf .nil cs = true) : cs = [] := by
  unfold shapesOf at h
  split at h <;> simp_all

mutual
theorem evalArg_pure (env : Env) : ∀ (e : Expr) (t : TS) (k : Option String) (v : Val) (t' : TS),
    shapeOf e t = true → evalArg env e (some t) = .ok (k, v, t') → t' = t
  | .grouping _ e _, t, k, v, t', hs, h => by
    simp only [shapeOf] at hs
    simp only [evalArg, bind, Except.bind, pure, Except.pure] at h
    split at h
    · simp at h
    · rename_i x hx
      obtain ⟨v1, s1⟩ := x
      obtain ⟨k1, hk⟩ := posOnly_ok hx
      have := evalArg_pure env e t k1 v1 s1 hs hk
      simp at h; grind
  | .variable n, t, k, v, t', hs, h => by
    have := shapeOf_leafy (Or.inl ⟨n, rfl⟩) hs
    simp only [evalArg, bind, Except.bind, pure, Except.pure] at h
    split at h <;> simp at h
    grind
  | .subset a b c d, t, k, v, t', hs, h => by
    have := shapeOf_leafy (Or.inr (Or.inl ⟨a, b, c, d, rfl⟩)) hs
    simp only [evalArg, bind, Except.bind, pure, Except.pure] at h
    split at h <;> simp at h
    grind
  | .quoted q, t, k, v, t', hs, h => by
    have := shapeOf_leafy (Or.inr (Or.inr (Or.inl ⟨q, rfl⟩))) hs
    simp only [evalArg, bind, Except.bind, pure, Except.pure] at h
    split at h <;> simp at h
    grind
  | .literal q, t, k, v, t', hs, h => by
    have := shapeOf_leafy (Or.inr (Or.inr (Or.inr ⟨q, rfl⟩))) hs
    simp only [evalArg, bind, Except.bind, pure, Except.pure] at h
    repeat' split at h
    all_goals (try (simp at h; done))
    all_goals (simp at h; grind)
  | .unary op r, t, k, v, t', hs, h => by
    obtain ⟨s, rfl, hs'⟩ := shapeOf_unary hs
    simp only [evalArg, bind, Except.bind, pure, Except.pure, TS.child] at h
    split at h
    · simp at h
    · rename_i x hx
      obtain ⟨v1, s1⟩ := x
      obtain ⟨k1, hk⟩ := posOnly_ok hx
      have := evalArg_pure env r s k1 v1 s1 hs' (by simpa using hk)
      repeat' split at h
      all_goals (try (simp at h; done))
      all_goals (simp at h; grind)
  | .binary l op r, t, k, v, t', hs, h => by
    obtain ⟨a, b, rfl, ha, hb⟩ := shapeOf_binary hs
    simp only [evalArg, bind, Except.bind, pure, Except.pure, TS.child] at h
    split at h
    · simp at h
    · rename_i x hx
      obtain ⟨v1, s1⟩ := x
      obtain ⟨k1, hk⟩ := posOnly_ok hx
      have h1 := evalArg_pure env l a k1 v1 s1 ha (by simpa using hk)
      simp only at h
      split at h
      · simp at h
      · rename_i y hy
        obtain ⟨v2, s2⟩ := y
        obtain ⟨k2, hk2⟩ := posOnly_ok hy
        have h2 := evalArg_pure env r b k2 v2 s2 hb (by simpa using hk2)
        repeat' split at h
        all_goals (try (simp at h; done))
        all_goals (simp at h; grind)
  | .call c _ as _, t, k, v, t', hs, h => by
    obtain ⟨n, own, cs, rfl, rfl, hc, hcs⟩ := shapeOf_call hs
    simp only [evalArg, bind, Except.bind, pure, Except.pure, TS.own] at h
    split at h
    · simp at h
    · rename_i x hx
      obtain ⟨a, sts⟩ := x
      have h1 := evalArgs_pure env as own cs 0 ⟨[], []⟩ a sts (by simpa using hcs) hx
      simp only at h
      split at h
      · simp at h
      · rename_i y hy
        obtain ⟨v2, own'⟩ := y
        have h2 := finishCall_own _ _ _ _ _ hy
        have : own' = own := by
          by_cases hcc : n.lexeme = "center"
          · exact h2.2.2 (hc hcc)
          · exact h2.1 hcc
        simp at h; simp at h1; grind
  | .brace _ e _, t, k, v, t', hs, h => by
    obtain ⟨s, rfl, hs'⟩ := shapeOf_brace hs
    simp only [evalArg, bind, Except.bind, pure, Except.pure, TS.child] at h
    split at h
    · simp at h
    · rename_i x hx
      obtain ⟨v1, s1⟩ := x
      obtain ⟨k1, hk⟩ := posOnly_ok hx
      have := evalArg_pure env e s k1 v1 s1 hs' (by simpa using hk)
      simp at h; grind
  | .assign n _ e, t, k, v, t', hs, h => by
    simp only [shapeOf] at hs
    simp only [evalArg, bind, Except.bind, pure, Except.pure] at h
    split at h
    · simp at h
    · rename_i x hx
      obtain ⟨v1, s1⟩ := x
      obtain ⟨k1, hk⟩ := posOnly_ok hx
      have := evalArg_pure env e t k1 v1 s1 hs hk
      split at h <;> simp at h
      grind
theorem evalArgs_pure (env : Env) : ∀ (as : Args) (own : Option Rat) (cs : List TS) (i : Nat)
    (acc : CallArgs) (r : CallArgs) (sts : List TS), shapesOf as (cs.drop i) = true →
    evalArgs env as (some (.node own cs)) i acc = .ok (r, sts) → sts = cs.drop i
  | .nil, own, cs, i, acc, r, sts, hs, h => by
    have := shapesOf_nil hs
    simp only [evalArgs, pure, Except.pure] at h
    simp at h; grind
  | .last e, own, cs, i, acc, r, sts, hs, h => by
    obtain ⟨s, hd, hs'⟩ := shapesOf_last hs
    have hi := (drop_cons cs i s [] hd).1
    simp only [evalArgs, bind, Except.bind, pure, Except.pure, TS.child, hi] at h
    split at h
    · simp at h
    · rename_i x hx
      obtain ⟨k1, v1, s1⟩ := x
      have := evalArg_pure env e s k1 v1 s1 hs' hx
      split at h <;> simp at h <;> grind
  | .more e _ rest, own, cs, i, acc, r, sts, hs, h => by
    obtain ⟨s, cs', hd, hs', hrest⟩ := shapesOf_more hs
    have hi := drop_cons cs i s cs' hd
    simp only [evalArgs, bind, Except.bind, pure, Except.pure, TS.child, hi.1] at h
    split at h
    · simp at h
    · rename_i x hx
      obtain ⟨k1, v1, s1⟩ := x
      have h1 := evalArg_pure env e s k1 v1 s1 hs' hx
      split at h
      all_goals
        rename_i hh
        simp at hh
        split at h
        · simp at h
        · rename_i y hy
          obtain ⟨a2, sts2⟩ := y
          have h2 := evalArgs_pure env rest own cs (i + 1) _ a2 sts2 (by rw [hi.2]; exact hrest) hy
          simp at h
          grind
end

-- ---------------------------------------------------------------------------------------------
-- components, terms, group-specific terms: prediction returns the state it was given, and
-- forgetting the returned state gives `newComp/newTerm/newGroup` of Model/Matrices.lean
-- ---------------------------------------------------------------------------------------------
def isCallExpr (e : Expr) : Prop := (∃ c lp as rp, e = .call c lp as rp) ∨ (∃ lb x rb, e = .brace lb x rb)

theorem newCallS_out_ok (st : CompState) (env : Env) (mode : UnseenMode) (o : Matrix × Bool)
    (st' : CompState) (hE : isCallExpr st.expr)
    (h : newCallS st env mode = .ok (o, st')) : newComp st env mode = .ok o := by
  unfold newCallS at h
  unfold newComp
  generalize posOnly (evalArg env st.expr (some st.tstate)) = r at h ⊢
  rcases hE with ⟨c, lp, as, rp, hE⟩ | ⟨lb, e, rb, hE⟩
  all_goals
    simp only [hE]
    rcases r with e | ⟨v, s⟩
    all_goals
      simp only [bind, Except.bind, pure, Except.pure, Except.map] at h ⊢
      repeat' split at h
      all_goals (try (simp at h; done))
      all_goals (try (simp_all; done))

theorem newCallS_out_err (st : CompState) (env : Env) (mode : UnseenMode) (er : Err)
    (hE : isCallExpr st.expr)
    (h : newCallS st env mode = .error er) : newComp st env mode = .error er := by
  unfold newCallS at h
  unfold newComp
  generalize posOnly (evalArg env st.expr (some st.tstate)) = r at h ⊢
  rcases hE with ⟨c, lp, as, rp, hE⟩ | ⟨lb, e, rb, hE⟩
  all_goals
    simp only [hE]
    rcases r with e | ⟨v, s⟩
    all_goals
      simp only [bind, Except.bind, pure, Except.pure, Except.map] at h ⊢
      repeat' split at h
      all_goals (try (simp at h; done))
      all_goals (try (simp_all; done))
      all_goals (simp only [*]; try simp_all)

theorem posOnly_pure (env : Env) (e : Expr) (t : TS) (hs : shapeOf e t = true) (v : Val) (t' : TS)
    (h : posOnly (evalArg env e (some t)) = .ok (v, t')) : t' = t := by
  obtain ⟨k, hk⟩ := posOnly_ok h
  exact evalArg_pure env e t k v t' hs hk

theorem newCallS_pure (st : CompState) (env : Env) (mode : UnseenMode) (o : Matrix × Bool)
    (st' : CompState) (hs : shapeOf st.expr st.tstate = true)
    (h : newCallS st env mode = .ok (o, st')) : st' = st := by
  unfold newCallS at h
  have hp := posOnly_pure env st.expr st.tstate hs
  generalize posOnly (evalArg env st.expr (some st.tstate)) = r at h hp
  rcases r with e | ⟨v, s⟩
  all_goals
    simp only [bind, Except.bind, pure, Except.pure] at h
    repeat' split at h
    all_goals (try (simp at h; done))
    all_goals (try (simp at h; exact h.2.symm))
  all_goals
    have := hp _ _ rfl
    subst this
    simp only [Except.ok.injEq, Prod.mk.injEq] at h
    obtain ⟨-, rfl⟩ := h
    rfl

theorem mapM_cons_ok {α β ε} {f : α → Except ε β} {x : α} {xs : List α} {ys : List β}
    (h : (x :: xs).mapM f = .ok ys) : ∃ y ys', ys = y :: ys' ∧ f x = .ok y ∧ xs.mapM f = .ok ys' := by
  simp only [List.mapM_cons, bind, Except.bind, pure, Except.pure] at h
  split at h
  · simp at h
  · rename_i y hy
    split at h
    · simp at h
    · rename_i ys' hys
      simp at h
      exact ⟨y, ys', h.symm, hy, hys⟩

/-- `mapM` of a function that returns its argument as second component gives the list back -/
theorem mapM_snd_id {α β ε} {f : α → Except ε (β × α)} (P : α → Prop)
    (hf : ∀ x y, P x → f x = .ok y → y.2 = x) : ∀ (xs : List α) (ys : List (β × α)),
    (∀ x ∈ xs, P x) → xs.mapM f = .ok ys → ys.map (·.2) = xs
  | [], ys, _, h => by
    simp [pure, Except.pure] at h
    subst h; rfl
  | x :: xs, ys, hP, h => by
    obtain ⟨y, ys', rfl, hy, hys⟩ := mapM_cons_ok h
    simp only [List.map_cons, List.cons.injEq]
    exact ⟨hf _ _ (hP _ (by simp)) hy, mapM_snd_id P hf xs ys' (fun x hx => hP x (by simp [hx])) hys⟩

theorem mapM_map_fst {α β γ ε} {f : α → Except ε (β × γ)} {g : α → Except ε β}
    (hfg : ∀ x, (f x).map (·.1) = g x) : ∀ (xs : List α),
    (xs.mapM f).map (fun ys => ys.map (·.1)) = xs.mapM g
  | [] => by simp [pure, Except.pure, Except.map]
  | x :: xs => by
    have ih := mapM_map_fst hfg xs
    have hx := hfg x
    simp only [List.mapM_cons, bind, Except.bind, pure, Except.pure]
    cases hfx : f x with
    | error e => rw [hfx] at hx; simp [Except.map] at hx ⊢; simp [← hx]
    | ok y =>
      rw [hfx] at hx; simp only [Except.map] at hx
      rw [← hx]
      cases hfs : xs.mapM f with
      | error e => rw [hfs] at ih; simp [Except.map] at ih ⊢; simp [← ih]
      | ok ys => rw [hfs] at ih; simp [Except.map] at ih ⊢; simp [← ih]

theorem newCompS_pure (st : CompState) (env : Env) (mode : UnseenMode) (o : Matrix × Bool)
    (st' : CompState) (hw : compWf st = true) (h : newCompS st env mode = .ok (o, st')) : st' = st := by
  unfold newCompS at h
  unfold compWf at hw
  split at h
  · exact newCallS_pure st env mode o st' (by simp_all) h
  · exact newCallS_pure st env mode o st' (by simp_all) h
  · cases hc : newComp st env mode with
    | error e => simp [hc, Except.map] at h
    | ok r => simp [hc, Except.map] at h; exact h.2.symm

theorem newCompS_out (st : CompState) (env : Env) (mode : UnseenMode) :
    (newCompS st env mode).map (·.1) = newComp st env mode := by
  unfold newCompS
  split
  · rename_i c lp as rp hE
    have hE' : isCallExpr st.expr := Or.inl ⟨c, lp, as, rp, hE⟩
    cases h : newCallS st env mode with
    | error e => simp [Except.map, newCallS_out_err st env mode e hE' h]
    | ok r => obtain ⟨o, st'⟩ := r; simp [Except.map, newCallS_out_ok st env mode o st' hE' h]
  · rename_i lb x rb hE
    have hE' : isCallExpr st.expr := Or.inr ⟨lb, x, rb, hE⟩
    cases h : newCallS st env mode with
    | error e => simp [Except.map, newCallS_out_err st env mode e hE' h]
    | ok r => obtain ⟨o, st'⟩ := r; simp [Except.map, newCallS_out_ok st env mode o st' hE' h]
  · cases newComp st env mode <;> simp [Except.map]

theorem newTermS_pure (t : TermState) (env : Env) (mode : UnseenMode) (o : Matrix × Bool)
    (t' : TermState) (hw : termWf t = true) (h : newTermS t env mode = .ok (o, t')) : t' = t := by
  unfold newTermS at h
  simp only [bind, Except.bind, pure, Except.pure] at h
  split at h
  · simp at h
  · rename_i outs houts
    have := mapM_snd_id (fun c => compWf c = true)
      (fun x y hx hy => newCompS_pure x env mode y.1 y.2 hx hy) t.comps outs
      (by simpa [termWf] using hw) houts
    simp at h
    rw [this] at h
    exact h.2.symm

theorem newTermS_out (t : TermState) (env : Env) (mode : UnseenMode) :
    (newTermS t env mode).map (·.1) = newTerm t env mode := by
  unfold newTermS newTerm
  have := mapM_map_fst (fun c => newCompS_out c env mode) t.comps
  simp only [bind, Except.bind, pure, Except.pure]
  rw [← this]
  cases t.comps.mapM (fun c => newCompS c env mode) with
  | error e => simp [Except.map]
  | ok outs => simp [Except.map, Function.comp_def]

theorem newGroupS_pure (g : GroupState) (env : Env) (mode : UnseenMode) (o : Matrix × Bool)
    (g' : GroupState) (hw : groupWf g = true) (h : newGroupS g env mode = .ok (o, g')) : g' = g := by
  unfold newGroupS at h
  unfold groupWf at hw
  simp only [Bool.and_eq_true] at hw
  simp only [bind, Except.bind, pure, Except.pure] at h
  cases hf : newTermS g.factor env mode with
  | error e =>
    rw [hf] at h
    cases he : g.expr with
    | none => simp [he] at h
    | some t => simp only [he] at h; cases ht : newTermS t env mode <;> simp [ht] at h
  | ok rf =>
    obtain ⟨of, f'⟩ := rf
    have h2 := newTermS_pure _ _ _ _ _ hw.2 hf
    subst h2
    rw [hf] at h
    cases he : g.expr with
    | none =>
      simp only [he, Except.ok.injEq, Prod.mk.injEq] at h
      rw [← h.2]
      cases g; simp_all
    | some t =>
      simp only [he, optTermWf] at h hw
      cases ht : newTermS t env mode with
      | error e => simp [ht] at h
      | ok rt =>
        obtain ⟨ot, t'⟩ := rt
        have h3 := newTermS_pure _ _ _ _ _ hw.1 ht
        subst h3
        simp only [ht, Except.ok.injEq, Prod.mk.injEq] at h
        rw [← h.2]
        cases g; simp_all

theorem newGroupS_out (g : GroupState) (env : Env) (mode : UnseenMode) :
    (newGroupS g env mode).map (·.1) = newGroup g env mode := by
  unfold newGroupS newGroup
  simp only [bind, Except.bind, pure, Except.pure]
  have hf := newTermS_out g.factor env mode
  cases he : g.expr with
  | none =>
    simp only []
    rw [← hf]
    cases newTermS g.factor env mode <;> simp [Except.map]
  | some t =>
    simp only []
    have ht := newTermS_out t env mode
    rw [← hf, ← ht]
    cases newTermS t env mode <;> simp [Except.map]
    cases newTermS g.factor env mode <;> simp [Except.map]

-- ---------------------------------------------------------------------------------------------
-- designs: evaluation returns the design it was given; every built design is well-formed
-- ---------------------------------------------------------------------------------------------
theorem evalCommonS_pure (d : DesignState) (frame : Frame) (mode : UnseenMode) (o : Out)
    (d' : DesignState) (hw : d.wf = true) (h : evalCommonS d frame mode = .ok (o, d')) : d' = d := by
  unfold evalCommonS at h
  unfold DesignState.wf at hw
  simp only [Bool.and_eq_true] at hw
  simp only [bind, Except.bind, pure, Except.pure] at h
  split at h
  · simp at h; exact h.2.symm
  · split at h
    · simp at h
    · rename_i parts hparts
      have := mapM_snd_id (fun (p : String × Option TermState) => optTermWf p.2 = true)
        (by
          intro x y hx hy
          rcases x with ⟨nm, _ | t⟩
          · simp at hy; simp [← hy]
          · simp only [optTermWf] at hx
            simp only [bind, Except.bind, pure, Except.pure] at hy
            split at hy
            · simp at hy
            · rename_i r hr
              obtain ⟨ot, t'⟩ := r
              have := newTermS_pure t _ _ ot t' hx hr
              simp at hy; simp [← hy, this])
        d.common parts (by simpa using hw.1) hparts
      simp at h
      rw [← h.2, this]

theorem evalGroupS_pure (d : DesignState) (frame : Frame) (mode : UnseenMode) (o : Out)
    (d' : DesignState) (hw : d.wf = true) (h : evalGroupS d frame mode = .ok (o, d')) : d' = d := by
  unfold evalGroupS at h
  unfold DesignState.wf at hw
  simp only [Bool.and_eq_true] at hw
  simp only [bind, Except.bind, pure, Except.pure] at h
  split at h
  · simp at h; exact h.2.symm
  · split at h
    · simp at h
    · rename_i parts hparts
      have key : parts.map (·.2) = d.group := by
        refine mapM_snd_id (fun (p : GroupState × Nat) => groupWf p.1 = true) ?_ d.group parts
          (by simpa using hw.2) hparts
        intro x y hx hy
        split at hy
        · simp at hy
        · rename_i r hr
          obtain ⟨og, g'⟩ := r
          have := newGroupS_pure x.1 _ _ og g' hx hr
          simp at hy; simp [← hy, this]
      simp at h
      rw [← h.2, key]

theorem trainComp_wf (env : Env) (name : String) (e : Expr) (forced isResponse full : Bool)
    (out : CompOut) (h : trainComp env name e forced isResponse full = .ok out) :
    compWf out.st = true := by
  unfold trainComp at h
  simp only [bind, Except.bind, pure, Except.pure] at h
  split at h
  · -- call
    split at h
    · simp at h
    · rename_i x hx
      obtain ⟨v, ts⟩ := x
      obtain ⟨k, hk⟩ := posOnly_ok hx
      have hs := evalArg_shape env _ _ k v ts hk
      repeat' split at h
      all_goals (try (simp at h; done))
      all_goals
        simp only [Except.ok.injEq] at h
        subst h
        simpa [compWf] using hs
  · -- brace
    split at h
    · simp at h
    · rename_i x hx
      obtain ⟨v, ts⟩ := x
      obtain ⟨k, hk⟩ := posOnly_ok hx
      have hs := evalArg_shape env _ _ k v ts hk
      repeat' split at h
      all_goals (try (simp at h; done))
      all_goals
        simp only [Except.ok.injEq] at h
        subst h
        simpa [compWf] using hs
  · rename_i hnc hnb
    repeat' split at h
    all_goals (try (simp at h; done))
    all_goals
      simp only [Except.ok.injEq] at h
      subst h
      simp only [compWf]
      try (split <;> simp_all)

theorem mapM_forall {α β ε} {f : α → Except ε β} (Q : β → Prop)
    (hf : ∀ x y, f x = .ok y → Q y) : ∀ (xs : List α) (ys : List β),
    xs.mapM f = .ok ys → ∀ y ∈ ys, Q y
  | [], ys, h => by
    simp [pure, Except.pure] at h
    subst h; simp
  | x :: xs, ys, h => by
    obtain ⟨y, ys', rfl, hy, hys⟩ := mapM_cons_ok h
    intro z hz
    simp only [List.mem_cons] at hz
    rcases hz with rfl | hz
    · exact hf _ _ hy
    · exact mapM_forall Q hf xs ys' hys z hz

theorem trainTerm_wf (env : Env) (table : List (String × Expr)) (spec : TermSpec)
    (forced isResponse : Bool) (out : TermOut)
    (h : trainTerm env table spec forced isResponse = .ok out) : termWf out.st = true := by
  unfold trainTerm at h
  simp only [bind, Except.bind, pure, Except.pure] at h
  split at h
  · simp at h
  · rename_i outs houts
    have key : ∀ o ∈ outs, compWf o.st = true := by
      refine mapM_forall (fun (o : CompOut) => compWf o.st = true) ?_ spec.comps outs houts
      intro x y hy
      split at hy
      · simp at hy
      · exact trainComp_wf _ _ _ _ _ _ _ hy
    simp only [Except.ok.injEq] at h
    subst h
    simpa [termWf] using key

theorem trainGroup_wf (env : Env) (table : List (String × Expr)) (spec : GroupSpec)
    (out : GroupOut) (h : trainGroup env table spec = .ok out) : groupWf out.st = true := by
  unfold trainGroup at h
  simp only [bind, Except.bind, pure, Except.pure] at h
  split at h
  · simp at h
  · rename_i f hf
    have h1 := trainTerm_wf _ _ _ _ _ _ hf
    split at h
    · simp only [Except.ok.injEq] at h
      subst h
      simp [groupWf, optTermWf, h1]
    · split at h
      · simp at h
      · rename_i t ht
        have h2 := trainTerm_wf _ _ _ _ _ _ ht
        simp only [Except.ok.injEq] at h
        subst h
        simp [groupWf, optTermWf, h1, h2]

theorem buildDesign_wf (spec : BuildSpec) (frame : Frame) (d : DesignState) (b : Built)
    (h : buildDesign spec frame = .ok (d, b)) : d.wf = true := by
  unfold buildDesign at h
  simp only [bind, Except.bind, pure, Except.pure] at h
  split at h
  · simp at h
  · rename_i resp hresp
    split at h
    · simp at h
    · rename_i common hcommon
      split at h
      · simp at h
      · rename_i group hgroup
        have hc : ∀ p ∈ common, optTermWf (p.2.map (·.st)) = true := by
          unfold trainCommon at hcommon
          refine mapM_forall (fun (p : String × Option TermOut) => optTermWf (p.2.map (·.st)) = true)
            ?_ spec.common common hcommon
          intro x y hy
          simp only [bind, Except.bind, pure, Except.pure] at hy
          split at hy
          · simp at hy; simp [← hy, optTermWf]
          · split at hy
            · simp at hy
            · rename_i t ht
              have := trainTerm_wf _ _ _ _ _ _ ht
              simp at hy; simp [← hy, optTermWf, this]
        have hg : ∀ g ∈ group, groupWf g.st = true :=
          mapM_forall (fun (g : GroupOut) => groupWf g.st = true)
            (fun x y hy => trainGroup_wf _ _ _ _ hy) spec.group group hgroup
        simp only [Except.ok.injEq, Prod.mk.injEq] at h
        obtain ⟨rfl, -⟩ := h
        simp only [DesignState.wf, List.all_map, Bool.and_eq_true, List.all_eq_true, Function.comp]
        exact ⟨fun p hp => hc p hp, fun g hg' => hg g hg'⟩

theorem buildDesign_train (spec : BuildSpec) (frame : Frame) (d : DesignState) (b : Built)
    (h : buildDesign spec frame = .ok (d, b)) : d.train = b := by
  unfold buildDesign at h
  simp only [bind, Except.bind, pure, Except.pure] at h
  repeat' split at h
  all_goals (try (simp at h; done))
  simp only [Except.ok.injEq, Prod.mk.injEq] at h
  obtain ⟨rfl, rfl⟩ := h
  rfl

end FormulaeModel.World
