import FormulaeModel.Spec.C12
import FormulaeModel.Proofs.LazyEval
set_option linter.unusedSimpArgs false
/-
Helper lemmas for C12 about names: grouping parentheses are transparent for `CallResolver`, and on
the Python alphabet the printed name is the token sequence (grouping removed) written with single
spaces.
-/
namespace FormulaeModel.Lazy
open FormulaeModel FormulaeModel.Spec.C01 FormulaeModel.Spec.C12

theorem ungroup_of_assignName (c : Expr) (s : String) (h : assignName c = some s) :
    ungroup c = c := by
  cases c <;> simp [assignName] at h <;> simp [ungroup]

section
variable (T : OpTable)

/-- a tree that `CallResolver` accepts is not an `Assign` once its parentheses are removed -/
theorem ungroup_not_assign : ∀ (e : Expr) (t : Lazy), resolve T e = .ok t →
    isAssign (ungroup e) = false
  | .grouping _ e _, t, h => by
    simp only [resolve] at h
    simpa [ungroup] using ungroup_not_assign e t h
  | .assign .., t, h => by simp [resolve] at h
  | .binary .., _, _ => by simp [ungroup, isAssign]
  | .unary .., _, _ => by simp [ungroup, isAssign]
  | .call .., _, _ => by simp [ungroup, isAssign]
  | .brace .., _, _ => by simp [ungroup, isAssign]
  | .variable _, _, _ => by simp [ungroup, isAssign]
  | .subset .., _, _ => by simp [ungroup, isAssign]
  | .quoted _, _, _ => by simp [ungroup, isAssign]
  | .literal _, _, _ => by simp [ungroup, isAssign]

/-! unfolding lemmas for the argument positions (an `Assign` is a keyword argument, anything else
is visited) -/
theorem resolve_brace_other (lb rb : Token) (e : Expr) (h : isAssign e = false) :
    resolve T (.brace lb e rb) = (do
      let a ← resolve T e
      pure (.call "I" (.cons a .nil) .nil)) := by
  cases e <;> simp [isAssign] at h <;> simp [resolve]

theorem resolveArgs_last_other (e : Expr) (h : isAssign e = false) :
    resolveArgs T (.last e) = (do
      let a ← resolve T e
      pure (packArg none a (.nil, .nil))) := by
  cases e <;> simp [isAssign] at h <;> simp [resolveArgs]

theorem resolveArgs_more_other (e : Expr) (c : Token) (rest : Args) (h : isAssign e = false) :
    resolveArgs T (.more e c rest) = (do
      let a ← resolve T e
      let r ← resolveArgs T rest
      pure (packArg none a r)) := by
  cases e <;> simp [isAssign] at h <;> simp [resolveArgs]

theorem bind_ok {ε α β : Type} (x : Except ε α) (f : α → Except ε β) (b : β) :
    (x >>= f) = .ok b ↔ ∃ a, x = .ok a ∧ f a = .ok b := by
  cases x <;> simp [bind, Except.bind]

mutual
/-- `visitGroupingExpr` is transparent: removing every grouping node does not change the lazy
tree (when the original resolves at all: `(f)(x)` and `f((k=2))` do not, `f(x)` and `f(k=2)` do) -/
theorem resolve_ungroup : ∀ (e : Expr) (t : Lazy), resolve T e = .ok t →
    resolve T (ungroup e) = .ok t
  | .grouping _ e _, t, h => by
    simp only [resolve] at h
    simpa [ungroup] using resolve_ungroup e t h
  | .binary l op r, t, h => by
    simp only [resolve] at h
    cases hf : lookup T.binary op.kind.name with
    | none => simp [hf] at h
    | some fn =>
      simp only [hf, bind_ok] at h
      obtain ⟨a, ha, b, hb, h⟩ := h
      simp only [ungroup, resolve, hf, resolve_ungroup l a ha, resolve_ungroup r b hb]
      simpa [bind, Except.bind] using h
  | .unary op r, t, h => by
    simp only [resolve] at h
    cases hf : lookup T.unary op.kind.name with
    | none => simp [hf] at h
    | some fn =>
      simp only [hf, bind_ok] at h
      obtain ⟨a, ha, h⟩ := h
      simp only [ungroup, resolve, hf, resolve_ungroup r a ha]
      simpa [bind, Except.bind] using h
  | .call c lp as rp, t, h => by
    simp only [resolve, bind_ok] at h
    obtain ⟨p, hp, h⟩ := h
    cases hc : assignName c with
    | none => simp [hc] at h
    | some callee =>
      have hu := ungroup_of_assignName c callee hc
      simp only [ungroup, resolve, hu, resolveArgs_ungroup as p hp]
      simpa [bind, Except.bind] using h
  | .brace lb e rb, t, h => by
    cases hA : isAssign e with
    | true =>
      cases e <;> simp [isAssign] at hA
      rename_i n eq v
      simp only [resolve, bind_ok] at h
      obtain ⟨a, ha, h⟩ := h
      cases hk : assignName n with
      | none => simp [hk] at h
      | some k =>
        have hu := ungroup_of_assignName n k hk
        simp only [ungroup, resolve, hu, resolve_ungroup v a ha]
        simpa [bind, Except.bind] using h
    | false =>
      rw [resolve_brace_other T lb rb e hA] at h
      simp only [bind_ok] at h
      obtain ⟨a, ha, h⟩ := h
      have hn := ungroup_not_assign T e a ha
      simp only [ungroup]
      rw [resolve_brace_other T lb rb _ hn, resolve_ungroup e a ha]
      simpa [bind, Except.bind] using h
  | .variable n, t, h => by simpa [ungroup] using h
  | .subset .., t, h => by simpa [ungroup] using h
  | .quoted _, t, h => by simpa [ungroup] using h
  | .literal _, t, h => by simpa [ungroup] using h
  | .assign .., t, h => by simp [resolve] at h
theorem resolveArgs_ungroup : ∀ (as : Args) (p : LazyArgs × LazyKw), resolveArgs T as = .ok p →
    resolveArgs T (ungroupArgs as) = .ok p
  | .nil, p, h => by simpa [ungroupArgs] using h
  | .last e, p, h => by
    cases hA : isAssign e with
    | true =>
      cases e <;> simp [isAssign] at hA
      rename_i n eq v
      simp only [resolveArgs, bind_ok] at h
      obtain ⟨a, ha, h⟩ := h
      cases hk : assignName n with
      | none => simp [hk] at h
      | some k =>
        have hu := ungroup_of_assignName n k hk
        simp only [ungroupArgs, ungroup, resolveArgs, hu, resolve_ungroup v a ha]
        simpa [bind, Except.bind] using h
    | false =>
      rw [resolveArgs_last_other T e hA] at h
      simp only [bind_ok] at h
      obtain ⟨a, ha, h⟩ := h
      have hn := ungroup_not_assign T e a ha
      simp only [ungroupArgs]
      rw [resolveArgs_last_other T _ hn, resolve_ungroup e a ha]
      simpa [bind, Except.bind] using h
  | .more e c rest, p, h => by
    cases hA : isAssign e with
    | true =>
      cases e <;> simp [isAssign] at hA
      rename_i n eq v
      simp only [resolveArgs, bind_ok] at h
      obtain ⟨a, ha, h⟩ := h
      cases hk : assignName n with
      | none => simp [hk] at h
      | some k =>
        simp only [hk, bind_ok] at h
        obtain ⟨r, hr, h⟩ := h
        have hu := ungroup_of_assignName n k hk
        simp only [ungroupArgs, ungroup, resolveArgs, hu, resolve_ungroup v a ha, hk,
          resolveArgs_ungroup rest r hr]
        simpa [bind, Except.bind] using h
    | false =>
      rw [resolveArgs_more_other T e c rest hA] at h
      simp only [bind_ok] at h
      obtain ⟨a, ha, r, hr, h⟩ := h
      have hn := ungroup_not_assign T e a ha
      simp only [ungroupArgs]
      rw [resolveArgs_more_other T _ c _ hn, resolve_ungroup e a ha, resolveArgs_ungroup rest r hr]
      simpa [bind, Except.bind] using h
end

end

/-! ### the printed name is the normalised token text -/

theorem canon_binop (k : Kind) (o : BinOp) (h : pyBinOp k = some o) (lx : String)
    (ts : List Token) :
    canonGo true (⟨k, lx⟩ :: ts) = " " ++ pySymbol k ++ " " ++ canonGo false ts := by
  cases k <;> simp [pyBinOp] at h <;> simp [canonGo]

theorem canon_unop (k : Kind) (o : UnOp) (h : pyUnOp k = some o) (lx : String)
    (ts : List Token) :
    canonGo false (⟨k, lx⟩ :: ts) = pySymbol k ++ canonGo false ts := by
  cases k <;> simp [pyUnOp] at h <;> simp [canonGo]

theorem canon_literal (t : Token) (h : pyLiteralOk t = true) (l : Lazy)
    (hl : resolveLiteral t = .ok l) (b : Bool) (ts : List Token) :
    canonGo b (t :: ts) = l.str ++ canonGo true ts := by
  obtain ⟨k, lx⟩ := t
  cases k <;> simp [pyLiteralOk] at h
  · -- NUMBER
    simp only [resolveLiteral] at hl
    cases hv : numberLit lx with
    | none => simp [hv] at hl
    | some v =>
      simp [hv] at hl
      subst hl
      simp [canonGo, numberShown, hv, Lazy.str]
  · -- PYTHON_LITERAL
    rcases h with (h | h) | h <;> subst h <;> simp [resolveLiteral] at hl <;> subst hl <;>
      simp [canonGo, Lazy.str, LitVal.pyStr]
  · -- STRING
    simp [resolveLiteral] at hl
    subst hl
    simp [canonGo, Lazy.str]

theorem canon_rparen (rp : Token) (h : rp.kind = .RIGHT_PAREN) (b : Bool) (ts : List Token) :
    canonGo b (rp :: ts) = ")" ++ canonGo true ts := by
  obtain ⟨k, lx⟩ := rp
  simp at h
  subst h
  simp [canonGo]

theorem canon_ident (l : String) (b : Bool) (ts : List Token) :
    canonGo b (⟨.IDENTIFIER, l⟩ :: ts) = l ++ canonGo true ts := by simp [canonGo]
theorem canon_eq (l : String) (b : Bool) (ts : List Token) :
    canonGo b (⟨.EQUAL, l⟩ :: ts) = "=" ++ canonGo false ts := by simp [canonGo]
theorem canon_comma (l : String) (b : Bool) (ts : List Token) :
    canonGo b (⟨.COMMA, l⟩ :: ts) = ", " ++ canonGo false ts := by simp [canonGo]
theorem canon_lparen (l : String) (b : Bool) (ts : List Token) :
    canonGo b (⟨.LEFT_PAREN, l⟩ :: ts) = "(" ++ canonGo false ts := by simp [canonGo]

theorem joinWith_cons (sep a : String) (l : List String) (h : l ≠ []) :
    joinWith sep (a :: l) = a ++ sep ++ joinWith sep l := by
  cases l with
  | nil => exact absurd rfl h
  | cons b l => simp [joinWith]

mutual
theorem canon_resolve : ∀ (e : Expr), alpha e = true →
    ∃ t, resolve documentedOps e = .ok t ∧
      ∀ rest, canonGo false ((ungroup e).flat ++ rest) = t.str ++ canonGo true rest
  | .binary l op r, ha => by
    simp only [alpha, Bool.and_eq_true] at ha
    obtain ⟨tl, hl1, hl2⟩ := canon_resolve l ha.1.2
    obtain ⟨tr, hr1, hr2⟩ := canon_resolve r ha.2
    cases ho : pyBinOp op.kind with
    | none => simp [ho] at ha
    | some o =>
      obtain ⟨fn, hf1, hf2, hf3⟩ := doc_binary op.kind o ho
      refine ⟨.op2 fn (pySymbol op.kind) tl tr, ?_, ?_⟩
      · simp [resolve, hf1, hl1, hr1, hf3, bind, Except.bind, pure, Except.pure]
      · intro rest
        obtain ⟨k, lx⟩ := op
        simp only [ungroup, Expr.flat, List.append_assoc, List.cons_append, hl2,
          canon_binop k o ho, hr2, Lazy.str, String.append_assoc]
  | .unary op r, ha => by
    simp only [alpha, Bool.and_eq_true] at ha
    obtain ⟨tr, hr1, hr2⟩ := canon_resolve r ha.2
    cases ho : pyUnOp op.kind with
    | none => simp [ho] at ha
    | some o =>
      obtain ⟨fn, hf1, hf2, hf3⟩ := doc_unary op.kind o ho
      refine ⟨.op1 fn (pySymbol op.kind) tr, ?_, ?_⟩
      · simp [resolve, hf1, hr1, hf3, bind, Except.bind, pure, Except.pure]
      · intro rest
        obtain ⟨k, lx⟩ := op
        simp only [ungroup, Expr.flat, List.cons_append, canon_unop k o ho, hr2, Lazy.str,
          String.append_assoc]
  | .call c lp as rp, ha => by
    simp only [alpha, Bool.and_eq_true, decide_eq_true_eq] at ha
    obtain ⟨la, lk, h1, _, _, _, h5⟩ := canon_resolveArgs as false ha.1.2 ha.2
    obtain ⟨n, rfl⟩ := plainVariable_eq c ha.1.1.1.1
    refine ⟨.call n.lexeme la lk, ?_, ?_⟩
    · simp [resolve, h1, assignName, bind, Except.bind, pure, Except.pure]
    · intro rest
      have hn : n.kind = .IDENTIFIER := by simpa [isPlainVariable] using ha.1.1.1.1
      have hlp : lp.kind = .LEFT_PAREN := by simpa using ha.1.1.1.2
      have hrp : rp.kind = .RIGHT_PAREN := by simpa using ha.1.1.2
      obtain ⟨nk, nl⟩ := n
      obtain ⟨lk', ll⟩ := lp
      simp only at hn hlp
      subst hn hlp
      simp only [ungroup, Expr.flat, List.append_assoc, List.cons_append, List.nil_append,
        canon_ident, canon_lparen, h5 rp rest hrp, Lazy.str, String.append_assoc]
  | .grouping lp e rp, ha => by
    simp only [alpha, Bool.and_eq_true] at ha
    obtain ⟨t, h1, h2⟩ := canon_resolve e ha.2
    exact ⟨t, by simpa [resolve] using h1, by simpa [ungroup] using h2⟩
  | .variable n, ha => by
    refine ⟨.var n.lexeme, by simp [resolve, pure, Except.pure], ?_⟩
    intro rest
    have hn : n.kind = .IDENTIFIER := by simpa [alpha] using ha
    obtain ⟨nk, nl⟩ := n
    simp only at hn
    subst hn
    simp [ungroup, Expr.flat, canonGo, Lazy.str]
  | .literal t, ha => by
    simp only [alpha] at ha
    obtain ⟨l, h1, _⟩ := literal_ok ⟨fun _ => none, fun _ => none⟩ t ha
    refine ⟨l, by simpa [resolve] using h1, ?_⟩
    intro rest
    simpa [ungroup, Expr.flat] using canon_literal t ha l h1 false rest
  | .quoted _, ha => by simp [alpha] at ha
  | .subset .., ha => by simp [alpha] at ha
  | .brace .., ha => by simp [alpha] at ha
  | .assign .., ha => by simp [alpha] at ha
theorem canon_resolveArgs : ∀ (as : Args) (kw : Bool), alphaArgs as kw = true →
    (kwNames as).Nodup →
    ∃ la lk, resolveArgs documentedOps as = .ok (la, lk) ∧ (kw = true → la = .nil) ∧
      lk.keys = kwNames as ∧ (as ≠ .nil → la.strs ++ lk.strs ≠ []) ∧
      ∀ rp rest, rp.kind = .RIGHT_PAREN →
        canonGo false ((ungroupArgs as).flat ++ rp :: rest)
          = joinWith ", " (la.strs ++ lk.strs) ++ (")" ++ canonGo true rest)
  | .nil, _, _, _ => by
    refine ⟨.nil, .nil, by simp [resolveArgs, pure, Except.pure], by simp,
      by simp [LazyKw.keys, kwNames], by simp, ?_⟩
    intro rp rest hrp
    simp [ungroupArgs, Args.flat, canon_rparen rp hrp, LazyArgs.strs, LazyKw.strs, joinWith]
  | .last e, kw, ha, hn => by
    cases hA : isAssign e with
    | true =>
      cases e <;> simp [isAssign] at hA
      rename_i n eq v
      simp only [alphaArgs, Bool.and_eq_true] at ha
      obtain ⟨t, h1, h2⟩ := canon_resolve v ha.2
      obtain ⟨k, rfl⟩ := plainVariable_eq n ha.1.1
      refine ⟨.nil, .cons k.lexeme t .nil, ?_, by simp, ?_, ?_, ?_⟩
      · simp [resolveArgs, h1, assignName, packArg, kwCons, LazyKw.find?, bind, Except.bind, pure, Except.pure]
      · simp [LazyKw.keys, kwNames, assignName]
      · simp [LazyArgs.strs, LazyKw.strs]
      · intro rp rest hrp
        have hk : k.kind = .IDENTIFIER := by simpa [isPlainVariable] using ha.1.1
        have he : eq.kind = .EQUAL := by simpa using ha.1.2
        obtain ⟨kk, kl⟩ := k
        obtain ⟨ek, el⟩ := eq
        simp only at hk he
        subst hk he
        simp only [ungroupArgs, ungroup, Args.flat, Expr.flat, List.append_assoc, List.cons_append,
          List.nil_append, canon_ident, canon_eq, h2, canon_rparen rp hrp, LazyArgs.strs, LazyKw.strs, joinWith,
          String.append_assoc]
    | false =>
      have ha' : kw = false ∧ alpha e = true := by
        cases e <;> simp [isAssign] at hA <;> simpa [alphaArgs] using ha
      obtain ⟨t, h1, h2⟩ := canon_resolve e ha'.2
      refine ⟨.cons t .nil, .nil, ?_, ?_, ?_, ?_, ?_⟩
      · rw [resolveArgs_last_other _ e hA]
        simp [h1, packArg, bind, Except.bind, pure, Except.pure]
      · intro h; simp [h] at ha'
      · cases e <;> simp [isAssign] at hA <;> simp [LazyKw.keys, kwNames]
      · simp [LazyArgs.strs, LazyKw.strs]
      · intro rp rest hrp
        simp only [ungroupArgs, Args.flat, h2, canon_rparen rp hrp, LazyArgs.strs, LazyKw.strs,
          joinWith, List.append_nil]
  | .more e c rest', kw, ha, hn => by
    have hne : rest' ≠ .nil := by
      unfold alphaArgs at ha
      cases rest' <;> simp at ha ⊢
    have hc : c.kind = .COMMA := by
      unfold alphaArgs at ha
      simp only [Bool.and_eq_true] at ha
      simpa using ha.1.1
    cases hA : isAssign e with
    | true =>
      cases e <;> simp [isAssign] at hA
      rename_i n eq v
      unfold alphaArgs at ha
      simp only [Bool.and_eq_true] at ha
      obtain ⟨t, h1, h2⟩ := canon_resolve v ha.2.1.2
      obtain ⟨k, rfl⟩ := plainVariable_eq n ha.2.1.1.1
      simp only [kwNames, assignName, Option.toList, List.singleton_append, List.nodup_cons] at hn
      obtain ⟨la, lk, r1, r2, r3, r4, r5⟩ := canon_resolveArgs rest' true ha.2.2 hn.2
      have hla := r2 rfl
      subst hla
      have hfresh : k.lexeme ∉ lk.keys := by rw [r3]; exact hn.1
      refine ⟨.nil, .cons k.lexeme t lk, ?_, by simp, ?_, ?_, ?_⟩
      · simp [resolveArgs, h1, r1, assignName, packArg, kwCons_fresh _ _ _ hfresh, bind, Except.bind, pure, Except.pure]
      · simp [LazyKw.keys, kwNames, assignName, r3]
      · simp [LazyArgs.strs, LazyKw.strs]
      · intro rp rest hrp
        have hk : k.kind = .IDENTIFIER := by simpa [isPlainVariable] using ha.2.1.1.1
        have he : eq.kind = .EQUAL := by simpa using ha.2.1.1.2
        have hr := r4 hne
        simp only [LazyArgs.strs, List.nil_append] at hr r5
        obtain ⟨kk, kl⟩ := k
        obtain ⟨ek, el⟩ := eq
        obtain ⟨ck, cl⟩ := c
        simp only at hk he hc
        subst hk he hc
        simp only [ungroupArgs, ungroup, Args.flat, Expr.flat, List.append_assoc, List.cons_append,
          List.nil_append, canon_ident, canon_eq, canon_comma, h2, r5 rp rest hrp, LazyArgs.strs, LazyKw.strs,
          joinWith_cons _ _ _ hr, String.append_assoc]
    | false =>
      have ha' : kw = false ∧ alpha e = true ∧ alphaArgs rest' false = true := by
        unfold alphaArgs at ha
        cases e <;> simp [isAssign] at hA <;> simp at ha <;> simp [ha]
      obtain ⟨t, h1, h2⟩ := canon_resolve e ha'.2.1
      have hn' : (kwNames rest').Nodup := by
        cases e <;> simp [isAssign] at hA <;> simpa [kwNames] using hn
      obtain ⟨la, lk, r1, _, r3, r4, r5⟩ := canon_resolveArgs rest' false ha'.2.2 hn'
      refine ⟨.cons t la, lk, ?_, ?_, ?_, ?_, ?_⟩
      · rw [resolveArgs_more_other _ e c rest' hA]
        simp [h1, r1, packArg, bind, Except.bind, pure, Except.pure]
      · intro h; simp [h] at ha'
      · cases e <;> simp [isAssign] at hA <;> simp [kwNames, r3]
      · simp [LazyArgs.strs]
      · intro rp rest hrp
        have hr := r4 hne
        obtain ⟨ck, cl⟩ := c
        simp only at hc
        subst hc
        simp only [ungroupArgs, Args.flat, List.append_assoc, List.cons_append, h2, canon_comma,
          r5 rp rest hrp, LazyArgs.strs, List.cons_append, joinWith_cons _ _ _ hr,
          String.append_assoc]
end

end FormulaeModel.Lazy
