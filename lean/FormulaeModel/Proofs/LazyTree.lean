import FormulaeModel.Spec.C12
import FormulaeModel.Generated.Tables
/-
Helper lemmas for C12: on the Python alphabet, a derivation of the formula grammar (documented
table) in which no `**` has a bare sign / bare `**` as its left operand is a derivation of
Python's grammar.
-/
namespace FormulaeModel.Lazy
open FormulaeModel FormulaeModel.Parser FormulaeModel.Spec.C01 FormulaeModel.Spec.C12

/-- the documented precedence table, as a function -/
def docLevelOf : Kind → Option Nat
  | .PIPE => some 0
  | .EQUAL_EQUAL | .BANG_EQUAL | .LESS_EQUAL | .LESS | .GREATER_EQUAL | .GREATER => some 1
  | .MINUS | .PLUS => some 2
  | .STAR | .SLASH => some 3
  | .COLON => some 4
  | .STAR_STAR => some 5
  | _ => none

theorem opLevel_doc (k : Kind) : opLevel documentedTable k = docLevelOf k := by
  cases k <;> decide

def LvlRel (a pa : Nat) : Prop :=
  (a = 1 ∧ pa = 0) ∨ (a = 2 ∧ pa = 1) ∨ (a = 3 ∧ pa = 2) ∨ (a = 5 ∧ pa = 4) ∨ (a = 6 ∧ pa = 3) ∨
    (a = 7 ∧ pa = 5)

/-- formula level ↦ Python level, for the roots the alphabet allows -/
theorem lvl_pyLvl (e : Expr) (h : alpha e = true) : LvlRel (lvl documentedTable e) (pyLvl e) := by
  unfold LvlRel
  cases e with
  | binary l op r =>
    obtain ⟨k, lx⟩ := op
    cases k <;> simp_all [alpha, pyBinOp, lvl, pyLvl, pyRule, isCmp, opLevel_doc, docLevelOf]
  | assign => simp [alpha] at h
  | brace => simp [alpha] at h
  | subset => simp [alpha] at h
  | quoted => simp [alpha] at h
  | _ => simp [lvl, pyLvl, documentedTable]

/-- the arithmetic of the two precedence tables -/
theorem rule_of_doc (k : Kind) (i a pa b pb : Nat) (ho : (pyBinOp k).isSome = true)
    (hi : docLevelOf k = some i) (h1 : i ≤ a) (h2 : i < b) (hl : LvlRel a pa) (hr : LvlRel b pb)
    (hp : k ≠ .STAR_STAR ∨ pa = 5) :
    ∃ ρ, pyRule k = some ρ ∧ ρ.leftMin ≤ pa ∧ ρ.rightMin ≤ pb := by
  unfold LvlRel at hl hr
  cases k <;> simp [pyBinOp] at ho <;> simp [docLevelOf] at hi <;> subst hi <;>
    simp [pyRule, isCmp] <;> simp at hp <;> omega

theorem pyLvl_of_primary (l : Expr) (h : isPrimaryLevel l = true) : pyLvl l = 5 := by
  cases l <;> simp_all [isPrimaryLevel, pyLvl]

theorem stratBin_of_stratTop (e : Expr) (ha : alpha e = true)
    (h : stratTop documentedTable e = true) : stratBin documentedTable e = true := by
  cases e with
  | binary l op r =>
    simp only [stratTop] at h
    split at h
    · rename_i hk
      have hk' : op.kind = .TILDE := by simpa using hk
      simp [alpha, hk', pyBinOp] at ha
    · exact h
  | assign => simp [alpha] at ha
  | _ => simpa [stratTop] using h

mutual
theorem pyLevels_of_strat : ∀ (e : Expr), stratBin documentedTable e = true → alpha e = true →
    powOk e = true → pyLevels e = true
  | .binary l op r, hs, ha, hp => by
    simp only [alpha, Bool.and_eq_true] at ha
    obtain ⟨⟨ho, hal⟩, har⟩ := ha
    have hl := lvl_pyLvl l hal
    have hr := lvl_pyLvl r har
    simp only [stratBin, opLevel_doc] at hs
    simp only [powOk, Bool.and_eq_true, Bool.or_eq_true, bne_iff_ne, ne_eq] at hp
    obtain ⟨⟨hpl, hpr⟩, hpo⟩ := hp
    cases hi : docLevelOf op.kind with
    | none => simp [hi] at hs
    | some i =>
      simp only [hi, Bool.and_eq_true, decide_eq_true_eq] at hs
      obtain ⟨⟨⟨hsl, hsr⟩, h1⟩, h2⟩ := hs
      have ihl := pyLevels_of_strat l hsl hal hpl
      have ihr := pyLevels_of_strat r hsr har hpr
      have hp5 : op.kind ≠ .STAR_STAR ∨ pyLvl l = 5 := by
        rcases hpo with h | h
        · exact Or.inl h
        · exact Or.inr (pyLvl_of_primary l h)
      obtain ⟨ρ, hρ, hA, hB⟩ := rule_of_doc op.kind i _ _ _ _ ho hi h1 h2 hl hr hp5
      simp [pyLevels, hρ, ihl, ihr, hA, hB]
  | .unary op r, hs, ha, hp => by
    simp only [alpha, Bool.and_eq_true] at ha
    simp only [stratBin, Bool.and_eq_true, decide_eq_true_eq] at hs
    simp only [powOk] at hp
    have hr := lvl_pyLvl r ha.2
    unfold LvlRel at hr
    have ih := pyLevels_of_strat r hs.1.2 ha.2 hp
    simp only [pyLevels, ih, Bool.and_eq_true, decide_eq_true_eq, true_and]
    have : (documentedTable).levels.length = 6 := by decide
    omega
  | .call c lp as rp, hs, ha, hp => by
    simp only [alpha, Bool.and_eq_true] at ha
    simp only [stratBin, Bool.and_eq_true] at hs
    simp only [powOk, Bool.and_eq_true] at hp
    have hc : pyLevels c = true := by
      cases c <;> simp_all [isPlainVariable, pyLevels]
    have ih := pyLevelsArgs_of_strat as false hs.2 ha.1.2 hp.2
    simp [pyLevels, hc, ih]
  | .grouping lp e rp, hs, ha, hp => by
    simp only [alpha, Bool.and_eq_true] at ha
    simp only [stratBin, Bool.and_eq_true] at hs
    simp only [powOk] at hp
    have := pyLevels_of_strat e (stratBin_of_stratTop e ha.2 hs.2) ha.2 hp
    simpa [pyLevels] using this
  | .variable _, _, _, _ => by simp [pyLevels]
  | .literal _, _, _, _ => by simp [pyLevels]
  | .quoted _, _, _, _ => by simp [pyLevels]
  | .subset .., _, _, _ => by simp [pyLevels]
  | .brace .., _, ha, _ => by simp [alpha] at ha
  | .assign .., _, ha, _ => by simp [alpha] at ha
theorem pyLevelsArgs_of_strat : ∀ (as : Args) (kw : Bool), stratArgs documentedTable as = true →
    alphaArgs as kw = true → powOkArgs as = true → pyLevelsArgs as = true
  | .nil, _, _, _, _ => by simp [pyLevelsArgs]
  | .last e, kw, hs, ha, hp => by
    simp only [stratArgs] at hs
    simp only [powOkArgs] at hp
    simp only [pyLevelsArgs]
    cases e with
    | assign n eq v =>
      simp only [alphaArgs, Bool.and_eq_true] at ha
      simp only [stratTop, Bool.and_eq_true] at hs
      simp only [powOk] at hp
      simpa [pyLevels] using pyLevels_of_strat v hs.1.2 ha.2 hp
    | _ =>
      simp only [alphaArgs, Bool.and_eq_true] at ha
      exact pyLevels_of_strat _ (stratBin_of_stratTop _ ha.2 hs) ha.2 hp
  | .more e c rest, kw, hs, ha, hp => by
    unfold stratArgs at hs
    simp only [Bool.and_eq_true] at hs
    simp only [powOkArgs, Bool.and_eq_true] at hp
    simp only [pyLevelsArgs, Bool.and_eq_true]
    cases e with
    | assign n eq v =>
      simp only [alphaArgs, Bool.and_eq_true] at ha
      simp only [stratTop, Bool.and_eq_true] at hs
      simp only [powOk] at hp
      exact ⟨by simpa [pyLevels] using pyLevels_of_strat v hs.1.1.1.1.2 ha.2.1.2 hp.1,
        pyLevelsArgs_of_strat rest true hs.1.2 ha.2.2 hp.2⟩
    | _ =>
      simp only [alphaArgs, Bool.and_eq_true] at ha
      exact ⟨pyLevels_of_strat _ (stratBin_of_stratTop _ ha.2.1.2 hs.1.1.1) ha.2.1.2 hp.1,
        pyLevelsArgs_of_strat rest false hs.1.2 ha.2.2 hp.2⟩
end

end FormulaeModel.Lazy
