import FormulaeModel.Proofs.ShapeStack
/-
Concrete inputs used by the non-vacuity examples of the design-level shape theorems
(Properties/C04.lean, Properties/C17.lean): a frame with a 3-level factor, a numeric column, a
grouping column; the same frame with a missing cell; a later frame in which a new group occurs.
-/
namespace FormulaeModel.ShapeEx
open FormulaeModel FormulaeModel.Design

def exTk (k : Kind) (s : String) : Token := ⟨k, s⟩
def exVar (s : String) : Expr := .variable (exTk .IDENTIFIER s)
def exCall1 (f : String) (a : Expr) : Expr :=
  .call (exVar f) (exTk .LEFT_PAREN "(") (.last a) (exTk .RIGHT_PAREN ")")

def exFrame : Frame :=
  [⟨"y", .numeric true, [.num 1, .num 0, .num 1, .num 1]⟩,
   ⟨"f", .string, [.str "a", .str "b", .str "c", .str "a"]⟩,
   ⟨"x", .numeric true, [.num 1, .num 2, .num 4, .num 5]⟩,
   ⟨"g", .string, [.str "u", .str "v", .str "u", .str "v"]⟩]
/-- the same with a missing `x` in the second row -/
def exFrameNA : Frame :=
  [⟨"y", .numeric true, [.num 1, .num 0, .num 1, .num 1]⟩,
   ⟨"f", .string, [.str "a", .str "b", .str "c", .str "a"]⟩,
   ⟨"x", .numeric true, [.num 1, .na, .num 4, .num 5]⟩,
   ⟨"g", .string, [.str "u", .str "v", .str "u", .str "v"]⟩]
def exEnv : Env := { frame := exFrame, names := [("lv", .levels [.s "c", .s "a", .s "b"])] }
def exEnvNA : Env := { exEnv with frame := exFrameNA }
def exTable : List (String × Expr) :=
  [("f", exVar "f"), ("x", exVar "x"), ("g", exVar "g"), ("C(f)", exCall1 "C" (exVar "f"))]
/-- a later frame: 2 rows, the group `zz` was not seen in training -/
def exNew : Env := { frame :=
  [⟨"f", .string, [.str "b", .str "b"]⟩, ⟨"x", .numeric true, [.num 7, .num 8]⟩,
   ⟨"g", .string, [.str "u", .str "zz"]⟩] }
def exTermSpec : TermSpec := ⟨"C(f):x", [("C(f)", false), ("x", false)]⟩
def exGroupSpec : GroupSpec := ⟨"x|g", some ⟨"x", [("x", false)]⟩, ⟨"g", [("g", true)]⟩⟩
def exDesign (env : Env) : Except Pipeline.PErr Pipeline.Built :=
  Pipeline.designMatrices Generated.parserTable Generated.resolverOps Generated.naActions
    "y ~ f + x + (x|g)" env "drop"

end FormulaeModel.ShapeEx
