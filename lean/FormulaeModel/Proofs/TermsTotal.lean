import FormulaeModel.Proofs.TermsResolve
set_option linter.unusedSectionVars false
set_option linter.unusedSimpArgs false
set_option linter.unusedVariables false
/-
C02: on the intercept-free fragment with exponents ≥ 2 `Resolver.resolve` raises nothing.
-/
namespace FormulaeModel.Resolver
open FormulaeModel FormulaeModel.Terms FormulaeModel.Spec.C02

-- ---------------------------------------------------------------------------------------------
-- integer literals: a digit string of value ≥ 2 is neither `0`, nor `1`, nor a float
-- ---------------------------------------------------------------------------------------------
def dstep (n : Nat) (c : Char) : Nat := 10 * n + (c.toNat - '0'.toNat)

theorem digitsVal_eq (l : List Char) : digitsVal l = l.foldl dstep 0 := rfl

theorem digitsVal_zeros (l : List Char) (h : l.all (· == '0') = true) : digitsVal l = 0 := by
  rw [digitsVal_eq]
  induction l with
  | nil => rfl
  | cons c l ih =>
    simp only [List.all_cons, Bool.and_eq_true, beq_iff_eq] at h
    obtain ⟨rfl, h⟩ := h
    simp only [List.foldl_cons]
    have : dstep 0 '0' = 0 := by decide
    rw [this]
    exact ih h

theorem digitsVal_dropZeros (l : List Char) : digitsVal (l.dropWhile (· == '0')) = digitsVal l := by
  rw [digitsVal_eq, digitsVal_eq]
  induction l with
  | nil => rfl
  | cons c l ih =>
    by_cases hc : c = '0'
    · subst hc
      simp only [List.dropWhile_cons, beq_self_eq_true, if_true, List.foldl_cons]
      have : dstep 0 '0' = 0 := by decide
      rw [this]
      exact ih
    · have : (c == '0') = false := by simpa using hc
      simp [List.dropWhile_cons, this]

theorem no_dot_of_digits (l : List Char) (h : l.all Char.isDigit = true) :
    l.filter (· != '.') = l := by
  apply List.filter_eq_self.2
  intro c hc
  have := List.all_eq_true.1 h c hc
  have hne : c ≠ '.' := by
    intro e; subst e; exact absurd this (by decide)
  simpa using hne

theorem not_float_of_digits (s : String) (h : s.toList.all Char.isDigit = true) :
    isFloatLexeme s = false := by
  unfold isFloatLexeme
  rw [Bool.eq_false_iff]
  intro hc
  have hc' : '.' ∈ s.toList := by simpa using hc
  have := List.all_eq_true.1 h '.' hc'
  exact absurd this (by decide)

theorem not_zero_of_val (s : String) (h : s.toList.all Char.isDigit = true)
    (hv : digitsVal s.toList ≥ 2) : numIsZero s = false := by
  rw [Bool.eq_false_iff]
  intro hz
  unfold numIsZero allZero at hz
  rw [no_dot_of_digits _ h] at hz
  have := digitsVal_zeros _ hz
  omega

theorem span_loop_all {α : Type} (p : α → Bool) (l acc : List α) (h : l.all p = true) :
    List.span.loop p l acc = (acc.reverse ++ l, []) := by
  induction l generalizing acc with
  | nil => simp [List.span.loop]
  | cons a l ih =>
    simp only [List.all_cons, Bool.and_eq_true] at h
    simp [List.span.loop, h.1, ih _ h.2]

theorem span_all {α : Type} (p : α → Bool) (l : List α) (h : l.all p = true) :
    l.span p = (l, []) := by
  unfold List.span
  rw [span_loop_all p l [] h]
  rfl

theorem not_one_of_val (s : String) (h : s.toList.all Char.isDigit = true)
    (hv : digitsVal s.toList ≥ 2) : numIsOne s = false := by
  rw [Bool.eq_false_iff]
  intro hz
  unfold numIsOne at hz
  have hsp : s.toList.span (· != '.') = (s.toList, []) := by
    apply span_all
    apply List.all_eq_true.2
    intro c hc
    have := List.all_eq_true.1 h c hc
    have hne : c ≠ '.' := by
      intro e; subst e; exact absurd this (by decide)
    simpa using hne
  simp only [hsp, Bool.and_eq_true, beq_iff_eq] at hz
  have h1 := hz.1
  unfold stripLeadingZeros at h1
  have hdv := digitsVal_dropZeros s.toList
  split at h1
  · simp at h1
  · rename_i r hr
    rw [h1] at hdv
    have : digitsVal ['1'] = 1 := by decide
    omega

/-- `Resolver.visitLiteralExpr` on an integer literal of value ≥ 2 -/
theorem resolve_int_literal (t : Token) (hk : t.kind = .NUMBER)
    (h : t.lexeme.toList.all Char.isDigit = true) (hv : digitsVal t.lexeme.toList ≥ 2) :
    resolve docOps (.literal t) =
      .ok (.c (.term [.var (.int ((digitsVal t.lexeme.toList : Nat) : Int)) none])) := by
  simp only [resolve, hk, not_zero_of_val _ h hv, not_one_of_val _ h hv, not_float_of_digits _ h,
    Bool.false_eq_true, if_false, pure, Except.pure, Int.ofNat_eq_natCast]

def TotalAt (e : Expr) : Prop :=
  ∀ d, denT e = some d → expGe2 e = true → ∃ v, resolve docOps e = .ok v

theorem total_binary (l : Expr) (op : Token) (r : Expr) (o : Op) (pop : PV → PV → PV)
    (ho : lookupOp docOps op.kind = some o)
    (happ : ∀ p q, Good p → Good q → apply o p.toObj q.toObj = .ok (pop p q).toObj)
    (hne : (op.kind == .STAR_STAR) = false)
    (ihl : TotalAt l) (ihr : TotalAt r)
    (hd : ∃ a b, denT l = some a ∧ denT r = some b)
    (he : expGe2 (.binary l op r) = true) : ∃ v, resolve docOps (.binary l op r) = .ok v := by
  obtain ⟨a, b, ha, hb⟩ := hd
  simp only [expGe2, hne, Bool.false_eq_true, if_false, Bool.and_eq_true] at he
  obtain ⟨lv, hl⟩ := ihl a ha he.1
  obtain ⟨rv, hr⟩ := ihr b hb he.2
  obtain ⟨p, rfl, hgp, _⟩ := plain_main l a lv ha hl
  obtain ⟨q, rfl, hgq, _⟩ := plain_main r b rv hb hr
  refine ⟨(pop p q).toObj, ?_⟩
  simp only [resolve, ho, hl, hr, bind, Except.bind, happ p q hgp hgq]

theorem plain_total (e : Expr) : TotalAt e := by
  induction e using denT.induct with
  | case1 lp e rp ih =>
    intro d hd he
    simp only [denT] at hd
    simp only [expGe2] at he
    simp only [resolve]
    exact ih d hd he
  | case2 l op r hk ihl ihr =>
    intro d hd he
    simp only [denT, hk] at hd
    obtain ⟨a, b, ha, hb, _⟩ := opt_bind2 hd
    exact total_binary l op r .add padd (by rw [hk]; rfl) (fun p q _ _ => add_plain p q)
      (by rw [hk]; rfl) ihl ihr ⟨a, b, ha, hb⟩ he
  | case3 l op r hk ihl ihr =>
    intro d hd he
    simp only [denT, hk] at hd
    obtain ⟨a, b, ha, hb, _⟩ := opt_bind2 hd
    exact total_binary l op r .sub psub (by rw [hk]; rfl) (fun p q _ _ => sub_plain p q)
      (by rw [hk]; rfl) ihl ihr ⟨a, b, ha, hb⟩ he
  | case4 l op r hk ihl ihr =>
    intro d hd he
    simp only [denT, hk] at hd
    obtain ⟨a, b, ha, hb, _⟩ := opt_bind2 hd
    exact total_binary l op r .matmul pmatmul (by rw [hk]; rfl)
      (fun p q _ hq => matmul_plain p q hq.nonNum)
      (by rw [hk]; rfl) ihl ihr ⟨a, b, ha, hb⟩ he
  | case5 l op r hk ihl ihr =>
    intro d hd he
    simp only [denT, hk] at hd
    obtain ⟨a, b, ha, hb, _⟩ := opt_bind2 hd
    exact total_binary l op r .mul pmul (by rw [hk]; rfl)
      (fun p q _ hq => mul_plain p q hq.nonNum)
      (by rw [hk]; rfl) ihl ihr ⟨a, b, ha, hb⟩ he
  | case6 l op r hk ihl ihr =>
    intro d hd he
    simp only [denT, hk] at hd
    obtain ⟨a, b, ha, hb, _⟩ := opt_bind2 hd
    exact total_binary l op r .truediv pdiv (by rw [hk]; rfl)
      (fun p q _ hq => div_plain p q hq.nonNum)
      (by rw [hk]; rfl) ihl ihr ⟨a, b, ha, hb⟩ he
  | case7 l op r hk ihl =>
    intro d hd he
    simp only [denT, hk] at hd
    cases hden : denT l with
    | none => simp [hden] at hd
    | some a =>
      simp only [expGe2, hk, beq_self_eq_true, if_true, Bool.and_eq_true] at he
      obtain ⟨lv, hl⟩ := ihl a hden he.1
      obtain ⟨p, rfl, hgp, _⟩ := plain_main l a lv hden hl
      cases r with
      | literal t =>
        simp only [hden, Option.bind_eq_bind, Option.bind_some] at hd
        by_cases hkind : t.kind = .NUMBER
        · have he2 := he.2
          simp only [natOfLexeme] at he2
          by_cases hdig : t.lexeme.toList.all Char.isDigit = true
          · simp only [hdig, if_true, decide_eq_true_eq] at he2
            have hlit := resolve_int_literal t hkind hdig he2
            refine ⟨(ppow p (digitsVal t.lexeme.toList)).toObj, ?_⟩
            have ho : lookupOp docOps op.kind = some .pow := by rw [hk]; rfl
            simp only [resolve] at hlit
            simp only [resolve, ho, hl, hlit, bind, Except.bind, apply]
            exact pow_plain p _ none (by omega)
          · simp [hdig] at he2
        · have : (t.kind == Kind.NUMBER) = false := by simpa using hkind
          simp [this] at hd
      | _ => simp at he
  | case8 l op r h1 h2 h3 h4 h5 h6 =>
    intro d hd he
    simp only [denT] at hd
    exact absurd hd (by simp)
  | case9 e h1 h2 =>
    intro d hd he
    cases e with
    | grouping lp e rp => exact (h1 _ _ _ rfl).elim
    | binary l op r => exact (h2 _ _ _ rfl).elim
    | «variable» n => exact ⟨_, by simp only [resolve]; rfl⟩
    | quoted t => exact ⟨_, by simp only [resolve]; rfl⟩
    | call c lp as rp =>
      simp only [denT, atomOf] at hd
      cases hc : callAtom c as with
      | error er => simp [hc, Except.toOption] at hd
      | ok a => exact ⟨_, by simp only [resolve, hc, bind, Except.bind]; rfl⟩
    | brace lb e rb =>
      simp only [denT, atomOf] at hd
      cases hc : noKw (lazyArg (.brace lb e rb)) with
      | error er => simp [hc] at hd
      | ok a => exact ⟨_, by simp only [resolve, hc, bind, Except.bind]; rfl⟩
    | _ => simp [denT, atomOf] at hd

/-- inside the intercept-free fragment, "no `** 1`" (the D5 class) is "every exponent ≥ 2" -/
theorem expGe2_of_noD5 (e : Expr) : ∀ d, denT e = some d → gapD5 e = false → expGe2 e = true := by
  unfold gapD5
  induction e using denT.induct with
  | case1 lp e rp ih =>
    intro d hd hg
    simp only [denT] at hd
    simp only [expGe2]
    exact ih d hd ((anySub_grouping _ _ _ _).1 hg).2
  | case2 l op r hk ihl ihr | case3 l op r hk ihl ihr | case4 l op r hk ihl ihr
  | case5 l op r hk ihl ihr | case6 l op r hk ihl ihr =>
    intro d hd hg
    simp only [denT, hk] at hd
    obtain ⟨a, b, ha, hb, _⟩ := opt_bind2 hd
    have hg' := (anySub_binary _ _ _ _).1 hg
    have : (op.kind == Kind.STAR_STAR) = false := by rw [hk]; rfl
    simp only [expGe2, this, Bool.false_eq_true, if_false, Bool.and_eq_true]
    exact ⟨ihl a ha hg'.2.1, ihr b hb hg'.2.2⟩
  | case7 l op r hk ihl =>
    intro d hd hg
    simp only [denT, hk] at hd
    have hg' := (anySub_binary _ _ _ _).1 hg
    cases hden : denT l with
    | none => simp [hden] at hd
    | some a =>
      simp only [expGe2, hk, beq_self_eq_true, if_true, Bool.and_eq_true]
      refine ⟨ihl a hden hg'.2.1, ?_⟩
      cases r with
      | literal t =>
        simp only [hden, Option.bind_eq_bind, Option.bind_some] at hd
        have h1 := hg'.1
        simp only [hk, beq_self_eq_true, Bool.true_and, Bool.or_eq_false_iff, isOneLit,
          Bool.and_eq_false_iff] at h1
        by_cases hkind : t.kind = .NUMBER
        · simp only [hkind, beq_self_eq_true, if_true] at hd
          cases hn : natOfLexeme t.lexeme with
          | none => simp [hn] at hd
          | some n =>
            simp only [hn] at hd
            have h2 := h1.2
            simp only [hkind, beq_self_eq_true, Bool.true_eq_false, false_or, hn] at h2
            have hne : n ≠ 1 := by
              intro e; subst e; simp at h2
            by_cases hge : n ≥ 1
            · simp only [hn, decide_eq_true_eq]; omega
            · simp [hge] at hd
        · have : (t.kind == Kind.NUMBER) = false := by simpa using hkind
          simp [this] at hd
      | _ => simp [hden] at hd
  | case8 l op r h1 h2 h3 h4 h5 h6 =>
    intro d hd hg
    simp only [denT] at hd
    exact absurd hd (by simp)
  | case9 e h1 h2 =>
    intro d hd hg
    cases e with
    | grouping lp e rp => exact (h1 _ _ _ rfl).elim
    | binary l op r => exact (h2 _ _ _ rfl).elim
    | _ => simp [expGe2]

end FormulaeModel.Resolver
