import FormulaeModel.Proofs.TransformsPartition
/-
The knot vector built by `_initialize` is clamped: `t[degree] = lower`, `t[n-degree-1] = upper`,
sorted, with at least `2(degree+1)` knots.
-/
namespace FormulaeModel.Transforms

theorem tk_cons_succ (b : Rat) (t : List Rat) (i : Nat) : tk (b :: t) (i + 1) = tk t i := by
  simp [tk]

theorem tk_mem (t : List Rat) (i : Nat) (h : i < t.length) : tk t i ∈ t := by
  simp only [tk, List.getD_eq_getElem?_getD, List.getElem?_eq_getElem h, Option.getD_some]
  exact List.getElem_mem h

theorem count_insertSorted (a b : Rat) (l : List Rat) :
    List.count a (insertSorted b l) = List.count a (b :: l) := by
  induction l with
  | nil => rfl
  | cons c l ih =>
    simp only [insertSorted]
    split
    · rfl
    · simp only [List.count_cons, ih]; omega

theorem count_sort (a : Rat) (l : List Rat) : List.count a (sort l) = List.count a l := by
  induction l with
  | nil => rfl
  | cons b l ih => simp only [sort, count_insertSorted, List.count_cons, ih]

theorem count_replicate2_lo (lo hi : Rat) (m : Nat) : m ≤ List.count lo (replicate2 lo hi m) := by
  induction m with
  | zero => simp
  | succ m ih => simp only [replicate2, List.count_cons, beq_self_eq_true, if_true]; omega

theorem count_replicate2_hi (lo hi : Rat) (m : Nat) : m ≤ List.count hi (replicate2 lo hi m) := by
  induction m with
  | zero => simp
  | succ m ih => simp only [replicate2, List.count_cons, beq_self_eq_true, if_true]; omega

/-- the first `m` entries of a sorted list bounded below by `lo` that contains `lo` `m` times -/
theorem head_eq_of_count (lo : Rat) (t : List Rat) (hs : t.Pairwise (· ≤ ·)) (hb : ∀ v ∈ t, lo ≤ v)
    (m : Nat) (hc : m ≤ List.count lo t) (i : Nat) (hi : i < m) : tk t i = lo := by
  induction t generalizing m i with
  | nil => simp at hc; omega
  | cons b t ih =>
    rw [List.pairwise_cons] at hs
    by_cases hbl : b = lo
    · subst hbl
      cases i with
      | zero => simp [tk]
      | succ i =>
        rw [tk_cons_succ]
        apply ih hs.2 (fun v hv => hb v (by simp [hv])) (m - 1) _ i (by omega)
        simp only [List.count_cons, beq_self_eq_true, if_true] at hc
        omega
    · exfalso
      have hlt : lo < b := lt_of_le_of_ne (hb b (by simp)) (Ne.symm hbl)
      have : List.count lo (b :: t) = 0 := by
        rw [List.count_eq_zero]
        intro hmem
        rcases List.mem_cons.mp hmem with h | h
        · exact hbl h.symm
        · have := hs.1 lo h; linarith
      omega

/-- the last `m` entries of a sorted list bounded above by `hi` that contains `hi` `m` times -/
theorem tail_eq_of_count (hi : Rat) (t : List Rat) (hs : t.Pairwise (· ≤ ·)) (hb : ∀ v ∈ t, v ≤ hi)
    (m : Nat) (hc : m ≤ List.count hi t) (i : Nat) (h1 : t.length - m ≤ i) (h2 : i < t.length) :
    tk t i = hi := by
  induction t generalizing i with
  | nil => simp at h2
  | cons b t ih =>
    rw [List.pairwise_cons] at hs
    cases i with
    | zero =>
      have hlen : List.count hi (b :: t) = (b :: t).length := by
        have := List.count_le_length (a := hi) (l := b :: t)
        simp only [List.length_cons] at h1 this ⊢
        omega
      have := (List.count_eq_length.mp hlen) b (by simp)
      simp [tk, this]
    | succ i =>
      rw [tk_cons_succ]
      simp only [List.length_cons] at h1 h2
      by_cases hbh : b = hi
      · have hmem := tk_mem t i (by omega)
        have h3 := hs.1 _ hmem
        have h4 := hb _ (List.mem_cons_of_mem b hmem)
        rw [hbh] at h3
        exact le_antisymm h4 h3
      · apply ih hs.2 (fun v hv => hb v (by simp [hv])) _ i (by omega) (by omega)
        simp only [List.count_cons] at hc
        have : (b == hi) = false := by simpa using hbh
        rw [this] at hc
        simpa using hc

/-- The accepted knot vector is sorted, long enough and clamped at the bounds. -/
theorem BsAccepted.clamped {x a p} (A : BsAccepted x a p) :
    Mono p.knots ∧ 2 * (p.degree + 1) ≤ p.knots.length ∧
    tk p.knots p.degree = A.lower ∧ tk p.knots (p.knots.length - p.degree - 1) = A.upper := by
  have hlen := A.knots_length
  have hsorted : p.knots.Pairwise (· ≤ ·) := by rw [A.hknots]; exact pairwise_sort _
  have hmem : ∀ v ∈ p.knots, A.lower ≤ v ∧ v ≤ A.upper := by
    intro v hv
    rw [A.hknots, mem_sort, List.mem_append] at hv
    rcases hv with hv | hv
    · rcases mem_replicate2 _ _ _ _ hv with rfl | rfl
      · exact ⟨le_refl _, A.hle⟩
      · exact ⟨A.hle, le_refl _⟩
    · exact A.hin v hv
  have hclo : p.degree + 1 ≤ List.count A.lower p.knots := by
    rw [A.hknots, count_sort, List.count_append, ← A.hpdeg]
    have := count_replicate2_lo A.lower A.upper (p.degree + 1)
    omega
  have hchi : p.degree + 1 ≤ List.count A.upper p.knots := by
    rw [A.hknots, count_sort, List.count_append, ← A.hpdeg]
    have := count_replicate2_hi A.lower A.upper (p.degree + 1)
    omega
  refine ⟨mono_of_pairwise _ hsorted, by omega, ?_, ?_⟩
  · exact head_eq_of_count _ _ hsorted (fun v hv => (hmem v hv).1) _ hclo _ (by omega)
  · exact tail_eq_of_count _ _ hsorted (fun v hv => (hmem v hv).2) _ hchi _ (by omega) (by omega)

end FormulaeModel.Transforms
