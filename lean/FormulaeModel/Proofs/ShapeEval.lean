import FormulaeModel.Proofs.RowsEval
set_option linter.unusedSimpArgs false
set_option linter.unusedSectionVars false
set_option linter.unusedVariables false
/-
Shape lemmas (C04 / C17), part 1: lazy evaluation keeps the number of rows.  Every vector-like
value `evalArg` returns — on the first evaluation or on a later one, for every expression — has
exactly `env.frame.nrows` entries, provided the frame is rectangular and every vector-like value
bound in the caller's namespace has that many entries.
-/
namespace FormulaeModel.Design
open FormulaeModel

/-- vector-like values have `n` entries (scalars, lists of levels, encodings: no condition) -/
def Val.sized (n : Nat) : Val → Bool
  | .vec xs _ => xs.length == n
  | .lvec xs _ => xs.length == n
  | .box b => b.data.length == n
  | .offsetVar xs => xs.length == n
  | .prop ss ts _ => ss.length == n && ts.length == n
  | _ => true

/-- every value bound in the caller's namespace that is vector-like has `n` entries -/
def Env.namesSized (env : Env) (n : Nat) : Bool := env.names.all (fun p => p.2.sized n)

theorem Val.sized_of_scalar (v : Val) (n : Nat) (h : v.isScalar = true) : v.sized n = true := by
  cases v <;> simp_all [Val.sized, Val.isScalar]

/-- a namespace of scalars / lists / encodings is sized for every row count -/
theorem Env.namesSized_of_scalar (env : Env) (n : Nat) (h : env.namesScalar = true) :
    env.namesSized n = true := by
  simp only [Env.namesScalar, Env.namesSized, List.all_eq_true] at h ⊢
  intro p hp
  exact Val.sized_of_scalar _ _ (h p hp)

theorem colVal_sized (c : Column) : (colVal c).sized c.cells.length = true := by
  unfold colVal
  cases c.kind <;> simp [Val.sized]

theorem lookupName_sized (env : Env) (hwf : env.frame.wellFormed = true)
    (hn : env.namesSized env.frame.nrows = true) (name : String) (v : Val)
    (h : lookupName env name = .ok v) : v.sized env.frame.nrows = true := by
  unfold lookupName at h
  cases hc : env.frame.col? name with
  | some c =>
    simp only [hc, pure, Except.pure, Except.ok.injEq] at h
    subst h
    rw [← frame_col?_length env.frame hwf name c hc]
    exact colVal_sized c
  | none =>
    simp only [hc] at h
    split at h
    · simp only [pure, Except.pure, Except.ok.injEq] at h; subst h; simp [Val.sized]
    · split at h
      · simp only [pure, Except.pure, Except.ok.injEq] at h; subst h; simp [Val.sized]
      · split at h
        · rename_i p hp
          simp only [pure, Except.pure, Except.ok.injEq] at h
          subst h
          have hm := List.mem_of_find?_eq_some hp
          simp only [Env.namesSized, List.all_eq_true] at hn
          exact hn p hm
        · simp at h

theorem vecOp_sized (f : Rat → Rat → Option Rat) (a b c : Val) (n : Nat) (ha : a.sized n = true)
    (hb : b.sized n = true) (h : vecOp f a b = .ok c) : c.sized n = true := by
  unfold vecOp at h
  split at h
  · simp only [pure, Except.pure, Except.ok.injEq] at h; subst h
    simp only [Val.sized, beq_iff_eq] at *; simp [ha, hb]
  · simp only [pure, Except.pure, Except.ok.injEq] at h; subst h
    simp only [Val.sized, beq_iff_eq] at *; simp [ha]
  · simp only [pure, Except.pure, Except.ok.injEq] at h; subst h
    simp only [Val.sized, beq_iff_eq] at *; simp [hb]
  · split at h
    · simp only [pure, Except.pure, Except.ok.injEq] at h; subst h; simp [Val.sized]
    · simp at h
  · simp at h

/-! ### call arguments -/

def CallArgs.sized (n : Nat) (a : CallArgs) : Prop :=
  (∀ v ∈ a.pos, v.sized n = true) ∧ (∀ p ∈ a.kw, p.2.sized n = true)

theorem CallArgs.get_sized (a : CallArgs) (n : Nat) (h : a.sized n) (i : Nat) (name : String) :
    (a.get i name).sized n = true := by
  simp only [CallArgs.get]
  cases hp : a.pos[i]? with
  | some v => exact h.1 v (List.mem_of_getElem? hp)
  | none =>
    cases hk : List.find? (fun x => x.1 == name) a.kw with
    | none => simp [Val.sized]
    | some p => exact h.2 p (List.mem_of_find?_eq_some hk)

theorem CallArgs.sized_snoc_pos (n : Nat) (acc : CallArgs) (x : Val) (h : acc.sized n)
    (hx : x.sized n = true) : CallArgs.sized n ⟨acc.pos ++ [x], acc.kw⟩ := by
  refine ⟨?_, h.2⟩
  intro v hv
  simp only [List.mem_append, List.mem_singleton] at hv
  rcases hv with hv | rfl
  · exact h.1 v hv
  · exact hx

theorem CallArgs.sized_snoc_kw (n : Nat) (acc : CallArgs) (k : String) (x : Val) (h : acc.sized n)
    (hx : x.sized n = true) : CallArgs.sized n ⟨acc.pos, acc.kw ++ [(k, x)]⟩ := by
  refine ⟨h.1, ?_⟩
  intro p hp
  simp only [List.mem_append, List.mem_singleton] at hp
  rcases hp with hp | rfl
  · exact h.2 p hp
  · exact hx

/-! ### the callees -/

/-- `CategoricalBox(...)` holds the data it was given -/
theorem mkBox_data (data : List (Option Level)) (decl : Option (Bool × List String))
    (contrast : Option Contrast) (levels : Option (List Level)) (b : Box)
    (h : mkBox data decl contrast levels = .ok b) : b.data = data := by
  unfold mkBox at h
  simp only at h
  split at h
  · split at h
    · simp at h
    · split at h
      · simp only [pure, Except.pure, Except.ok.injEq] at h; subst h; rfl
      · simp at h
  · simp only [pure, Except.pure, Except.ok.injEq] at h; subst h; rfl

theorem dataLevels_length (d : Val) (n : Nat) (hg : d.sized n = true) (xs : List (Option Level))
    (decl : Option (Bool × List String)) (h : dataLevels d = .ok (xs, decl)) : xs.length = n := by
  unfold dataLevels at h
  split at h
  · simp only [pure, Except.pure, Except.ok.injEq, Prod.mk.injEq] at h
    obtain ⟨rfl, rfl⟩ := h
    simpa [Val.sized] using hg
  · simp only [pure, Except.pure, Except.ok.injEq, Prod.mk.injEq] at h
    obtain ⟨rfl, rfl⟩ := h
    simpa [Val.sized] using hg
  · simp at h

/-- the common tail of `C` (non-box data), `T` and `S` -/
theorem boxCall_sized (d : Val) (n : Nat) (hg : d.sized n = true) (c : Option Contrast)
    (l : Option (List Level)) (own : Option Rat) (r : Val × Option Rat)
    (h : (do
      let __x ← dataLevels d
      match __x with
        | (xs, decl) => do
          let __do_lift ← mkBox xs decl c l
          pure (Val.box __do_lift, own)) = Except.ok r) : r.1.sized n = true := by
  simp only [bind_ok] at h
  obtain ⟨⟨xs, decl⟩, h1, h2⟩ := h
  simp only [bind_ok, pure_ok] at h2
  obtain ⟨b, hb, rfl⟩ := h2
  have := mkBox_data _ _ _ _ _ hb
  simp [Val.sized, this, dataLevels_length d n hg xs decl h1]

theorem applyCallee_sized (callee : String) (a : CallArgs) (n : Nat) (own : Option Rat) (v : Val)
    (own' : Option Rat) (hg : a.sized n) (h : applyCallee callee a own = .ok (v, own')) :
    v.sized n = true := by
  unfold applyCallee at h
  split at h
  · -- I
    split at h
    · rename_i w hw
      simp only [pure_ok, Prod.mk.injEq] at h
      obtain ⟨rfl, rfl⟩ := h
      exact hg.1 _ (by simp [hw])
    · simp at h
  · -- center
    split at h
    · rename_i xs isInt hw
      have hxs := hg.1 (Val.vec xs isInt) (by simp [hw])
      simp only at h
      split at h
      · split at h
        · simp only [pure_ok, Prod.mk.injEq] at h
          obtain ⟨rfl, rfl⟩ := h
          simpa [Val.sized] using hxs
        · simp at h
      · simp only [pure_ok, Prod.mk.injEq] at h
        obtain ⟨rfl, rfl⟩ := h
        simpa [Val.sized] using hxs
    · simp at h
  · simp only [pure_ok, Prod.mk.injEq] at h
    obtain ⟨rfl, rfl⟩ := h
    simp [Val.sized]
  · simp only [pure_ok, Prod.mk.injEq] at h
    obtain ⟨rfl, rfl⟩ := h
    simp [Val.sized]
  · -- C
    simp only [bind_ok] at h
    obtain ⟨contrast, hc, levels, hl', h⟩ := h
    have hg0 := CallArgs.get_sized a n hg 0 "data"
    generalize a.get 0 "data" = d at h hg0
    cases d with
    | box b =>
      simp only [bind_ok, pure_ok, Prod.mk.injEq] at h
      obtain ⟨b', hb', rfl, rfl⟩ := h
      have := mkBox_data _ _ _ _ _ hb'
      simpa [Val.sized, this] using hg0
    | lvec xs dd => exact boxCall_sized (.lvec xs dd) n hg0 contrast levels own (v, own') h
    | vec xs b => exact boxCall_sized (.vec xs b) n hg0 contrast levels own (v, own') h
    | _ => simp [dataLevels, bind, Except.bind] at h
  · rw [bind_ok] at h
    obtain ⟨levels, hl', h⟩ := h
    exact boxCall_sized _ n (CallArgs.get_sized a n hg 0 "data") _ levels own (v, own') h
  · rw [bind_ok] at h
    obtain ⟨levels, hl', h⟩ := h
    exact boxCall_sized _ n (CallArgs.get_sized a n hg 0 "data") _ levels own (v, own') h
  · -- offset
    split at h
    · rename_i xs isInt hw
      simp only [pure_ok, Prod.mk.injEq] at h
      obtain ⟨rfl, rfl⟩ := h
      have := hg.1 (Val.vec xs isInt) (by simp [hw])
      simpa [Val.sized] using this
    · simp only [pure_ok, Prod.mk.injEq] at h
      obtain ⟨rfl, rfl⟩ := h
      simp [Val.sized]
    · simp at h
  · simp at h

theorem binaryFn_sized (x s v : Val) (n : Nat) (hx : x.sized n = true) (h : binaryFn x s = .ok v) :
    v.sized n = true := by
  unfold binaryFn at h
  split at h
  · rename_i xs isInt
    have hxs : xs.length = n := by simpa [Val.sized] using hx
    repeat' (first | split at h | simp only [pure_bind] at h)
    all_goals first
      | (simp at h; done)
      | (simp only [bind_ok] at h; simp at h; done)
      | (simp only [pure_ok] at h; subst h; simp [Val.sized, hxs])
  · rename_i xs d
    have hxs : xs.length = n := by simpa [Val.sized] using hx
    repeat' (first | split at h | simp only [pure_bind] at h)
    all_goals first
      | (simp at h; done)
      | (simp only [bind_ok] at h; simp at h; done)
      | (simp only [pure_ok] at h; subst h; simp [Val.sized, hxs])
  · simp at h

theorem proportionFn_sized (s t v : Val) (n : Nat) (hs : s.sized n = true) (ht : t.sized n = true)
    (h : proportionFn s t = .ok v) : v.sized n = true := by
  unfold proportionFn at h
  split at h
  · rename_i ss isInt
    have hss : ss.length = n := by simpa [Val.sized] using hs
    simp only [] at h
    repeat' (first | split at h | simp only [pure_bind] at h)
    all_goals first
      | (simp at h; done)
      | (simp only [bind_ok] at h; simp at h; done)
      | (simp only [pure_ok] at h; subst h; simp only [Val.sized, beq_iff_eq] at ht
         simp [Val.sized, hss, ht])
      | (simp only [pure_ok] at h; subst h; simp [Val.sized, hss])
  · simp at h

theorem finishCall_sized (callee : String) (a : CallArgs) (n : Nat) (own : Option Rat) (v : Val)
    (own' : Option Rat) (hg : a.sized n) (h : finishCall callee a own = .ok (v, own')) :
    v.sized n = true := by
  unfold finishCall at h
  split at h
  · simp only [bind_ok, pure_ok, Prod.mk.injEq] at h
    obtain ⟨w, hw, rfl, rfl⟩ := h
    exact binaryFn_sized _ _ _ n (CallArgs.get_sized a n hg 0 "x") hw
  · simp only [bind_ok, pure_ok, Prod.mk.injEq] at h
    obtain ⟨w, hw, rfl, rfl⟩ := h
    exact binaryFn_sized _ _ _ n (CallArgs.get_sized a n hg 0 "x") hw
  · simp only [bind_ok, pure_ok, Prod.mk.injEq] at h
    obtain ⟨w, hw, rfl, rfl⟩ := h
    exact proportionFn_sized _ _ _ n (CallArgs.get_sized a n hg 0 "successes")
      (CallArgs.get_sized a n hg 1 "trials") hw
  · simp only [bind_ok, pure_ok, Prod.mk.injEq] at h
    obtain ⟨w, hw, rfl, rfl⟩ := h
    exact proportionFn_sized _ _ _ n (CallArgs.get_sized a n hg 0 "successes")
      (CallArgs.get_sized a n hg 1 "trials") hw
  · simp only [bind_ok, pure_ok, Prod.mk.injEq] at h
    obtain ⟨w, hw, rfl, rfl⟩ := h
    exact proportionFn_sized _ _ _ n (CallArgs.get_sized a n hg 0 "successes")
      (CallArgs.get_sized a n hg 1 "trials") hw
  · exact applyCallee_sized callee a n own v own' hg h

/-! ### the evaluator -/

section
variable (env : Env) (hwf : env.frame.wellFormed = true)
  (hn : env.namesSized env.frame.nrows = true)
include hwf hn

mutual
/-- every value of lazy evaluation (first or later evaluation, any expression) has one entry per
row of the frame -/
theorem evalArg_sized : ∀ (e : Expr) (ts : Option TS) (kw : Option String) (v : Val) (t : TS),
    evalArg env e ts = .ok (kw, v, t) → v.sized env.frame.nrows = true
  | .grouping lp e rp, ts, kw, v, t, h => by
    simp only [evalArg, bind_ok, pure_ok, Prod.mk.injEq] at h
    obtain ⟨⟨v', t'⟩, h1, rfl, rfl, rfl⟩ := h
    rw [posOnly_ok] at h1
    exact evalArg_sized e _ _ _ _ h1
  | .variable n, ts, kw, v, t, h => by
    simp only [evalArg, bind_ok, pure_ok, Prod.mk.injEq] at h
    obtain ⟨v', h1, rfl, rfl, rfl⟩ := h
    exact lookupName_sized env hwf hn _ _ h1
  | .subset n _ _ _, ts, kw, v, t, h => by
    simp only [evalArg, bind_ok, pure_ok, Prod.mk.injEq] at h
    obtain ⟨v', h1, rfl, rfl, rfl⟩ := h
    exact lookupName_sized env hwf hn _ _ h1
  | .quoted q, ts, kw, v, t, h => by
    simp only [evalArg, bind_ok, pure_ok, Prod.mk.injEq] at h
    obtain ⟨v', h1, rfl, rfl, rfl⟩ := h
    exact lookupName_sized env hwf hn _ _ h1
  | .literal q, ts, kw, v, t, h => by
    simp only [evalArg] at h
    repeat' split at h
    all_goals first
      | (simp at h; done)
      | (simp only [pure_ok, Prod.mk.injEq] at h
         obtain ⟨rfl, rfl, rfl⟩ := h
         simp [Val.sized])
  | .unary op r, ts, kw, v, t, h => by
    simp only [evalArg, bind_ok] at h
    obtain ⟨⟨v', t'⟩, h1, h3⟩ := h
    rw [posOnly_ok] at h1
    have g := evalArg_sized r _ _ _ _ h1
    simp only at h3
    split at h3
    · simp only [bind_ok, pure_ok, Prod.mk.injEq] at h3
      obtain ⟨w, hw, rfl, rfl, rfl⟩ := h3
      exact vecOp_sized _ _ _ _ _ (by simp [Val.sized]) g hw
    · simp only [pure_ok, Prod.mk.injEq] at h3
      obtain ⟨rfl, rfl, rfl⟩ := h3
      exact g
  | .binary l op r, ts, kw, v, t, h => by
    simp only [evalArg, bind_ok] at h
    obtain ⟨⟨a, sa⟩, h1, ⟨b, sb⟩, h1', h3⟩ := h
    rw [posOnly_ok] at h1 h1'
    have ga := evalArg_sized l _ _ _ _ h1
    have gb := evalArg_sized r _ _ _ _ h1'
    simp only at h3
    split at h3
    · simp only [bind_ok, pure_ok, Prod.mk.injEq] at h3
      obtain ⟨w, hw, rfl, rfl, rfl⟩ := h3
      exact vecOp_sized _ _ _ _ _ ga gb hw
    · simp only [bind_ok, pure_ok, Prod.mk.injEq] at h3
      obtain ⟨w, hw, rfl, rfl, rfl⟩ := h3
      exact vecOp_sized _ _ _ _ _ ga gb hw
    · simp only [bind_ok, pure_ok, Prod.mk.injEq] at h3
      obtain ⟨w, hw, rfl, rfl, rfl⟩ := h3
      exact vecOp_sized _ _ _ _ _ ga gb hw
    · split at h3
      · split at h3
        · simp at h3
        · simp only [bind_ok, pure_ok, Prod.mk.injEq] at h3
          obtain ⟨w, hw, rfl, rfl, rfl⟩ := h3
          exact vecOp_sized _ _ _ _ _ ga (by simp [Val.sized]) hw
      · simp at h3
    · simp at h3
  | .call c lp as rp, ts, kw, v, t, h => by
    cases c
    case «variable» n =>
      simp only [evalArg, bind_ok] at h
      obtain ⟨⟨args, sts⟩, h1, ⟨v', own⟩, h3, h4⟩ := h
      simp only [pure_ok, Prod.mk.injEq] at h4
      obtain ⟨rfl, rfl, rfl⟩ := h4
      have gargs := evalArgs_sized as ts 0 ⟨[], []⟩ args sts (by simp [CallArgs.sized]) h1
      exact finishCall_sized _ args _ _ v' own gargs h3
    all_goals simp [evalArg] at h
  | .brace lb e rb, ts, kw, v, t, h => by
    simp only [evalArg, bind_ok, pure_ok, Prod.mk.injEq] at h
    obtain ⟨⟨v', t'⟩, h1, rfl, rfl, rfl⟩ := h
    rw [posOnly_ok] at h1
    exact evalArg_sized e _ _ _ _ h1
  | .assign n eq x, ts, kw, v, t, h => by
    simp only [evalArg, bind_ok] at h
    obtain ⟨⟨v', t'⟩, h1, h3⟩ := h
    rw [posOnly_ok] at h1
    have g := evalArg_sized x _ _ _ _ h1
    split at h3
    · simp only [pure_ok, Prod.mk.injEq] at h3
      obtain ⟨rfl, rfl, rfl⟩ := h3
      exact g
    · simp at h3
theorem evalArgs_sized : ∀ (as : Args) (ts : Option TS) (i : Nat) (acc a : CallArgs) (sts : List TS),
    acc.sized env.frame.nrows → evalArgs env as ts i acc = .ok (a, sts) → a.sized env.frame.nrows
  | .nil, ts, i, acc, a, sts, hacc, h => by
    simp only [evalArgs, pure_ok, Prod.mk.injEq] at h
    obtain ⟨rfl, rfl⟩ := h
    exact hacc
  | .last e, ts, i, acc, a, sts, hacc, h => by
    simp only [evalArgs, bind_ok] at h
    obtain ⟨⟨kw, x, st⟩, h1, h3⟩ := h
    have gx := evalArg_sized e _ _ _ _ h1
    cases kw with
    | some k =>
      simp only [pure_ok, Prod.mk.injEq] at h3
      obtain ⟨rfl, rfl⟩ := h3
      exact CallArgs.sized_snoc_kw _ _ _ _ hacc gx
    | none =>
      simp only [pure_ok, Prod.mk.injEq] at h3
      obtain ⟨rfl, rfl⟩ := h3
      exact CallArgs.sized_snoc_pos _ _ _ hacc gx
  | .more e c rest, ts, i, acc, a, sts, hacc, h => by
    simp only [evalArgs, bind_ok] at h
    obtain ⟨⟨kw, x, st⟩, h1, h3⟩ := h
    have gx := evalArg_sized e _ _ _ _ h1
    cases kw with
    | some k =>
      simp only [bind_ok, pure_ok, Prod.mk.injEq] at h3
      obtain ⟨⟨a', sts'⟩, h4, rfl, rfl⟩ := h3
      exact evalArgs_sized rest ts (i + 1) _ a' sts' (CallArgs.sized_snoc_kw _ _ _ _ hacc gx) h4
    | none =>
      simp only [bind_ok, pure_ok, Prod.mk.injEq] at h3
      obtain ⟨⟨a', sts'⟩, h4, rfl, rfl⟩ := h3
      exact evalArgs_sized rest ts (i + 1) _ a' sts' (CallArgs.sized_snoc_pos _ _ _ hacc gx) h4
end
end

end FormulaeModel.Design
