import FormulaeModel.Proofs.PermEval
set_option linter.unusedSimpArgs false
set_option linter.unusedSectionVars false
set_option linter.unusedVariables false
/-
Helper lemmas for C08 (part 3): the lazy evaluator in training mode commutes with a permutation
of the rows and remembers the same transform state.  Mutual structural induction over
`Expr` / `Args`; no guard on the expression.
-/
namespace FormulaeModel.Design
open FormulaeModel

section
variable (env : Env) (hwf : env.frame.wellFormed = true) (hn : env.namesScalar = true) (sigma : List Nat)
  (hp : IsPerm sigma env.frame.nrows)
include hwf hn hp

mutual
theorem evalArg_perm : ∀ (e : Expr) (kw : Option String) (v : Val) (t : TS),
    evalArg env e none = .ok (kw, v, t) →
      v.len env.frame.nrows ∧ evalArg (env.rows sigma) e none = .ok (kw, v.rows sigma, t)
  | .grouping lp e rp, kw, v, t, h => by
    simp only [evalArg, bind_ok, pure_ok, Prod.mk.injEq] at h ⊢
    obtain ⟨⟨v', t'⟩, h1, rfl, rfl, rfl⟩ := h
    rw [posOnly_ok] at h1
    obtain ⟨g, h2⟩ := evalArg_perm e _ _ _ h1
    exact ⟨g, ⟨(v'.rows sigma, t'), (posOnly_ok _ _ _).2 h2, rfl, rfl, rfl⟩⟩
  | .variable n, kw, v, t, h => by
    simp only [evalArg, bind_ok, pure_ok, Prod.mk.injEq] at h ⊢
    obtain ⟨v', h1, rfl, rfl, rfl⟩ := h
    exact ⟨lookupName_len env hwf hn _ _ h1, ⟨v'.rows sigma, lookupName_rows env hn sigma _ _ h1, rfl, rfl, rfl⟩⟩
  | .subset n _ _ _, kw, v, t, h => by
    simp only [evalArg, bind_ok, pure_ok, Prod.mk.injEq] at h ⊢
    obtain ⟨v', h1, rfl, rfl, rfl⟩ := h
    exact ⟨lookupName_len env hwf hn _ _ h1, ⟨v'.rows sigma, lookupName_rows env hn sigma _ _ h1, rfl, rfl, rfl⟩⟩
  | .quoted q, kw, v, t, h => by
    simp only [evalArg, bind_ok, pure_ok, Prod.mk.injEq] at h ⊢
    obtain ⟨v', h1, rfl, rfl, rfl⟩ := h
    exact ⟨lookupName_len env hwf hn _ _ h1, ⟨v'.rows sigma, lookupName_rows env hn sigma _ _ h1, rfl, rfl, rfl⟩⟩
  | .literal q, kw, v, t, h => by
    simp only [evalArg] at h ⊢
    split at h
    · split at h
      · simp only [pure_ok, Prod.mk.injEq] at h
        obtain ⟨rfl, rfl, rfl⟩ := h
        simp [*, Val.len, Val.rows, pure, Except.pure]
      · split at h
        · simp only [pure_ok, Prod.mk.injEq] at h
          obtain ⟨rfl, rfl, rfl⟩ := h
          simp [*, Val.len, Val.rows, pure, Except.pure]
        · simp at h
    · simp only [pure_ok, Prod.mk.injEq] at h
      obtain ⟨rfl, rfl, rfl⟩ := h
      simp [*, Val.len, Val.rows, pure, Except.pure]
    · split at h
      · simp only [pure_ok, Prod.mk.injEq] at h
        obtain ⟨rfl, rfl, rfl⟩ := h
        simp [*, Val.len, Val.rows, pure, Except.pure]
      · split at h
        · simp only [pure_ok, Prod.mk.injEq] at h
          obtain ⟨rfl, rfl, rfl⟩ := h
          simp [*, Val.len, Val.rows, pure, Except.pure]
        · simp only [pure_ok, Prod.mk.injEq] at h
          obtain ⟨rfl, rfl, rfl⟩ := h
          simp [*, Val.len, Val.rows, pure, Except.pure]
  | .unary op r, kw, v, t, h => by
    simp only [evalArg, bind_ok] at h ⊢
    obtain ⟨⟨v', t'⟩, h1, h3⟩ := h
    rw [TS.child_none, posOnly_ok] at h1
    obtain ⟨g, h2⟩ := evalArg_perm r _ _ _ h1
    simp only at h3
    split at h3
    · simp only [bind_ok, pure_ok, Prod.mk.injEq] at h3
      obtain ⟨w, hw, rfl, rfl, rfl⟩ := h3
      refine ⟨vecOp_len _ _ _ _ _ (by simp [Val.len]) g hw, ⟨(v'.rows sigma, t'), ?_, ?_⟩⟩
      · rw [TS.child_none]
        exact (posOnly_ok _ _ _).2 h2
      · simp only [*, if_true, bind_ok, pure_ok, Prod.mk.injEq]
        refine ⟨_, vecOp_rows _ _ _ _ sigma hw, ?_⟩
        simp
    · simp only [pure_ok, Prod.mk.injEq] at h3
      obtain ⟨rfl, rfl, rfl⟩ := h3
      refine ⟨g, ⟨(v'.rows sigma, t'), ?_, ?_⟩⟩
      · rw [TS.child_none]
        exact (posOnly_ok _ _ _).2 h2
      · simp [*, pure, Except.pure]
  | .binary l op r, kw, v, t, h => by
    simp only [evalArg, bind_ok] at h ⊢
    obtain ⟨⟨a, sa⟩, h1, ⟨b, sb⟩, h1', h3⟩ := h
    rw [TS.child_none, posOnly_ok] at h1 h1'
    obtain ⟨ga, h2⟩ := evalArg_perm l _ _ _ h1
    obtain ⟨gb, h2'⟩ := evalArg_perm r _ _ _ h1'
    simp only at h3
    split at h3
    ·
      simp only [bind_ok, pure_ok, Prod.mk.injEq] at h3
      obtain ⟨w, hw, rfl, rfl, rfl⟩ := h3
      refine ⟨vecOp_len _ _ _ _ _ ga gb hw, ⟨(a.rows sigma, sa), by simpa using (posOnly_ok _ _ _).2 h2,
        (b.rows sigma, sb), by simpa using (posOnly_ok _ _ _).2 h2', ?_⟩⟩
      simp only [*, bind_ok, pure_ok]
      exact ⟨_, vecOp_rows _ _ _ _ sigma hw, by simp⟩
    ·
      simp only [bind_ok, pure_ok, Prod.mk.injEq] at h3
      obtain ⟨w, hw, rfl, rfl, rfl⟩ := h3
      refine ⟨vecOp_len _ _ _ _ _ ga gb hw, ⟨(a.rows sigma, sa), by simpa using (posOnly_ok _ _ _).2 h2,
        (b.rows sigma, sb), by simpa using (posOnly_ok _ _ _).2 h2', ?_⟩⟩
      simp only [*, bind_ok, pure_ok]
      exact ⟨_, vecOp_rows _ _ _ _ sigma hw, by simp⟩
    ·
      simp only [bind_ok, pure_ok, Prod.mk.injEq] at h3
      obtain ⟨w, hw, rfl, rfl, rfl⟩ := h3
      refine ⟨vecOp_len _ _ _ _ _ ga gb hw, ⟨(a.rows sigma, sa), by simpa using (posOnly_ok _ _ _).2 h2,
        (b.rows sigma, sb), by simpa using (posOnly_ok _ _ _).2 h2', ?_⟩⟩
      simp only [*, bind_ok, pure_ok]
      exact ⟨_, vecOp_rows _ _ _ _ sigma hw, by simp⟩
    · split at h3
      · rename_i q isInt
        split at h3
        · simp at h3
        · simp only [bind_ok, pure_ok, Prod.mk.injEq] at h3
          obtain ⟨w, hw, rfl, rfl, rfl⟩ := h3
          refine ⟨vecOp_len _ _ _ _ _ ga (by simp [Val.len]) hw, ⟨(a.rows sigma, sa),
            by simpa using (posOnly_ok _ _ _).2 h2,
            (Val.num q isInt, sb), by simpa [Val.rows] using (posOnly_ok _ _ _).2 h2', ?_⟩⟩
          simp only [*, bind_ok, pure_ok, Bool.false_eq_true, if_false]
          exact ⟨_, vecOp_rows _ _ _ _ sigma hw, by simp⟩
      · simp at h3
    · simp at h3
  | .call c lp as rp, kw, v, t, h => by
    cases c
    case «variable» n =>
      simp only [evalArg, bind_ok] at h ⊢
      obtain ⟨⟨args, sts⟩, h1, ⟨v', own⟩, h3, h4⟩ := h
      simp only [pure_ok, Prod.mk.injEq] at h4
      obtain ⟨rfl, rfl, rfl⟩ := h4
      simp only [TS.own_none] at h3
      obtain ⟨gargs, hrec⟩ := evalArgs_perm as 0 ⟨[], []⟩ args sts (by simp [CallArgs.len]) h1
      obtain ⟨gv, hfin⟩ := finishCall_perm hp _ args v' own gargs h3
      refine ⟨gv, ⟨(args.rows sigma, sts), hrec, ⟨(v'.rows sigma, own), ?_, by simp [pure, Except.pure]⟩⟩⟩
      rw [TS.own_none]
      exact hfin
    all_goals simp [evalArg] at h
  | .brace lb e rb, kw, v, t, h => by
    simp only [evalArg, bind_ok, pure_ok, Prod.mk.injEq] at h ⊢
    obtain ⟨⟨v', t'⟩, h1, rfl, rfl, rfl⟩ := h
    rw [TS.child_none, posOnly_ok] at h1
    obtain ⟨g, h2⟩ := evalArg_perm e _ _ _ h1
    refine ⟨g, ⟨(v'.rows sigma, t'), ?_, rfl, rfl, rfl⟩⟩
    rw [TS.child_none]
    exact (posOnly_ok _ _ _).2 h2
  | .assign n eq x, kw, v, t, h => by
    simp only [evalArg, bind_ok] at h ⊢
    obtain ⟨⟨v', t'⟩, h1, h3⟩ := h
    rw [posOnly_ok] at h1
    obtain ⟨g, h2⟩ := evalArg_perm x _ _ _ h1
    split at h3
    · simp only [pure_ok, Prod.mk.injEq] at h3
      obtain ⟨rfl, rfl, rfl⟩ := h3
      exact ⟨g, ⟨(v'.rows sigma, t'), (posOnly_ok _ _ _).2 h2, rfl⟩⟩
    · simp at h3
theorem evalArgs_perm : ∀ (as : Args) (i : Nat) (acc a : CallArgs) (sts : List TS),
    acc.len env.frame.nrows → evalArgs env as none i acc = .ok (a, sts) →
      a.len env.frame.nrows ∧ evalArgs (env.rows sigma) as none i (acc.rows sigma) = .ok (a.rows sigma, sts)
  | .nil, i, acc, a, sts, hacc, h => by
    simp only [evalArgs, pure_ok, Prod.mk.injEq] at h
    obtain ⟨rfl, rfl⟩ := h
    refine ⟨hacc, ?_⟩
    simp [evalArgs, pure, Except.pure]
  | .last e, i, acc, a, sts, hacc, h => by
    simp only [evalArgs, bind_ok, TS.child_none] at h
    obtain ⟨⟨kw, x, st⟩, h1, h3⟩ := h
    obtain ⟨gx, h2⟩ := evalArg_perm e _ _ _ h1
    cases kw with
    | some k =>
      simp only [pure_ok, Prod.mk.injEq] at h3
      obtain ⟨rfl, rfl⟩ := h3
      refine ⟨CallArgs.len_snoc_kw _ _ _ _ hacc gx, ?_⟩
      simp only [evalArgs, bind_ok, TS.child_none]
      exact ⟨_, h2, by simp [CallArgs.rows, pure, Except.pure]⟩
    | none =>
      simp only [pure_ok, Prod.mk.injEq] at h3
      obtain ⟨rfl, rfl⟩ := h3
      refine ⟨CallArgs.len_snoc_pos _ _ _ hacc gx, ?_⟩
      simp only [evalArgs, bind_ok, TS.child_none]
      exact ⟨_, h2, by simp [CallArgs.rows, pure, Except.pure]⟩
  | .more e c rest, i, acc, a, sts, hacc, h => by
    simp only [evalArgs, bind_ok, TS.child_none] at h
    obtain ⟨⟨kw, x, st⟩, h1, h3⟩ := h
    obtain ⟨gx, h2⟩ := evalArg_perm e _ _ _ h1
    cases kw with
    | some k =>
      simp only [bind_ok, pure_ok, Prod.mk.injEq] at h3
      obtain ⟨⟨a', sts'⟩, h4, rfl, rfl⟩ := h3
      obtain ⟨ga, hrec⟩ := evalArgs_perm rest (i + 1) _ a' sts'
        (CallArgs.len_snoc_kw _ _ _ _ hacc gx) h4
      refine ⟨ga, ?_⟩
      simp only [evalArgs, bind_ok, TS.child_none]
      refine ⟨_, h2, ?_⟩
      simp only [bind_ok, pure_ok, Prod.mk.injEq]
      simp only [CallArgs.rows, List.map_append, List.map_cons, List.map_nil] at hrec ⊢
      exact ⟨_, hrec, rfl, rfl⟩
    | none =>
      simp only [bind_ok, pure_ok, Prod.mk.injEq] at h3
      obtain ⟨⟨a', sts'⟩, h4, rfl, rfl⟩ := h3
      obtain ⟨ga, hrec⟩ := evalArgs_perm rest (i + 1) _ a' sts'
        (CallArgs.len_snoc_pos _ _ _ hacc gx) h4
      refine ⟨ga, ?_⟩
      simp only [evalArgs, bind_ok, TS.child_none]
      refine ⟨_, h2, ?_⟩
      simp only [bind_ok, pure_ok, Prod.mk.injEq]
      simp only [CallArgs.rows, List.map_append, List.map_cons, List.map_nil] at hrec ⊢
      exact ⟨_, hrec, rfl, rfl⟩
end
end

end FormulaeModel.Design
