import FormulaeModel.Proofs.TermsSpec
set_option linter.unusedSectionVars false
set_option linter.unusedSimpArgs false
set_option linter.unusedVariables false
/-
C02, layer 3: `Resolver.resolve` on the intercept-free fragment (`denT e = some d`), by induction
on the expression: the resolved value is a plain value whose de-duplicated term list is `d`.
-/
namespace FormulaeModel.Resolver
open FormulaeModel FormulaeModel.Terms FormulaeModel.Spec.C02

/-- the documented operator map of `Resolver.visitBinaryExpr` (tied to the regenerated table in
Properties/C02.lean) -/
def docOps : OpTable :=
  [(.TILDE, .tilde), (.PLUS, .add), (.MINUS, .sub), (.STAR_STAR, .pow), (.COLON, .matmul),
   (.STAR, .mul), (.SLASH, .truediv), (.PIPE, .or_)]

theorem anySub_grouping (P : Expr → Bool) (l : Token) (e : Expr) (r : Token) :
    anySub P (.grouping l e r) = false ↔ P (.grouping l e r) = false ∧ anySub P e = false := by
  simp [anySub]

theorem anySub_binary (P : Expr → Bool) (l : Expr) (op : Token) (r : Expr) :
    anySub P (.binary l op r) = false ↔
      P (.binary l op r) = false ∧ anySub P l = false ∧ anySub P r = false := by
  simp [anySub, and_assoc]

/-- outside the wrong-answer gap classes of the intercept-free fragment -/
def NoGap (e : Expr) : Prop :=
  gapD22 docOps e = false ∧ gapD24 docOps e = false ∧ gapD25 docOps e = false

theorem NoGap.grouping {l : Token} {e : Expr} {r : Token} (h : NoGap (.grouping l e r)) :
    NoGap e := by
  obtain ⟨h1, h2, h3⟩ := h
  exact ⟨((anySub_grouping _ _ _ _).1 h1).2, ((anySub_grouping _ _ _ _).1 h2).2,
    ((anySub_grouping _ _ _ _).1 h3).2⟩

theorem NoGap.left {l : Expr} {op : Token} {r : Expr} (h : NoGap (.binary l op r)) : NoGap l := by
  obtain ⟨h1, h2, h3⟩ := h
  exact ⟨((anySub_binary _ _ _ _).1 h1).2.1, ((anySub_binary _ _ _ _).1 h2).2.1,
    ((anySub_binary _ _ _ _).1 h3).2.1⟩

theorem NoGap.right {l : Expr} {op : Token} {r : Expr} (h : NoGap (.binary l op r)) : NoGap r := by
  obtain ⟨h1, h2, h3⟩ := h
  exact ⟨((anySub_binary _ _ _ _).1 h1).2.2, ((anySub_binary _ _ _ _).1 h2).2.2,
    ((anySub_binary _ _ _ _).1 h3).2.2⟩

theorem nodup_of_map {α β : Type} (f : α → β) {l : List α} (h : (l.map f).Nodup) : l.Nodup := by
  induction l with
  | nil => simp
  | cons a l ih =>
    simp only [List.map_cons, List.nodup_cons, List.mem_map, not_exists, not_and] at h
    exact List.nodup_cons.2 ⟨fun ha => h.1 a ha rfl, ih h.2⟩

theorem nodup_of_plain_length {M : List STerm}
    (h : (nub (plainM M).common).length = (plainM M).common.length) : M.Nodup := by
  have := nodup_of_dedup_length h
  exact nodup_of_map _ this

/-- outside D24 the left operand of `-` holds no duplicate -/
theorem NoGap.minus {l : Expr} {op : Token} {r : Expr} (h : NoGap (.binary l op r))
    (hk : op.kind = .MINUS) {p : PV} (hl : resolve docOps l = .ok p.toObj) : p.NodupL := by
  have h2 := ((anySub_binary _ _ _ _).1 h.2.1).1
  cases p with
  | t a => trivial
  | m M =>
    simp only [hk, hl, PV.toObj, plainM_group, beq_self_eq_true, Bool.true_and, nub, dedup_nil,
      List.length_nil, bne_self_eq_false, Bool.or_false, bne_eq_false_iff_eq] at h2
    exact nodup_of_plain_length h2

/-- outside D25 the left operand of `**` holds no duplicate -/
theorem NoGap.starstar {l : Expr} {op : Token} {r : Expr} (h : NoGap (.binary l op r))
    (hk : op.kind = .STAR_STAR) {p : PV} (hl : resolve docOps l = .ok p.toObj) : p.NodupL := by
  have h2 := ((anySub_binary _ _ _ _).1 h.2.2).1
  cases p with
  | t a => trivial
  | m M =>
    simp only [hk, hl, PV.toObj, beq_self_eq_true, Bool.true_and, bne_eq_false_iff_eq] at h2
    exact nodup_of_plain_length h2

/-- outside D22 the `self == other` shortcut of `Model.__mul__` is harmless -/
theorem NoGap.star {l : Expr} {op : Token} {r : Expr} (h : NoGap (.binary l op r))
    (hk : op.kind = .STAR) {p q : PV} (hl : resolve docOps l = .ok p.toObj)
    (hr : resolve docOps r = .ok q.toObj) : NoD22 p q := by
  have h2 := ((anySub_binary _ _ _ _).1 h.1).1
  cases p with
  | t a => cases q <;> trivial
  | m M =>
    cases q with
    | t b => trivial
    | m O =>
      intro hs
      simp only [hk, hl, hr, PV.toObj, beq_self_eq_true, Bool.true_and, modelEq_plain, hs,
        plainM_common, nub, dedup_map_of_injective _ term_inj, List.length_map,
        decide_eq_false_iff_not, Nat.not_le] at h2
      omega

theorem resolve_binary_ok {l : Expr} {op : Token} {r : Expr} {v : Obj} {o : Op}
    (ho : lookupOp docOps op.kind = some o) (hr : resolve docOps (.binary l op r) = .ok v) :
    ∃ lv rv, resolve docOps l = .ok lv ∧ resolve docOps r = .ok rv ∧ apply o lv rv = .ok v := by
  simp only [resolve, ho, bind, Except.bind] at hr
  cases hl : resolve docOps l with
  | error e => simp [hl] at hr
  | ok lv =>
    cases hrr : resolve docOps r with
    | error e => simp [hl, hrr] at hr
    | ok rv =>
      simp only [hl, hrr] at hr
      exact ⟨lv, rv, rfl, rfl, hr⟩

theorem opt_bind2 {α β γ : Type} {f : α → β → γ} {oa : Option α} {ob : Option β} {d : γ}
    (h : (oa >>= fun a => ob >>= fun b => pure (f a b)) = some d) :
    ∃ a b, oa = some a ∧ ob = some b ∧ d = f a b := by
  cases oa with
  | none => simp at h
  | some a =>
    cases ob with
    | none => simp at h
    | some b =>
      simp at h
      exact ⟨a, b, rfl, rfl, h.symm⟩

/-- the statement proved by induction: value shape, invariant, and (outside the gap classes) the
de-duplicated term list is the denotation -/
def PlainAt (e : Expr) : Prop :=
  ∀ (d : List STerm) (v : Obj), denT e = some d → resolve docOps e = .ok v →
    ∃ p : PV, v = p.toObj ∧ Good p ∧ (NoGap e → dedup p.list = d)

theorem binary_case (l : Expr) (op : Token) (r : Expr) (o : Op)
    (specop : List STerm → List STerm → List STerm) (pop : PV → PV → PV)
    (ho : lookupOp docOps op.kind = some o)
    (happ : ∀ p q, Good p → Good q → apply o p.toObj q.toObj = .ok (pop p q).toObj)
    (hgood : ∀ p q, Good p → Good q → Good (pop p q))
    (hspec : ∀ p q, Good p → Good q → resolve docOps l = .ok p.toObj →
      resolve docOps r = .ok q.toObj → NoGap (.binary l op r) →
      dedup (pop p q).list = specop (dedup p.list) (dedup q.list))
    (ihl : PlainAt l) (ihr : PlainAt r) (d : List STerm) (v : Obj)
    (hd : ∃ a b, denT l = some a ∧ denT r = some b ∧ d = specop a b)
    (hr : resolve docOps (.binary l op r) = .ok v) :
    ∃ p : PV, v = p.toObj ∧ Good p ∧ (NoGap (.binary l op r) → dedup p.list = d) := by
  obtain ⟨a, b, ha, hb, rfl⟩ := hd
  obtain ⟨lv, rv, hl, hrr, hv⟩ := resolve_binary_ok ho hr
  obtain ⟨p, rfl, hgp, hsp⟩ := ihl a lv ha hl
  obtain ⟨q, rfl, hgq, hsq⟩ := ihr b rv hb hrr
  rw [happ p q hgp hgq] at hv
  injection hv with hv
  refine ⟨pop p q, hv.symm, hgood p q hgp hgq, ?_⟩
  intro hng
  rw [hspec p q hgp hgq hl hrr hng, hsp hng.left, hsq hng.right]

theorem callAtom_nonNum {c : Expr} {as : Args} {a : Atom} (h : callAtom c as = .ok a) :
    a.isNumericName = false := by
  unfold callAtom at h
  simp only [bind, Except.bind, pure, Except.pure] at h
  split at h
  · simp at h
  · split at h
    · simp at h
    · injection h with h
      subst h
      rfl

theorem good_atom {a : Atom} (h : a.isNumericName = false) : Good (.t [a]) := by
  intro t ht
  simp only [PV.list, List.mem_cons, List.not_mem_nil, or_false] at ht
  subst ht
  refine ⟨by simp, ?_⟩
  intro x hx
  simp only [List.mem_cons, List.not_mem_nil, or_false] at hx
  subst hx
  exact h

theorem atom_result (e : Expr) (a : Atom) (d : List STerm) (v : Obj) (hnum : a.isNumericName = false)
    (hd : d = [[a]]) (hv : v = .c (.term [a])) :
    ∃ p : PV, v = p.toObj ∧ Good p ∧ (NoGap e → dedup p.list = d) := by
  subst hd; subst hv
  exact ⟨.t [a], rfl, good_atom hnum, fun _ => by simp [PV.list]⟩

theorem plain_main (e : Expr) : PlainAt e := by
  induction e using denT.induct with
  | case1 lp e rp ih =>
    intro d v hd hr
    simp only [denT] at hd
    simp only [resolve] at hr
    obtain ⟨p, hv, hg, hs⟩ := ih d v hd hr
    exact ⟨p, hv, hg, fun h => hs h.grouping⟩
  | case2 l op r hk ihl ihr =>
    intro d v hd hr
    simp only [denT, hk] at hd
    exact binary_case l op r .add union padd (by rw [hk]; rfl)
      (fun p q _ _ => add_plain p q) (fun p q hp hq => good_padd hp hq)
      (fun p q _ _ _ _ _ => spec_padd p q) ihl ihr d v (opt_bind2 hd) hr
  | case3 l op r hk ihl ihr =>
    intro d v hd hr
    simp only [denT, hk] at hd
    exact binary_case l op r .sub diff psub (by rw [hk]; rfl)
      (fun p q _ _ => sub_plain p q) (fun p q hp _ => good_psub hp)
      (fun p q _ _ hl _ hng => spec_psub p q (hng.minus hk hl)) ihl ihr d v (opt_bind2 hd) hr
  | case4 l op r hk ihl ihr =>
    intro d v hd hr
    simp only [denT, hk] at hd
    exact binary_case l op r .matmul interS pmatmul (by rw [hk]; rfl)
      (fun p q _ hq => matmul_plain p q hq.nonNum) (fun p q hp hq => good_pmatmul hp hq)
      (fun p q hp _ _ _ _ => spec_pmatmul p q hp) ihl ihr d v (opt_bind2 hd) hr
  | case5 l op r hk ihl ihr =>
    intro d v hd hr
    simp only [denT, hk] at hd
    exact binary_case l op r .mul (fun a b => union (union a b) (interS a b)) pmul
      (by rw [hk]; rfl)
      (fun p q _ hq => mul_plain p q hq.nonNum) (fun p q hp hq => good_pmul hp hq)
      (fun p q hp _ hl hrr hng => spec_pmul p q hp (hng.star hk hl hrr)) ihl ihr d v
      (opt_bind2 hd) hr
  | case6 l op r hk ihl ihr =>
    intro d v hd hr
    simp only [denT, hk] at hd
    exact binary_case l op r .truediv
      (fun a b => union a (nub (b.map (fun y => interT (dedup a.flatten) y)))) pdiv
      (by rw [hk]; rfl)
      (fun p q _ hq => div_plain p q hq.nonNum) (fun p q hp hq => good_pdiv hp hq)
      (fun p q hp _ _ _ _ => spec_pdiv p q hp) ihl ihr d v (opt_bind2 hd) hr
  | case7 l op r hk ihl =>
    intro d v hd hr
    simp only [denT, hk] at hd
    cases hden : denT l with
    | none => simp [hden] at hd
    | some a =>
      simp only [hden, Option.bind_eq_bind, Option.bind_some] at hd
      obtain ⟨lv, rv, hl, hrr, hv⟩ := resolve_binary_ok (o := .pow) (by rw [hk]; rfl) hr
      obtain ⟨p, rfl, hgp, hsp⟩ := ihl a lv hden hl
      cases r with
      | literal t =>
        simp only at hd
        by_cases hkind : t.kind = .NUMBER
        · simp only [hkind, beq_self_eq_true, if_true, natOfLexeme] at hd
          by_cases hdig : t.lexeme.toList.all Char.isDigit = true
          · simp only [hdig, if_true] at hd
            by_cases hn : digitsVal t.lexeme.toList ≥ 1
            · simp only [hn, if_true, pure, Option.some.injEq] at hd
              simp only [resolve, hkind] at hrr
              have hpow := pow_plain p (digitsVal t.lexeme.toList) none hn
              split at hrr
              · injection hrr with hrr; subst hrr
                cases p <;> simp [PV.toObj, apply, pow] at hv
              · split at hrr
                · injection hrr with hrr; subst hrr
                  cases p <;> simp [PV.toObj, apply, pow] at hv
                · split at hrr
                  · injection hrr with hrr; subst hrr
                    cases p <;> simp [PV.toObj, apply, pow] at hv
                  · injection hrr with hrr; subst hrr
                    simp only [apply, Int.ofNat_eq_natCast] at hv
                    rw [hpow] at hv
                    injection hv with hv
                    refine ⟨_, hv.symm, good_ppow hgp _, ?_⟩
                    intro hng
                    rw [spec_ppow p _ (hng.starstar hk hl), hsp hng.left, ← hd]
                    rfl
            · simp [hn] at hd
          · simp [hdig] at hd
        · have : (t.kind == Kind.NUMBER) = false := by simpa using hkind
          simp [this] at hd
      | _ => simp at hd
  | case8 l op r h1 h2 h3 h4 h5 h6 =>
    intro d v hd hr
    simp only [denT] at hd
    exact absurd hd (by simp)
  | case9 e h1 h2 =>
    intro d v hd hr
    cases e with
    | grouping lp e rp => exact (h1 _ _ _ rfl).elim
    | binary l op r => exact (h2 _ _ _ rfl).elim
    | «variable» n =>
      simp only [denT, atomOf, Option.map_some, Option.some.injEq] at hd
      simp only [resolve, pure, Except.pure] at hr
      injection hr with hr
      exact atom_result _ _ d v rfl hd.symm hr.symm
    | quoted t =>
      simp only [denT, atomOf, Option.map_some, Option.some.injEq] at hd
      simp only [resolve, pure, Except.pure] at hr
      injection hr with hr
      exact atom_result _ _ d v rfl hd.symm hr.symm
    | call c lp as rp =>
      simp only [denT, atomOf] at hd
      simp only [resolve, bind, Except.bind, pure, Except.pure] at hr
      cases hc : callAtom c as with
      | error er => simp [hc] at hr
      | ok a =>
        simp only [hc] at hr hd
        injection hr with hr
        simp only [Except.toOption, Option.map_some, Option.some.injEq] at hd
        exact atom_result _ a d v (callAtom_nonNum hc) hd.symm hr.symm
    | brace lb e rb =>
      simp only [denT, atomOf] at hd
      simp only [resolve, bind, Except.bind, pure, Except.pure] at hr
      cases hc : noKw (lazyArg (.brace lb e rb)) with
      | error er => simp [hc] at hr
      | ok a =>
        obtain ⟨nm, key⟩ := a
        simp only [hc] at hr hd
        injection hr with hr
        simp only [Option.map_some, Option.some.injEq] at hd
        exact atom_result _ (.call nm key) d v rfl hd.symm hr.symm
    | _ => simp [denT, atomOf] at hd

theorem termsOf_toObj (p : PV) : termsOf p.toObj = p.list := by
  cases p with
  | t a => rfl
  | m M =>
    simp only [PV.toObj, termsOf, plainM_common, PV.list]
    induction M with
    | nil => rfl
    | cons a M ih => simp [ih]

theorem isPlainValue_toObj (p : PV) : isPlainValue p.toObj = true := by
  cases p with
  | t a => rfl
  | m M => simp [PV.toObj, isPlainValue, plainM_common, plainM_group, plainM_resp]

end FormulaeModel.Resolver
