import FormulaeModel.Proofs.Indicator
import FormulaeModel.Proofs.PermSort
import FormulaeModel.Spec.C15
set_option linter.unusedSimpArgs false
set_option linter.unusedVariables false
/-
Helper lemmas for C15 (part 4) and C16: `sorted(set(levels))` is duplicate-free, has exactly the
members of the data and is ascending; the fully coded rows of a categorical are the indicator rows
of the statement.
-/
namespace FormulaeModel.Design
open FormulaeModel

/-- what `sorted(set(ls))` is: no duplicates, the same members, ascending -/
theorem sortLevels_spec (ls levels : List Level) (h : sortLevels ls = some levels) :
    levels.Nodup ∧ (∀ l, l ∈ levels ↔ l ∈ ls) ∧ SortedBy levelLt levels := by
  rw [sortLevels_eq] at h
  split at h
  · rename_i hc
    simp only [Option.some.injEq] at h
    subst h
    have hp := perm_sortBy levelLt (dedupL ls)
    refine ⟨hp.nodup_iff.2 (nodup_dedupL ls), fun l => (hp.mem_iff).trans (mem_dedupL ls l), ?_⟩
    rw [Bool.or_eq_true, List.all_eq_true, List.all_eq_true] at hc
    rcases hc with hc | hc
    · exact sorted_sortBy levelLt _ levelLt_strings _ hc
    · exact sorted_sortBy levelLt _ levelLt_ints _ hc
  · simp at h

/-- the first of the sorted levels is a smallest value of the data: nothing is below it -/
theorem sortLevels_head_min (ls : List Level) (m : Level) (rest : List Level)
    (h : sortLevels ls = some (m :: rest)) : m ∈ ls ∧ ∀ l ∈ ls, levelLt l m = false := by
  obtain ⟨hn, hm, hs⟩ := sortLevels_spec ls _ h
  refine ⟨(hm m).1 (by simp), fun l hl => ?_⟩
  have hl' := (hm l).2 hl
  simp only [List.mem_cons] at hl'
  rcases hl' with rfl | hl'
  · cases l <;> simp [levelLt, Level.lt?]
  · simp only [SortedBy, List.pairwise_cons] at hs
    exact hs.1 l hl'

/-- with distinct levels the unit row of the index of `l` is the row of indicators of `l` -/
theorem unitRow_indicator (levels : List Level) (hn : levels.Nodup) (l : Level) (i : Nat)
    (hi : indexOf? l levels = some i) :
    rowOfInts (unitRow levels.length i) =
      levels.map (fun l' => some (if some l == some l' then (1 : Rat) else 0)) := by
  obtain ⟨hlt, hget⟩ := indexOf?_some l levels i hi
  apply List.ext_getElem
  · simp [rowOfInts, unitRow]
  · intro k h1 h2
    have hk : k < levels.length := by simpa using h2
    simp only [rowOfInts, unitRow, List.getElem_map, List.getElem_range]
    by_cases hki : k = i
    · subst hki; simp [hget]
    · have : levels[k] ≠ l := by
        intro he
        exact hki (nodup_index_unique levels hn k i hk hlt (he.trans hget.symm))
      have h3 : ¬ (l = levels[k]) := fun he => this he.symm
      simp [hki, h3]

/-- **full coding = one indicator column per level**: with distinct levels, the rows
`contrast_matrix.matrix[codes]` of the full treatment coding are, for every observation, the
indicators "observation equals level" in the order of the levels -/
theorem codeRows_full_eq (levels : List Level) (hn : levels.Nodup) : ∀ (xs : List (Option Level)) (m : Matrix),
    codeRows (treatmentFull levels) levels xs = .ok m →
    m = xs.map (fun x => levels.map (fun l => some (if x == some l then (1 : Rat) else 0))) := by
  intro xs
  induction xs with
  | nil =>
    intro m h
    simp only [codeRows, List.mapM_nil, pure, Except.pure, Except.ok.injEq] at h
    subst h; rfl
  | cons x xs ih =>
    intro m h
    simp only [codeRows, List.mapM_cons, bind, Except.bind, pure, Except.pure] at h
    split at h
    · simp at h
    · rename_i row hrow
      split at h
      · simp at h
      · rename_i rest hrest
        simp only [Except.ok.injEq] at h
        subst h
        rw [List.map_cons, ← ih rest hrest]
        congr 1
        cases x with
        | none => simp at hrow
        | some l =>
          simp only at hrow
          split at hrow
          · rename_i i hi
            simp only [pure, Except.pure, Except.ok.injEq] at hrow
            rw [← hrow]
            have hlt := (indexOf?_some l levels i hi).1
            have : (treatmentFull levels).rows.getD i [] = unitRow levels.length i := by
              simp [treatmentFull, hlt]
            rw [this]
            exact unitRow_indicator levels hn l i hi
          · simp at hrow

/-- the level order of the statement is duplicate-free (for an ordered categorical: when the
declared categories are, as pandas guarantees) -/
theorem levelOrder_nodup (xs : List (Option Level)) (d : Option (Bool × List String))
    (hd : ∀ cats, d = some (true, cats) → cats.Nodup) (levels : List Level)
    (h : Spec.C15.levelOrder xs d = some levels) : levels.Nodup := by
  unfold Spec.C15.levelOrder at h
  split at h
  · rename_i cats
    simp only [Option.some.injEq] at h
    subst h
    have := hd cats rfl
    simp only [List.Nodup, List.pairwise_map] at this ⊢
    exact this.imp (fun h he => h (by cases he; rfl))
  · exact (sortLevels_spec _ _ h).1

/-- `eval_categoric` with the full coding: levels in the order of the statement, indicator
columns, labels `name[level]` -/
theorem evalCategoric_full (name : String) (xs : List (Option Level)) (d : Option (Bool × List String))
    (hd : ∀ cats, d = some (true, cats) → cats.Nodup)
    (levels : List Level) (cm : ContrastMatrix) (m : Matrix)
    (h : evalCategoric name xs d true = .ok (levels, cm, m)) :
    Spec.C15.levelOrder xs d = some levels ∧ cm = treatmentFull levels ∧
    m = xs.map (fun x => levels.map (fun l => some (if x == some l then (1 : Rat) else 0))) := by
  unfold evalCategoric at h
  split at h
  · simp at h
  · simp only [bind, Except.bind, pure, Except.pure, Contrast.code] at h
    split at h
    · rename_i cats
      split at h
      · simp at h
      · rename_i v hv
        simp only [Except.ok.injEq, Prod.mk.injEq] at h
        obtain ⟨rfl, rfl, rfl⟩ := h
        have hl : Spec.C15.levelOrder xs (some (true, cats)) = some (cats.map Level.s) := rfl
        exact ⟨hl, rfl, codeRows_full_eq _ (levelOrder_nodup xs _ hd _ hl) xs v hv⟩
    · rename_i hnot
      split at h
      · rename_i ls hs
        split at h
        · simp at h
        · rename_i v hv
          simp only [Except.ok.injEq, Prod.mk.injEq] at h
          obtain ⟨rfl, rfl, rfl⟩ := h
          have hl : Spec.C15.levelOrder xs d = some ls := by
            unfold Spec.C15.levelOrder
            split
            · rename_i cats; exact absurd rfl (hnot cats)
            · exact hs
          exact ⟨hl, rfl, codeRows_full_eq _ (levelOrder_nodup xs _ hd _ hl) xs v hv⟩
      · simp at h

end FormulaeModel.Design
