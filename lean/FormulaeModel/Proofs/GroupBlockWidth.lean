import FormulaeModel.Proofs.GroupBlockGroup
set_option linter.unusedSimpArgs false
set_option linter.unusedVariables false
/-
Helper lemmas for C05 (part 6): as many labels as columns.  Every contrast matrix has as many
labels as columns; hence every component, every term (labels and data are folded by the same
product) and every group-specific block whose labels exist has rows exactly as wide as its label
list is long.
-/
namespace FormulaeModel.Design
open FormulaeModel

theorem reduced_labels_length (levels : List Level) (r : Nat) (hr : r < levels.length) :
    (((levels.take r) ++ (levels.drop (r + 1))).map Level.label).length = levels.length - 1 := by
  simp only [List.length_map, List.length_append, List.length_take, List.length_drop]
  omega

/-- a contrast matrix has as many labels as columns -/
theorem code_width (c : Contrast) (full : Bool) (levels : List Level) (cm : ContrastMatrix)
    (h : c.code full levels = .ok cm) : ∀ r ∈ cm.rows, r.length = cm.labels.length := by
  have red : ∀ (n o : Nat), ∀ (z : Int), ∀ r ∈ (List.range n).map (fun i =>
      if i < o then unitRow (n - 1) i else if i == o then List.replicate (n - 1) z
      else unitRow (n - 1) (i - 1)), r.length = n - 1 ∧ 0 < n := by
    intro n o z r hr
    simp only [List.mem_map, List.mem_range] at hr
    obtain ⟨i, hi, rfl⟩ := hr
    refine ⟨?_, by omega⟩
    split
    · exact unitRow_length _ _
    · split
      · simp
      · exact unitRow_length _ _
  cases c with
  | treatment rf =>
    cases full with
    | true =>
      simp only [Contrast.code, pure_ok] at h
      subst h
      intro r hr
      simp only [treatmentFull, List.mem_map, List.mem_range] at hr
      obtain ⟨i, _, rfl⟩ := hr
      simp [treatmentFull, unitRow_length]
    | false =>
      simp only [Contrast.code] at h
      obtain ⟨r0, hr0, hrows, hlabels⟩ := treatmentReduced_ok rf levels cm h
      intro r hr
      rw [hrows] at hr
      obtain ⟨h1, hpos⟩ := red _ _ 0 r hr
      have hr0' : r0 < levels.length := by
        rcases hr0 with ⟨_, rfl⟩ | ⟨l, _, hl⟩
        · exact hpos
        · exact (indexOf?_some l levels r0 hl).1
      rw [h1, hlabels, reduced_labels_length levels r0 hr0']
  | sum o =>
    have hsum : ∀ cm', sumReduced o levels = .ok cm' → ∀ r ∈ cm'.rows, r.length = cm'.labels.length := by
      intro cm' hc'
      simp only [sumReduced, bind_ok, pure_ok] at hc'
      obtain ⟨o', ho', rfl⟩ := hc'
      intro r hr
      obtain ⟨h1, hpos⟩ := red _ _ (-1) r hr
      have ho'' : o' < levels.length := by
        unfold sumOmitIndex at ho'
        cases o with
        | none => simp only [pure_ok] at ho'; omega
        | some l =>
          simp only at ho'
          cases hi : indexOf? l levels with
          | none => rw [hi] at ho'; simp at ho'
          | some i =>
            rw [hi] at ho'
            simp only [pure_ok] at ho'
            subst ho'
            exact (indexOf?_some l levels i hi).1
      rw [h1, reduced_labels_length levels o' ho'']
    cases full with
    | true =>
      simp only [Contrast.code, sumFull, bind_ok, pure_ok] at h
      obtain ⟨c', hc', rfl⟩ := h
      intro r hr
      simp only [List.mem_map] at hr
      obtain ⟨r', hr', rfl⟩ := hr
      simp [hsum c' hc' r' hr']
    | false =>
      simp only [Contrast.code] at h
      exact hsum cm h

theorem evalCategoric_width (name : String) (xs : List (Option Level)) (d : Option (Bool × List String))
    (full : Bool) (levels : List Level) (cm : ContrastMatrix) (m : Matrix)
    (h : evalCategoric name xs d full = .ok (levels, cm, m)) : Uniform m cm.labels.length := by
  obtain ⟨h1, h2, _⟩ := evalCategoric_spec _ _ _ _ _ _ _ h
  exact codeRows_uniform _ _ _ _ _ (code_uniform _ _ _ _ h2).1 (code_width _ _ _ _ h2) h1

theorem evalBox_width (b : Box) (full : Bool) (levels : List Level) (cm : ContrastMatrix) (m : Matrix)
    (h : evalBox b full = .ok (levels, cm, m)) : Uniform m cm.labels.length := by
  obtain ⟨h1, h2, _⟩ := evalBox_spec _ _ _ _ _ h
  exact codeRows_uniform _ _ _ _ _ (code_uniform _ _ _ _ h2).1 (code_width _ _ _ _ h2) h1

/-- a component whose labels exist has rows as wide as the label list -/
def LabelWide (o : CompOut) : Prop := ∀ ls, o.labels = some ls → Uniform o.value ls.length

theorem categoricLabels_length (name : String) (cm : ContrastMatrix) :
    (categoricLabels name cm).length = cm.labels.length := by simp [categoricLabels]

theorem compOfVal_width (n : Nat) (name : String) (e : Expr) (forced isResponse full : Bool)
    (v : Val) (ts : TS) (out : CompOut)
    (h : compOfVal n name e forced isResponse full v ts = .ok out) : LabelWide out := by
  unfold compOfVal at h
  simp only at h
  intro ls hls
  split at h
  · split at h
    · simp only [bind_ok, pure_ok] at h
      obtain ⟨lv, hlv, ⟨levels, cm, m⟩, hcat, rfl⟩ := h
      simp only [Option.some.injEq] at hls
      subst hls
      rw [categoricLabels_length]
      exact evalCategoric_width _ _ _ _ _ _ _ hcat
    · simp only [pure_ok] at h
      subst h
      simp only [Option.some.injEq] at hls
      subst hls
      exact colOfEntries_uniform _
  · simp only [bind_ok, pure_ok] at h
    obtain ⟨⟨levels, cm, m⟩, hcat, rfl⟩ := h
    simp only [Option.some.injEq] at hls
    subst hls
    rw [categoricLabels_length]
    exact evalCategoric_width _ _ _ _ _ _ _ hcat
  · simp only [bind_ok, pure_ok] at h
    obtain ⟨⟨levels, cm, m⟩, hcat, rfl⟩ := h
    simp only [Option.some.injEq] at hls
    subst hls
    rw [categoricLabels_length]
    exact evalBox_width _ _ _ _ _ hcat
  · split at h
    · simp at h
    · split at h
      · simp at h
      · simp only [pure_ok] at h
        subst h
        simp only [Option.some.injEq] at hls
        subst hls
        exact colOfEntries_uniform _
  · split at h
    · simp at h
    · split at h
      · simp at h
      · simp only [pure_ok] at h
        subst h
        simp only [Option.some.injEq] at hls
        subst hls
        intro r hr
        rw [List.eq_of_mem_replicate hr]
        rfl
  · split at h
    · simp at h
    · simp only [pure_ok] at h
      subst h
      simp at hls
  · simp at h

theorem compOfCol_width (name : String) (e : Expr) (forced isResponse full : Bool)
    (reference : Option String) (c : Column) (out : CompOut)
    (h : compOfCol name e forced isResponse full reference c = .ok out) : LabelWide out := by
  unfold compOfCol at h
  simp only at h
  intro ls hls
  split at h
  · split at h
    · simp only [bind_ok, pure_ok] at h
      obtain ⟨lv, hlv, ⟨levels, cm, m⟩, hcat, rfl⟩ := h
      simp only [Option.some.injEq] at hls
      subst hls
      rw [categoricLabels_length]
      exact evalCategoric_width _ _ _ _ _ _ _ hcat
    · simp only [pure_ok] at h
      subst h
      simp only [Option.some.injEq] at hls
      subst hls
      exact colOfEntries_uniform _
  · rename_i xs d hv
    split at h
    · split at h
      · simp at h
      · rcases d with _ | ⟨_ | _, cats⟩ <;> cases hsl : sortLevels (xs.filterMap id) <;>
          simp only [hsl] at h <;> (try (simp [bind, Except.bind] at h; done))
        all_goals (
          simp only [pure_bind, pure_ok] at h
          subst h
          simp only [Option.some.injEq] at hls
          subst hls
          intro r hr
          simp only [List.mem_map] at hr
          obtain ⟨x, _, rfl⟩ := hr
          rfl)
    · simp only [bind_ok, pure_ok] at h
      obtain ⟨⟨levels, cm, m⟩, hcat, rfl⟩ := h
      simp only [Option.some.injEq] at hls
      subst hls
      rw [categoricLabels_length]
      exact evalCategoric_width _ _ _ _ _ _ _ hcat
  · simp at h

theorem trainComp_width (env : Env) (name : String) (e : Expr) (forced isResponse full : Bool)
    (out : CompOut) (h : trainComp env name e forced isResponse full = .ok out) : LabelWide out := by
  cases hc : isCallLike e with
  | true =>
    rw [trainComp_call _ _ _ _ _ _ hc] at h
    simp only [bind_ok] at h
    obtain ⟨⟨v, ts⟩, _, h⟩ := h
    exact compOfVal_width _ _ _ _ _ _ _ _ _ h
  | false =>
    rw [trainComp_var _ _ _ _ _ _ hc] at h
    split at h
    · simp at h
    · exact compOfCol_width _ _ _ _ _ _ _ _ h

/-- labels and data folded by the same product stay aligned -/
theorem foldl_width (ps : List (Matrix × List String)) (accM : Matrix) (accL : List String)
    (hacc : Uniform accM accL.length) (h : ∀ p ∈ ps, Uniform p.1 p.2.length) :
    Uniform ((ps.map (·.1)).foldl interactionMatrix accM)
      ((ps.map (·.2)).foldl interactionLabels accL).length := by
  induction ps generalizing accM accL with
  | nil => exact hacc
  | cons p ps ih =>
    simp only [List.map_cons, List.foldl_cons]
    apply ih
    · rw [interactionLabels_eq, length_labelProd]
      exact interactionMatrix_uniform _ _ _ _ hacc (h p (by simp))
    · intro q hq; exact h q (by simp [hq])

theorem mapM_labels_some (outs : List CompOut) (lss : List (List String))
    (h : outs.mapM (fun (o : CompOut) => o.labels) = some lss) :
    outs.map (·.value) = (List.zip outs lss).map (·.1.value) ∧ lss = (List.zip outs lss).map (·.2) ∧
      ∀ p ∈ List.zip outs lss, p.1.labels = some p.2 := by
  induction outs generalizing lss with
  | nil =>
    simp only [List.mapM_nil, Option.pure_def, Option.some.injEq] at h
    subst h; simp
  | cons o outs ih =>
    simp only [List.mapM_cons, Option.bind_eq_bind, Option.pure_def] at h
    cases hl : o.labels with
    | none => rw [hl] at h; simp at h
    | some l =>
      rw [hl] at h
      simp only [Option.bind_some] at h
      cases hm : outs.mapM (fun (o : CompOut) => o.labels) with
      | none => rw [hm] at h; simp at h
      | some ls' =>
        rw [hm] at h
        simp only [Option.bind_some, Option.some.injEq] at h
        subst h
        obtain ⟨h1, h2, h3⟩ := ih ls' hm
        refine ⟨?_, ?_, ?_⟩
        · simp only [List.map_cons, List.zip_cons_cons]; rw [← h1]
        · simp only [List.map_cons, List.zip_cons_cons]; rw [← h2]
        · intro p hp
          simp only [List.zip_cons_cons, List.mem_cons] at hp
          rcases hp with rfl | hp
          · exact hl
          · exact h3 p hp

/-- **a term has as many labels as columns** -/
theorem trainTerm_width (env : Env) (table : List (String × Expr)) (spec : TermSpec)
    (forced isResponse : Bool) (out : TermOut)
    (h : trainTerm env table spec forced isResponse = .ok out) :
    ∀ ls, out.labels = some ls → Uniform out.data ls.length := by
  unfold trainTerm at h
  simp only [bind_ok, pure_ok] at h
  obtain ⟨outs, houts, rfl⟩ := h
  have hw := mapM_forall _ LabelWide _ _ houts (by
    intro c hc o ho
    simp only [bind_ok] at ho
    obtain ⟨e, he, ho⟩ := ho
    exact trainComp_width env c.1 e _ _ _ o ho)
  intro ls hls
  simp only at hls ⊢
  cases hm : outs.mapM (fun (o : CompOut) => o.labels) with
  | none => rw [hm] at hls; simp at hls
  | some lss =>
    rw [hm] at hls
    simp only [Option.map_some, Option.some.injEq] at hls
    subst hls
    obtain ⟨zs, h1, h2, hz⟩ : ∃ zs : List (CompOut × List String),
        outs.map (·.value) = zs.map (·.1.value) ∧ lss = zs.map (·.2) ∧
        ∀ p ∈ zs, Uniform p.1.value p.2.length := by
      obtain ⟨h1, h2, h3⟩ := mapM_labels_some outs lss hm
      exact ⟨List.zip outs lss, h1, h2, fun p hp => hw p.1 (List.of_mem_zip hp).1 p.2 (h3 p hp)⟩
    rw [h1, h2]
    cases zs with
    | nil => intro r hr; simp [reduceMatrices] at hr
    | cons z zs =>
      simp only [List.map_cons, reduceMatrices, reduceLabels]
      have := foldl_width (zs.map (fun p => (p.1.value, p.2))) z.1.value z.2 (hz z (by simp)) (by
        intro p hp
        obtain ⟨q, hq, rfl⟩ := List.mem_map.1 hp
        exact hz q (by simp [hq]))
      simpa [List.map_map, Function.comp_def] using this

/-- **a group-specific block has as many labels as columns** (no coding hypothesis) -/
theorem trainGroup_width (env : Env) (table : List (String × Expr)) (spec : GroupSpec) (out : GroupOut)
    (h : trainGroup env table spec = .ok out) :
    ∀ ls, out.labels = some ls → Uniform out.data ls.length := by
  obtain ⟨f, X, el, hf, hX, hel, hdata, _, _, _, hlabels⟩ := trainGroup_parts env table spec out h
  intro ls hls
  rw [hlabels] at hls
  cases hfl : f.labels with
  | none => rw [hfl] at hls; simp at hls
  | some fl =>
    cases el with
    | none => rw [hfl] at hls; simp at hls
    | some els =>
      rw [hfl] at hls
      simp only [Option.bind_eq_bind, Option.bind_some, Option.pure_def, Option.some.injEq] at hls
      subst hls
      have hfw := trainTerm_width env table _ true false f hf fl hfl
      have hXw : Uniform X els.length := by
        cases hse : spec.expr with
        | none =>
          simp only [effectData, effectLabels, hse, pure_ok, Option.some.injEq] at hX hel
          subst hX; subst hel
          exact onesCol_uniform _
        | some ts =>
          simp only [effectData, effectLabels, hse] at hX hel
          cases ht : trainTerm env table ts false false with
          | error e => rw [ht] at hX; simp [Except.map] at hX
          | ok t =>
            rw [ht] at hX hel
            simp only [Except.map, Except.ok.injEq] at hX hel
            subst hX
            exact trainTerm_width env table ts false false t ht els hel
      rw [hdata]
      have := interactionMatrix_uniform f.data X _ _ hfw hXw
      have hlen := length_labelProd bar fl els
      simp only [labelProd, bar] at hlen
      rw [hlen]
      exact this

end FormulaeModel.Design
