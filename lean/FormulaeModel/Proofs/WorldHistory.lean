import FormulaeModel.Proofs.World
import FormulaeModel.Spec.C07
/-
Helper lemmas for C07 about histories: the frame lemma of `step` (an operation appends the design
it creates, applies its configuration change and touches nothing else), the closed form of `run`,
and history independence.
-/
namespace FormulaeModel.World
open FormulaeModel FormulaeModel.Design FormulaeModel.Spec.C07

theorem set_getElem?_self {α} : ∀ (l : List α) (i : Nat) (d : α), l[i]? = some d → l.set i d = l
  | [], i, d, h => by simp at h
  | x :: l, 0, d, h => by simp at h; simp [h]
  | x :: l, i + 1, d, h => by
    simp at h
    simp [set_getElem?_self l i d h]

theorem wf_getElem? (w : World) (hw : w.wf = true) (i : Nat) (d : DesignState)
    (h : w.designs[i]? = some d) : d.wf = true := by
  unfold World.wf at hw
  rw [List.all_eq_true] at hw
  exact hw d (List.mem_of_getElem? h)

/-- the frame lemma: what one operation does to the world -/
theorem step_world (w : World) (hw : w.wf = true) (o : Op) :
    (step w o).1 = ⟨w.designs ++ o.created, o.configured w.config⟩ := by
  cases o with
  | build spec frame =>
    simp only [step, Op.created, Op.configured]
    cases hb : buildDesign spec frame with
    | error e => simp
    | ok r => obtain ⟨d, b⟩ := r; simp
  | evalCommon i frame =>
    simp only [step, Op.created, Op.configured, List.append_nil]
    cases hd : w.designs[i]? with
    | none => rfl
    | some d =>
      simp only []
      cases he : evalCommonS d frame w.config with
      | error e => rfl
      | ok r =>
        obtain ⟨o, d'⟩ := r
        have := evalCommonS_pure d frame w.config o d' (wf_getElem? w hw i d hd) he
        subst this
        simp [set_getElem?_self _ _ _ hd]
  | evalGroup i frame =>
    simp only [step, Op.created, Op.configured, List.append_nil]
    cases hd : w.designs[i]? with
    | none => rfl
    | some d =>
      simp only []
      cases he : evalGroupS d frame w.config with
      | error e => rfl
      | ok r =>
        obtain ⟨o, d'⟩ := r
        have := evalGroupS_pure d frame w.config o d' (wf_getElem? w hw i d hd) he
        subst this
        simp [set_getElem?_self _ _ _ hd]
  | setConfig key value =>
    simp only [step, Op.created, Op.configured, List.append_nil]
    split
    · rfl
    · split <;> rfl

theorem created_wf (o : Op) : ∀ d ∈ o.created, d.wf = true := by
  cases o with
  | build spec frame =>
    simp only [Op.created]
    cases hb : buildDesign spec frame with
    | error e => simp
    | ok r =>
      obtain ⟨d, b⟩ := r
      simp only [List.mem_singleton, forall_eq]
      exact buildDesign_wf spec frame d b hb
  | _ => simp [Op.created]

theorem step_wf (w : World) (hw : w.wf = true) (o : Op) : (step w o).1.wf = true := by
  rw [step_world w hw o]
  unfold World.wf at hw ⊢
  simp only [List.all_append, Bool.and_eq_true, hw, true_and]
  rw [List.all_eq_true]
  exact created_wf o

theorem run_wf (w : World) (hw : w.wf = true) : ∀ (h : List Op), (run w h).wf = true
  | [] => hw
  | o :: h => run_wf (step w o).1 (step_wf w hw o) h

def created (h : List Op) : List DesignState := h.flatMap Op.created
def configAfter (c : UnseenMode) : List Op → UnseenMode
  | [] => c
  | o :: h => configAfter (o.configured c) h

theorem run_world (w : World) (hw : w.wf = true) : ∀ (h : List Op),
    run w h = ⟨w.designs ++ created h, configAfter w.config h⟩
  | [] => by simp [run, created, configAfter]
  | o :: h => by
    simp only [run]
    rw [run_world (step w o).1 (step_wf w hw o) h, step_world w hw o]
    simp [created, configAfter, List.append_assoc]

/-- the output of an operation reads the design it refers to and the configuration, nothing else -/
def outOf (d : Option DesignState) (c : UnseenMode) : Op → Out
  | .build spec frame =>
    match buildDesign spec frame with
    | .ok (_, b) => .built b
    | .error e => .raised (errClass e)
  | .evalCommon _ frame =>
    match d with
    | none => .noDesign
    | some d => match evalCommonS d frame c with
      | .ok (o, _) => o
      | .error e => .raised (errClass e)
  | .evalGroup _ frame =>
    match d with
    | none => .noDesign
    | some d => match evalGroupS d frame c with
      | .ok (o, _) => o
      | .error e => .raised (errClass e)
  | .setConfig key value =>
    if key != configKey then .raised "KeyError"
    else match modeOfString? value with
      | some _ => .configSet
      | none => .raised "ValueError"

def opIndex : Op → Nat
  | .evalCommon i _ => i
  | .evalGroup i _ => i
  | _ => 0

theorem step_out (w : World) (o : Op) : (step w o).2 = outOf w.designs[(opIndex o)]? w.config o := by
  cases o with
  | build spec frame =>
    simp only [step, outOf]
    cases buildDesign spec frame with
    | error e => rfl
    | ok r => rfl
  | evalCommon i frame =>
    simp only [step, outOf, opIndex]
    cases w.designs[i]? with
    | none => rfl
    | some d => simp only []; cases evalCommonS d frame w.config <;> rfl
  | evalGroup i frame =>
    simp only [step, outOf, opIndex]
    cases w.designs[i]? with
    | none => rfl
    | some d => simp only []; cases evalGroupS d frame w.config <;> rfl
  | setConfig key value =>
    simp only [step, outOf]
    split
    · rfl
    · cases modeOfString? value <;> rfl

theorem outOf_reindex (d : Option DesignState) (c : UnseenMode) (o : Op) :
    outOf d c (reindex o) = outOf d c o := by
  cases o <;> rfl

theorem creates_iff (o : Op) : o.creates = true ↔ ∃ d, o.created = [d] := by
  cases o with
  | build spec frame =>
    simp only [Op.creates, Op.created]
    cases buildDesign spec frame with
    | error e => simp
    | ok r => simp
  | _ => simp [Op.creates, Op.created]

theorem not_creates (o : Op) (h : o.creates = false) : o.created = [] := by
  simpa [Op.creates] using h

theorem created_creator : ∀ (h : List Op) (i : Nat), created (creator h i) = ((created h)[i]?).toList
  | [], i => by simp [creator, created]
  | o :: h, i => by
    have ih := created_creator h
    simp only [creator]
    by_cases hc : o.creates = true
    · obtain ⟨d, hd⟩ := (creates_iff o).1 hc
      simp only [hc, if_true]
      cases i with
      | zero => simp [created, hd]
      | succ j => simp [created, hd] ; simpa [created] using ih j
    · have hc' : o.creates = false := by simpa using hc
      have := not_creates o hc'
      simp [hc', created, this]; simpa [created] using ih i

theorem configAfter_creator (c : UnseenMode) : ∀ (h : List Op) (i : Nat), configAfter c (creator h i) = c
  | [], i => by simp [creator, configAfter]
  | o :: h, i => by
    simp only [creator]
    by_cases hc : o.creates = true
    · simp only [hc, if_true]
      cases i with
      | zero =>
        simp only [configAfter]
        cases o <;> simp_all [Op.configured, Op.creates, Op.created]
      | succ j => exact configAfter_creator c h j
    · have hc' : o.creates = false := by simpa using hc
      simp only [hc']
      exact configAfter_creator c h i

theorem configures_const (o : Op) (h : o.configures = true) (c c' : UnseenMode) :
    o.configured c = o.configured c' := by
  cases o with
  | setConfig key value =>
    simp only [Op.configures, Bool.and_eq_true, beq_iff_eq] at h
    simp only [Op.configured, h.1, bne_self_eq_false, Bool.false_eq_true, if_false]
    cases hv : modeOfString? value with
    | none => simp [hv] at h
    | some m => rfl
  | _ => simp [Op.configures] at h

theorem not_configures (o : Op) (h : o.configures = false) (c : UnseenMode) : o.configured c = c := by
  cases o with
  | setConfig key value =>
    simp only [Op.configured]
    by_cases hk : key = configKey
    · simp only [hk, bne_self_eq_false, Bool.false_eq_true, if_false]
      cases hv : modeOfString? value with
      | none => rfl
      | some m => simp [Op.configures, hk, hv] at h
    · simp [hk]
  | _ => rfl

theorem configures_created (o : Op) (h : o.configures = true) : o.created = [] := by
  cases o <;> simp_all [Op.configures, Op.created]

theorem lastConfig_shape : ∀ (h : List Op), lastConfig h = [] ∨ ∃ o, lastConfig h = [o] ∧ o.configures = true
  | [] => Or.inl rfl
  | o :: h => by
    rcases lastConfig_shape h with hl | ⟨o', hl, ho'⟩
    · simp only [lastConfig, hl]
      by_cases hc : o.configures = true
      · exact Or.inr ⟨o, by simp [hc], hc⟩
      · exact Or.inl (by simp [hc])
    · exact Or.inr ⟨o', by simp [lastConfig, hl], ho'⟩

theorem created_lastConfig (h : List Op) : created (lastConfig h) = [] := by
  rcases lastConfig_shape h with hl | ⟨o, hl, ho⟩
  · simp [hl, created]
  · simp [hl, created, configures_created o ho]

theorem configAfter_lastConfig : ∀ (h : List Op) (c : UnseenMode),
    configAfter c (lastConfig h) = configAfter c h
  | [], c => rfl
  | o :: h, c => by
    have ih := configAfter_lastConfig h
    rcases lastConfig_shape h with hl | ⟨o', hl, ho'⟩
    · simp only [lastConfig, hl, configAfter]
      rw [← ih (o.configured c), hl]
      by_cases hc : o.configures = true
      · simp [hc, configAfter]
      · have hc' : o.configures = false := by simpa using hc
        simp [hc', configAfter, not_configures o hc' c]
    · simp only [lastConfig, hl, configAfter]
      rw [← ih (o.configured c), hl]
      simp only [configAfter]
      exact configures_const o' ho' _ _

theorem configAfter_append (c : UnseenMode) : ∀ (a b : List Op),
    configAfter c (a ++ b) = configAfter (configAfter c a) b
  | [], b => rfl
  | o :: a, b => by simp [configAfter, configAfter_append _ a b]

theorem created_append (a b : List Op) : created (a ++ b) = created a ++ created b := by
  simp [created]

theorem run_init (h : List Op) : run World.init h = ⟨created h, configAfter .error h⟩ := by
  have := run_world World.init (by rfl) h
  simpa [World.init] using this

theorem toList_getElem?_zero {α} (x : Option α) : (x.toList)[0]? = x := by
  cases x <;> rfl

/-- history independence, in the form used by Properties/C07.lean -/
theorem history_independence (h : List Op) (o : Op) :
    (step (run World.init h) o).2 = freshOutput h o := by
  unfold freshOutput
  rw [step_out, step_out, run_init, run_init, outOf_reindex]
  cases o with
  | build spec frame => rfl
  | setConfig key value => rfl
  | evalCommon i frame =>
    simp only [relevant, reindex, opIndex, created_append, created_lastConfig, created_creator,
      List.nil_append, toList_getElem?_zero, configAfter_append, configAfter_lastConfig,
      configAfter_creator]
  | evalGroup i frame =>
    simp only [relevant, reindex, opIndex, created_append, created_lastConfig, created_creator,
      List.nil_append, toList_getElem?_zero, configAfter_append, configAfter_lastConfig,
      configAfter_creator]

end FormulaeModel.World
