import FormulaeModel.Proofs.PermArg
import FormulaeModel.Proofs.RowsComp
set_option linter.unusedSimpArgs false
set_option linter.unusedVariables false
/-
Helper lemmas for C08 (part 4): one component trained on the row-permuted frame.
The levels, the contrast matrix, the transform state, the kind and the labels are the same; the
value is the training value with its rows permuted.
-/
namespace FormulaeModel.Design
open FormulaeModel FormulaeModel.Spec.C06

/-! ### levels and codings do not depend on the row order -/

theorem evalCategoric_perm {sigma : List Nat} {n : Nat} (hp : IsPerm sigma n) (name : String)
    (xs : List (Option Level)) (hx : xs.length = n) (d : Option (Bool × List String)) (full : Bool)
    (levels : List Level) (cm : ContrastMatrix) (m : Matrix)
    (h : evalCategoric name xs d full = .ok (levels, cm, m)) :
    evalCategoric name (pick sigma none xs) d full = .ok (levels, cm, selectRows m sigma) := by
  have hperm := pick_perm hp none xs hx
  have his : ∀ i ∈ sigma, i < xs.length := fun i hi => hx ▸ hp.lt i hi
  rcases d with _ | ⟨_ | _, cats⟩ <;> cases hsl : sortLevels (xs.filterMap id) <;>
    simp only [evalCategoric, any_perm _ hperm, sortLevels_perm (hperm.filterMap id), hsl] at h ⊢ <;>
    split at h <;> (try (simp [bind, Except.bind] at h; done))
  all_goals (
    rename_i hna
    simp only [hna, Bool.false_eq_true, if_false]
    simp only [bind_ok, pure_ok, Prod.mk.injEq] at h ⊢
    obtain ⟨ls, hls, cm', hcm, m', hm, rfl, rfl, rfl⟩ := h
    exact ⟨ls, hls, cm', hcm, _, codeRows_pick _ _ _ _ sigma hm his, rfl, rfl, rfl⟩)

theorem evalBox_perm {sigma : List Nat} {n : Nat} (hp : IsPerm sigma n) (b : Box)
    (hx : b.data.length = n) (full : Bool)
    (levels : List Level) (cm : ContrastMatrix) (m : Matrix)
    (h : evalBox b full = .ok (levels, cm, m)) :
    evalBox { b with data := pick sigma none b.data } full = .ok (levels, cm, selectRows m sigma) := by
  have hperm := pick_perm hp none b.data hx
  have his : ∀ i ∈ sigma, i < b.data.length := fun i hi => hx ▸ hp.lt i hi
  rcases b with ⟨data, contrast, lv⟩
  simp only at hx hperm his
  cases lv <;> cases hsl : sortLevels (data.filterMap id) <;>
    simp only [evalBox, sortLevels_perm (hperm.filterMap id), hsl] at h ⊢ <;>
    (try (simp [bind, Except.bind] at h; done))
  all_goals (
    simp only [bind_ok, pure_ok, Prod.mk.injEq] at h ⊢
    obtain ⟨ls, hls, cm', hcm, m', hm, rfl, rfl, rfl⟩ := h
    exact ⟨ls, hls, cm', hcm, _, codeRows_pick _ _ _ _ sigma hm his, rfl, rfl, rfl⟩)

/-- the levels of a response written `y[level]` -/
theorem refLevels_perm {sigma : List Nat} {n : Nat} (hp : IsPerm sigma n) (xs : List (Option Level))
    (hx : xs.length = n) :
    sortLevels ((pick sigma none xs).filterMap id) = sortLevels (xs.filterMap id) :=
  sortLevels_perm ((pick_perm hp none xs hx).filterMap id)

/-! ### `trainComp` in two steps: the value, then the component built from it -/

/-- `set_type` + `set_data` of a call component once its value is known (`n` = number of rows) -/
def compOfVal (n : Nat) (name : String) (e : Expr) (forced isResponse full : Bool) (v : Val) (ts : TS) :
    M CompOut :=
  let st : CompState := { name, expr := e, kind := .numeric, forced, tstate := ts }
  match v with
  | .vec xs isInt =>
    if forced then do
      let (levels, cm, m) ← evalCategoric name (← numericLevels xs) none full
      let _ := isInt
      pure ⟨{ st with kind := .categoric, levels, contrast := some cm }, m, some (categoricLabels name cm)⟩
    else pure ⟨st, colOfEntries xs, some [name]⟩
  | .lvec xs d => do
    let (levels, cm, m) ← evalCategoric name xs d full
    pure ⟨{ st with kind := .categoric, levels, contrast := some cm }, m, some (categoricLabels name cm)⟩
  | .box b => do
    let (levels, cm, m) ← evalBox b full
    pure ⟨{ st with kind := .categoric, levels, contrast := some cm }, m, some (categoricLabels name cm)⟩
  | .offsetVar xs =>
    if isResponse then .error (.valueError "offset() cannot be used as a response term.")
    else if forced then .error (.unmodelled "offset() as a grouping factor")
    else pure ⟨{ st with kind := .offset }, colOfEntries xs, some [name]⟩
  | .offsetConst q =>
    if isResponse then .error (.valueError "offset() cannot be used as a response term.")
    else if forced then .error (.unmodelled "offset() as a grouping factor")
    else pure ⟨{ st with kind := .offset, offsetConst := some q },
               List.replicate n [some q], some [name]⟩
  | .prop ss ts c =>
    if !isResponse then .error (.valueError "'proportion()' can only be used as a response term.")
    else
      let trialsName := match e with
        | .call _ _ (.more _ _ (.last (.variable t))) _ => some t.lexeme
        | _ => none
      pure ⟨{ st with kind := .proportion, propConst := c, propTrialsName := trialsName },
            List.zipWith (fun a b => [a, b]) ss ts, none⟩
  | _ => .error (.valueError "Call result is of an unrecognized type")

def isCallLike : Expr → Bool
  | .call .. | .brace .. => true
  | _ => false

theorem trainComp_call (env : Env) (name : String) (e : Expr) (forced isResponse full : Bool)
    (hc : isCallLike e = true) :
    trainComp env name e forced isResponse full =
      (posOnly (evalArg env e none) >>= fun p =>
        compOfVal env.frame.nrows name e forced isResponse full p.1 p.2) := by
  cases e <;> first | rfl | simp [isCallLike] at hc

/-- the column a `Variable` component reads and the reference level of `y[level]` -/
def varColRef (name : String) : Expr → String × Option String
  | .subset v _ lv _ =>
    (v.lexeme, match lv with
      | .variable l => some l.lexeme
      | .literal t => some (String.ofList ((t.lexeme.toList.drop 1).dropLast))
      | _ => none)
  | .quoted t => (String.ofList ((t.lexeme.toList.drop 1).dropLast), none)
  | .variable v => (v.lexeme, none)
  | _ => (name, none)

/-- `set_type` + `set_data` of a `Variable` component once its column is known -/
def compOfCol (name : String) (e : Expr) (forced isResponse full : Bool) (reference : Option String)
    (c : Column) : M CompOut :=
  let st : CompState := { name, expr := e, kind := .numeric, forced, reference }
  match colVal c with
  | .vec xs _ =>
    if forced then do
      let (levels, cm, m) ← evalCategoric name (← numericLevels xs) none full
      pure ⟨{ st with kind := .categoric, levels, contrast := some cm }, m,
            some (categoricLabels name cm)⟩
    else pure ⟨st, colOfEntries xs, some [name]⟩
  | .lvec xs d =>
    match isResponse, reference with
    | true, some r => do
      if xs.any Option.isNone then .error (.unmodelled "missing value in categorical data") else
      let levels ← match d with
        | some (true, cats) => pure (cats.map Level.s)
        | _ => match sortLevels (xs.filterMap id) with
          | some ls => pure ls
          | none => .error .typeError
      pure ⟨{ st with kind := .categoric, levels },
            xs.map (fun x => [some (if x == some (Level.s r) then 1 else 0)]),
            some [name ++ "[" ++ r ++ "]"]⟩
    | _, _ => do
      let (levels, cm, m) ← evalCategoric name xs d full
      pure ⟨{ st with kind := .categoric, levels, contrast := some cm }, m,
            some (categoricLabels name cm)⟩
  | _ => .error (.valueError "Variable is of an unrecognized type")

theorem trainComp_var (env : Env) (name : String) (e : Expr) (forced isResponse full : Bool)
    (hc : isCallLike e = false) :
    trainComp env name e forced isResponse full =
      (match env.frame.col? (varColRef name e).1 with
       | none => .error (.keyError (varColRef name e).1)
       | some c => compOfCol name e forced isResponse full (varColRef name e).2 c) := by
  cases e <;> first | rfl | simp [isCallLike] at hc

/-! ### the component built from a permuted value -/

theorem selectRows_zipWith_pair (ss ts : List Entry) (is : List Nat) (hs : ∀ i ∈ is, i < ss.length)
    (ht : ∀ i ∈ is, i < ts.length) :
    selectRows (List.zipWith (fun a b => [a, b]) ss ts) is =
      List.zipWith (fun a b => [a, b]) (pick is none ss) (pick is none ts) := by
  induction is with
  | nil => rfl
  | cons i is ih =>
    have hi := hs i (by simp)
    have hi' := ht i (by simp)
    simp only [selectRows, pick, List.map_cons, List.zipWith_cons_cons] at ih ⊢
    rw [ih (fun j hj => hs j (by simp [hj])) (fun j hj => ht j (by simp [hj]))]
    congr 1
    simp [List.getD_eq_getElem?_getD, List.getElem?_zipWith, List.getElem?_eq_getElem hi,
      List.getElem?_eq_getElem hi']

theorem compOfVal_perm {sigma : List Nat} {n : Nat} (hp : IsPerm sigma n) (name : String) (e : Expr)
    (forced isResponse full : Bool) (v : Val) (ts : TS) (hv : v.len n) (out : CompOut)
    (h : compOfVal n name e forced isResponse full v ts = .ok out) :
    compOfVal sigma.length name e forced isResponse full (v.rows sigma) ts =
      .ok ⟨out.st, selectRows out.value sigma, out.labels⟩ ∧ out.value.length = n := by
  have his := hp.lt
  unfold compOfVal at h
  simp only at h
  split at h
  · -- vec
    rename_i xs isInt
    simp only [Val.len] at hv
    have hisx : ∀ i ∈ sigma, i < xs.length := fun i hi => hv ▸ his i hi
    simp only [compOfVal, Val.rows]
    split at h
    · rename_i hf
      simp only [bind_ok, pure_ok] at h
      obtain ⟨ls, hls, ⟨levels, cm, m⟩, hcat, rfl⟩ := h
      have hcode := evalCategoric_ok _ _ _ _ _ _ _ hcat
      have hlen := numericLevels_length _ _ hls
      refine ⟨?_, by simp only; rw [codeRows_length _ _ _ _ hcode, hlen, hv]⟩
      simp only [hf, if_true, numericLevels_pick _ _ sigma hls hisx, ok_bind,
        evalCategoric_perm hp name ls (by rw [hlen, hv]) none full _ _ _ hcat]
      rfl
    · rename_i hf
      simp only [pure_ok] at h
      subst h
      refine ⟨?_, by simp [colOfEntries, hv]⟩
      simp only [hf, Bool.false_eq_true, if_false, pure, Except.pure, selectRows_colOfEntries _ sigma hisx]
  · -- lvec
    rename_i xs d
    simp only [Val.len] at hv
    simp only [compOfVal, Val.rows]
    simp only [bind_ok, pure_ok] at h
    obtain ⟨⟨levels, cm, m⟩, hcat, rfl⟩ := h
    have hcode := evalCategoric_ok _ _ _ _ _ _ _ hcat
    refine ⟨?_, by simp only; rw [codeRows_length _ _ _ _ hcode, hv]⟩
    simp only [evalCategoric_perm hp name xs hv d full _ _ _ hcat, ok_bind]
    rfl
  · -- box
    rename_i b
    simp only [Val.len] at hv
    simp only [compOfVal, Val.rows]
    simp only [bind_ok, pure_ok] at h
    obtain ⟨⟨levels, cm, m⟩, hcat, rfl⟩ := h
    have hcode := evalBox_ok _ _ _ _ _ hcat
    refine ⟨?_, by simp only; rw [codeRows_length _ _ _ _ hcode, hv]⟩
    simp only [evalBox_perm hp b hv full _ _ _ hcat, ok_bind]
    rfl
  · -- offsetVar
    rename_i xs
    simp only [Val.len] at hv
    have hisx : ∀ i ∈ sigma, i < xs.length := fun i hi => hv ▸ his i hi
    simp only [compOfVal, Val.rows]
    split at h
    · simp at h
    · split at h
      · simp at h
      · simp only [pure_ok] at h
        subst h
        refine ⟨?_, by simp [colOfEntries, hv]⟩
        simp only [*, Bool.false_eq_true, if_false, pure, Except.pure, selectRows_colOfEntries _ sigma hisx]
  · -- offsetConst
    rename_i q
    simp only [compOfVal, Val.rows]
    split at h
    · simp at h
    · split at h
      · simp at h
      · simp only [pure_ok] at h
        subst h
        refine ⟨?_, by simp⟩
        simp only [*, Bool.false_eq_true, if_false, pure, Except.pure, selectRows_eq_pick, pick_replicate sigma _ _ _ his]
  · -- prop
    rename_i ss ts' c
    simp only [Val.len] at hv
    have hs : ∀ i ∈ sigma, i < ss.length := fun i hi => hv.1 ▸ his i hi
    have ht : ∀ i ∈ sigma, i < ts'.length := fun i hi => hv.2 ▸ his i hi
    simp only [compOfVal, Val.rows]
    split at h
    · simp at h
    · simp only [pure_ok] at h
      subst h
      refine ⟨?_, by simp [hv.1, hv.2]⟩
      simp only [*, Bool.false_eq_true, if_false, pure, Except.pure, selectRows_zipWith_pair _ _ sigma hs ht]
  · simp at h

theorem compOfCol_perm {sigma : List Nat} {n : Nat} (hp : IsPerm sigma n) (name : String) (e : Expr)
    (forced isResponse full : Bool) (reference : Option String) (c : Column) (hc : c.cells.length = n)
    (out : CompOut) (h : compOfCol name e forced isResponse full reference c = .ok out) :
    compOfCol name e forced isResponse full reference (colRows c sigma) =
      .ok ⟨out.st, selectRows out.value sigma, out.labels⟩ ∧ out.value.length = n := by
  have his := hp.lt
  have hcv := colVal_rows c sigma
  have gcv := colVal_good c
  unfold compOfCol at h ⊢
  simp only at h ⊢
  rw [hcv]
  split at h
  · rename_i xs isInt hv
    rw [hv] at gcv ⊢
    simp only [Val.good] at gcv
    have hxl : xs.length = n := gcv.trans hc
    have hisx : ∀ i ∈ sigma, i < xs.length := fun i hi => hxl ▸ his i hi
    simp only [Val.rows]
    split at h
    · rename_i hf
      simp only [bind_ok, pure_ok] at h
      obtain ⟨ls, hls, ⟨levels, cm, m⟩, hcat, rfl⟩ := h
      have hcode := evalCategoric_ok _ _ _ _ _ _ _ hcat
      have hlen := numericLevels_length _ _ hls
      refine ⟨?_, by simp only; rw [codeRows_length _ _ _ _ hcode, hlen, hxl]⟩
      simp only [hf, if_true, numericLevels_pick _ _ sigma hls hisx, ok_bind,
        evalCategoric_perm hp name ls (by rw [hlen, hxl]) none full _ _ _ hcat]
      rfl
    · rename_i hf
      simp only [pure_ok] at h
      subst h
      refine ⟨?_, by simp [colOfEntries, hxl]⟩
      simp only [hf, Bool.false_eq_true, if_false, pure, Except.pure, selectRows_colOfEntries _ sigma hisx]
  · rename_i xs d hv
    rw [hv] at gcv ⊢
    simp only [Val.good] at gcv
    have hxl : xs.length = n := gcv.trans hc
    have hisx : ∀ i ∈ sigma, i < xs.length := fun i hi => hxl ▸ his i hi
    have hperm := pick_perm hp none xs hxl
    simp only [Val.rows]
    split at h
    · -- response with a reference level
      rename_i r
      rw [any_perm _ hperm, refLevels_perm hp xs hxl]
      split at h
      · simp at h
      · rename_i hna
        simp only [hna, Bool.false_eq_true, if_false]
        rcases d with _ | ⟨_ | _, cats⟩ <;> cases hsl : sortLevels (xs.filterMap id) <;>
          simp only [hsl] at h ⊢ <;> (try (simp [bind, Except.bind] at h; done))
        all_goals (
          simp only [pure_bind, pure_ok] at h ⊢
          subst h
          refine ⟨?_, by simp [hxl]⟩
          simp only [CompOut.mk.injEq, true_and, and_true]
          rw [selectRows_eq_pick]
          exact (pick_map' _ sigma none [] xs hisx).symm)
    · rename_i hnr
      simp only [bind_ok, pure_ok] at h
      obtain ⟨⟨levels, cm, m⟩, hcat, rfl⟩ := h
      have hcode := evalCategoric_ok _ _ _ _ _ _ _ hcat
      refine ⟨?_, by simp only; rw [codeRows_length _ _ _ _ hcode, hxl]⟩
      simp only [evalCategoric_perm hp name xs hxl d full _ _ _ hcat, ok_bind]
      rfl
  · rename_i hnv hnl
    simp at h

/-! ### one component -/

/-- **Training one component on the row-permuted frame**: the remembered state (levels, contrast
matrix, transform parameters, kind, …) and the labels are identical; the value has its rows
permuted.  Every component the model covers: no guard. -/
theorem trainComp_perm (env : Env) (hwf : env.frame.wellFormed = true) (hn : env.namesScalar = true)
    (sigma : List Nat) (hp : IsPerm sigma env.frame.nrows) (name : String) (e : Expr)
    (forced isResponse full : Bool) (out : CompOut)
    (h : trainComp env name e forced isResponse full = .ok out) :
    trainComp (env.rows sigma) name e forced isResponse full =
        .ok ⟨out.st, selectRows out.value sigma, out.labels⟩ ∧
      out.value.length = env.frame.nrows := by
  have hnr : (env.rows sigma).frame.nrows = sigma.length := frame_nrows_rows env.frame sigma hp.lt
  cases hc : isCallLike e with
  | true =>
    rw [trainComp_call _ _ _ _ _ _ hc] at h ⊢
    simp only [bind_ok] at h ⊢
    obtain ⟨⟨v, ts⟩, h1, h⟩ := h
    rw [posOnly_ok] at h1
    obtain ⟨gv, hE⟩ := evalArg_perm env hwf hn sigma hp _ _ _ _ h1
    rw [← posOnly_ok] at hE
    obtain ⟨h2, h3⟩ := compOfVal_perm hp name e forced isResponse full v ts gv out h
    refine ⟨⟨(v.rows sigma, ts), hE, ?_⟩, h3⟩
    rw [hnr]
    exact h2
  | false =>
    rw [trainComp_var _ _ _ _ _ _ hc] at h ⊢
    simp only [Env.rows, frame_col?_rows]
    split at h
    · simp at h
    · rename_i c hcol
      have hlen := frame_col?_length env.frame hwf _ c hcol
      simp only [hcol, Option.map_some]
      exact compOfCol_perm hp name e forced isResponse full _ c hlen out h

end FormulaeModel.Design
