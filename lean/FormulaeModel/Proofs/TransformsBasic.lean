import FormulaeModel.Model.Transforms
import FormulaeModel.Spec.C14
import Mathlib.Tactic.Ring
import Mathlib.Tactic.Linarith
import Mathlib.Tactic.FieldSimp
import Mathlib.Algebra.Order.Field.Rat
/-
Helper lemmas for C14: sums, means, the Center / Scale state machines.
-/
namespace FormulaeModel.Transforms

theorem sum_map_sub (m : Rat) (x : List Rat) :
    sum (x.map (fun v => v - m)) = sum x - (x.length : Rat) * m := by
  induction x with
  | nil => simp [sum]
  | cons a l ih => simp only [List.map_cons, sum, ih, List.length_cons]; push_cast; ring

theorem sum_map_add (f g : Rat → Rat) (x : List Rat) :
    sum (x.map (fun v => f v + g v)) = sum (x.map f) + sum (x.map g) := by
  induction x with
  | nil => simp [sum]
  | cons a l ih => simp only [List.map_cons, sum, ih]; ring

theorem sum_map_mul_left (c : Rat) (f : Rat → Rat) (x : List Rat) :
    sum (x.map (fun v => c * f v)) = c * sum (x.map f) := by
  induction x with
  | nil => simp [sum]
  | cons a l ih => simp only [List.map_cons, sum, ih]; ring

theorem sum_map_const (c : Rat) (x : List Rat) :
    sum (x.map (fun _ => c)) = (x.length : Rat) * c := by
  induction x with
  | nil => simp [sum]
  | cons a l ih => simp only [List.map_cons, sum, ih, List.length_cons]; push_cast; ring

theorem sum_map_nonneg (f : Rat → Rat) (x : List Rat) (h : ∀ v ∈ x, 0 ≤ f v) :
    0 ≤ sum (x.map f) := by
  induction x with
  | nil => simp [sum]
  | cons a l ih =>
    simp only [List.map_cons, sum]
    have := h a (by simp)
    have := ih (fun v hv => h v (by simp [hv]))
    linarith

theorem sum_eq_spec (x : List Rat) : Spec.C14.sum x = sum x := by
  induction x with
  | nil => rfl
  | cons a l ih => simp [Spec.C14.sum, sum, ih]

theorem mean?_cons (a : Rat) (l : List Rat) :
    mean? (a :: l) = some (sum (a :: l) / (((a :: l).length : Nat) : Rat)) := rfl

theorem mean?_ne_nil {x : List Rat} (h : x ≠ []) :
    mean? x = some (sum x / (x.length : Rat)) := by
  cases x with
  | nil => exact absurd rfl h
  | cons a l => rfl

theorem length_cast_ne_zero {x : List Rat} (h : x ≠ []) : ((x.length : Nat) : Rat) ≠ 0 := by
  cases x with
  | nil => exact absurd rfl h
  | cons a l => simp only [List.length_cons]; push_cast; positivity

/-- centring on the mean gives sum zero -/
theorem sum_centered {x : List Rat} (h : x ≠ []) :
    sum (x.map (fun v => v - sum x / (x.length : Rat))) = 0 := by
  rw [sum_map_sub]
  have := length_cast_ne_zero h
  field_simp
  ring

end FormulaeModel.Transforms

namespace FormulaeModel.Transforms

/-! ### Center -/
namespace Center

theorem call_frozen (s : St) (h : s.paramsSet = true) (y : List Rat) :
    call s y = (s, apply s.mean y) := by simp [call, h]

theorem call_init (x : List Rat) : call init x = (⟨true, mean? x⟩, apply (mean? x) x) := by
  simp [call, init]

/-- once the parameters are set, no call changes the state (induction over the history) -/
theorem run_frozen (s : St) (h : s.paramsSet = true) (ys : List (List Rat)) :
    run s ys = (s, ys.map (apply s.mean)) := by
  induction ys with
  | nil => simp [run]
  | cons y ys ih => simp [run, call_frozen s h, ih]

theorem run_cons (s : St) (x : List Rat) (xs : List (List Rat)) :
    run s (x :: xs) = ((run (call s x).1 xs).1, (call s x).2 :: (run (call s x).1 xs).2) := by
  simp [run]

end Center

/-! ### Scale -/
namespace Scale

theorem call_frozen (s : St) (h : s.paramsSet = true) (y : List Rat) :
    call s y = (s, apply s.mean s.var y) := by simp [call, h]

theorem call_init (x : List Rat) :
    call init x = (⟨true, mean? x, var? x⟩, apply (mean? x) (var? x) x) := by
  simp [call, init]

theorem run_frozen (s : St) (h : s.paramsSet = true) (ys : List (List Rat)) :
    run s ys = (s, ys.map (apply s.mean s.var)) := by
  induction ys with
  | nil => simp [run]
  | cons y ys ih => simp [run, call_frozen s h, ih]

theorem run_cons (s : St) (x : List Rat) (xs : List (List Rat)) :
    run s (x :: xs) = ((run (call s x).1 xs).1, (call s x).2 :: (run (call s x).1 xs).2) := by
  simp [run]

end Scale

theorem sum_map_pos (f : Rat → Rat) (x : List Rat) (h : ∀ v ∈ x, 0 ≤ f v) (a : Rat) (ha : a ∈ x)
    (hpos : 0 < f a) : 0 < sum (x.map f) := by
  induction x with
  | nil => simp at ha
  | cons b l ih =>
    simp only [List.map_cons, sum]
    have hb := h b (by simp)
    have hl := sum_map_nonneg f l (fun v hv => h v (by simp [hv]))
    rcases List.mem_cons.mp ha with rfl | hal
    · linarith
    · have := ih (fun v hv => h v (by simp [hv])) hal
      linarith

/-- population variance as a plain rational, for non-empty data -/
theorem var?_ne_nil {x : List Rat} (h : x ≠ []) :
    var? x = some (sum (x.map (fun v => (v - sum x / (x.length : Rat)) * (v - sum x / (x.length : Rat))))
                   / (x.length : Rat)) := by
  unfold var?
  rw [mean?_ne_nil h]
  simp only
  rw [mean?_ne_nil (by simpa using h)]
  simp

/-- not constant ⇒ variance > 0 -/
theorem var_pos {x : List Rat} {a b : Rat} (ha : a ∈ x) (hb : b ∈ x) (hab : a ≠ b) :
    0 < sum (x.map (fun v => (v - sum x / (x.length : Rat)) * (v - sum x / (x.length : Rat))))
          / (x.length : Rat) := by
  have hne : x ≠ [] := by intro h; simp [h] at ha
  have hn : (0 : Rat) < (x.length : Rat) := by
    have := length_cast_ne_zero hne
    have h0 : (0 : Rat) ≤ (x.length : Rat) := by positivity
    exact lt_of_le_of_ne h0 (Ne.symm this)
  apply div_pos _ hn
  set m := sum x / (x.length : Rat)
  have hsq : ∀ v ∈ x, 0 ≤ (v - m) * (v - m) := fun v _ => mul_self_nonneg _
  by_cases ham : a = m
  · have hbm : b ≠ m := fun h => hab (ham.trans h.symm)
    exact sum_map_pos _ x hsq b hb (mul_self_pos.mpr (sub_ne_zero.mpr hbm))
  · exact sum_map_pos _ x hsq a ha (mul_self_pos.mpr (sub_ne_zero.mpr ham))

/-- constant ⇒ variance = 0 -/
theorem var_const {x : List Rat} {c : Rat} (hne : x ≠ []) (h : ∀ v ∈ x, v = c) :
    sum x / (x.length : Rat) = c ∧ sum (x.map (fun v => (v - c) * (v - c))) = 0 := by
  have hs : sum x = (x.length : Rat) * c := by
    have : x = x.map (fun _ => c) := by
      conv_lhs => rw [← List.map_id x]
      exact List.map_congr_left (fun v hv => by simpa using h v hv)
    rw [this, sum_map_const]; simp
  have hn := length_cast_ne_zero hne
  have hm : sum x / (x.length : Rat) = c := by rw [hs]; field_simp
  refine ⟨hm, ?_⟩
  have : x.map (fun v => (v - c) * (v - c)) = x.map (fun _ => (0 : Rat)) :=
    List.map_congr_left (fun v hv => by rw [h v hv]; ring)
  rw [this, sum_map_const]; ring

end FormulaeModel.Transforms
