import FormulaeModel.Proofs.PermComp
import FormulaeModel.Proofs.RowsDesign
set_option linter.unusedSimpArgs false
set_option linter.unusedVariables false
/-
Helper lemmas for C08 (part 5): terms, group-specific terms and the lists of terms of a design,
trained on the row-permuted frame: same state (component states, kinds, groups), same labels, data
with its rows permuted.
-/
namespace FormulaeModel.Design
open FormulaeModel FormulaeModel.Spec.C06

theorem mapM_ok_of {α β : Type} (f g : α → M β) (k : β → β) (xs : List α) (ys : List β)
    (hxs : xs.mapM f = .ok ys) (hstep : ∀ x ∈ xs, ∀ y, f x = .ok y → g x = .ok (k y)) :
    xs.mapM g = .ok (ys.map k) := by
  induction xs generalizing ys with
  | nil => simp [pure, Except.pure] at hxs; subst hxs; simp [pure, Except.pure]
  | cons x xs ih =>
    rw [List.mapM_cons] at hxs
    simp only [bind_ok, pure_ok] at hxs
    obtain ⟨y, hy, ys', hys', rfl⟩ := hxs
    rw [List.mapM_cons, hstep x (by simp) y hy, ih ys' hys' (fun x' hx' => hstep x' (by simp [hx']))]
    rfl

/-- a component output with its rows permuted -/
def CompOut.perm (o : CompOut) (sigma : List Nat) : CompOut := ⟨o.st, selectRows o.value sigma, o.labels⟩
def TermOut.perm (o : TermOut) (sigma : List Nat) : TermOut := ⟨o.st, selectRows o.data sigma, o.labels⟩
def GroupOut.perm (o : GroupOut) (sigma : List Nat) : GroupOut := ⟨o.st, selectRows o.data sigma, o.labels⟩

section
variable (env : Env) (hwf : env.frame.wellFormed = true) (hn : env.namesScalar = true) (sigma : List Nat)
  (hp : IsPerm sigma env.frame.nrows)
include hwf hn hp

/-- **one term** trained on the permuted frame -/
theorem trainTerm_perm (table : List (String × Expr)) (spec : TermSpec) (forced isResponse : Bool)
    (out : TermOut) (hne : spec.comps ≠ [])
    (h : trainTerm env table spec forced isResponse = .ok out) :
    trainTerm (env.rows sigma) table spec forced isResponse = .ok (out.perm sigma) ∧
      out.data.length = env.frame.nrows := by
  unfold trainTerm at h ⊢
  simp only [bind_ok, pure_ok] at h ⊢
  obtain ⟨outs, houts, rfl⟩ := h
  have hlen := (mapM_ok_get _ _ _ houts).1
  have hne' : outs ≠ [] := by
    intro h0; subst h0
    exact hne (List.length_eq_zero_iff.1 hlen.symm)
  have hcomp : ∀ c ∈ spec.comps, ∀ o,
      (do trainComp env c.1 (← compExpr table c.1) forced isResponse c.2) = Except.ok o →
      (do trainComp (env.rows sigma) c.1 (← compExpr table c.1) forced isResponse c.2) =
          Except.ok (o.perm sigma) ∧ o.value.length = env.frame.nrows := by
    intro c hc o ho
    simp only [bind_ok] at ho ⊢
    obtain ⟨e, he, ho⟩ := ho
    obtain ⟨h1, h2⟩ := trainComp_perm env hwf hn sigma hp c.1 e forced isResponse c.2 o ho
    exact ⟨⟨e, he, h1⟩, h2⟩
  have hnew := mapM_ok_of _ (fun (c : String × Bool) => do
      trainComp (env.rows sigma) c.1 (← compExpr table c.1) forced isResponse c.2)
    (fun o => o.perm sigma) _ _ houts (fun c hc o ho => (hcomp c hc o ho).1)
  have hlens := mapM_forall _ (fun o => o.value.length = env.frame.nrows) _ _ houts
    (fun c hc o ho => (hcomp c hc o ho).2)
  refine ⟨⟨_, hnew, ?_⟩, reduceMatrices_length _ (by simpa using hne') _ (by simpa using hlens)⟩
  have hst : (outs.map (fun o => o.perm sigma)).map (·.st) = outs.map (·.st) := by
    simp [List.map_map, Function.comp_def, CompOut.perm]
  have hval : (outs.map (fun o => o.perm sigma)).map (·.value) = (outs.map (·.value)).map (selectRows · sigma) := by
    simp [List.map_map, Function.comp_def, CompOut.perm]
  have hlab : (outs.map (fun o => o.perm sigma)).mapM (fun (o : CompOut) => o.labels) =
      outs.mapM (fun (o : CompOut) => o.labels) := by
    rw [List.mapM_map]
    rfl
  have hne'' : outs.map (·.value) ≠ [] := by simpa using hne'
  simp only [TermOut.perm, hst, hval, hlab]
  rw [selectRows_reduceMatrices _ hne'' sigma]
  clear hnew hlens hst hval hlab hne'' hne' hlen houts hcomp
  rcases outs with _ | ⟨o, _ | ⟨o', os⟩⟩ <;> rfl

/-- **one group-specific term** `(expr | factor)` trained on the permuted frame: the same groups,
the same labels, the Khatri-Rao block with its rows permuted -/
theorem trainGroup_perm (table : List (String × Expr)) (spec : GroupSpec) (out : GroupOut)
    (hnf : spec.factor.comps ≠ []) (hne : ∀ ts, spec.expr = some ts → ts.comps ≠ [])
    (h : trainGroup env table spec = .ok out) :
    trainGroup (env.rows sigma) table spec = .ok (out.perm sigma) ∧
      out.data.length = env.frame.nrows := by
  have hnr : (env.rows sigma).frame.nrows = env.frame.nrows := by
    show (env.frame.rows sigma).nrows = _
    rw [frame_nrows_rows env.frame sigma hp.lt, hp.length]
  unfold trainGroup at h ⊢
  simp only [bind_ok] at h ⊢
  obtain ⟨f, hf, h⟩ := h
  obtain ⟨hf', hflen⟩ := trainTerm_perm env hwf hn sigma hp table _ true false f (by simpa using hnf) hf
  refine ⟨⟨_, hf', ?_⟩, ?_⟩
  · cases hse : spec.expr with
    | none =>
      simp only [hse, pure_bind, pure_ok] at h ⊢
      subst h
      simp only [GroupOut.perm, TermOut.perm, hnr, khatriRao, selectRows_interactionMatrix,
        selectRows_onesCol _ sigma hp.lt, hp.length]
    | some ts =>
      simp only [hse, bind_ok, pure_ok] at h ⊢
      obtain ⟨t, ht, _, rfl, rfl⟩ := h
      obtain ⟨ht', _⟩ := trainTerm_perm env hwf hn sigma hp table ts false false t (hne ts hse) ht
      refine ⟨_, ht', _, rfl, ?_⟩
      simp only [GroupOut.perm, TermOut.perm, khatriRao, selectRows_interactionMatrix]
  · cases hse : spec.expr with
    | none =>
      simp only [hse, pure_bind, pure_ok] at h
      subst h
      simp [khatriRao, interactionMatrix_length, hflen, onesCol]
    | some ts =>
      simp only [hse, bind_ok, pure_ok] at h
      obtain ⟨t, ht, _, rfl, rfl⟩ := h
      obtain ⟨_, htlen⟩ := trainTerm_perm env hwf hn sigma hp table ts false false t (hne ts hse) ht
      simp [khatriRao, interactionMatrix_length, hflen, htlen]

/-! ### the lists of terms of a design and the stacked matrices -/

def permPart (sigma : List Nat) : Option TermOut → Option TermOut
  | none => none
  | some o => some (o.perm sigma)

/-- the common terms (Intercept = `none`) trained on the permuted frame -/
theorem trainCommon_perm (table : List (String × Expr)) (specs : List (Option TermSpec))
    (parts : List (Option TermOut)) (hne : ∀ s, some s ∈ specs → s.comps ≠ [])
    (h : trainCommon env table specs = .ok parts) :
    trainCommon (env.rows sigma) table specs = .ok (parts.map (permPart sigma)) ∧
      commonMatrix env.frame.nrows (parts.map (permPart sigma)) =
        selectRows (commonMatrix env.frame.nrows parts) sigma := by
  unfold trainCommon at h ⊢
  have hstep : ∀ s ∈ specs, ∀ p,
      (match s with
        | none => (pure none : M (Option TermOut))
        | some s => do pure (some (← trainTerm env table s false false))) = .ok p →
      (match s with
        | none => (pure none : M (Option TermOut))
        | some s => do pure (some (← trainTerm (env.rows sigma) table s false false))) =
          .ok (permPart sigma p) ∧
      (partMatrix env.frame.nrows p).length = env.frame.nrows ∧
      partMatrix env.frame.nrows (permPart sigma p) = selectRows (partMatrix env.frame.nrows p) sigma := by
    intro s hs p hp'
    cases s with
    | none =>
      simp only [pure_ok] at hp'
      subst hp'
      simp only [permPart, partMatrix, pure_ok, selectRows_onesCol _ sigma hp.lt, hp.length, true_and]
      simp [onesCol]
    | some s =>
      simp only [bind_ok, pure_ok] at hp' ⊢
      obtain ⟨o, ho, rfl⟩ := hp'
      obtain ⟨h1, h2⟩ := trainTerm_perm env hwf hn sigma hp table s false false o (hne s hs) ho
      exact ⟨⟨_, h1, rfl⟩, h2, rfl⟩
  have hnew := mapM_ok_of _ (fun (s : Option TermSpec) => match s with
        | none => (pure none : M (Option TermOut))
        | some s => do pure (some (← trainTerm (env.rows sigma) table s false false)))
    (permPart sigma) _ _ h (fun s hs p hp' => (hstep s hs p hp').1)
  have hlens := mapM_forall _ (fun p => (partMatrix env.frame.nrows p).length = env.frame.nrows ∧
      partMatrix env.frame.nrows (permPart sigma p) = selectRows (partMatrix env.frame.nrows p) sigma) _ _ h
    (fun s hs p hp' => (hstep s hs p hp').2)
  refine ⟨hnew, ?_⟩
  simp only [commonMatrix]
  rw [selectRows_hstack _ _ sigma (by simpa using fun p hp' => (hlens p hp').1) hp.lt, List.map_map,
    List.map_map, hp.length]
  congr 1
  apply List.map_congr_left
  intro p hp'
  exact (hlens p hp').2

/-- the group-specific terms trained on the permuted frame -/
theorem trainGroups_perm (table : List (String × Expr)) (specs : List GroupSpec) (gs : List GroupOut)
    (hne : ∀ s ∈ specs, s.factor.comps ≠ [] ∧ ∀ ts, s.expr = some ts → ts.comps ≠ [])
    (h : trainGroups env table specs = .ok gs) :
    trainGroups (env.rows sigma) table specs = .ok (gs.map (·.perm sigma)) ∧
      groupMatrix env.frame.nrows (gs.map (·.perm sigma)) =
        selectRows (groupMatrix env.frame.nrows gs) sigma := by
  unfold trainGroups at h ⊢
  have hstep : ∀ s ∈ specs, ∀ g, trainGroup env table s = .ok g →
      trainGroup (env.rows sigma) table s = .ok (g.perm sigma) ∧ g.data.length = env.frame.nrows := by
    intro s hs g hg
    exact trainGroup_perm env hwf hn sigma hp table s g (hne s hs).1 (hne s hs).2 hg
  have hnew := mapM_ok_of _ (trainGroup (env.rows sigma) table) (fun g => g.perm sigma) _ _ h
    (fun s hs g hg => (hstep s hs g hg).1)
  have hlens := mapM_forall _ (fun (g : GroupOut) => g.data.length = env.frame.nrows) _ _ h
    (fun s hs g hg => (hstep s hs g hg).2)
  refine ⟨hnew, ?_⟩
  simp only [groupMatrix]
  rw [selectRows_hstack _ _ sigma (by simpa using hlens) hp.lt, List.map_map, List.map_map, hp.length]
  rfl

end

end FormulaeModel.Design
