import FormulaeModel.Proofs.RowsCall
set_option linter.unusedSimpArgs false
set_option linter.unusedSectionVars false
/-
Helper lemmas for C06 (part 3): the state-machine lemma of lazy evaluation.  Evaluating an
expression of the row-wise fragment on rows `is` of the training frame, with the transform state
remembered from training, gives rows `is` of the training value and leaves the state unchanged.
-/
namespace FormulaeModel.Design
open FormulaeModel

/-- callees outside the row-wise fragment: `binary`/`B` (D14: not stateful) -/
def excludedCallees : List String := ["binary", "B"]

/-- callees `LazyCall.eval` of the model does not route through `applyCallee` -/
def specialCallees : List String := ["binary", "B", "p", "prop", "proportion"]

mutual
/-- the row-wise fragment (syntactic part): no call of an excluded callee anywhere in the tree -/
def RowwiseOk : Expr → Bool
  | .grouping _ e _ => RowwiseOk e
  | .unary _ r => RowwiseOk r
  | .binary l _ r => RowwiseOk l && RowwiseOk r
  | .call c _ as _ =>
    RowwiseOkArgs as &&
    (match c with
     | .variable n => !(excludedCallees.contains n.lexeme)
     | _ => true)
  | .brace _ e _ => RowwiseOk e
  | .assign _ _ v => RowwiseOk v
  | _ => true
def RowwiseOkArgs : Args → Bool
  | .nil => true
  | .last e => RowwiseOk e
  | .more e _ rest => RowwiseOk e && RowwiseOkArgs rest
end

mutual
/-- the row-wise fragment (data part, D13): no `C/T/S` call node receives explicit `levels` or an
ordered categorical as data when the expression is evaluated on the training frame -/
def D13Free (env : Env) : Expr → Bool
  | .grouping _ e _ => D13Free env e
  | .unary _ r => D13Free env r
  | .binary l _ r => D13Free env l && D13Free env r
  | .call c _ as _ =>
    D13FreeArgs env as &&
    (match c with
     | .variable n =>
       (match evalArgs env as none 0 ⟨[], []⟩ with
        | .ok (a, _) => d13ArgsOk n.lexeme a
        | .error _ => true)
     | _ => true)
  | .brace _ e _ => D13Free env e
  | .assign _ _ v => D13Free env v
  | _ => true
def D13FreeArgs (env : Env) : Args → Bool
  | .nil => true
  | .last e => D13Free env e
  | .more e _ rest => D13Free env e && D13FreeArgs env rest
end

theorem finishCall_eq (callee : String) (h : specialCallees.contains callee = false) (a : CallArgs)
    (own : Option Rat) : finishCall callee a own = applyCallee callee a own := by
  simp only [specialCallees, List.contains_cons, List.contains_nil, Bool.or_false, Bool.or_eq_false_iff,
    beq_eq_false_iff_ne, ne_eq] at h
  unfold finishCall
  split <;> simp_all

@[simp] theorem TS.child_none (i : Nat) : TS.child none i = none := rfl
@[simp] theorem TS.child_node (o : Option Rat) (cs : List TS) (i : Nat) :
    TS.child (some (.node o cs)) i = cs[i]? := rfl
@[simp] theorem TS.own_none : TS.own none = none := rfl
@[simp] theorem TS.own_node (o : Option Rat) (cs : List TS) : TS.own (some (.node o cs)) = o := rfl

theorem finishCall_prop (callee : String) (h : callee = "p" ∨ callee = "prop" ∨ callee = "proportion")
    (a : CallArgs) (own : Option Rat) :
    finishCall callee a own =
      (proportionFn (a.get 0 "successes") (a.get 1 "trials") >>= fun v => pure (v, own)) := by
  rcases h with rfl | rfl | rfl <;> rfl

/-- `LazyCall.eval` after the arguments: every callee except `binary`/`B` is row-wise once its
own state is the one left by the first call -/
theorem finishCall_rows (callee : String) (a : CallArgs) (n : Nat) (is : List Nat) (v : Val)
    (own' : Option Rat) (hex : excludedCallees.contains callee = false) (hg : a.good n)
    (hd : d13ArgsOk callee a = true) (his : ∀ i ∈ is, i < n)
    (h : finishCall callee a none = .ok (v, own')) :
    v.good n ∧ finishCall callee (a.rows is) own' = .ok (v.rows is, own') := by
  by_cases hp : callee = "p" ∨ callee = "prop" ∨ callee = "proportion"
  · rw [finishCall_prop callee hp] at h ⊢
    simp only [bind_ok, pure_ok, Prod.mk.injEq] at h ⊢
    obtain ⟨w, hw, rfl, rfl⟩ := h
    obtain ⟨g, hr⟩ := proportionFn_rows _ _ _ n is (CallArgs.get_good a n hg 0 "successes")
      (CallArgs.get_good a n hg 1 "trials") his hw
    rw [CallArgs.get_rows, CallArgs.get_rows]
    exact ⟨g, _, hr, rfl, trivial⟩
  · have hsp : specialCallees.contains callee = false := by
      simp only [excludedCallees, specialCallees, List.contains_cons, List.contains_nil, Bool.or_false,
        Bool.or_eq_false_iff, beq_eq_false_iff_ne, ne_eq, not_or] at hex hp ⊢
      exact ⟨hex.1, hex.2, hp.1, hp.2.1, hp.2.2⟩
    rw [finishCall_eq _ hsp] at h ⊢
    exact applyCallee_rows callee a n is v own' hg hd h

theorem posOnly_ok (r : M ArgR) (v : Val) (t : TS) :
    posOnly r = .ok (v, t) ↔ r = .ok (none, v, t) := by
  unfold posOnly
  cases r with
  | error e => simp [bind, Except.bind]
  | ok x =>
    obtain ⟨kw, v', t'⟩ := x
    cases kw <;> simp [bind, Except.bind, pure, Except.pure]

theorem CallArgs.good_snoc_pos (n : Nat) (acc : CallArgs) (x : Val) (h : acc.good n) (hx : x.good n) :
    CallArgs.good n ⟨acc.pos ++ [x], acc.kw⟩ := by
  refine ⟨?_, h.2⟩
  intro v hv
  simp only [List.mem_append, List.mem_singleton] at hv
  rcases hv with hv | rfl
  · exact h.1 v hv
  · exact hx

theorem CallArgs.good_snoc_kw (n : Nat) (acc : CallArgs) (k : String) (x : Val) (h : acc.good n)
    (hx : x.good n) : CallArgs.good n ⟨acc.pos, acc.kw ++ [(k, x)]⟩ := by
  refine ⟨h.1, ?_⟩
  intro p hp
  simp only [List.mem_append, List.mem_singleton] at hp
  rcases hp with hp | rfl
  · exact h.2 p hp
  · exact hx

section
variable (env : Env) (hwf : env.frame.wellFormed = true) (hn : env.namesScalar = true) (is : List Nat)
  (his : ∀ i ∈ is, i < env.frame.nrows)
include hwf hn his

mutual
theorem evalArg_rows : ∀ (e : Expr), RowwiseOk e = true → D13Free env e = true →
    ∀ (kw : Option String) (v : Val) (t : TS), evalArg env e none = .ok (kw, v, t) →
      v.good env.frame.nrows ∧ evalArg (env.rows is) e (some t) = .ok (kw, v.rows is, t)
  | .grouping lp e rp, hok, hd, kw, v, t, h => by
    simp only [RowwiseOk, D13Free] at hok hd
    simp only [evalArg, bind_ok, pure_ok, Prod.mk.injEq] at h ⊢
    obtain ⟨⟨v', t'⟩, h1, rfl, rfl, rfl⟩ := h
    rw [posOnly_ok] at h1
    obtain ⟨g, h2⟩ := evalArg_rows e hok hd _ _ _ h1
    exact ⟨g, ⟨(v'.rows is, t'), (posOnly_ok _ _ _).2 h2, rfl, rfl, rfl⟩⟩
  | .variable n, hok, hd, kw, v, t, h => by
    simp only [evalArg, bind_ok, pure_ok, Prod.mk.injEq] at h ⊢
    obtain ⟨v', h1, rfl, rfl, rfl⟩ := h
    exact ⟨lookupName_good env hwf hn _ _ h1, ⟨v'.rows is, lookupName_rows env hn is _ _ h1, rfl, rfl, rfl⟩⟩
  | .subset n _ _ _, hok, hd, kw, v, t, h => by
    simp only [evalArg, bind_ok, pure_ok, Prod.mk.injEq] at h ⊢
    obtain ⟨v', h1, rfl, rfl, rfl⟩ := h
    exact ⟨lookupName_good env hwf hn _ _ h1, ⟨v'.rows is, lookupName_rows env hn is _ _ h1, rfl, rfl, rfl⟩⟩
  | .quoted q, hok, hd, kw, v, t, h => by
    simp only [evalArg, bind_ok, pure_ok, Prod.mk.injEq] at h ⊢
    obtain ⟨v', h1, rfl, rfl, rfl⟩ := h
    exact ⟨lookupName_good env hwf hn _ _ h1, ⟨v'.rows is, lookupName_rows env hn is _ _ h1, rfl, rfl, rfl⟩⟩
  | .literal q, hok, hd, kw, v, t, h => by
    simp only [evalArg] at h ⊢
    split at h
    · split at h
      · simp only [pure_ok, Prod.mk.injEq] at h
        obtain ⟨rfl, rfl, rfl⟩ := h
        simp [*, Val.good, Val.rows, pure, Except.pure]
      · split at h
        · simp only [pure_ok, Prod.mk.injEq] at h
          obtain ⟨rfl, rfl, rfl⟩ := h
          simp [*, Val.good, Val.rows, pure, Except.pure]
        · simp at h
    · simp only [pure_ok, Prod.mk.injEq] at h
      obtain ⟨rfl, rfl, rfl⟩ := h
      simp [*, Val.good, Val.rows, pure, Except.pure]
    · split at h
      · simp only [pure_ok, Prod.mk.injEq] at h
        obtain ⟨rfl, rfl, rfl⟩ := h
        simp [*, Val.good, Val.rows, pure, Except.pure]
      · split at h
        · simp only [pure_ok, Prod.mk.injEq] at h
          obtain ⟨rfl, rfl, rfl⟩ := h
          simp [*, Val.good, Val.rows, pure, Except.pure]
        · simp only [pure_ok, Prod.mk.injEq] at h
          obtain ⟨rfl, rfl, rfl⟩ := h
          simp [*, Val.good, Val.rows, pure, Except.pure]
  | .unary op r, hok, hd, kw, v, t, h => by
    simp only [RowwiseOk, D13Free] at hok hd
    simp only [evalArg, bind_ok] at h ⊢
    obtain ⟨⟨v', t'⟩, h1, h3⟩ := h
    rw [TS.child_none, posOnly_ok] at h1
    obtain ⟨g, h2⟩ := evalArg_rows r hok hd _ _ _ h1
    simp only at h3
    split at h3
    · simp only [bind_ok, pure_ok, Prod.mk.injEq] at h3
      obtain ⟨w, hw, rfl, rfl, rfl⟩ := h3
      refine ⟨vecOp_good _ _ _ _ _ (by simp [Val.good]) g hw, ⟨(v'.rows is, t'), ?_, ?_⟩⟩
      · simp only [TS.child_node, List.getElem?_cons_zero]
        exact (posOnly_ok _ _ _).2 h2
      · simp only [*, if_true, bind_ok, pure_ok, Prod.mk.injEq]
        refine ⟨_, vecOp_rows _ _ _ _ is hw, ?_⟩
        simp
    · simp only [pure_ok, Prod.mk.injEq] at h3
      obtain ⟨rfl, rfl, rfl⟩ := h3
      refine ⟨g, ⟨(v'.rows is, t'), ?_, ?_⟩⟩
      · simp only [TS.child_node, List.getElem?_cons_zero]
        exact (posOnly_ok _ _ _).2 h2
      · simp [*, pure, Except.pure]
  | .binary l op r, hok, hd, kw, v, t, h => by
    simp only [RowwiseOk, D13Free, Bool.and_eq_true] at hok hd
    simp only [evalArg, bind_ok] at h ⊢
    obtain ⟨⟨a, sa⟩, h1, ⟨b, sb⟩, h1', h3⟩ := h
    rw [TS.child_none, posOnly_ok] at h1 h1'
    obtain ⟨ga, h2⟩ := evalArg_rows l hok.1 hd.1 _ _ _ h1
    obtain ⟨gb, h2'⟩ := evalArg_rows r hok.2 hd.2 _ _ _ h1'
    simp only at h3
    split at h3
    ·
      simp only [bind_ok, pure_ok, Prod.mk.injEq] at h3
      obtain ⟨w, hw, rfl, rfl, rfl⟩ := h3
      refine ⟨vecOp_good _ _ _ _ _ ga gb hw, ⟨(a.rows is, sa), by simpa using (posOnly_ok _ _ _).2 h2,
        (b.rows is, sb), by simpa using (posOnly_ok _ _ _).2 h2', ?_⟩⟩
      simp only [*, bind_ok, pure_ok]
      exact ⟨_, vecOp_rows _ _ _ _ is hw, by simp⟩
    ·
      simp only [bind_ok, pure_ok, Prod.mk.injEq] at h3
      obtain ⟨w, hw, rfl, rfl, rfl⟩ := h3
      refine ⟨vecOp_good _ _ _ _ _ ga gb hw, ⟨(a.rows is, sa), by simpa using (posOnly_ok _ _ _).2 h2,
        (b.rows is, sb), by simpa using (posOnly_ok _ _ _).2 h2', ?_⟩⟩
      simp only [*, bind_ok, pure_ok]
      exact ⟨_, vecOp_rows _ _ _ _ is hw, by simp⟩
    ·
      simp only [bind_ok, pure_ok, Prod.mk.injEq] at h3
      obtain ⟨w, hw, rfl, rfl, rfl⟩ := h3
      refine ⟨vecOp_good _ _ _ _ _ ga gb hw, ⟨(a.rows is, sa), by simpa using (posOnly_ok _ _ _).2 h2,
        (b.rows is, sb), by simpa using (posOnly_ok _ _ _).2 h2', ?_⟩⟩
      simp only [*, bind_ok, pure_ok]
      exact ⟨_, vecOp_rows _ _ _ _ is hw, by simp⟩
    · split at h3
      · rename_i q isInt
        split at h3
        · simp at h3
        · simp only [bind_ok, pure_ok, Prod.mk.injEq] at h3
          obtain ⟨w, hw, rfl, rfl, rfl⟩ := h3
          refine ⟨vecOp_good _ _ _ _ _ ga (by simp [Val.good]) hw, ⟨(a.rows is, sa),
            by simpa using (posOnly_ok _ _ _).2 h2,
            (Val.num q isInt, sb), by simpa [Val.rows] using (posOnly_ok _ _ _).2 h2', ?_⟩⟩
          simp only [*, bind_ok, pure_ok, Bool.false_eq_true, if_false]
          exact ⟨_, vecOp_rows _ _ _ _ is hw, by simp⟩
      · simp at h3
    · simp at h3
  | .call c lp as rp, hok, hd, kw, v, t, h => by
    cases c
    case «variable» n =>
      simp only [RowwiseOk, D13Free, Bool.and_eq_true, Bool.not_eq_true'] at hok hd
      simp only [evalArg, bind_ok] at h ⊢
      obtain ⟨⟨args, sts⟩, h1, ⟨v', own⟩, h3, h4⟩ := h
      simp only [pure_ok, Prod.mk.injEq] at h4
      obtain ⟨rfl, rfl, rfl⟩ := h4
      simp only [TS.child_none, TS.own_none] at h1 h3
      have hd2 := hd.2
      simp only [h1] at hd2
      obtain ⟨gargs, hrec⟩ := evalArgs_rows as hok.1 hd.1 0 ⟨[], []⟩ args sts (by simp [CallArgs.good]) h1
      obtain ⟨gv, hfin⟩ := finishCall_rows _ args _ is v' own hok.2 gargs hd2 his h3
      refine ⟨gv, ⟨(args.rows is, sts), hrec own sts rfl, ⟨(v'.rows is, own), ?_, by simp [pure, Except.pure]⟩⟩⟩
      rw [TS.own_node]
      exact hfin
    all_goals simp [evalArg] at h
  | .brace lb e rb, hok, hd, kw, v, t, h => by
    simp only [RowwiseOk, D13Free] at hok hd
    simp only [evalArg, bind_ok, pure_ok, Prod.mk.injEq] at h ⊢
    obtain ⟨⟨v', t'⟩, h1, rfl, rfl, rfl⟩ := h
    rw [TS.child_none, posOnly_ok] at h1
    obtain ⟨g, h2⟩ := evalArg_rows e hok hd _ _ _ h1
    refine ⟨g, ⟨(v'.rows is, t'), ?_, rfl, rfl, rfl⟩⟩
    simp only [TS.child_node, List.getElem?_cons_zero]
    exact (posOnly_ok _ _ _).2 h2
  | .assign n eq x, hok, hd, kw, v, t, h => by
    simp only [RowwiseOk, D13Free] at hok hd
    simp only [evalArg, bind_ok] at h ⊢
    obtain ⟨⟨v', t'⟩, h1, h3⟩ := h
    rw [posOnly_ok] at h1
    obtain ⟨g, h2⟩ := evalArg_rows x hok hd _ _ _ h1
    split at h3
    · simp only [pure_ok, Prod.mk.injEq] at h3
      obtain ⟨rfl, rfl, rfl⟩ := h3
      exact ⟨g, ⟨(v'.rows is, t'), (posOnly_ok _ _ _).2 h2, rfl⟩⟩
    · simp at h3
theorem evalArgs_rows : ∀ (as : Args), RowwiseOkArgs as = true → D13FreeArgs env as = true →
    ∀ (i : Nat) (acc a : CallArgs) (sts : List TS), acc.good env.frame.nrows →
      evalArgs env as none i acc = .ok (a, sts) →
      a.good env.frame.nrows ∧ ∀ (o : Option Rat) (cs : List TS), cs.drop i = sts →
        evalArgs (env.rows is) as (some (.node o cs)) i (acc.rows is) = .ok (a.rows is, sts)
  | .nil, hok, hd, i, acc, a, sts, hacc, h => by
    simp only [evalArgs, pure_ok, Prod.mk.injEq] at h
    obtain ⟨rfl, rfl⟩ := h
    refine ⟨hacc, ?_⟩
    intro o cs hcs
    simp [evalArgs, pure, Except.pure]
  | .last e, hok, hd, i, acc, a, sts, hacc, h => by
    simp only [RowwiseOkArgs, D13FreeArgs] at hok hd
    simp only [evalArgs, bind_ok, TS.child_none] at h
    obtain ⟨⟨kw, x, st⟩, h1, h3⟩ := h
    obtain ⟨gx, h2⟩ := evalArg_rows e hok hd _ _ _ h1
    have hchild : ∀ (o : Option Rat) (cs : List TS), cs.drop i = sts → sts = [st] →
        evalArg (env.rows is) e (TS.child (some (.node o cs)) i) = .ok (kw, x.rows is, st) := by
      intro o cs hcs hst
      subst hst
      have : cs[i]? = some st := by
        have := congrArg List.head? hcs
        simpa [List.head?_drop] using this
      rw [TS.child_node, this]
      exact h2
    cases kw with
    | some k =>
      simp only [pure_ok, Prod.mk.injEq] at h3
      obtain ⟨rfl, rfl⟩ := h3
      refine ⟨CallArgs.good_snoc_kw _ _ _ _ hacc gx, ?_⟩
      intro o cs hcs
      simp only [evalArgs, bind_ok]
      exact ⟨_, hchild o cs hcs rfl, by simp [CallArgs.rows, pure, Except.pure]⟩
    | none =>
      simp only [pure_ok, Prod.mk.injEq] at h3
      obtain ⟨rfl, rfl⟩ := h3
      refine ⟨CallArgs.good_snoc_pos _ _ _ hacc gx, ?_⟩
      intro o cs hcs
      simp only [evalArgs, bind_ok]
      exact ⟨_, hchild o cs hcs rfl, by simp [CallArgs.rows, pure, Except.pure]⟩
  | .more e c rest, hok, hd, i, acc, a, sts, hacc, h => by
    simp only [RowwiseOkArgs, D13FreeArgs, Bool.and_eq_true] at hok hd
    simp only [evalArgs, bind_ok, TS.child_none] at h
    obtain ⟨⟨kw, x, st⟩, h1, h3⟩ := h
    obtain ⟨gx, h2⟩ := evalArg_rows e hok.1 hd.1 _ _ _ h1
    have hchild : ∀ (o : Option Rat) (cs : List TS) (sts' : List TS), cs.drop i = st :: sts' →
        evalArg (env.rows is) e (TS.child (some (.node o cs)) i) = .ok (kw, x.rows is, st) ∧
        cs.drop (i + 1) = sts' := by
      intro o cs sts' hcs
      have h0 : cs[i]? = some st := by
        have := congrArg List.head? hcs
        simpa [List.head?_drop] using this
      refine ⟨by rw [TS.child_node, h0]; exact h2, ?_⟩
      have := congrArg List.tail hcs
      simpa [List.tail_drop] using this
    cases kw with
    | some k =>
      simp only [bind_ok, pure_ok, Prod.mk.injEq] at h3
      obtain ⟨⟨a', sts'⟩, h4, rfl, rfl⟩ := h3
      obtain ⟨ga, hrec⟩ := evalArgs_rows rest hok.2 hd.2 (i + 1) _ a' sts'
        (CallArgs.good_snoc_kw _ _ _ _ hacc gx) h4
      refine ⟨ga, ?_⟩
      intro o cs hcs
      obtain ⟨hc1, hc2⟩ := hchild o cs sts' hcs
      simp only [evalArgs, bind_ok]
      refine ⟨_, hc1, ?_⟩
      simp only [bind_ok, pure_ok, Prod.mk.injEq]
      have := hrec o cs hc2
      simp only [CallArgs.rows, List.map_append, List.map_cons, List.map_nil] at this ⊢
      exact ⟨_, this, rfl, rfl⟩
    | none =>
      simp only [bind_ok, pure_ok, Prod.mk.injEq] at h3
      obtain ⟨⟨a', sts'⟩, h4, rfl, rfl⟩ := h3
      obtain ⟨ga, hrec⟩ := evalArgs_rows rest hok.2 hd.2 (i + 1) _ a' sts'
        (CallArgs.good_snoc_pos _ _ _ hacc gx) h4
      refine ⟨ga, ?_⟩
      intro o cs hcs
      obtain ⟨hc1, hc2⟩ := hchild o cs sts' hcs
      simp only [evalArgs, bind_ok]
      refine ⟨_, hc1, ?_⟩
      simp only [bind_ok, pure_ok, Prod.mk.injEq]
      have := hrec o cs hc2
      simp only [CallArgs.rows, List.map_append, List.map_cons, List.map_nil] at this ⊢
      exact ⟨_, this, rfl, rfl⟩
end
end

/-! ### the transform state is frozen after training -/

section
variable (env env' : Env)

mutual
/-- evaluating on *any* later frame with the state remembered from training returns that state -/
theorem evalArg_frozen : ∀ (e : Expr) (kw kw' : Option String) (v v' : Val) (t t' : TS),
    evalArg env e none = .ok (kw, v, t) → evalArg env' e (some t) = .ok (kw', v', t') → t' = t
  | .grouping lp e rp, kw, kw', v, v', t, t', h, h' => by
    simp only [evalArg, bind_ok, pure_ok, Prod.mk.injEq] at h h'
    obtain ⟨⟨v1, t1⟩, h1, rfl, rfl, rfl⟩ := h
    obtain ⟨⟨v2, t2⟩, h2, rfl, rfl, rfl⟩ := h'
    rw [posOnly_ok] at h1 h2
    exact evalArg_frozen e _ _ _ _ _ _ h1 h2
  | .variable n, kw, kw', v, v', t, t', h, h' => by
    simp only [evalArg, bind_ok, pure_ok, Prod.mk.injEq] at h h'
    obtain ⟨_, _, _, _, rfl⟩ := h
    obtain ⟨_, _, _, _, rfl⟩ := h'
    rfl
  | .subset n _ _ _, kw, kw', v, v', t, t', h, h' => by
    simp only [evalArg, bind_ok, pure_ok, Prod.mk.injEq] at h h'
    obtain ⟨_, _, _, _, rfl⟩ := h
    obtain ⟨_, _, _, _, rfl⟩ := h'
    rfl
  | .quoted q, kw, kw', v, v', t, t', h, h' => by
    simp only [evalArg, bind_ok, pure_ok, Prod.mk.injEq] at h h'
    obtain ⟨_, _, _, _, rfl⟩ := h
    obtain ⟨_, _, _, _, rfl⟩ := h'
    rfl
  | .literal q, kw, kw', v, v', t, t', h, h' => by
    have leaf : ∀ (ts : Option TS) (kw : Option String) (v : Val) (t : TS),
        evalArg env (.literal q) ts = .ok (kw, v, t) → t = .leaf := by
      intro ts kw v t h
      simp only [evalArg] at h
      repeat' split at h
      all_goals first | (simp at h; done) | (simp only [pure_ok, Prod.mk.injEq] at h; exact h.2.2.symm)
    have leaf' : ∀ (ts : Option TS) (kw : Option String) (v : Val) (t : TS),
        evalArg env' (.literal q) ts = .ok (kw, v, t) → t = .leaf := by
      intro ts kw v t h
      simp only [evalArg] at h
      repeat' split at h
      all_goals first | (simp at h; done) | (simp only [pure_ok, Prod.mk.injEq] at h; exact h.2.2.symm)
    rw [leaf _ _ _ _ h, leaf' _ _ _ _ h']
  | .unary op r, kw, kw', v, v', t, t', h, h' => by
    simp only [evalArg, bind_ok] at h h'
    obtain ⟨⟨v1, t1⟩, h1, h3⟩ := h
    obtain ⟨⟨v2, t2⟩, h2, h4⟩ := h'
    rw [TS.child_none, posOnly_ok] at h1
    have ht : t = .node none [t1] := by
      simp only at h3
      split at h3
      · simp only [bind_ok, pure_ok, Prod.mk.injEq] at h3
        obtain ⟨_, _, _, _, rfl⟩ := h3; rfl
      · simp only [pure_ok, Prod.mk.injEq] at h3
        exact h3.2.2.symm
    subst ht
    rw [TS.child_node, List.getElem?_cons_zero, posOnly_ok] at h2
    have := evalArg_frozen r _ _ _ _ _ _ h1 h2
    subst this
    simp only at h4
    split at h4
    · simp only [bind_ok, pure_ok, Prod.mk.injEq] at h4
      obtain ⟨_, _, _, _, rfl⟩ := h4; rfl
    · simp only [pure_ok, Prod.mk.injEq] at h4
      exact h4.2.2.symm
  | .binary l op r, kw, kw', v, v', t, t', h, h' => by
    have shape : ∀ (env : Env) (ts : Option TS) (kw : Option String) (v : Val) (t : TS),
        evalArg env (.binary l op r) ts = .ok (kw, v, t) →
        ∃ a sa b sb, evalArg env l (TS.child ts 0) = .ok (none, a, sa) ∧
          evalArg env r (TS.child ts 1) = .ok (none, b, sb) ∧ t = .node none [sa, sb] := by
      intro env ts kw v t h
      simp only [evalArg, bind_ok] at h
      obtain ⟨⟨a, sa⟩, h1, ⟨b, sb⟩, h2, h3⟩ := h
      rw [posOnly_ok] at h1 h2
      refine ⟨a, sa, b, sb, h1, h2, ?_⟩
      simp only at h3
      repeat' split at h3
      all_goals first | (simp at h3; done) |
        (simp only [bind_ok, pure_ok, Prod.mk.injEq] at h3; obtain ⟨_, _, _, _, rfl⟩ := h3; rfl)
    obtain ⟨a, sa, b, sb, h1, h2, rfl⟩ := shape env _ _ _ _ h
    obtain ⟨a', sa', b', sb', h1', h2', rfl⟩ := shape env' _ _ _ _ h'
    simp only [TS.child_none, TS.child_node, List.getElem?_cons_zero, List.getElem?_cons_succ] at h1 h2 h1' h2'
    rw [evalArg_frozen l _ _ _ _ _ _ h1 h1', evalArg_frozen r _ _ _ _ _ _ h2 h2']
  | .call c lp as rp, kw, kw', v, v', t, t', h, h' => by
    cases c
    case «variable» n =>
      simp only [evalArg, bind_ok] at h h'
      obtain ⟨⟨args, sts⟩, h1, ⟨v1, own⟩, h3, h4⟩ := h
      simp only [pure_ok, Prod.mk.injEq] at h4
      obtain ⟨rfl, rfl, rfl⟩ := h4
      obtain ⟨⟨args', sts'⟩, h1', ⟨v2, own'⟩, h3', h4'⟩ := h'
      simp only [pure_ok, Prod.mk.injEq] at h4'
      obtain ⟨rfl, rfl, rfl⟩ := h4'
      simp only [TS.own_none, TS.own_node] at h3 h3'
      rw [evalArgs_frozen as 0 _ _ _ _ _ _ own sts h1 rfl h1', finishCall_frozen _ _ _ _ _ _ _ h3 h3']
    all_goals simp [evalArg] at h
  | .brace lb e rb, kw, kw', v, v', t, t', h, h' => by
    simp only [evalArg, bind_ok, pure_ok, Prod.mk.injEq] at h h'
    obtain ⟨⟨v1, t1⟩, h1, rfl, rfl, rfl⟩ := h
    obtain ⟨⟨v2, t2⟩, h2, rfl, rfl, rfl⟩ := h'
    rw [TS.child_none, posOnly_ok] at h1
    rw [TS.child_node, List.getElem?_cons_zero, posOnly_ok] at h2
    rw [evalArg_frozen e _ _ _ _ _ _ h1 h2]
  | .assign n eq x, kw, kw', v, v', t, t', h, h' => by
    simp only [evalArg, bind_ok] at h h'
    obtain ⟨⟨v1, t1⟩, h1, h3⟩ := h
    obtain ⟨⟨v2, t2⟩, h2, h4⟩ := h'
    rw [posOnly_ok] at h1 h2
    split at h3
    · simp only [pure_ok, Prod.mk.injEq] at h3 h4
      obtain ⟨rfl, rfl, rfl⟩ := h3
      obtain ⟨rfl, rfl, rfl⟩ := h4
      exact evalArg_frozen x _ _ _ _ _ _ h1 h2
    · simp at h3
theorem evalArgs_frozen : ∀ (as : Args) (i : Nat) (acc acc' a a' : CallArgs) (sts sts' : List TS)
    (o : Option Rat) (cs : List TS),
    evalArgs env as none i acc = .ok (a, sts) → cs.drop i = sts →
    evalArgs env' as (some (.node o cs)) i acc' = .ok (a', sts') → sts' = sts
  | .nil, i, acc, acc', a, a', sts, sts', o, cs, h, hcs, h' => by
    simp only [evalArgs, pure_ok, Prod.mk.injEq] at h h'
    rw [← h.2, ← h'.2]
  | .last e, i, acc, acc', a, a', sts, sts', o, cs, h, hcs, h' => by
    simp only [evalArgs, bind_ok, TS.child_none, TS.child_node] at h h'
    obtain ⟨⟨kw, x, st⟩, h1, h3⟩ := h
    obtain ⟨⟨kw', x', st'⟩, h1', h3'⟩ := h'
    have hsts : sts = [st] := by
      cases kw <;> (simp only [pure_ok, Prod.mk.injEq] at h3; exact h3.2.symm)
    have hsts' : sts' = [st'] := by
      cases kw' <;> (simp only [pure_ok, Prod.mk.injEq] at h3'; exact h3'.2.symm)
    subst hsts hsts'
    have h0 : cs[i]? = some st := by
      have := congrArg List.head? hcs
      simpa [List.head?_drop] using this
    rw [h0] at h1'
    rw [evalArg_frozen e _ _ _ _ _ _ h1 h1']
  | .more e c rest, i, acc, acc', a, a', sts, sts', o, cs, h, hcs, h' => by
    simp only [evalArgs, bind_ok, TS.child_none, TS.child_node] at h h'
    obtain ⟨⟨kw, x, st⟩, h1, h3⟩ := h
    obtain ⟨⟨kw', x', st'⟩, h1', h3'⟩ := h'
    have hsts : ∃ acc1 a1 sts1, evalArgs env rest none (i + 1) acc1 = .ok (a1, sts1) ∧ sts = st :: sts1 := by
      cases kw <;>
        (simp only [bind_ok, pure_ok, Prod.mk.injEq] at h3
         obtain ⟨⟨a1, sts1⟩, h4, _, rfl⟩ := h3
         exact ⟨_, a1, sts1, h4, rfl⟩)
    have hsts' : ∃ acc1 a1 sts1, evalArgs env' rest (some (.node o cs)) (i + 1) acc1 = .ok (a1, sts1) ∧
        sts' = st' :: sts1 := by
      cases kw' <;>
        (simp only [bind_ok, pure_ok, Prod.mk.injEq] at h3'
         obtain ⟨⟨a1, sts1⟩, h4, _, rfl⟩ := h3'
         exact ⟨_, a1, sts1, h4, rfl⟩)
    obtain ⟨acc1, a1, sts1, h4, rfl⟩ := hsts
    obtain ⟨acc1', a1', sts1', h4', rfl⟩ := hsts'
    have h0 : cs[i]? = some st := by
      have := congrArg List.head? hcs
      simpa [List.head?_drop] using this
    have h0' : cs.drop (i + 1) = sts1 := by
      have := congrArg List.tail hcs
      simpa [List.tail_drop] using this
    rw [h0] at h1'
    rw [evalArg_frozen e _ _ _ _ _ _ h1 h1', evalArgs_frozen rest (i + 1) _ _ _ _ _ _ o cs h4 h0' h4']
end
end

end FormulaeModel.Design
