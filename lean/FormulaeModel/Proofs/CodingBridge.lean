import FormulaeModel.Proofs.Indicator
import FormulaeModel.Model.Coding
/-
The two models of the contrast codings are one function.

`Model/Coding.lean` (property C13: the code of categorical.py line by line, `np.eye`, `take`/`drop`
splicing, integer omit index) and the compact coding inside `Model/Design.lean` (used by the
evaluation model of C04-C06, C08, C10, C15-C17: rows written as a function of the row number) were
written independently and each is tied to the code by its own correspondence.  Here they are
proved to return the same matrix, the same labels and an error in the same cases, for both
encodings, both `spans_intercept` values, every reference / omitted level and every non-empty
list of string levels.  (For an empty level list categorical.py raises from `np.eye(-1)`; the
evaluation model never codes an empty level list — a categorical column of a frame with at least
one row has a level — and returns an empty matrix there, see `code_agree_nil`.)
-/
namespace FormulaeModel.Bridge
open FormulaeModel

/-- the same encoding in the evaluation model's vocabulary -/
def toDesign : Coding.Contrast → Design.Contrast
  | .treatment r => .treatment (r.map Level.s)
  | .sum o => .sum (o.map Level.s)

/-- what is compared: matrix rows and column labels; any exception is `none` -/
def viewD : Design.M Design.ContrastMatrix → Option (List (List Int) × List String)
  | .ok cm => some (cm.rows, cm.labels)
  | .error _ => none

def viewC : Except Coding.Err Coding.ContrastMatrix → Option (List (List Int) × List String)
  | .ok cm => some (cm.matrix, cm.labels)
  | .error _ => none

theorem eye_eq_unitRows (n : Nat) : Coding.eye n = (List.range n).map (Design.unitRow n) := by
  simp only [Coding.eye]
  apply List.map_congr_left
  intro i _
  apply List.map_congr_left
  intro j _
  by_cases h : i = j
  · simp [h]
  · have h' : ¬ j = i := fun e => h e.symm
    simp [h, h']

/-- the row-by-row description equals the splice `eye[:r] ++ [z] ++ eye[r:]` -/
theorem splice_eq (n r : Nat) (hr : r < n) (z : List Int) :
    (List.range n).map (fun i =>
      if i < r then Design.unitRow (n - 1) i else if i == r then z
      else Design.unitRow (n - 1) (i - 1))
    = (Coding.eye (n - 1)).take r ++ [z] ++ (Coding.eye (n - 1)).drop r := by
  rw [eye_eq_unitRows]
  apply List.ext_getElem?
  intro i
  simp only [List.getElem?_append, List.getElem?_take, List.getElem?_drop, List.getElem?_map,
    List.length_take, List.length_map, List.length_range, List.getElem?_cons]
  grind

/-- `levels.index(x)` in the two vocabularies -/
theorem indexOf?_map_s (x : String) (levels : List String) :
    Design.indexOf? (Level.s x) (levels.map Level.s) =
      if x ∈ levels then some (levels.idxOf x) else none := by
  have hfi : (levels.map Level.s).findIdx (· == Level.s x) = levels.idxOf x := by
    rw [List.findIdx_map]
    simp only [List.idxOf]
    congr 1
    funext y
    cases hyx : (y == x) <;> simp_all
  simp only [Design.indexOf?, hfi, List.length_map]
  by_cases h : x ∈ levels
  · simp [h, List.idxOf_lt_length_iff.mpr h]
  · have : ¬ levels.idxOf x < levels.length := fun hl => h (List.idxOf_lt_length_iff.mp hl)
    simp [h, this]

theorem labels_full (levels : List String) : (levels.map Level.s).map Level.label = levels := by
  rw [List.map_map]
  have : (Level.label ∘ Level.s) = id := by funext y; rfl
  simp [this]

theorem labels_drop (levels : List String) (r : Nat) :
    ((levels.map Level.s).take r ++ (levels.map Level.s).drop (r + 1)).map Level.label =
      Coding.dropLevel levels r := by
  rw [List.map_append, ← List.map_take, ← List.map_drop, labels_full, labels_full]
  rfl

theorem treatmentFull_agree (r : Option String) (levels : List String) :
    viewD (pure (Design.treatmentFull (levels.map Level.s))) =
      viewC (Coding.Treatment.codeWithIntercept r levels) := by
  simp only [viewD, viewC, Design.treatmentFull, Coding.Treatment.codeWithIntercept, pure,
    Except.pure, eye_eq_unitRows, labels_full, List.length_map]

theorem treatmentReduced_agree (r : Option String) (levels : List String) (hne : levels ≠ []) :
    viewD (Design.treatmentReduced (r.map Level.s) (levels.map Level.s)) =
      viewC (Coding.Treatment.codeWithoutIntercept r levels) := by
  have hlen : 0 < levels.length := List.length_pos_iff.mpr hne
  have hlen' : levels.length ≠ 0 := by omega
  cases r with
  | none =>
    simp only [viewD, viewC, Design.treatmentReduced, Coding.Treatment.codeWithoutIntercept,
      Coding.Treatment.referenceIndex, bind, Except.bind, pure, Except.pure, hlen', Option.map_none,
      List.length_map, if_false, splice_eq _ 0 hlen, labels_drop]
  | some x =>
    by_cases hx : x ∈ levels
    · have hr : levels.idxOf x < levels.length := List.idxOf_lt_length_iff.mpr hx
      simp only [viewD, viewC, Design.treatmentReduced, Coding.Treatment.codeWithoutIntercept,
        Coding.Treatment.referenceIndex, bind, Except.bind, pure, Except.pure, hlen', Option.map_some,
        List.length_map, if_false, indexOf?_map_s, hx, if_true, splice_eq _ _ hr, labels_drop]
    · simp only [viewD, viewC, Design.treatmentReduced, Coding.Treatment.codeWithoutIntercept,
        Coding.Treatment.referenceIndex, bind, Except.bind, Option.map_some,
        indexOf?_map_s, hx, if_false]

theorem sumReduced_agree (o : Option String) (levels : List String) (hne : levels ≠ []) :
    viewD (Design.sumReduced (o.map Level.s) (levels.map Level.s)) =
      viewC (Coding.Sum.codeWithoutIntercept o levels) := by
  have hlen : 0 < levels.length := List.length_pos_iff.mpr hne
  have hlen' : levels.length ≠ 0 := by omega
  cases o with
  | none =>
    have hr : levels.length - 1 < levels.length := by omega
    have hcast : ((levels.length : Int) - 1).toNat = levels.length - 1 := by omega
    simp only [viewD, viewC, Design.sumReduced, Design.sumOmitIndex, Coding.Sum.codeWithoutIntercept,
      Coding.Sum.sumContrast, Coding.Sum.omitIndex, bind, Except.bind, pure, Except.pure, hlen',
      Option.map_none, List.length_map, if_false, hcast, splice_eq _ _ hr, labels_drop]
  | some x =>
    by_cases hx : x ∈ levels
    · have hr : levels.idxOf x < levels.length := List.idxOf_lt_length_iff.mpr hx
      have hcast : ((levels.idxOf x : Nat) : Int).toNat = levels.idxOf x := by omega
      simp only [viewD, viewC, Design.sumReduced, Design.sumOmitIndex,
        Coding.Sum.codeWithoutIntercept, Coding.Sum.sumContrast, Coding.Sum.omitIndex, bind,
        Except.bind, pure, Except.pure, hlen', Option.map_some, List.length_map, if_false,
        indexOf?_map_s, hx, if_true, hcast, splice_eq _ _ hr, labels_drop]
    · simp only [viewD, viewC, Design.sumReduced, Design.sumOmitIndex,
        Coding.Sum.codeWithoutIntercept, Coding.Sum.sumContrast, Coding.Sum.omitIndex, bind,
        Except.bind, Option.map_some, indexOf?_map_s, hx, if_false]

theorem sumFull_agree (o : Option String) (levels : List String) (hne : levels ≠ []) :
    viewD (Design.sumFull (o.map Level.s) (levels.map Level.s)) =
      viewC (Coding.Sum.codeWithIntercept o levels) := by
  have h := sumReduced_agree o levels hne
  simp only [Design.sumFull, Coding.Sum.codeWithIntercept, bind, Except.bind]
  cases hd : Design.sumReduced (o.map Level.s) (levels.map Level.s) <;>
    cases hc : Coding.Sum.codeWithoutIntercept o levels <;>
    simp_all [viewD, viewC, pure, Except.pure, Coding.columnStackOnes]

/-- **The two coding models agree**: same matrix, same labels, errors in the same cases. -/
theorem code_agree (c : Coding.Contrast) (full : Bool) (levels : List String) (hne : levels ≠ []) :
    viewD (Design.Contrast.code (toDesign c) full (levels.map Level.s)) =
      viewC (Coding.Contrast.code c full levels) := by
  cases c with
  | treatment r =>
    cases full
    · simpa [Design.Contrast.code, Coding.Contrast.code, toDesign, Coding.Contrast.codeWithoutIntercept]
        using treatmentReduced_agree r levels hne
    · simpa [Design.Contrast.code, Coding.Contrast.code, toDesign, Coding.Contrast.codeWithIntercept]
        using treatmentFull_agree r levels
  | sum o =>
    cases full
    · simpa [Design.Contrast.code, Coding.Contrast.code, toDesign, Coding.Contrast.codeWithoutIntercept]
        using sumReduced_agree o levels hne
    · simpa [Design.Contrast.code, Coding.Contrast.code, toDesign, Coding.Contrast.codeWithIntercept]
        using sumFull_agree o levels hne

/-- the excluded point: with no level categorical.py (and `Model/Coding.lean`) raise from
`np.eye(-1)` for the reduced codings, the evaluation model returns the empty matrix. -/
theorem code_agree_nil :
    viewC (Coding.Contrast.code (.treatment none) false []) = none ∧
    viewD (Design.Contrast.code (.treatment none) false []) = some ([], []) := by
  decide

/-! ### Levels of any type (strings or integers)

The evaluation model also codes integer levels (`C(k)`, grouping by an integer column); the code
and `Model/Coding.lean` see them through `str(level)`.  Whenever `str` separates the levels at hand
(and the option, if given) the two models agree as well. -/

/-- `str` is injective on `x :: levels` -/
def LabelInj (x : Option Level) (levels : List Level) : Prop :=
  ∀ a b, (a ∈ levels ∨ some a = x) → b ∈ levels → a.label = b.label → a = b

theorem findIdx_label (x : Level) (levels : List Level)
    (hinj : ∀ b, b ∈ levels → x.label = b.label → x = b) :
    levels.findIdx (· == x) = (levels.map Level.label).idxOf x.label := by
  induction levels with
  | nil => rfl
  | cons a rest ih =>
    have ih' := ih (fun b hb => hinj b (List.mem_cons_of_mem _ hb))
    by_cases hax : a = x
    · subst hax
      simp [List.findIdx_cons]
    · have hl : ¬ a.label = x.label := fun e => hax (hinj a (List.mem_cons_self) e.symm).symm
      rw [List.map_cons, List.findIdx_cons, List.idxOf_cons, ih']
      have h1 : (a == x) = false := by simpa using hax
      have h2 : (a.label == x.label) = false := by simpa using hl
      rw [h1, h2]

theorem indexOf?_label (x : Level) (levels : List Level)
    (hinj : ∀ b, b ∈ levels → x.label = b.label → x = b) :
    Design.indexOf? x levels =
      if x.label ∈ levels.map Level.label then some ((levels.map Level.label).idxOf x.label)
      else none := by
  simp only [Design.indexOf?, findIdx_label x levels hinj]
  by_cases h : x.label ∈ levels.map Level.label
  · have := List.idxOf_lt_length_iff.mpr h
    simp only [List.length_map] at this
    simp [h, this]
  · have : ¬ (levels.map Level.label).idxOf x.label < levels.length := fun hl =>
      h (List.idxOf_lt_length_iff.mp (by simpa using hl))
    simp [h, this]

theorem labels_drop' (levels : List Level) (r : Nat) :
    (levels.take r ++ levels.drop (r + 1)).map Level.label =
      Coding.dropLevel (levels.map Level.label) r := by
  simp only [Coding.dropLevel, List.map_append, List.map_take, List.map_drop]

theorem treatmentReduced_agree' (r : Option Level) (levels : List Level) (hne : levels ≠ [])
    (hinj : ∀ x, r = some x → ∀ b, b ∈ levels → x.label = b.label → x = b) :
    viewD (Design.treatmentReduced r levels) =
      viewC (Coding.Treatment.codeWithoutIntercept (r.map Level.label) (levels.map Level.label)) := by
  have hlen : 0 < levels.length := List.length_pos_iff.mpr hne
  have hlen' : levels.length ≠ 0 := by omega
  cases r with
  | none =>
    simp only [viewD, viewC, Design.treatmentReduced, Coding.Treatment.codeWithoutIntercept,
      Coding.Treatment.referenceIndex, bind, Except.bind, pure, Except.pure, hlen', Option.map_none,
      List.length_map, if_false, splice_eq _ 0 hlen, labels_drop']
  | some x =>
    have hi := indexOf?_label x levels (hinj x rfl)
    by_cases hx : x.label ∈ levels.map Level.label
    · have hr : (levels.map Level.label).idxOf x.label < levels.length := by
        simpa using List.idxOf_lt_length_iff.mpr hx
      simp only [viewD, viewC, Design.treatmentReduced, Coding.Treatment.codeWithoutIntercept,
        Coding.Treatment.referenceIndex, bind, Except.bind, pure, Except.pure, hlen', Option.map_some,
        List.length_map, if_false, hi, hx, if_true, splice_eq _ _ hr, labels_drop']
    · simp only [viewD, viewC, Design.treatmentReduced, Coding.Treatment.codeWithoutIntercept,
        Coding.Treatment.referenceIndex, bind, Except.bind, Option.map_some, hi, hx, if_false]

theorem sumReduced_agree' (o : Option Level) (levels : List Level) (hne : levels ≠ [])
    (hinj : ∀ x, o = some x → ∀ b, b ∈ levels → x.label = b.label → x = b) :
    viewD (Design.sumReduced o levels) =
      viewC (Coding.Sum.codeWithoutIntercept (o.map Level.label) (levels.map Level.label)) := by
  have hlen : 0 < levels.length := List.length_pos_iff.mpr hne
  have hlen' : levels.length ≠ 0 := by omega
  cases o with
  | none =>
    have hr : levels.length - 1 < levels.length := by omega
    have hcast : ((levels.length : Int) - 1).toNat = levels.length - 1 := by omega
    simp only [viewD, viewC, Design.sumReduced, Design.sumOmitIndex, Coding.Sum.codeWithoutIntercept,
      Coding.Sum.sumContrast, Coding.Sum.omitIndex, bind, Except.bind, pure, Except.pure, hlen',
      Option.map_none, List.length_map, if_false, hcast, splice_eq _ _ hr, labels_drop']
  | some x =>
    have hi := indexOf?_label x levels (hinj x rfl)
    by_cases hx : x.label ∈ levels.map Level.label
    · have hr : (levels.map Level.label).idxOf x.label < levels.length := by
        simpa using List.idxOf_lt_length_iff.mpr hx
      have hcast : (((levels.map Level.label).idxOf x.label : Nat) : Int).toNat =
          (levels.map Level.label).idxOf x.label := by omega
      simp only [viewD, viewC, Design.sumReduced, Design.sumOmitIndex,
        Coding.Sum.codeWithoutIntercept, Coding.Sum.sumContrast, Coding.Sum.omitIndex, bind,
        Except.bind, pure, Except.pure, hlen', Option.map_some, List.length_map, if_false,
        hi, hx, if_true, hcast, splice_eq _ _ hr, labels_drop']
    · simp only [viewD, viewC, Design.sumReduced, Design.sumOmitIndex,
        Coding.Sum.codeWithoutIntercept, Coding.Sum.sumContrast, Coding.Sum.omitIndex, bind,
        Except.bind, Option.map_some, hi, hx, if_false]

/-- the option of a coding -/
def Design.Contrast.option : Design.Contrast → Option Level
  | .treatment r => r
  | .sum o => o

def toCoding : Design.Contrast → Coding.Contrast
  | .treatment r => .treatment (r.map Level.label)
  | .sum o => .sum (o.map Level.label)

/-- **Agreement for levels of any type**: the evaluation model's coding of `levels` is the C13
model's coding of `str(level)`, provided `str` does not identify the option with a different
level. -/
theorem code_agree_levels (c : Design.Contrast) (full : Bool) (levels : List Level)
    (hne : levels ≠ [])
    (hinj : ∀ x, Design.Contrast.option c = some x → ∀ b, b ∈ levels → x.label = b.label → x = b) :
    viewD (Design.Contrast.code c full levels) =
      viewC (Coding.Contrast.code (toCoding c) full (levels.map Level.label)) := by
  cases c with
  | treatment r =>
    cases full
    · simpa [Design.Contrast.code, Coding.Contrast.code, toCoding,
        Coding.Contrast.codeWithoutIntercept] using treatmentReduced_agree' r levels hne hinj
    · simp only [viewD, viewC, Design.Contrast.code, Coding.Contrast.code, toCoding,
        Coding.Contrast.codeWithIntercept, Design.treatmentFull, Coding.Treatment.codeWithIntercept,
        pure, Except.pure, eye_eq_unitRows, List.length_map, if_true]
  | sum o =>
    have h := sumReduced_agree' o levels hne hinj
    cases full
    · simpa [Design.Contrast.code, Coding.Contrast.code, toCoding,
        Coding.Contrast.codeWithoutIntercept] using h
    · simp only [Design.Contrast.code, Coding.Contrast.code, toCoding,
        Coding.Contrast.codeWithIntercept, Design.sumFull, Coding.Sum.codeWithIntercept, bind,
        Except.bind, if_true]
      cases hd : Design.sumReduced o levels <;>
        cases hc : Coding.Sum.codeWithoutIntercept (o.map Level.label) (levels.map Level.label) <;>
        simp_all [viewD, viewC, pure, Except.pure, Coding.columnStackOnes]

end FormulaeModel.Bridge
