import FormulaeModel.Spec.C01
import FormulaeModel.Proofs.ParserYield
set_option linter.unusedSimpArgs false
/-
Helper lemmas for C01: every tree the parser returns is a derivation of the grammar given by its
table (`Stratified`).
-/
namespace FormulaeModel.Parser
open FormulaeModel FormulaeModel.Spec.C01

variable (T : Table)

theorem opLevel_of_mem (hT : levelsOK T = true) (m : Nat) (ops : List Kind)
    (rest : List (List Kind)) (h : T.levels.drop m = ops :: rest) (k : Kind) (hk : ops.contains k = true) :
    opLevel T k = some m := by
  have hm : m < T.levels.length := by
    apply Nat.lt_of_not_le; intro hc
    have : T.levels.drop m = [] := List.drop_eq_nil_of_le hc
    simp_all
  have hget : T.levels.getD m [] = ops := by
    have : T.levels[m]? = some ops := by
      have := congrArg List.head? h
      simpa [List.head?_drop] using this
    simp [List.getD, this]
  unfold levelsOK at hT
  rw [List.all_eq_true] at hT
  have h1 := hT m (by simp [hm])
  rw [hget, List.all_eq_true] at h1
  have hk' : k ∈ ops := by simpa using hk
  have h2 := h1 k hk'
  simpa [opLevel] using h2

structure StratAt (n : Nat) : Prop where
  expression : ∀ ts e r, expression T n ts = .ok (e, r) → stratTop T e = true
  assignment : ∀ ts e r, assignment T n ts = .ok (e, r) → stratTop T e = true
  tilde : ∀ ts e r, tilde T n ts = .ok (e, r) → stratTop T e = true ∧ (isVariable e = true → stratBin T e = true)
  binLevel : ∀ m ts e r, m ≤ T.levels.length → binLevel T n (T.levels.drop m) ts = .ok (e, r) →
    stratBin T e = true ∧ m ≤ lvl T e
  binLoop : ∀ m ops rest acc ts e r, T.levels.drop m = ops :: rest → stratBin T acc = true → m ≤ lvl T acc →
    binLoop T n ops rest acc ts = .ok (e, r) → stratBin T e = true ∧ m ≤ lvl T e
  unary : ∀ ts e r, unary T n ts = .ok (e, r) → stratBin T e = true ∧ T.levels.length ≤ lvl T e
  call : ∀ ts e r, call T n ts = .ok (e, r) →
    stratBin T e = true ∧ lvl T e = T.levels.length + 1 ∧ (isPrimary e || isCall e) = true
  callLoop : ∀ acc ts e r, stratBin T acc = true → (isPrimary acc || isCall acc) = true →
    callLoop T n acc ts = .ok (e, r) →
    stratBin T e = true ∧ lvl T e = T.levels.length + 1 ∧ (isPrimary e || isCall e) = true
  argList : ∀ ts a r, argList T n ts = .ok (a, r) → stratArgs T a = true ∧ a ≠ .nil
  primary : ∀ ts e r, primary T n ts = .ok (e, r) → stratBin T e = true ∧ isPrimary e = true

theorem stratAt_zero : StratAt T 0 := by
  constructor <;> intros <;> simp_all [expression, assignment, tilde, binLevel, binLoop, unary, call, callLoop, argList, primary]

theorem lvl_of_primary_or_call (e : Expr) (h : (isPrimary e || isCall e) = true) :
    lvl T e = T.levels.length + 1 := by
  cases e <;> simp_all [isPrimary, isCall, lvl]

theorem opLevel_closer (hW : TableWF T = true) (k : Kind) (hk : closers.contains k = true) :
    opLevel T k = none := by
  unfold TableWF at hW
  simp only [Bool.and_eq_true, List.all_eq_true] at hW
  obtain ⟨⟨⟨_, h2⟩, _⟩, _⟩ := hW
  simp only [opLevel, List.findIdx?_eq_none_iff]
  intro ops hops
  have := h2 ops hops
  by_cases hc : ops.contains k = true
  · have h3 := this k (by simpa using hc)
    simp_all
  · simpa using hc

theorem stratTop_of_stratBin (hW : TableWF T = true) (e : Expr) (h : stratBin T e = true) :
    stratTop T e = true := by
  cases e with
  | binary l op r =>
    simp only [stratTop]
    split
    · rename_i hk
      have hk' : op.kind = .TILDE := by simpa using hk
      have := opLevel_closer T hW .TILDE (by decide)
      simp [stratBin, hk', this] at h
    · exact h
  | assign => simp [stratBin] at h
  | _ => simpa [stratTop] using h

theorem stratAt_succ (hW : TableWF T = true) (n : Nat) (ih : StratAt T n) : StratAt T (n + 1) := by
  have hL : levelsOK T = true := by
    unfold TableWF at hW; simp only [Bool.and_eq_true] at hW; exact hW.1.1.1
  have hTR : T.tildeRight ≤ T.levels.length := by
    unfold TableWF at hW; simp only [Bool.and_eq_true, decide_eq_true_eq] at hW; exact hW.2
  have h1 := ih.expression; have h2 := ih.assignment; have h3 := ih.tilde
  have h4 := ih.binLevel; have h5 := ih.binLoop; have h6 := ih.unary; have h7 := ih.call
  have h8 := ih.callLoop; have h9 := ih.argList; have h10 := ih.primary
  have hc := @consume_ok
  have hsb := stratTop_of_stratBin T hW
  have hlv := lvl_of_primary_or_call T
  constructor
  · intro ts e r h; simp only [expression] at h; exact ih.assignment _ _ _ h
  · intro ts e r h
    simp only [assignment, bind, Except.bind, pure, Except.pure] at h
    repeat' split at h
    all_goals (try (simp at h; done))
    all_goals grind [stratTop]
  · intro ts e r h
    simp only [tilde, bind, Except.bind, pure, Except.pure] at h
    have h40 := h4 0
    repeat' split at h
    all_goals (try (simp at h; done))
    all_goals grind [stratTop, isVariable]
  · -- binLevel
    intro m ts e r hm h
    cases hd : T.levels.drop m with
    | nil =>
      rw [hd] at h
      simp only [binLevel] at h
      have hlen : T.levels.length ≤ m := by
        have := congrArg List.length hd
        simp at this; omega
      have := h6 _ _ _ h
      grind
    | cons ops rest =>
      rw [hd] at h
      simp only [binLevel, bind, Except.bind, pure, Except.pure] at h
      have hrest : T.levels.drop (m + 1) = rest := by
        have := congrArg List.tail hd
        simpa [List.tail_drop] using this
      have hm1 : m + 1 ≤ T.levels.length := by
        have := congrArg List.length hd
        simp at this; omega
      split at h
      · simp at h
      · rename_i v hv
        rw [← hrest] at hv
        have hb := h4 (m + 1) _ _ _ hm1 hv
        exact h5 m ops rest _ _ _ _ hd hb.1 (by omega) h
  · -- binLoop
    intro m ops rest acc ts e r hd hacc hlacc h
    simp only [binLoop, bind, Except.bind, pure, Except.pure] at h
    have hrest : T.levels.drop (m + 1) = rest := by
      have := congrArg List.tail hd
      simpa [List.tail_drop] using this
    have hm1 : m + 1 ≤ T.levels.length := by
      have := congrArg List.length hd
      simp at this; omega
    have hop := opLevel_of_mem T hL m ops rest hd
    repeat' split at h
    all_goals (try (simp at h; done))
    · rename_i t ts1 hk _ v hv
      rw [← hrest] at hv
      have hb := h4 (m + 1) _ _ _ hm1 hv
      have hk' := hop t.kind hk
      refine h5 m ops rest _ _ _ _ hd ?_ ?_ h
      · simp [stratBin, hk', hacc, hb.1, hlacc]; omega
      · simp [lvl, hk']
    · grind
    · grind
  · -- unary
    intro ts e r h
    simp only [unary, bind, Except.bind, pure, Except.pure] at h
    repeat' split at h
    all_goals (try (simp at h; done))
    all_goals grind [stratBin, lvl]
  · -- call
    intro ts e r h
    simp only [call, bind, Except.bind, pure, Except.pure] at h
    repeat' split at h
    all_goals (try (simp at h; done))
    all_goals grind
  · -- callLoop
    intro acc ts e r hacc hpc h
    simp only [callLoop, bind, Except.bind, pure, Except.pure] at h
    repeat' split at h
    all_goals (try (simp at h; done))
    all_goals (first
      | (refine h8 _ _ _ _ ?_ ?_ h
         · grind [stratBin, stratArgs]
         · simp [isCall])
      | grind)
  · -- argList
    intro ts a r h
    simp only [argList, bind, Except.bind, pure, Except.pure] at h
    repeat' split at h
    all_goals (try (simp at h; done))
    all_goals grind [stratArgs]
  · -- primary
    intro ts e r h
    simp only [primary, bind, Except.bind, pure, Except.pure] at h
    repeat' split at h
    all_goals (try (simp at h; done))
    all_goals grind [stratBin, isPrimary]

theorem stratAt (hW : TableWF T = true) (n : Nat) : StratAt T n := by
  induction n with
  | zero => exact stratAt_zero T
  | succ n ih => exact stratAt_succ T hW n ih

end FormulaeModel.Parser
