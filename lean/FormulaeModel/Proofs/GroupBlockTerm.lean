import FormulaeModel.Proofs.GroupBlockTrain
set_option linter.unusedSimpArgs false
set_option linter.unusedVariables false
/-
Helper lemmas for C05 (part 3): the grouping factor as a term (`trainTerm … forced = true`, all
components coded full) and the block `trainGroup` builds from it.
-/
namespace FormulaeModel.Design
open FormulaeModel

/-! ### the columns the grouping factor reads and the cell of every row -/

/-- value and row-by-row levels of every component of the grouping factor -/
def factorColumns (env : Env) (table : List (String × Expr)) (names : List String) :
    M (List (Val × List (Option Level))) :=
  names.mapM (fun nm => do
    let v ← factorVal env nm (← compExpr table nm)
    pure (v, ← valLevels v))

/-- position of a value among the levels (`none`: missing or not a level) -/
def levelIndex (levels : List Level) (x : Option Level) : Option Nat :=
  x.bind (fun l => indexOf? l levels)

/-- the cell of row `r`: for every component (number of levels, position of the row's level) -/
def rowCell (levelss : List (List Level)) (cols : List (List (Option Level))) (r : Nat) :
    Option (List (Nat × Nat)) :=
  (levelss.zip cols).mapM (fun c => (levelIndex c.1 (c.2.getD r none)).map (fun g => (c.1.length, g)))

/-- the components of the grouping factor, each with what it read -/
inductive FactorOuts : List CompOut → List (Val × List (Option Level)) → Prop
  | nil : FactorOuts [] []
  | cons {o : CompOut} {col : Val × List (Option Level)} {outs : List CompOut}
      {cols : List (Val × List (Option Level))} :
      FactorComp o.st.name o.st.expr true col.1 col.2 o → FactorOuts outs cols →
      FactorOuts (o :: outs) (col :: cols)

theorem factor_outs (env : Env) (table : List (String × Expr)) (cs : List (String × Bool))
    (hfull : ∀ c ∈ cs, c.2 = true) (outs : List CompOut)
    (h : cs.mapM (fun (c : String × Bool) => do
        trainComp env c.1 (← compExpr table c.1) true false c.2) = .ok outs) :
    ∃ cols, factorColumns env table (cs.map (·.1)) = .ok cols ∧ FactorOuts outs cols ∧
      outs.map (·.st.name) = cs.map (·.1) := by
  induction cs generalizing outs with
  | nil =>
    simp only [List.mapM_nil, pure_ok] at h
    subst h
    exact ⟨[], rfl, FactorOuts.nil, rfl⟩
  | cons c cs ih =>
    rw [List.mapM_cons] at h
    simp only [bind_ok, pure_ok] at h
    obtain ⟨o, ⟨e, he, ho⟩, outs', houts', rfl⟩ := h
    obtain ⟨cols, hcols, hF, hnames⟩ := ih (fun c' hc' => hfull c' (by simp [hc'])) outs' houts'
    rw [hfull c (by simp)] at ho
    obtain ⟨v, xs, hv, hxs, hf⟩ := trainComp_factor env c.1 e true o ho
    refine ⟨(v, xs) :: cols, ?_, ?_, ?_⟩
    · simp only [factorColumns, List.map_cons, List.mapM_cons, bind_ok, pure_ok]
      exact ⟨(v, xs), ⟨e, he, v, hv, xs, hxs, rfl⟩, cols, hcols, rfl⟩
    · refine FactorOuts.cons ?_ hF
      rw [hf.name_eq, hf.expr_eq]
      exact hf
    · simp [hf.name_eq, hnames]

/-- with the complete indicator coding the rows `r` of the components are the indicator rows of
the row's cell -/
theorem factor_rows (outs : List CompOut) (cols : List (Val × List (Option Level)))
    (hF : FactorOuts outs cols)
    (ht : ∀ o ∈ outs, o.st.contrast = some (treatmentFull o.st.levels)) (r : Nat)
    (hr : ∀ o ∈ outs, r < o.value.length) :
    ∃ ps, rowCell (outs.map (·.st.levels)) (cols.map (·.2)) r = some ps ∧
      outs.map (fun o => o.value.getD r []) = ps.map (fun p => unitE p.1 p.2) ∧
      (∀ p ∈ ps, p.2 < p.1) ∧ ps.map (·.1) = outs.map (·.st.levels.length) := by
  induction hF with
  | nil => exact ⟨[], rfl, rfl, by simp, rfl⟩
  | @cons o col outs cols hf hF ih =>
    obtain ⟨ps, h1, h2, h3, h4⟩ := ih (fun o' ho' => ht o' (by simp [ho'])) (fun o' ho' => hr o' (by simp [ho']))
    obtain ⟨_, hlen, hrows⟩ := hf.indicator (ht o (by simp))
    have hro := hr o (by simp)
    obtain ⟨l, g, hx, hg, hgl, hrow⟩ := hrows r hro
    refine ⟨(o.st.levels.length, g) :: ps, ?_, ?_, ?_, ?_⟩
    · simp only [rowCell, List.map_cons, List.zip_cons_cons, List.mapM_cons] at h1 ⊢
      rw [h1]
      simp [levelIndex, List.getD_eq_getElem?_getD, hx, hg]
    · simp only [List.map_cons, h2]
      congr 1
      simp [List.getD_eq_getElem?_getD, List.getElem?_eq_getElem hro, hrow]
    · intro p hp
      simp only [List.mem_cons] at hp
      rcases hp with rfl | hp
      · exact hgl
      · exact h3 p hp
    · simp [h4]

theorem foldl_interaction_length_le (ms : List Matrix) (m : Matrix) :
    (ms.foldl interactionMatrix m).length ≤ m.length ∧
      ∀ a ∈ ms, (ms.foldl interactionMatrix m).length ≤ a.length := by
  induction ms generalizing m with
  | nil => simp
  | cons a ms ih =>
    obtain ⟨h1, h2⟩ := ih (interactionMatrix m a)
    rw [interactionMatrix_length] at h1
    simp only [List.foldl_cons, List.mem_cons, forall_eq_or_imp]
    exact ⟨by omega, by omega, h2⟩

theorem reduceMatrices_length_le (ms : List Matrix) : ∀ a ∈ ms, (reduceMatrices ms).length ≤ a.length := by
  cases ms with
  | nil => simp
  | cons m ms =>
    obtain ⟨h1, h2⟩ := foldl_interaction_length_le ms m
    simp only [reduceMatrices, List.mem_cons, forall_eq_or_imp]
    exact ⟨h1, h2⟩

theorem cellCount_one_cons (G : Nat) (Gs : List Nat) : cellCount 1 (G :: Gs) = cellCount G Gs := by
  simp [cellCount]

theorem cellIndex_zero_cons (p : Nat × Nat) (ps : List (Nat × Nat)) :
    cellIndex 0 (p :: ps) = cellIndex p.2 ps := by
  simp [cellIndex]

/-- **the factor matrix is the complete indicator matrix of the cells**: row `r` of the n-ary
interaction of the component matrices is the indicator row of the row's cell, cells numbered in
lexicographic order (first component slowest) -/
theorem reduceMatrices_factor_row (outs : List CompOut) (cols : List (Val × List (Option Level)))
    (hF : FactorOuts outs cols)
    (ht : ∀ o ∈ outs, o.st.contrast = some (treatmentFull o.st.levels)) (r : Nat)
    (hr : r < (reduceMatrices (outs.map (·.value))).length) :
    ∃ ps, rowCell (outs.map (·.st.levels)) (cols.map (·.2)) r = some ps ∧
      (∀ p ∈ ps, p.2 < p.1) ∧ ps.map (·.1) = outs.map (·.st.levels.length) ∧
      cellIndex 0 ps < cellCount 1 (ps.map (·.1)) ∧
      (reduceMatrices (outs.map (·.value)))[r] =
        unitE (cellCount 1 (ps.map (·.1))) (cellIndex 0 ps) := by
  have hlen : ∀ o ∈ outs, r < o.value.length := by
    intro o ho
    have := reduceMatrices_length_le (outs.map (·.value)) o.value (List.mem_map.2 ⟨o, ho, rfl⟩)
    omega
  obtain ⟨ps, h1, h2, h3, h4⟩ := factor_rows outs cols hF ht r hlen
  refine ⟨ps, h1, h3, h4, ?_⟩
  cases outs with
  | nil => simp [reduceMatrices] at hr
  | cons o outs =>
    cases ps with
    | nil => simp at h4
    | cons p ps =>
      simp only [List.map_cons, List.cons.injEq] at h2 h4
      simp only [List.map_cons, reduceMatrices] at hr ⊢
      have hrow := foldl_interactionMatrix_row (outs.map (·.value)) o.value r
        (hlen o (by simp)) (by
          intro a ha
          obtain ⟨o', ho', rfl⟩ := List.mem_map.1 ha
          exact hlen o' (by simp [ho']))
      rw [List.getElem?_eq_getElem hr, List.map_map] at hrow
      simp only [Option.some.injEq] at hrow
      have h2' : List.map ((fun a => a.getD r []) ∘ fun x => x.value) outs =
          ps.map (fun p => unitE p.1 p.2) := by
        rw [← h2.2]; rfl
      rw [hrow, h2.1, h2']
      obtain ⟨hfold, hlt⟩ := foldl_rowProd_unitE ps p.1 p.2 (h3 p (by simp))
        (fun q hq => h3 q (by simp [hq]))
      rw [cellCount_one_cons, cellIndex_zero_cons]
      exact ⟨hlt, hfold⟩

/-! ### labels -/

theorem labelProd_getElem? (f : String → String → String) (a b : List String) (i k : Nat)
    (hi : i < a.length) (hk : k < b.length) :
    (labelProd f a b)[i * b.length + k]? = some (f a[i] b[k]) := by
  induction a generalizing i with
  | nil => simp at hi
  | cons x a ih =>
    simp only [labelProd, List.flatMap_cons]
    cases i with
    | zero =>
      simp only [Nat.zero_mul, Nat.zero_add, List.getElem_cons_zero]
      rw [List.getElem?_append_left (by simp [hk])]
      simp [hk]
    | succ i =>
      have hi' : i < a.length := by simpa using hi
      rw [List.getElem?_append_right (by simp; rw [Nat.add_mul]; omega)]
      simp only [List.length_map, List.getElem_cons_succ]
      have : (i + 1) * b.length + k - b.length = i * b.length + k := by
        rw [Nat.add_mul]; omega
      rw [this]
      exact ih i hi'

/-- n-ary label product: the label at the mixed-radix position of a cell is the `:`-join of the
component labels of that cell (`lps`: for every further component its label list and the position) -/
theorem foldl_labelProd_getElem? (lps : List (List String × Nat)) (acc : List String) (g : Nat)
    (hg : g < acc.length) (h : ∀ p ∈ lps, p.2 < p.1.length) :
    ((lps.map (·.1)).foldl interactionLabels acc)[cellIndex g (lps.map (fun p => (p.1.length, p.2)))]? =
      some (lps.foldl (fun s p => s ++ ":" ++ p.1.getD p.2 "") acc[g]) ∧
    ((lps.map (·.1)).foldl interactionLabels acc).length = cellCount acc.length (lps.map (·.1.length)) := by
  induction lps generalizing acc g with
  | nil => simp [cellIndex, cellCount, List.getElem?_eq_getElem hg]
  | cons p lps ih =>
    have hp := h p (by simp)
    simp only [List.map_cons, List.foldl_cons, cellIndex, cellCount]
    have hlen : (interactionLabels acc p.1).length = acc.length * p.1.length := by
      rw [interactionLabels_eq, length_labelProd]
    have hlt : g * p.1.length + p.2 < (interactionLabels acc p.1).length := by
      rw [hlen]; exact cell_lt _ _ _ _ hg hp
    obtain ⟨h1, h2⟩ := ih (interactionLabels acc p.1) (g * p.1.length + p.2) hlt
      (fun q hq => h q (by simp [hq]))
    simp only [cellIndex, cellCount] at h1 h2
    rw [h1, h2, hlen]
    refine ⟨?_, rfl⟩
    congr 2
    have := labelProd_getElem? colon acc p.1 g p.2 hg hp
    rw [← interactionLabels_eq, List.getElem?_eq_getElem hlt] at this
    simp only [Option.some.injEq] at this
    rw [this]
    simp [colon, List.getD_eq_getElem?_getD, List.getElem?_eq_getElem hp]

end FormulaeModel.Design
