import FormulaeModel.Model.Matrices
import FormulaeModel.Spec.C06
set_option linter.unusedSimpArgs false
/-
Helper lemmas for C06 (part 1): selecting rows of values, frames and environments; the `Except`
plumbing; `lookupName` and the vector operators commute with row selection.
-/
namespace FormulaeModel.Design
open FormulaeModel

/-! ### `Except` plumbing -/

theorem bind_ok {ε α β : Type} (x : Except ε α) (f : α → Except ε β) (b : β) :
    (x >>= f) = .ok b ↔ ∃ a, x = .ok a ∧ f a = .ok b := by
  cases x <;> simp [bind, Except.bind]

theorem pure_ok {ε α : Type} (a b : α) : (pure a : Except ε α) = .ok b ↔ a = b := by
  simp [pure, Except.pure]

theorem ok_bind {ε α β : Type} (a : α) (f : α → Except ε β) : ((Except.ok a : Except ε α) >>= f) = f a := rfl

/-! ### picking rows of a column -/

/-- entries `is` of a column, in that order (`d` stands for an index outside the column; it never
occurs when every index is `< xs.length`) -/
def pick {α : Type} (is : List Nat) (d : α) (xs : List α) : List α := is.map (fun i => xs.getD i d)

@[simp] theorem pick_length {α : Type} (is : List Nat) (d : α) (xs : List α) :
    (pick is d xs).length = is.length := by simp [pick]

theorem getD_map {α β : Type} (f : α → β) (xs : List α) (i : Nat) (d : α) :
    (xs.map f).getD i (f d) = f (xs.getD i d) := by
  simp only [List.getD_eq_getElem?_getD, List.getElem?_map]
  cases xs[i]? <;> rfl

theorem pick_map {α β : Type} (f : α → β) (is : List Nat) (d : α) (xs : List α) :
    pick is (f d) (xs.map f) = (pick is d xs).map f := by
  simp [pick, getD_map]

theorem getD_lt {α : Type} (xs : List α) (i : Nat) (d d' : α) (h : i < xs.length) :
    xs.getD i d = xs.getD i d' := by
  simp [List.getD_eq_getElem?_getD, List.getElem?_eq_getElem h]

theorem pick_default {α : Type} (is : List Nat) (d d' : α) (xs : List α)
    (h : ∀ i ∈ is, i < xs.length) : pick is d xs = pick is d' xs := by
  simp only [pick]
  apply List.map_congr_left
  intro i hi
  exact getD_lt xs i d d' (h i hi)

theorem mem_pick {α : Type} (is : List Nat) (d : α) (xs : List α) (h : ∀ i ∈ is, i < xs.length)
    (x : α) (hx : x ∈ pick is d xs) : x ∈ xs := by
  simp only [pick, List.mem_map] at hx
  obtain ⟨i, hi, rfl⟩ := hx
  have := h i hi
  simp [List.getD_eq_getElem?_getD, List.getElem?_eq_getElem this]

theorem pick_replicate {α : Type} (is : List Nat) (d a : α) (n : Nat) (h : ∀ i ∈ is, i < n) :
    pick is d (List.replicate n a) = List.replicate is.length a := by
  induction is with
  | nil => rfl
  | cons i is ih =>
    have hi := h i (by simp)
    simp only [pick, List.map_cons, List.length_cons, List.replicate_succ] at *
    rw [ih (fun j hj => h j (by simp [hj]))]
    simp [List.getD_eq_getElem?_getD, List.getElem?_replicate, hi]

theorem mapM_ok_get {α β : Type} (f : α → M β) (xs : List α) (ys : List β) (h : xs.mapM f = .ok ys) :
    ys.length = xs.length ∧ ∀ i (hi : i < xs.length) (hi' : i < ys.length), f xs[i] = .ok ys[i] := by
  induction xs generalizing ys with
  | nil => simp [pure, Except.pure] at h; subst h; simp
  | cons x xs ih =>
    rw [List.mapM_cons] at h
    simp only [bind_ok, pure_ok] at h
    obtain ⟨y, hy, ys', hys', rfl⟩ := h
    obtain ⟨hl, hall⟩ := ih ys' hys'
    refine ⟨by simp [hl], ?_⟩
    intro i hi hi'
    cases i with
    | zero => simpa using hy
    | succ i => simpa using hall i (by simpa using hi) (by simpa using hi')

/-- mapping a partial function over the picked entries = picking from the mapped column -/
theorem mapM_pick {α β : Type} (f : α → M β) (xs : List α) (ys : List β) (is : List Nat) (d : α) (d' : β)
    (h : xs.mapM f = .ok ys) (his : ∀ i ∈ is, i < xs.length) :
    (pick is d xs).mapM f = .ok (pick is d' ys) := by
  have key := mapM_ok_get f xs ys h
  induction is with
  | nil => simp [pick, pure, Except.pure]
  | cons i is ih =>
    have hi := his i (by simp)
    have hi' : i < ys.length := by omega
    simp only [pick, List.map_cons] at ih ⊢
    rw [List.mapM_cons, ih (fun j hj => his j (by simp [hj]))]
    have : f (xs.getD i d) = .ok (ys.getD i d') := by
      simp only [List.getD_eq_getElem?_getD, List.getElem?_eq_getElem hi, List.getElem?_eq_getElem hi',
        Option.getD_some]
      exact key.2 i hi hi'
    rw [this]; rfl

/-! ### rows of values, frames, environments -/

/-- rows `is` of a value of lazy evaluation: vector-like values are indexed, scalars are kept -/
def Val.rows (is : List Nat) : Val → Val
  | .vec xs b => .vec (pick is none xs) b
  | .lvec xs d => .lvec (pick is none xs) d
  | .box b => .box { b with data := pick is none b.data }
  | .offsetVar xs => .offsetVar (pick is none xs)
  | .prop ss ts c => .prop (pick is none ss) (pick is none ts) c
  | v => v

/-- values that have no rows (what the caller's namespace may hold in this model) -/
def Val.isScalar : Val → Bool
  | .num .. | .str .. | .pyNone | .bool .. | .levels .. | .contrast .. | .offsetConst .. => true
  | _ => false

theorem Val.rows_scalar (is : List Nat) (v : Val) (h : v.isScalar = true) : v.rows is = v := by
  cases v <;> simp_all [Val.rows, Val.isScalar]

/-- the new frame made of rows `is` of the training frame; the caller's namespace is the same -/
def Env.rows (env : Env) (is : List Nat) : Env := { env with frame := env.frame.rows is }

/-- the caller's namespace holds scalars / lists / encodings only (no data columns) -/
def Env.namesScalar (env : Env) : Bool := env.names.all (fun p => p.2.isScalar)

/-- vector-like values have `n` rows; a `CategoricalBox` carries no explicit levels -/
def Val.good (n : Nat) : Val → Prop
  | .vec xs _ => xs.length = n
  | .lvec xs _ => xs.length = n
  | .box b => b.data.length = n ∧ b.levels = none
  | .offsetVar xs => xs.length = n
  | .prop ss ts _ => ss.length = n ∧ ts.length = n
  | _ => True

def colRows (c : Column) (is : List Nat) : Column :=
  { c with cells := pick is .na c.cells }

theorem frame_rows_eq (f : Frame) (is : List Nat) : f.rows is = f.map (colRows · is) := rfl

theorem frame_col?_rows (f : Frame) (is : List Nat) (name : String) :
    (f.rows is).col? name = (f.col? name).map (colRows · is) := by
  simp only [Frame.col?, frame_rows_eq, List.find?_map]
  rfl

theorem colVal_rows (c : Column) (is : List Nat) : colVal (colRows c is) = (colVal c).rows is := by
  unfold colVal colRows
  cases c.kind <;> simp only [Val.rows] <;> rw [← pick_map]

theorem frame_col?_mem (f : Frame) (name : String) (c : Column) (h : f.col? name = some c) : c ∈ f := by
  exact List.mem_of_find?_eq_some h

theorem frame_col?_length (f : Frame) (hwf : f.wellFormed = true) (name : String) (c : Column)
    (h : f.col? name = some c) : c.cells.length = f.nrows := by
  have := frame_col?_mem f name c h
  simp only [Frame.wellFormed, List.all_eq_true] at hwf
  simpa using hwf c this

theorem frame_nrows_rows (f : Frame) (is : List Nat) (h : ∀ i ∈ is, i < f.nrows) :
    (f.rows is).nrows = is.length := by
  cases f with
  | nil =>
    cases is with
    | nil => rfl
    | cons i is => have := h i (by simp); simp [Frame.nrows] at this
  | cons c f => simp [Frame.rows, Frame.nrows]

theorem colVal_good (c : Column) : (colVal c).good c.cells.length := by
  unfold colVal
  cases c.kind <;> simp [Val.good]

/-- key lemma (1): a name looked up in the row-selected environment is the row selection of the
name looked up in the training environment -/
theorem lookupName_rows (env : Env) (hn : env.namesScalar = true) (is : List Nat) (name : String) (v : Val)
    (h : lookupName env name = .ok v) : lookupName (env.rows is) name = .ok (v.rows is) := by
  unfold lookupName at h ⊢
  simp only [Env.rows, frame_col?_rows]
  cases hc : env.frame.col? name with
  | some c =>
    simp only [hc, pure, Except.pure, Except.ok.injEq] at h
    subst h
    simp [pure, Except.pure, colVal_rows]
  | none =>
    simp only [hc] at h
    simp only [Option.map_none]
    split at h
    · simp only [pure, Except.pure, Except.ok.injEq] at h; subst h; simp [*, Val.rows, pure, Except.pure]
    · split at h
      · simp only [pure, Except.pure, Except.ok.injEq] at h; subst h; simp [*, Val.rows, pure, Except.pure]
      · simp only [*]
        split at h
        · rename_i p hp
          simp only [pure, Except.pure, Except.ok.injEq] at h
          subst h
          have hm := List.mem_of_find?_eq_some hp
          simp only [Env.namesScalar, List.all_eq_true] at hn
          simp [Val.rows_scalar is p.2 (hn p hm), pure, Except.pure]
        · simp at h

/-- key lemma (1), as an equation (errors included) -/
theorem lookupName_rows_eq (env : Env) (hn : env.namesScalar = true) (is : List Nat) (name : String) :
    lookupName (env.rows is) name = (lookupName env name).map (Val.rows is) := by
  cases h : lookupName env name with
  | ok v => rw [lookupName_rows env hn is name v h]; rfl
  | error e =>
    unfold lookupName at h ⊢
    simp only [Env.rows, frame_col?_rows]
    cases hc : env.frame.col? name with
    | some c => simp [hc, pure, Except.pure] at h
    | none =>
      simp only [hc, Option.map_none] at h ⊢
      split at h
      · simp [pure, Except.pure] at h
      · split at h
        · simp [pure, Except.pure] at h
        · simp only [*]
          split at h
          · simp [pure, Except.pure] at h
          · simp [Except.map]


theorem lookupName_good (env : Env) (hwf : env.frame.wellFormed = true) (hn : env.namesScalar = true)
    (name : String) (v : Val) (h : lookupName env name = .ok v) : v.good env.frame.nrows := by
  unfold lookupName at h
  cases hc : env.frame.col? name with
  | some c =>
    simp only [hc, pure, Except.pure, Except.ok.injEq] at h
    subst h
    rw [← frame_col?_length env.frame hwf name c hc]
    exact colVal_good c
  | none =>
    simp only [hc] at h
    split at h
    · simp only [pure, Except.pure, Except.ok.injEq] at h; subst h; simp [Val.good]
    · split at h
      · simp only [pure, Except.pure, Except.ok.injEq] at h; subst h; simp [Val.good]
      · split at h
        · rename_i p hp
          simp only [pure, Except.pure, Except.ok.injEq] at h
          subst h
          have hm := List.mem_of_find?_eq_some hp
          simp only [Env.namesScalar, List.all_eq_true] at hn
          have := hn p hm
          revert this
          cases p.2 <;> simp [Val.isScalar, Val.good]
        · simp at h

end FormulaeModel.Design
