import FormulaeModel.Proofs.RowsTerm
set_option linter.unusedSimpArgs false
/-
Helper lemmas for C06 (part 6): the stacked common-effects and group-effects matrices.
-/
namespace FormulaeModel.Design
open FormulaeModel FormulaeModel.Spec.C06 FormulaeModel.Spec.C04

/-! ### the stacked matrices -/

theorem closeQ_refl (a : Rat) : closeQ a a = true := by
  unfold closeQ
  simp only [Rat.le_refl, if_true, Rat.sub_self, Rat.zero_mul, decide_eq_true_eq]
  grind

theorem closeE_refl (x : Entry) : closeE x x = true := by
  cases x <;> simp [closeE, closeQ_refl]

theorem zipWith_self_all {α : Type} (f : α → α → Bool) (h : ∀ x, f x x = true) (xs : List α) :
    (List.zipWith f xs xs).all id = true := by
  induction xs with
  | nil => rfl
  | cons x xs ih => simp only [List.zipWith_cons_cons, List.all_cons, id, h x, Bool.true_and]; exact ih

theorem rowsEqual_refl (a : Matrix) : rowsEqual a a = true := by
  simp only [rowsEqual, beq_self_eq_true, Bool.true_and]
  apply zipWith_self_all
  intro r
  simp only [beq_self_eq_true, Bool.true_and]
  exact zipWith_self_all _ closeE_refl r

/-- the specification holds when the new matrix *is* the selection of the training rows -/
theorem holds_of_eq (train new : Matrix) (is : List Nat) (h : new = selectRows train is) :
    holds train new is = true := by
  subst h; exact rowsEqual_refl _

theorem selectRows_zipWith_append (a b : Matrix) (is : List Nat) (hab : a.length = b.length)
    (his : ∀ i ∈ is, i < a.length) :
    selectRows (List.zipWith (· ++ ·) a b) is =
      List.zipWith (· ++ ·) (selectRows a is) (selectRows b is) := by
  induction is with
  | nil => rfl
  | cons i is ih =>
    have hi := his i (by simp)
    simp only [selectRows, List.map_cons, List.zipWith_cons_cons] at ih ⊢
    rw [ih (fun j hj => his j (by simp [hj]))]
    congr 1
    simp [List.getD_eq_getElem?_getD, List.getElem?_zipWith, List.getElem?_eq_getElem hi,
      List.getElem?_eq_getElem (hab ▸ hi)]

theorem hstack_length (ms : List Matrix) (n : Nat) (h : ∀ m ∈ ms, m.length = n) :
    (hstack ms n).length = n := by
  induction ms with
  | nil => simp [hstack]
  | cons m ms ih =>
    simp only [hstack, List.length_zipWith]
    rw [h m (by simp), ih (fun m' hm' => h m' (by simp [hm']))]
    simp

/-- column stacking commutes with row selection -/
theorem selectRows_hstack (ms : List Matrix) (n : Nat) (is : List Nat) (h : ∀ m ∈ ms, m.length = n)
    (his : ∀ i ∈ is, i < n) :
    selectRows (hstack ms n) is = hstack (ms.map (selectRows · is)) is.length := by
  induction ms with
  | nil =>
    simp only [hstack, List.map_nil, selectRows_eq_pick]
    exact pick_replicate is _ _ n his
  | cons m ms ih =>
    have hm := h m (by simp)
    have hrest := hstack_length ms n (fun m' hm' => h m' (by simp [hm']))
    simp only [hstack, List.map_cons]
    rw [selectRows_zipWith_append _ _ is (by rw [hm, hrest]) (fun i hi => hm ▸ his i hi),
      ih (fun m' hm' => h m' (by simp [hm']))]


theorem mapM_ok_map {α β δ : Type} (f : α → M β) (g : β → M δ) (k : β → δ)
    (xs : List α) (ys : List β) (hxs : xs.mapM f = .ok ys)
    (hstep : ∀ x ∈ xs, ∀ y, f x = .ok y → g y = .ok (k y)) : ys.mapM g = .ok (ys.map k) := by
  have := mapM_map_ok f g id k xs ys hxs hstep
  simpa using this

/-- `design_matrices`, common part: one entry per term, `none` = the Intercept -/
def trainCommon (env : Env) (table : List (String × Expr)) (specs : List (Option TermSpec)) :
    M (List (Option TermOut)) :=
  specs.mapM (fun s => match s with
    | none => pure none
    | some s => do pure (some (← trainTerm env table s false false)))

def partMatrix (n : Nat) : Option TermOut → Matrix
  | none => onesCol n
  | some o => o.data

/-- `CommonEffectsMatrix.evaluate`: the term matrices stacked side by side -/
def commonMatrix (n : Nat) (parts : List (Option TermOut)) : Matrix := hstack (parts.map (partMatrix n)) n

/-- `CommonEffectsMatrix.evaluate_new_data` -/
def newCommonMatrix (parts : List (Option TermOut)) (env : Env) (mode : UnseenMode) : M Matrix := do
  let ms ← parts.mapM (fun p => match p with
    | none => pure (onesCol env.frame.nrows)
    | some o => do
      let (m, _) ← newTerm o.st env mode
      pure m)
  pure (hstack ms env.frame.nrows)

def trainGroups (env : Env) (table : List (String × Expr)) (specs : List GroupSpec) : M (List GroupOut) :=
  specs.mapM (trainGroup env table)

/-- `GroupEffectsMatrix.evaluate` -/
def groupMatrix (n : Nat) (gs : List GroupOut) : Matrix := hstack (gs.map (·.data)) n

/-- `GroupEffectsMatrix.evaluate_new_data` -/
def newGroupMatrix (gs : List GroupOut) (env : Env) (mode : UnseenMode) : M Matrix := do
  let ms ← gs.mapM (fun g => do
    let (m, _) ← newGroup g.st env mode
    pure m)
  pure (hstack ms env.frame.nrows)

theorem trainCommon_rows (env : Env) (hwf : env.frame.wellFormed = true) (hn : env.namesScalar = true)
    (is : List Nat) (his : ∀ i ∈ is, i < env.frame.nrows) (table : List (String × Expr))
    (specs : List (Option TermSpec)) (mode : UnseenMode) (parts : List (Option TermOut))
    (hok : ∀ s, some s ∈ specs → TermOk env table s)
    (h : trainCommon env table specs = .ok parts) :
    newCommonMatrix parts (env.rows is) mode =
      .ok (selectRows (commonMatrix env.frame.nrows parts) is) := by
  have hnr := frame_nrows_rows env.frame is his
  unfold trainCommon at h
  have hstep : ∀ s ∈ specs, ∀ p,
      (match s with
        | none => (pure none : M (Option TermOut))
        | some s => do pure (some (← trainTerm env table s false false))) = .ok p →
      (match p with
        | none => (pure (onesCol (env.rows is).frame.nrows) : M Matrix)
        | some o => do
          let (m, _) ← newTerm o.st (env.rows is) mode
          pure m) = .ok (selectRows (partMatrix env.frame.nrows p) is) ∧
      (partMatrix env.frame.nrows p).length = env.frame.nrows := by
    intro s hs p hp
    cases s with
    | none =>
      simp only [pure_ok] at hp
      subst hp
      simp only [partMatrix, Env.rows, hnr, pure_ok, selectRows_onesCol _ is his]
      simp [onesCol]
    | some s =>
      simp only [bind_ok, pure_ok] at hp
      obtain ⟨o, ho, rfl⟩ := hp
      obtain ⟨h1, h2⟩ := trainTerm_rows env hwf hn is his table s false mode o (hok s hs) ho
      simp only [partMatrix, h1, ok_bind, pure_ok]
      exact ⟨trivial, h2⟩
  have hnew := mapM_ok_map _ _ (fun p => selectRows (partMatrix env.frame.nrows p) is) _ _ h
    (fun s hs p hp => (hstep s hs p hp).1)
  have hlens := mapM_forall _ (fun p => (partMatrix env.frame.nrows p).length = env.frame.nrows) _ _ h
    (fun s hs p hp => (hstep s hs p hp).2)
  unfold newCommonMatrix
  rw [hnew]
  simp only [ok_bind, pure_ok, commonMatrix]
  rw [selectRows_hstack _ _ is (by simpa using hlens) his, List.map_map]
  simp only [Env.rows, hnr]
  rfl

theorem trainGroups_rows (env : Env) (hwf : env.frame.wellFormed = true) (hn : env.namesScalar = true)
    (is : List Nat) (his : ∀ i ∈ is, i < env.frame.nrows) (table : List (String × Expr))
    (specs : List GroupSpec) (mode : UnseenMode) (gs : List GroupOut)
    (hok : ∀ s ∈ specs, GroupOk env table s)
    (h : trainGroups env table specs = .ok gs) :
    newGroupMatrix gs (env.rows is) mode = .ok (selectRows (groupMatrix env.frame.nrows gs) is) := by
  have hnr := frame_nrows_rows env.frame is his
  unfold trainGroups at h
  have hstep : ∀ s ∈ specs, ∀ g, trainGroup env table s = .ok g →
      (do
        let (m, _) ← newGroup g.st (env.rows is) mode
        (pure m : M Matrix)) = .ok (selectRows g.data is) ∧ g.data.length = env.frame.nrows := by
    intro s hs g hg
    obtain ⟨h1, h2⟩ := trainGroup_rows env hwf hn is his table s mode g (hok s hs) hg
    simp only [h1, ok_bind, pure_ok]
    exact ⟨trivial, h2⟩
  have hnew := mapM_ok_map _ _ (fun (g : GroupOut) => selectRows g.data is) _ _ h
    (fun s hs g hg => (hstep s hs g hg).1)
  have hlens := mapM_forall _ (fun (g : GroupOut) => g.data.length = env.frame.nrows) _ _ h
    (fun s hs g hg => (hstep s hs g hg).2)
  unfold newGroupMatrix
  rw [hnew]
  simp only [ok_bind, pure_ok, groupMatrix]
  rw [selectRows_hstack _ _ is (by simpa using hlens) his, List.map_map]
  simp only [Env.rows, hnr]
  rfl

end FormulaeModel.Design
