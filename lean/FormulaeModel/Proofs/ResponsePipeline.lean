import FormulaeModel.Model.Pipeline
import FormulaeModel.Proofs.PermUnused
import FormulaeModel.Proofs.ResponseEncodingNames
set_option linter.unusedSimpArgs false
set_option linter.unusedVariables false
/-
Helper lemmas for C15 (part 1): in the whole-pipeline model `Pipeline.designMatrices` the common
and the group-specific parts of the result are computed by `predictors` from the resolved
right-hand side (`m.common`, `m.group`), the component table and the frame after the NA step —
the response term does not enter.
-/
namespace FormulaeModel.Pipeline
open FormulaeModel FormulaeModel.Design

/-- `set_type` of every common term -/
def descsOf (env : Env) (atoms : List (String × Expr)) (common : List Terms.CTerm) :
    Except PErr (List Encoding.TermDesc) := common.mapM (termDesc env atoms)

/-- redundancy analysis: helper terms and flags -/
def codedOf (descs : List Encoding.TermDesc) : Except PErr (List Encoding.CodedTerm) :=
  match Encoding.run true descs with
  | .ok c => pure (Encoding.designTerms c)
  | .error er => .error (.encoding er)

/-- evaluation of the coded common terms -/
def evalCommon (env : Env) (atoms : List (String × Expr)) (coded : List Encoding.CodedTerm) :
    Except PErr (List (String × Option TermOut)) :=
  coded.mapM (fun (ct : Encoding.CodedTerm) =>
    if ct.2.isEmpty && ct.1 == "Intercept" then pure (ct.1, none)
    else do
      let out ← liftE (trainTerm env atoms ⟨ct.1, ct.2.map (fun p => (p.1.name, p.2))⟩ false false)
      pure (ct.1, some out))

/-- the common part of `designMatrices`, literally the same steps: kinds, redundancy analysis,
evaluation -/
def commonPart (env : Env) (atoms : List (String × Expr)) (common : List Terms.CTerm) :
    Except PErr (List (String × Option TermOut)) := do
  let descs ← descsOf env atoms common
  let coded ← codedOf descs
  evalCommon env atoms coded

/-- one group-specific term of `designMatrices` -/
def groupOne (env : Env) (atoms : List (String × Expr)) (all : List Terms.GTerm) (g : Terms.GTerm) :
    Except PErr GroupOut := do
  let flag := match g.expr with
    | .intercept => true
    | _ => !(all.any (fun t => t.factor == g.factor && t.expr == .intercept))
  let factor ← match specOf g.factor true with
    | some s => pure s
    | none => .error (.shape "grouping factor is not a term")
  let expr ← match g.expr with
    | .intercept => pure none
    | t => match specOf t flag with
      | some s => pure (some s)
      | none => .error (.shape "effect is not a term")
  liftE (trainGroup env atoms ⟨gName g, expr, factor⟩)

/-- the group-specific part of `designMatrices` -/
def groupPart (env : Env) (atoms : List (String × Expr)) (group : List Terms.GTerm) :
    Except PErr (List GroupOut) :=
  (dictByName gName group).mapM (fun g => groupOne env atoms group g)

/-- common and group-specific parts as a function of the resolved right-hand side, the component
table and the environment (frame after the NA step + caller's names) -/
def predictors (common : List Terms.CTerm) (group : List Terms.GTerm) (atoms : List (String × Expr))
    (env : Env) : Except PErr (List (String × Option TermOut) × List GroupOut) := do
  let c ← commonPart env atoms common
  let g ← groupPart env atoms group
  pure (c, g)

/-- the response part -/
def responsePart (env : Env) (atoms : List (String × Expr)) (resp : Option (List Terms.Atom)) :
    Except PErr (Option TermOut) :=
  match resp with
  | none => pure none
  | some cs => do
    let out ← liftE (trainTerm env atoms ⟨(Terms.CTerm.term cs).name, cs.map (fun a => (a.name, true))⟩ false true)
    pure (some out)

/-- the columns the NA step looks at -/
def usedCols (e : Expr) (f : Frame) : List String :=
  (NA.formulaVars e).filter ((f.map (·.name)).contains ·)

/-- `designMatrices` factored: front end (scanner, parser, resolver, NA step), then the predictors
and the response separately -/
theorem designMatrices_factor (T : Parser.Table) (ops : Resolver.OpTable) (actions : List String)
    (formula : String) (env : Env) (naAction : String) (b : Built)
    (h : designMatrices T ops actions formula env naAction = .ok b) :
    ∃ ts e m,
      Scanner.scan formula.toList = .ok ts ∧ Parser.parse T ts = .ok e ∧
      Resolver.describe ops e = .ok m ∧
      NA.naStep actions naAction (usedCols e env.frame) env.frame = .ok b.frame ∧
      predictors m.common m.group (atomTable e) { env with frame := b.frame } = .ok (b.common, b.group) ∧
      responsePart { env with frame := b.frame } (atomTable e) m.resp = .ok b.response := by
  unfold designMatrices designMatricesWith at h
  simp only [bind, Except.bind, pure, Except.pure] at h
  repeat' split at h
  all_goals try (cases h; done)
  all_goals cases h
  · rename_i ts h1 _ e h2 _ m h3 _ f h4 _ descs h5 _ c h6 _ cm h7 _ g h8 _ hr
    have hc : commonPart { env with frame := f } (atomTable e) m.common = .ok cm := by
      simp only [commonPart, descsOf, codedOf, evalCommon, bind, Except.bind, pure, Except.pure, h5, h6]
      exact h7
    have hg : groupPart { env with frame := f } (atomTable e) m.group = .ok g := by
      simp only [groupPart, groupOne, bind, Except.bind, pure, Except.pure]
      exact h8
    refine ⟨ts, e, m, h1, h2, h3, h4, ?_, ?_⟩
    · simp only [predictors, hc, hg, bind, Except.bind, pure, Except.pure]
    · simp only [responsePart, hr, pure, Except.pure]
  · rename_i ts h1 _ e h2 _ m h3 _ f h4 _ descs h5 _ c h6 _ cm h7 _ g h8 _ cs hr _ out h9
    have hc : commonPart { env with frame := f } (atomTable e) m.common = .ok cm := by
      simp only [commonPart, descsOf, codedOf, evalCommon, bind, Except.bind, pure, Except.pure, h5, h6]
      exact h7
    have hg : groupPart { env with frame := f } (atomTable e) m.group = .ok g := by
      simp only [groupPart, groupOne, bind, Except.bind, pure, Except.pure]
      exact h8
    refine ⟨ts, e, m, h1, h2, h3, h4, ?_, ?_⟩
    · simp only [predictors, hc, hg, bind, Except.bind, pure, Except.pure]
    · simp only [responsePart, hr, h9, bind, Except.bind, pure, Except.pure]

-- ---------------------------------------------------------------------------------------------
-- what the predictors read
-- ---------------------------------------------------------------------------------------------
/-- component names of a term of the model description -/
def termNames : Terms.CTerm → List String
  | .term cs => cs.map Terms.Atom.name
  | _ => []

/-- the component names of the right-hand side: common terms, effects and grouping factors -/
def predictorNames (common : List Terms.CTerm) (group : List Terms.GTerm) : List String :=
  common.flatMap termNames ++ group.flatMap (fun g => termNames g.expr ++ termNames g.factor)

/-- two runs *agree on the component* `n`: both component tables give it the same expression (or
both none), both frames give the same columns to the names that expression reads -/
def AgreeOn (env₁ env₂ : Env) (t₁ t₂ : List (String × Expr)) (n : String) : Prop :=
  compExpr t₁ n = compExpr t₂ n ∧
  ∀ e, compExpr t₁ n = .ok e → ∀ c ∈ compNames n e, env₁.frame.col? c = env₂.frame.col? c

theorem mapM_congr_mem' {ε α β : Type} (f g : α → Except ε β) (xs : List α) (h : ∀ x ∈ xs, f x = g x) :
    xs.mapM f = xs.mapM g := by
  induction xs with
  | nil => rfl
  | cons x xs ih =>
    simp only [List.mapM_cons, h x (by simp), ih (fun y hy => h y (by simp [hy]))]

section congr
variable (env₁ env₂ : Env) (t₁ t₂ : List (String × Expr))
variable (hnames : env₁.names = env₂.names) (hrows : env₁.frame.nrows = env₂.frame.nrows)
include hnames hrows

theorem compRun_congr (n : String) (forced isResponse full : Bool) (h : AgreeOn env₁ env₂ t₁ t₂ n) :
    (do trainComp env₁ n (← compExpr t₁ n) forced isResponse full) =
    (do trainComp env₂ n (← compExpr t₂ n) forced isResponse full) := by
  obtain ⟨h1, h2⟩ := h
  rw [← h1]
  cases hc : compExpr t₁ n with
  | error _ => rfl
  | ok e =>
    simp only [bind, Except.bind]
    obtain ⟨f1, n1⟩ := env₁
    obtain ⟨f2, n2⟩ := env₂
    simp only at hnames hrows
    subst hnames
    exact trainComp_agree f1 f2 n1 n e forced isResponse full hrows (h2 e hc)

theorem trainTerm_congr (spec : TermSpec) (forced isResponse : Bool)
    (h : ∀ c ∈ spec.comps, AgreeOn env₁ env₂ t₁ t₂ c.1) :
    trainTerm env₁ t₁ spec forced isResponse = trainTerm env₂ t₂ spec forced isResponse := by
  unfold trainTerm
  rw [mapM_congr_mem' _ (fun (c : String × Bool) => do
    trainComp env₂ c.1 (← compExpr t₂ c.1) forced isResponse c.2)]
  intro c hc
  exact compRun_congr env₁ env₂ t₁ t₂ hnames hrows c.1 forced isResponse c.2 (h c hc)

theorem trainGroup_congr (spec : GroupSpec)
    (hf : ∀ c ∈ spec.factor.comps, AgreeOn env₁ env₂ t₁ t₂ c.1)
    (he : ∀ ts, spec.expr = some ts → ∀ c ∈ ts.comps, AgreeOn env₁ env₂ t₁ t₂ c.1) :
    trainGroup env₁ t₁ spec = trainGroup env₂ t₂ spec := by
  have h1 := trainTerm_congr env₁ env₂ t₁ t₂ hnames hrows
    { spec.factor with comps := spec.factor.comps.map (fun c => (c.1, true)) } true false (by
    intro c hc
    simp only [List.mem_map] at hc
    obtain ⟨c', hc', rfl⟩ := hc
    exact hf c' hc')
  unfold trainGroup
  cases hs : spec.expr with
  | none => simp only [hrows, h1]
  | some ts =>
    simp only [hrows, h1, trainTerm_congr env₁ env₂ t₁ t₂ hnames hrows ts false false (he ts hs)]

theorem compKind_congr (a : Terms.Atom) (h : AgreeOn env₁ env₂ t₁ t₂ a.name) :
    compKind env₁ t₁ a = compKind env₂ t₂ a := by
  have hr := compRun_congr env₁ env₂ t₁ t₂ hnames hrows a.name false false false h
  unfold compKind
  rw [← h.1]
  cases hc : compExpr t₁ a.name with
  | error _ => rfl
  | ok e =>
    rw [← h.1, hc] at hr
    simp only [bind, Except.bind] at hr
    simp only [bind, Except.bind, liftE, hr]

theorem termDesc_congr (t : Terms.CTerm) (h : ∀ n ∈ termNames t, AgreeOn env₁ env₂ t₁ t₂ n) :
    termDesc env₁ t₁ t = termDesc env₂ t₂ t := by
  cases t with
  | intercept => rfl
  | negIntercept => rfl
  | term cs =>
    cases cs with
    | nil => rfl
    | cons a as =>
      simp only [termDesc]
      rw [compKind_congr env₁ env₂ t₁ t₂ hnames hrows a (h _ (by simp [termNames]))]
      rw [mapM_congr_mem' (compKind env₁ t₁) (compKind env₂ t₂) as (fun x hx =>
        compKind_congr env₁ env₂ t₁ t₂ hnames hrows x (h _ (by
          simp only [termNames, List.map_cons, List.mem_cons, List.mem_map]
          exact Or.inr ⟨x, hx, rfl⟩)))]

theorem descsOf_congr (common : List Terms.CTerm)
    (h : ∀ n ∈ common.flatMap termNames, AgreeOn env₁ env₂ t₁ t₂ n) :
    descsOf env₁ t₁ common = descsOf env₂ t₂ common := by
  unfold descsOf
  apply mapM_congr_mem'
  intro t ht
  apply termDesc_congr env₁ env₂ t₁ t₂ hnames hrows
  intro n hn
  exact h n (List.mem_flatMap.mpr ⟨t, ht, hn⟩)

theorem evalCommon_congr (coded : List Encoding.CodedTerm)
    (h : ∀ ct ∈ coded, ∀ p ∈ ct.2, AgreeOn env₁ env₂ t₁ t₂ p.1.name) :
    evalCommon env₁ t₁ coded = evalCommon env₂ t₂ coded := by
  unfold evalCommon
  apply mapM_congr_mem'
  intro ct hct
  rw [trainTerm_congr env₁ env₂ t₁ t₂ hnames hrows _ false false (by
    intro c hc
    simp only [List.mem_map] at hc
    obtain ⟨p, hp, rfl⟩ := hc
    exact h ct hct p hp)]

theorem groupOne_congr (all : List Terms.GTerm) (g : Terms.GTerm)
    (h : ∀ n ∈ termNames g.expr ++ termNames g.factor, AgreeOn env₁ env₂ t₁ t₂ n) :
    groupOne env₁ t₁ all g = groupOne env₂ t₂ all g := by
  unfold groupOne
  cases hf : specOf g.factor true with
  | none => rfl
  | some fs =>
    have hfs : ∀ c ∈ fs.comps, AgreeOn env₁ env₂ t₁ t₂ c.1 := by
      intro c hc
      cases hgf : g.factor with
      | term cs =>
        rw [hgf] at hf
        simp only [specOf, Option.some.injEq] at hf
        subst hf
        simp only [List.mem_map] at hc
        obtain ⟨a, ha, rfl⟩ := hc
        exact h _ (by simp only [hgf, termNames, List.mem_append, List.mem_map]; exact Or.inr ⟨a, ha, rfl⟩)
      | intercept => rw [hgf] at hf; simp [specOf] at hf
      | negIntercept => rw [hgf] at hf; simp [specOf] at hf
    cases hge : g.expr with
    | intercept =>
      simp only [bind, Except.bind, pure, Except.pure]
      rw [trainGroup_congr env₁ env₂ t₁ t₂ hnames hrows _ hfs (by intro ts hts; simp at hts)]
    | negIntercept => rfl
    | term cs =>
      simp only [bind, Except.bind, pure, Except.pure, specOf]
      rw [trainGroup_congr env₁ env₂ t₁ t₂ hnames hrows _ hfs (by
        intro ts hts c hc
        simp only [Option.some.injEq] at hts
        subst hts
        simp only [List.mem_map] at hc
        obtain ⟨a, ha, rfl⟩ := hc
        exact h _ (by simp only [hge, termNames, List.mem_append, List.mem_map]; exact Or.inl ⟨a, ha, rfl⟩))]

end congr

theorem mapM_mem' {ε α β : Type} (f : α → Except ε β) : ∀ (xs : List α) (ys : List β),
    xs.mapM f = .ok ys → ∀ y ∈ ys, ∃ x ∈ xs, f x = .ok y := by
  intro xs
  induction xs with
  | nil =>
    intro ys h y hy
    simp only [List.mapM_nil, pure, Except.pure, Except.ok.injEq] at h
    subst h; simp at hy
  | cons x xs ih =>
    intro ys h y hy
    simp only [List.mapM_cons, bind, Except.bind, pure, Except.pure] at h
    split at h
    · simp at h
    · rename_i y0 hy0
      split at h
      · simp at h
      · rename_i ys0 hys0
        simp only [Except.ok.injEq] at h
        subst h
        simp only [List.mem_cons] at hy
        rcases hy with hy | hy
        · subst hy; exact ⟨x, by simp, hy0⟩
        · obtain ⟨x', hx', hf⟩ := ih _ hys0 y hy
          exact ⟨x', by simp [hx'], hf⟩

theorem compKind_name (env : Env) (table : List (String × Expr)) (a : Terms.Atom) (c : Encoding.Comp)
    (h : compKind env table a = .ok c) : c.name = a.name := by
  simp only [compKind, bind, Except.bind, pure, Except.pure] at h
  repeat' split at h
  all_goals first | (simp at h; done) | (simp only [Except.ok.injEq] at h; subst h; rfl)

theorem termDesc_names (env : Env) (table : List (String × Expr)) (t : Terms.CTerm) (d : Encoding.TermDesc)
    (h : termDesc env table t = .ok d) : ∀ c ∈ d.comps, c.name ∈ termNames t := by
  cases t with
  | intercept =>
    simp only [termDesc, pure, Except.pure, Except.ok.injEq] at h
    subst h; intro c hc; simp [Encoding.TermDesc.comps] at hc
  | negIntercept => simp [termDesc] at h
  | term cs =>
    cases cs with
    | nil => simp [termDesc] at h
    | cons a as =>
      simp only [termDesc, bind, Except.bind, pure, Except.pure] at h
      split at h
      · simp at h
      · rename_i c0 hc0
        split at h
        · simp at h
        · rename_i cs0 hcs0
          simp only [Except.ok.injEq] at h
          subst h
          intro c hc
          simp only [Encoding.TermDesc.comps, List.mem_cons] at hc
          simp only [termNames, List.map_cons, List.mem_cons, List.mem_map]
          rcases hc with hc | hc
          · subst hc; exact Or.inl (compKind_name env table a _ hc0)
          · obtain ⟨x, hx, hf⟩ := mapM_mem' _ _ _ hcs0 c hc
            exact Or.inr ⟨x, hx, (compKind_name env table x c hf).symm⟩

theorem descsOf_names (env : Env) (table : List (String × Expr)) (common : List Terms.CTerm)
    (descs : List Encoding.TermDesc) (h : descsOf env table common = .ok descs) :
    Encoding.NamesIn (common.flatMap termNames) descs := by
  intro d hd c hc
  obtain ⟨t, ht, hf⟩ := mapM_mem' _ _ _ h d hd
  exact List.mem_flatMap.mpr ⟨t, ht, termDesc_names env table t d hf c hc⟩

theorem dictByName_mem {α : Type} (name : α → String) (xs : List α) : ∀ x ∈ dictByName name xs, x ∈ xs := by
  unfold dictByName
  suffices h : ∀ (ys d : List α), (∀ x ∈ d, x ∈ xs) → (∀ y ∈ ys, y ∈ xs) →
      ∀ x ∈ ys.foldl (fun d x =>
        if d.any (fun y => name y == name x) then d.map (fun y => if name y == name x then x else y)
        else d ++ [x]) d, x ∈ xs from h xs [] (by simp) (fun y hy => hy)
  intro ys
  induction ys with
  | nil => intro d hd _ x hx; exact hd x hx
  | cons y ys ih =>
    intro d hd hy x hx
    simp only [List.foldl_cons] at hx
    refine ih _ ?_ (fun z hz => hy z (List.mem_cons_of_mem _ hz)) x hx
    intro z hz
    split at hz
    · simp only [List.mem_map] at hz
      obtain ⟨w, hw, rfl⟩ := hz
      split
      · exact hy y (by simp)
      · exact hd w hw
    · simp only [List.mem_append, List.mem_singleton] at hz
      rcases hz with hz | hz
      · exact hd z hz
      · subst hz; exact hy z (by simp)

/-- **the predictors read only the components of the right-hand side**: two runs (different
component tables, different frames) that agree on every component named by the common terms, the
effects and the grouping factors give the same common and group-specific parts, errors included -/
theorem predictors_congr (env₁ env₂ : Env) (t₁ t₂ : List (String × Expr))
    (common : List Terms.CTerm) (group : List Terms.GTerm)
    (hnames : env₁.names = env₂.names) (hrows : env₁.frame.nrows = env₂.frame.nrows)
    (h : ∀ n ∈ predictorNames common group, AgreeOn env₁ env₂ t₁ t₂ n) :
    predictors common group t₁ env₁ = predictors common group t₂ env₂ := by
  have hc : commonPart env₁ t₁ common = commonPart env₂ t₂ common := by
    unfold commonPart
    have hd := descsOf_congr env₁ env₂ t₁ t₂ hnames hrows common (fun n hn =>
      h n (by simp only [predictorNames, List.mem_append]; exact Or.inl hn))
    rw [hd]
    cases hds : descsOf env₂ t₂ common with
    | error _ => rfl
    | ok descs =>
      simp only [bind, Except.bind]
      cases hcd : codedOf descs with
      | error _ => rfl
      | ok coded =>
        simp only []
        apply evalCommon_congr env₁ env₂ t₁ t₂ hnames hrows
        intro ct hct p hp
        apply h
        simp only [predictorNames, List.mem_append]
        refine Or.inl ?_
        simp only [codedOf] at hcd
        split at hcd
        · rename_i c hrun
          simp only [pure, Except.pure, Except.ok.injEq] at hcd
          subst hcd
          exact Encoding.run_names _ true descs c (descsOf_names env₂ t₂ common descs hds) hrun ct hct p hp
        · simp at hcd
  have hg : groupPart env₁ t₁ group = groupPart env₂ t₂ group := by
    unfold groupPart
    apply mapM_congr_mem'
    intro g hg
    apply groupOne_congr env₁ env₂ t₁ t₂ hnames hrows
    intro n hn
    apply h
    simp only [predictorNames, List.mem_append, List.mem_flatMap]
    exact Or.inr ⟨g, dictByName_mem gName group g hg, by simpa using hn⟩
  unfold predictors
  rw [hc, hg]

-- ---------------------------------------------------------------------------------------------
-- `y₁ ~ rhs` and `y₂ ~ rhs` on one frame without missing values
-- ---------------------------------------------------------------------------------------------
/-- without an incomplete row the NA step returns the selection of the used columns -/
theorem naStep_complete (actions : List String) (action : String) (used : List String) (f f' : Frame)
    (hc : (NA.incompleteRows f.nrows (NA.selectCols used f)).any id = false)
    (h : NA.naStep actions action used f = .ok f') : f' = NA.selectCols used f := by
  unfold NA.naStep at h
  split at h
  · simp at h
  split at h
  · simp at h
  simp only [hc, Bool.false_eq_true, if_false, Except.ok.injEq] at h
  exact h.symm

theorem col?_selectCols (used : List String) (f : Frame) (n : String) :
    (NA.selectCols used f).col? n = if used.contains n then f.col? n else none := by
  unfold NA.selectCols Frame.col?
  induction f with
  | nil => simp
  | cons c cs ih =>
    simp only [List.filter_cons]
    by_cases hcn : (c.name == n) = true
    · have hcn' : c.name = n := by simpa using hcn
      by_cases hu : used.contains c.name = true
      · subst hcn'
        have hu2 : c.name ∈ used := by simpa using hu
        simp [hu2]
      · have hu' : used.contains n = false := by rw [← hcn']; simpa using hu
        simp only [hu, Bool.false_eq_true, if_false, ih, hu']
    · by_cases hu : used.contains c.name = true
      · simp only [hu, if_true, List.find?_cons, hcn, ih]
      · simp only [hu, Bool.false_eq_true, if_false, ih, List.find?_cons, hcn]

/-- a component whose name does not occur in the front part of the table is looked up in the rest -/
theorem compExpr_append_fresh (A R : List (String × Expr)) (n : String)
    (h : ∀ p ∈ A, p.1 ≠ n) : compExpr (A ++ R) n = compExpr R n := by
  unfold compExpr
  have : (A ++ R).find? (·.1 == n) = R.find? (·.1 == n) := by
    rw [List.find?_append]
    have : A.find? (·.1 == n) = none := by
      rw [List.find?_eq_none]
      intro p hp
      simpa using h p hp
    rw [this]; rfl
  rw [this]

/-- **same data, no missing values, two responses**: agreement on every right-hand-side component -/
theorem agreeOn_same_data (f : Frame) (names : List (String × Val)) (y₁ y₂ rhs : Expr) (op₁ op₂ : Token)
    (common : List Terms.CTerm) (group : List Terms.GTerm)
    (hfresh : ∀ p ∈ atomTable y₁ ++ atomTable y₂, p.1 ∉ predictorNames common group)
    (hshape : ∀ p ∈ atomTable rhs, p.1 ∈ predictorNames common group → isAtomShape p.2 = true) :
    ∀ n ∈ predictorNames common group,
      AgreeOn ⟨NA.selectCols (usedCols (.binary y₁ op₁ rhs) f) f, names⟩
        ⟨NA.selectCols (usedCols (.binary y₂ op₂ rhs) f) f, names⟩
        (atomTable (.binary y₁ op₁ rhs)) (atomTable (.binary y₂ op₂ rhs)) n := by
  intro n hn
  have h1 : compExpr (atomTable (.binary y₁ op₁ rhs)) n = compExpr (atomTable rhs) n := by
    simp only [atomTable]
    exact compExpr_append_fresh _ _ n (fun p hp he => hfresh p (by simp [hp]) (he ▸ hn))
  have h2 : compExpr (atomTable (.binary y₂ op₂ rhs)) n = compExpr (atomTable rhs) n := by
    simp only [atomTable]
    exact compExpr_append_fresh _ _ n (fun p hp he => hfresh p (by simp [hp]) (he ▸ hn))
  refine ⟨h1.trans h2.symm, ?_⟩
  intro e he c hc
  rw [h1] at he
  have hmem := compExpr_mem _ _ _ he
  have hv : c ∈ NA.formulaVars rhs :=
    atomTable_names rhs (n, e) hmem (hshape (n, e) hmem hn) c hc
  simp only [col?_selectCols, usedCols, NA.formulaVars]
  cases hcol : f.col? c with
  | none => simp
  | some col =>
    have hmemf : col ∈ f := by
      unfold Frame.col? at hcol
      exact List.mem_of_find?_eq_some hcol
    have hname : col.name = c := by
      unfold Frame.col? at hcol
      simpa using List.find?_some hcol
    have hex : ∃ a, a ∈ f ∧ a.name = c := ⟨col, hmemf, hname⟩
    simp [hv, hex]

end FormulaeModel.Pipeline
