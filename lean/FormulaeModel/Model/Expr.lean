import FormulaeModel.Model.Token
/-
Model of formulae/expr.py.  Unlike the Python AST the model keeps every consumed token
(parentheses, commas, brackets, braces), so that the yield of a tree is defined and "no token is
ignored" can be stated.  The structural content (what the Python classes hold) is recovered by
`Expr.sexp`, which is what the correspondence compares.
-/
namespace FormulaeModel

mutual
inductive Expr
  | assign (name : Expr) (eq : Token) (value : Expr)
  | grouping (lp : Token) (e : Expr) (rp : Token)
  | binary (l : Expr) (op : Token) (r : Expr)
  | unary (op : Token) (r : Expr)
  | call (callee : Expr) (lp : Token) (args : Args) (rp : Token)
  | brace (lb : Token) (e : Expr) (rb : Token)            -- `{e}`  =  Call(Variable("I"), [e])
  | variable (name : Token)
  | subset (name : Token) (lb : Token) (level : Expr) (rb : Token)   -- `name[level]`
  | quoted (t : Token)
  | literal (t : Token)
inductive Args
  | nil
  | last (e : Expr)
  | more (e : Expr) (comma : Token) (rest : Args)
end

mutual
/-- The yield: every token the parser consumed to build the tree, in order. -/
def Expr.flat : Expr → List Token
  | .assign n eq v => n.flat ++ eq :: v.flat
  | .grouping lp e rp => lp :: e.flat ++ [rp]
  | .binary l op r => l.flat ++ op :: r.flat
  | .unary op r => op :: r.flat
  | .call c lp as rp => c.flat ++ lp :: as.flat ++ [rp]
  | .brace lb e rb => lb :: e.flat ++ [rb]
  | .variable n => [n]
  | .subset n lb lv rb => n :: lb :: lv.flat ++ [rb]
  | .quoted t => [t]
  | .literal t => [t]
def Args.flat : Args → List Token
  | .nil => []
  | .last e => e.flat
  | .more e c rest => e.flat ++ c :: rest.flat
end

mutual
/-- Structural rendering that mirrors the Python AST classes (punctuation dropped). -/
def Expr.sexp : Expr → String
  | .assign n _ v => "(assign " ++ n.sexp ++ " " ++ v.sexp ++ ")"
  | .grouping _ e _ => "(group " ++ e.sexp ++ ")"
  | .binary l op r => "(bin " ++ op.kind.name ++ " " ++ l.sexp ++ " " ++ r.sexp ++ ")"
  | .unary op r => "(un " ++ op.kind.name ++ " " ++ r.sexp ++ ")"
  | .call c _ as _ => "(call " ++ c.sexp ++ as.sexp ++ ")"
  | .brace _ e _ => "(call (var I) " ++ e.sexp ++ ")"
  | .variable n => "(var " ++ n.lexeme ++ ")"
  | .subset n _ lv _ =>
    -- `Variable(identifier, level)`; an identifier level is turned into a string literal
    match lv with
    | .variable l => "(var " ++ n.lexeme ++ " (lit " ++ l.lexeme ++ "))"
    | _ => "(var " ++ n.lexeme ++ " " ++ lv.sexp ++ ")"
  | .quoted t => "(bq " ++ t.lexeme ++ ")"
  | .literal t => "(lit " ++ t.lexeme ++ ")"
def Args.sexp : Args → String
  | .nil => ""
  | .last e => " " ++ e.sexp
  | .more e _ rest => " " ++ e.sexp ++ rest.sexp
end

def Args.toList : Args → List Expr
  | .nil => []
  | .last e => [e]
  | .more e _ rest => e :: rest.toList

end FormulaeModel
