import FormulaeModel.Model.Contrasts
/-
Model of the coding pipeline of `Model.eval` (formulae/terms/terms.py) on an abstract family of
common terms: `_get_encoding_groups`, `_get_encoding_bools`, `add_extra_terms`,
`create_extra_term`, the selection `encodings[name][0]`, and `Term.set_data`'s
`spans_intercept.get(component.name, False)`.

The model mirrors the code *as it is*, including
  D6  `encodings[name][0]` on an empty list                      → `Err.indexError`
  D7  only the first of several codings of the second analysis is used
  D8  the numeric part is looked up by its `":"`-joined *name*, the group by its *set*
  D9  `create_extra_term` deep-copies typed `Call` components, which raises → `Err.deepcopy`
      (`envCopyable = false`: the captured environment holds modules, as for every ordinary caller)

No Mathlib imports: this file is linked into the driver.
-/
namespace FormulaeModel.Encoding
open FormulaeModel.Contrasts

inductive Kind | numeric | categoric
  deriving DecidableEq, Repr

/-- a component (`Variable` or `Call`) after `set_type`: name, kind, and whether it is a `Call` -/
structure Comp where
  name : String
  kind : Kind
  isCall : Bool
  deriving DecidableEq, Repr

/-- a common term: `Intercept()` or `Term(c, *cs)` (a `Term` has at least one component) -/
inductive TermDesc
  | intercept
  | term (c : Comp) (cs : List Comp)
  deriving DecidableEq, Repr

def TermDesc.comps : TermDesc → List Comp
  | .intercept => []
  | .term c cs => c :: cs

/-- `term.name` -/
def TermDesc.name : TermDesc → String
  | .intercept => "Intercept"
  | .term c cs => ":".intercalate ((c :: cs).map (·.name))

def TermDesc.isIntercept : TermDesc → Bool
  | .intercept => true
  | _ => false

inductive Err
  | contrasts (e : Contrasts.Err)   -- an `assert` of contrasts.py (AssertionError)
  | indexError                      -- `encodings[term.name][0]` on an empty list
  | deepcopy                        -- `deepcopy(components)` of a typed `Call` (TypeError)
  | emptyExtraTerm                  -- `Term()` without components (`self.components[0]`)
  | valueError                      -- `list.index` of an absent term
  | attributeError                  -- `Intercept` has no `.components`
  deriving DecidableEq, Repr

def Err.tag : Err → String
  | .contrasts e => "contrasts:" ++ e.tag
  | .indexError => "index_error" | .deepcopy => "deepcopy" | .emptyExtraTerm => "empty_extra_term"
  | .valueError => "value_error" | .attributeError => "attribute_error"

/-- what `_get_encoding_groups` stores per term: `term.kind` or, for interactions, the dictionary
`{c.name: c.kind}` -/
inductive CInfo
  | intercept
  | single (k : Kind)
  | inter (d : Dict Kind)

def cinfo : TermDesc → CInfo
  | .intercept => .intercept
  | .term c [] => .single c.kind
  | .term c cs => .inter ((c :: cs).foldl (fun d x => Dict.set d x.name x.kind) [])

/-- `common_terms.insert(0, common_terms.pop(intercept_idx))` for the first `Intercept` -/
def moveInterceptFirst (ts : List TermDesc) : List TermDesc :=
  match ts.findIdx? (·.isIntercept) with
  | none => ts
  | some i => .intercept :: ts.eraseIdx i

def componentsDict (ts : List TermDesc) : Dict CInfo :=
  (moveInterceptFirst ts).foldl (fun d t => Dict.set d t.name (cinfo t)) []

/-- one iteration of the loop that builds the purely categorical group -/
def categoricStep (g : Dict (List String)) (kv : String × CInfo) : Dict (List String) :=
  match kv.2 with
  | .single .categoric => Dict.set g kv.1 [kv.1]
  | .intercept => Dict.set g kv.1 []
  | .inter d => if d.all (fun e => e.2 == .categoric) then Dict.set g kv.1 d.keys else g
  | .single .numeric => g

def categoricGroup (components : Dict CInfo) : Dict (List String) :=
  components.foldl categoricStep []

/-- `set(a) == set(b)` for lists of names -/
def sameNames (a b : List String) : Bool := a.all (b.contains ·) && b.all (a.contains ·)

def setNth {α : Type} : List α → Nat → (α → α) → List α
  | [], _, _ => []
  | x :: xs, 0, f => f x :: xs
  | x :: xs, n + 1, f => x :: setNth xs n f

structure NumState where
  sets : List (List String)               -- numeric_group_sets
  groups : List (Dict (List String))      -- numeric_groups

/-- one iteration of the loop that determines the groups of numerics -/
def numericStep (components : Dict CInfo) (st : NumState) (kv : String × CInfo) : NumState :=
  match kv.2 with
  | .inter d =>
    let categoric := Dict.keys (d.filter (fun e => e.2 == .categoric))
    let numeric := Dict.keys (d.filter (fun e => e.2 == .numeric))
    if !categoric.isEmpty && !numeric.isEmpty then
      let numericPart := ":".intercalate numeric
      let st := if st.sets.any (sameNames numeric) then st
                else { sets := st.sets ++ [numeric], groups := st.groups ++ [[]] }
      let idx := (st.sets.findIdx? (sameNames numeric)).getD 0
      -- "Prevent full encoding when numeric part is present outside": looked up by *name*
      let groups := if components.has numericPart
                    then setNth st.groups idx (fun g => Dict.set g numericPart []) else st.groups
      let groups := setNth groups idx (fun g => Dict.set g kv.1 categoric)
      { st with groups := groups }
    else st
  | _ => st

def numericGroups (components : Dict CInfo) : List (Dict (List String)) :=
  (components.foldl (numericStep components) ({ sets := [], groups := [] } : NumState)).groups

/-- `Model._get_encoding_groups` -/
def encodingGroups (ts : List TermDesc) : List (Dict (List String)) :=
  let components := componentsDict ts
  categoricGroup components :: numericGroups components

def mapExcept {α β ε : Type} (f : α → Except ε β) : List α → Except ε (List β)
  | [] => .ok []
  | x :: xs =>
    match f x with
    | .error e => .error e
    | .ok y => match mapExcept f xs with
      | .error e => .error e
      | .ok ys => .ok (y :: ys)

/-- `Model._get_encoding_bools` -/
def encodingBools (ts : List TermDesc) : Except Err (Dict (List Coding)) :=
  match mapExcept pickContrasts (encodingGroups ts) with
  | .error e => .error (.contrasts e)
  | .ok l => .ok (l.foldl (fun result d => Dict.update result d) [])

/-- `Term(*components)`: duplicates dropped, first occurrence kept -/
def dedupKeepFirst : List Comp → List Comp → List Comp
  | acc, [] => acc
  | acc, c :: cs => if acc.contains c then dedupKeepFirst acc cs else dedupKeepFirst (acc ++ [c]) cs

/-- `create_extra_term(term, encoding, data, env)` -/
def createExtraTerm (envCopyable : Bool) (term : TermDesc) (encoding : Coding) : Except Err TermDesc :=
  match term with
  | .intercept => .error .attributeError
  | .term c cs =>
    let comps := c :: cs
    let componentNames := comps.map (·.name)
    -- [term.get_component(name) for name in component_names if name in encoding.keys()]
    let picked := (componentNames.filter (encoding.has ·)).filterMap
      (fun n => comps.find? (fun x => x.name == n))
    let picked := picked ++ comps.filter (fun x => x.kind == .numeric)
    if picked.any (·.isCall) && !envCopyable then .error .deepcopy      -- deepcopy(components)
    else match dedupKeepFirst [] picked with
      | [] => .error .emptyExtraTerm
      | d :: ds => .ok (.term d ds)

def insertAt {α : Type} : List α → Nat → α → List α
  | l, 0, x => x :: l
  | [], _ + 1, x => [x]
  | y :: ys, n + 1, x => y :: insertAt ys n x

/-- inner loop of `add_extra_terms` for one term: every sub-encoding but the last becomes an extra
term inserted at `common_terms.index(term)` -/
def insertExtras (envCopyable : Bool) (term : TermDesc) :
    List Coding → List TermDesc → Except Err (List TermDesc)
  | [], live => .ok live
  | sub :: subs, live =>
    match createExtraTerm envCopyable term sub with
    | .error e => .error e
    | .ok extra =>
      match live.findIdx? (· == term) with
      | none => .error .valueError
      | some i => insertExtras envCopyable term subs (insertAt live i extra)

/-- `Model.add_extra_terms`: loop over a copy of the original list, mutate the live list -/
def addExtraTermsLoop (envCopyable : Bool) (encodings : Dict (List Coding)) :
    List TermDesc → List TermDesc → Except Err (List TermDesc)
  | [], live => .ok live
  | term :: rest, live =>
    match Dict.get? encodings term.name with
    | some encoding =>
      if encoding.length > 1 then
        match insertExtras envCopyable term encoding.dropLast live with
        | .error e => .error e
        | .ok live' => addExtraTermsLoop envCopyable encodings rest live'
      else addExtraTermsLoop envCopyable encodings rest live
    | none => addExtraTermsLoop envCopyable encodings rest live

def addExtraTerms (envCopyable : Bool) (encodings : Dict (List Coding)) (ts : List TermDesc) :
    Except Err (List TermDesc) :=
  addExtraTermsLoop envCopyable encodings ts ts

/-- one evaluated term: name and, per component, the `spans_intercept_` flag handed to
`component.set_data` -/
abbrev CodedTerm := String × List (Comp × Bool)

/-- the final loop of `Model.eval` over `self.common_terms` for one term -/
def codeTerm (encodings : Dict (List Coding)) (t : TermDesc) : Except Err CodedTerm :=
  match Dict.get? encodings t.name with
  | some [] => .error .indexError                         -- encodings[term.name][0]
  | some (encoding :: _) =>
    .ok (t.name, t.comps.map (fun c => (c, (Dict.get? encoding c.name).getD false)))
  | none => .ok (t.name, t.comps.map (fun c => (c, false)))   -- encoding = False

/-- the list of common terms after `add_extra_terms`, or the error it raises -/
def secondFamily (envCopyable : Bool) (ts : List TermDesc) : Except Err (List TermDesc) :=
  match encodingBools ts with
  | .error e => .error e
  | .ok enc1 => addExtraTerms envCopyable enc1 ts

/-- the common-effects part of `Model.eval` -/
def run (envCopyable : Bool) (ts : List TermDesc) : Except Err (List CodedTerm) :=
  match secondFamily envCopyable ts with
  | .error e => .error e
  | .ok ts2 =>
    match encodingBools ts2 with
    | .error e => .error e
    | .ok enc2 => mapExcept (codeTerm enc2) ts2

/-- `CommonEffectsMatrix.__init__`: `{term.name: term for term in terms}` — one entry per name, at
the position of the first, holding the last -/
def designTerms (coded : List CodedTerm) : List CodedTerm :=
  coded.foldl (fun d t => Dict.set d t.1 t.2) []

end FormulaeModel.Encoding
