import FormulaeModel.Model.Expr
/-
Model of the term algebra in formulae/terms/terms.py: the classes Intercept, NegatedIntercept,
Term, GroupSpecificTerm, Response, Model and their operator overloads, branch by branch, including
the `NotImplemented -> TypeError` fall-through, the `ValueError`s, and the places where the
Python code builds a `Model(*terms)` without removing duplicates.

In-place mutation (`Model.__add__/__sub__/__or__` mutate and return `self`) becomes a returned
value: every value produced while resolving an AST is consumed exactly once by its parent node,
so the mutation is not observable there (checked by the correspondence, not assumed).
-/
namespace FormulaeModel.Terms
open FormulaeModel

/-- The `name` of a `Variable` component: an identifier, or the value of a literal. -/
inductive VName
  | str (s : String)          -- identifier, backquoted name, string literal
  | int (n : Int)             -- integer literal other than 0 / 1
  | flt (lexeme : String)     -- float literal other than 0.0 / 1.0 (identity by normalised text)
  | none                      -- the literal `None`
  deriving DecidableEq, Repr

/-- A component of a term (`Variable` or `Call`) with the identity the Python classes use at
model-description time (`kind` is still `None`): variables by name and level, calls by the
structural identity of the lazy call (`key`; `name` is `str(LazyCall)`).
Model equality is structural on both fields so that `==` is lawful. Python's identity ignores the
name; the two differ only when two calls have the same structure but print differently (keyword
arguments in a different order, `2` vs `2.0`, `True` vs `1`): the driver flags such formulas
(`ambiguous_identity`) and the harness does not compare them. -/
inductive Atom
  | var (name : VName) (level : Option String)
  | call (name : String) (key : String)
  deriving DecidableEq, Repr

def VName.text : VName → String
  | .str s => s
  | .int n => toString n
  | .flt s => s
  | .none => "None"

def Atom.name : Atom → String
  | .var n _ => n.text
  | .call n _ => n

/-- `isinstance(component.name, (int, float))` -/
def Atom.isNumericName : Atom → Bool
  | .var (.int _) _ => true
  | .var (.flt _) _ => true
  | _ => false

/-- Members of `Model.common_terms`. -/
inductive CTerm
  | intercept
  | negIntercept
  | term (cs : List Atom)
  deriving DecidableEq, Repr

def CTerm.name : CTerm → String
  | .intercept => "Intercept"
  | .negIntercept => "NegatedIntercept"
  | .term cs => ":".intercalate (cs.map Atom.name)

/-- `GroupSpecificTerm(expr, factor)`. -/
structure GTerm where
  expr : CTerm
  factor : CTerm
  deriving DecidableEq, Repr

structure ModelV where
  common : List CTerm := []
  group : List GTerm := []
  resp : Option (List Atom) := none
  deriving Repr

inductive Obj
  | c (t : CTerm)             -- Intercept / NegatedIntercept / Term
  | g (t : GTerm)             -- a bare GroupSpecificTerm (from `1 | g`)
  | response (cs : List Atom)
  | model (m : ModelV)
  deriving Repr

inductive Err
  | typeError       -- NotImplemented fall-through, missing operator, unhashable NegatedIntercept
  | valueError
  | attributeError  -- `.components` of an Intercept, `.callee` …
  | other
  deriving DecidableEq, Repr

abbrev R := Except Err Obj

/-- `Term(*components)`: duplicates removed, first occurrence kept. -/
def dedup [BEq α] : List α → List α
  | [] => []
  | a :: rest => a :: (dedup rest).filter (fun b => !(b == a))

/-- `[f(x) for x in xs]` where `f` may raise: the first exception propagates. -/
def mapE (f : α → Except Err β) : List α → Except Err (List β)
  | [] => pure []
  | x :: xs => do
    let y ← f x
    let ys ← mapE f xs
    pure (y :: ys)

def mkTerm (cs : List Atom) : CTerm := .term (dedup cs)

/-- `Model(*terms)`: no de-duplication. -/
def mkModelFrom (m : ModelV) : List Obj → Except Err ModelV
  | [] => pure m
  | .c x :: ts => mkModelFrom { m with common := m.common ++ [x] } ts
  | .g x :: ts => mkModelFrom { m with group := m.group ++ [x] } ts
  | _ :: _ => .error .valueError

def mkModel (ts : List Obj) : Except Err ModelV := mkModelFrom {} ts

def modelOfC (ts : List CTerm) : ModelV := { common := ts }

/-- `Model.add_term` -/
def addTerm (m : ModelV) : Obj → Except Err ModelV
  | .g x => pure (if m.group.contains x then m else { m with group := m.group ++ [x] })
  | .c .negIntercept => .error .valueError
  | .c x => pure (if m.common.contains x then m else { m with common := m.common ++ [x] })
  | _ => .error .valueError

def terms (m : ModelV) : List Obj := m.common.map .c ++ m.group.map .g

/-- `Model.__add__(Model)` : `for term in other.terms: self.add_term(term)` -/
def addTerms (m : ModelV) : List Obj → Except Err ModelV
  | [] => pure m
  | t :: ts => do addTerms (← addTerm m t) ts

def addModel (m o : ModelV) : Except Err ModelV := addTerms m (terms o)

def removeFirst [BEq α] (x : α) : List α → List α
  | [] => []
  | y :: ys => if y == x then ys else y :: removeFirst x ys

/-- `.components` of a common term (AttributeError for the intercepts). -/
def comps : CTerm → Except Err (List Atom)
  | .term cs => pure cs
  | _ => .error .attributeError

/-- interaction of two common terms: `Term(*a.components, *b.components)` -/
def inter (a b : CTerm) : Except Err CTerm := do
  let x ← comps a
  let y ← comps b
  pure (mkTerm (x ++ y))

def numericSingle (t : CTerm) : Bool :=
  match t with
  | .term [a] => a.isNumericName
  | _ => false

/-- `set(self.terms)`: NegatedIntercept defines `__eq__` without `__hash__`, so it is unhashable. -/
def hashable (m : ModelV) : Bool :=
  !(m.common.contains .negIntercept) &&
  m.group.all (fun g => g.expr != .negIntercept && g.factor != .negIntercept)

def sameSet [BEq α] (a b : List α) : Bool := a.all b.contains && b.all a.contains

/-- `Model.__eq__` for two models (raises TypeError when a NegatedIntercept must be hashed). -/
def modelEq (a b : ModelV) : Except Err Bool :=
  if hashable a && hashable b then
    pure (sameSet a.common b.common && sameSet a.group b.group && a.resp == b.resp)
  else .error .typeError

-- ---------------------------------------------------------------------------------------------
-- operators
-- ---------------------------------------------------------------------------------------------

def add : Obj → Obj → R
  -- Intercept.__add__
  | .c .intercept, .c .negIntercept => pure (.model {})
  | .c .intercept, .c .intercept => pure (.c .intercept)
  | .c .intercept, o@(.c (.term _)) => do pure (.model (← mkModel [.c .intercept, o]))
  | .c .intercept, o@(.g _) => do pure (.model (← mkModel [.c .intercept, o]))
  | .c .intercept, .model m => do pure (.model (← addModel (modelOfC [.intercept]) m))
  -- NegatedIntercept.__add__
  | .c .negIntercept, .c .negIntercept => pure (.c .negIntercept)
  | .c .negIntercept, .c .intercept => pure (.model {})
  | .c .negIntercept, o@(.c (.term _)) => do pure (.model (← mkModel [.c .negIntercept, o]))
  | .c .negIntercept, o@(.g _) => do pure (.model (← mkModel [.c .negIntercept, o]))
  | .c .negIntercept, .model m => do pure (.model (← addModel (modelOfC [.negIntercept]) m))
  -- Term.__add__
  | .c (.term a), .c (.term b) =>
    if a == b then pure (.c (.term a)) else pure (.model (modelOfC [.term a, .term b]))
  | .c (.term a), .model m => do pure (.model (← addModel (modelOfC [.term a]) m))
  -- Response.__add__
  | .response r, .c (.term b) => pure (.model { common := [.term b], resp := some r })
  | .response r, .c .intercept => pure (.model { common := [.intercept], resp := some r })
  | .response r, .g x => pure (.model { group := [x], resp := some r })
  | .response r, .model m => pure (.model { m with resp := some r })
  -- Model.__add__
  | .model m, .c .negIntercept => pure (.model { m with common := removeFirst .intercept m.common })
  | .model m, o@(.c _) => do pure (.model (← addTerm m o))
  | .model m, o@(.g _) => do pure (.model (← addTerm m o))
  | .model m, .model o => do pure (.model (← addModel m o))
  | _, _ => .error .typeError

def sub : Obj → Obj → R
  -- Intercept.__sub__
  | .c .intercept, .c .intercept => pure (.model {})
  | .c .intercept, .c .negIntercept => pure (.c .intercept)
  | .c .intercept, .model m =>
    if m.common.contains .intercept then pure (.model {}) else pure (.c .intercept)
  -- Term.__sub__
  | .c (.term a), .c (.term b) => if a == b then pure (.model {}) else pure (.c (.term a))
  | .c (.term a), .model m =>
    if m.common.contains (.term a) then pure (.model {}) else pure (.c (.term a))
  -- Model.__sub__
  | .model m, .model o =>
    let c := o.common.foldl (fun acc t => removeFirst t acc) m.common
    let g := o.group.foldl (fun acc t => removeFirst t acc) m.group
    pure (.model { m with common := c, group := g })
  | .model _, .c .negIntercept => .error .typeError
  | .model m, .c t => pure (.model { m with common := removeFirst t m.common })
  | .model m, .g t => pure (.model { m with group := removeFirst t m.group })
  | _, _ => .error .typeError

/-- `Model(*terms) + Model(*iterms)` as used by `*`. -/
def addInteractions (base : List CTerm) (iterms : List CTerm) : Except Err ModelV :=
  addModel (modelOfC base) (modelOfC iterms)

def mul : Obj → Obj → R
  -- Term.__mul__
  | .c (.term a), .c (.term b) =>
    if a == b then pure (.c (.term a))
    else if numericSingle (.term b) then .error .typeError
    else pure (.model (modelOfC [.term a, .term b, mkTerm (a ++ b)]))
  | .c (.term a), .model m => do
    let iterms ← mapE (fun t => inter (.term a) t) m.common
    pure (.model (← addInteractions (.term a :: m.common) iterms))
  -- Model.__mul__
  | .model m, .model o => do
    if (← modelEq m o) then pure (.model m)
    else
      -- `if len(other.common_terms) == 1: components = other.common_terms[0].components`
      -- (the numeric check that follows can never fire, but the attribute access can fail)
      match o.common with
      | [single] => let _ ← comps single
      | _ => pure ()
      let iterms ← mapE (fun p => inter p.1 p.2)
        (m.common.flatMap (fun x => o.common.map (fun y => (x, y))))
      pure (.model (← addInteractions (m.common ++ o.common) iterms))
  | .model m, .c (.term b) => do
    if numericSingle (.term b) then .error .typeError
    else
      let iterms ← mapE (fun x => inter x (.term b)) m.common
      pure (.model (← addInteractions (m.common ++ [.term b]) iterms))
  | _, _ => .error .typeError

def matmul : Obj → Obj → R
  -- Term.__matmul__
  | .c (.term a), .c (.term b) =>
    if a == b then pure (.c (.term a))
    else if numericSingle (.term b) then .error .typeError
    else pure (.c (mkTerm (a ++ b)))
  | .c (.term a), .model m => do
    let iterms ← mapE (fun t => inter (.term a) t) m.common
    pure (.model (modelOfC iterms))
  -- Model.__matmul__
  | .model m, .model o => do
    let iterms ← mapE (fun p => inter p.1 p.2)
        (m.common.flatMap (fun x => o.common.map (fun y => (x, y))))
    pure (.model (modelOfC iterms))
  | .model m, .c (.term b) => do
    let iterms ← mapE (fun x => inter x (.term b)) m.common
    pure (.model (modelOfC iterms))
  | _, _ => .error .typeError

/-- `Model.common_components` -/
def commonComponents (m : ModelV) : List Atom :=
  m.common.flatMap (fun t => match t with | .term cs => cs | _ => [])

def div : Obj → Obj → R
  -- Term.__truediv__
  | .c (.term a), .c (.term b) =>
    if a == b then pure (.c (.term a))
    else if numericSingle (.term b) then .error .typeError
    else pure (.model (modelOfC [.term a, mkTerm (a ++ b)]))
  | .c (.term a), .model m => do
    let iterms ← mapE (fun t => inter (.term a) t) m.common
    pure (.model (← addModel (modelOfC [.term a]) (modelOfC iterms)))
  -- Model.__truediv__
  | .model m, .c (.term b) => do
    pure (.model (← addTerm m (.c (mkTerm (commonComponents m ++ b)))))
  | .model m, .model o => do
    let iterms := o.common.filterMap (fun t =>
      match t with
      | .term cs => some (mkTerm (commonComponents m ++ cs))
      | _ => none)
    pure (.model (← addModel m (modelOfC iterms)))
  | _, _ => .error .typeError

/-- `itertools.combinations(l, k)` -/
def combinations : List α → Nat → List (List α)
  | _, 0 => [[]]
  | [], _ + 1 => []
  | x :: xs, k + 1 => (combinations xs k).map (x :: ·) ++ combinations xs (k + 1)

def pow : Obj → Obj → R
  -- Term.__pow__: `c = other.components`
  | .c (.term a), .c (.term [.var (.int n) _]) =>
    if n ≥ 1 then pure (.c (.term a)) else .error .typeError
  | .c (.term _), .c (.term _) => .error .typeError
  | .c (.term _), _ => .error .attributeError
  -- Model.__pow__
  | .model m, .c (.term [.var (.int n) _]) =>
    if n ≥ 1 then do
      let combs := (List.range (n.toNat + 1)).flatMap (fun i =>
        if i ≥ 2 then combinations m.common i else [])
      let iterms ← mapE (fun ts => do
        let cs ← mapE comps ts
        pure (mkTerm cs.flatten)) combs
      pure (.model (← addModel m (modelOfC iterms)))
    else .error .other       -- UnboundLocalError: `comb` is never assigned
  | .model _, .c (.term [_]) => .error .other
  | .model _, _ => .error .valueError
  | _, _ => .error .typeError

def gts (effects : List CTerm) (factors : List CTerm) : List GTerm :=
  effects.flatMap (fun e => factors.map (fun f => ⟨e, f⟩))

/-- `|` with a left operand that is not a Model (Intercept / NegatedIntercept / Term). -/
def orC : CTerm → Obj → R
  -- Intercept.__or__
  | .intercept, .c (.term f) => pure (.g ⟨.intercept, .term f⟩)
  | .intercept, .model o => pure (.model { group := gts [.intercept] o.common })
  | .intercept, _ => .error .typeError
  -- NegatedIntercept.__or__
  | .negIntercept, _ => .error .valueError
  -- Term.__or__
  | .term a, .c (.term f) =>
    pure (.model { group := [⟨.intercept, .term f⟩, ⟨.term a, .term f⟩] })
  | .term a, .model o =>
    pure (.model { group := gts [.intercept] o.common ++ gts [.term a] o.common })
  | .term _, _ => .error .typeError

/-- The effect list `Model.__or__` distributes (its in-place intercept handling). -/
def effectList (m : ModelV) : List CTerm :=
  let hasI := m.common.contains .intercept
  let hasN := m.common.contains .negIntercept
  if hasI && hasN then removeFirst .negIntercept (removeFirst .intercept m.common)
  else if hasN then removeFirst .negIntercept m.common
  else if !hasI then .intercept :: m.common
  else m.common

def or_ : Obj → Obj → R
  | .c t, rhs => orC t rhs
  -- Model.__or__
  | .model m, rhs =>
    match m.common with
    | [single] => orC single rhs       -- `self.common_terms[0] | other`
    | _ =>
      match rhs with
      | .c (.term f) => pure (.model { group := gts (effectList m) [.term f] })
      | .model o => pure (.model { group := gts (effectList m) o.common })
      | _ => .error .typeError
  | _, _ => .error .typeError

/-- `Response(term)` -/
def mkResponse : Obj → R
  | .c (.term [a]) => pure (.response [a])
  | _ => .error .valueError

end FormulaeModel.Terms
