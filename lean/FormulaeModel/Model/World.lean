import FormulaeModel.Model.Matrices
/-
C07 — designs are isolated.  A state machine over histories of the four operations the property
quantifies over:

  build       `design_matrices(formula, frame, extra_namespace=names)`
  evalCommon  `designs[i].common.evaluate_new_data(frame)`
  evalGroup   `designs[i].group.evaluate_new_data(frame)`
  setConfig   `formulae.config[key] = value`

The state of the process (`World`) is what the library keeps between two calls: what every built
design remembers (`DesignState`: per term the component states with the transform state of their
call trees, the training matrices and slices) and the process-global `config` singleton.

*Prediction is explicit about state.*  `Model/Matrices.lean` models `eval_new_data` as functions
`newComp/newTerm/newGroup` that *discard* the transform state returned by the evaluator
(`let (v, _) ← posOnly (evalArg env st.expr (some st.tstate))`).  Here the same functions are given
in a state-returning form (`newCompS/newTermS/newGroupS`: output **and** the component/term/group
state after the call) and `step` writes that returned state back into the world.  "Evaluation
writes nothing" is therefore a theorem about `evalArg` run on a remembered state (prediction;
Properties/C07.lean, `C07_eval_pure`, under the invariant `shapeOf` that every state produced by an
evaluation satisfies), not a consequence of the types.  `newCompS_out` etc. (Proofs/World.lean) show that forgetting the
returned state gives exactly `newComp/newTerm/newGroup`, i.e. the evaluation model the other
properties are proved about.

As in the code, `config` is read when new data are evaluated (`eval_new_data_categoric`), never when
a design is built; `build` appends a design and touches nothing else.
-/
namespace FormulaeModel.World
open FormulaeModel FormulaeModel.Design

-- ---------------------------------------------------------------------------------------------
-- the shape of the transform state of a call tree
-- ---------------------------------------------------------------------------------------------
mutual
/-- `t` is a transform state that an evaluation of `e` can have produced: one node per node of the
lazy call tree, and the transform instance of every `center(…)` node holds its parameter
(`params_set = True`).  Every state returned by `evalArg` has this shape (Proofs/World.lean,
`evalArg_shape`); it is the invariant under which prediction leaves the state as it is. -/
def shapeOf : Expr → TS → Bool
  | .grouping _ e _, t => shapeOf e t
  | .variable _, .leaf => true
  | .subset _ _ _ _, .leaf => true
  | .quoted _, .leaf => true
  | .literal _, .leaf => true
  | .unary _ r, .node none [s] => shapeOf r s
  | .binary l _ r, .node none [a, b] => shapeOf l a && shapeOf r b
  | .call (.variable n) _ as _, .node own cs => (n.lexeme != "center" || own.isSome) && shapesOf as cs
  | .brace _ e _, .node none [s] => shapeOf e s
  | .assign _ _ v, t => shapeOf v t
  | _, _ => false
def shapesOf : Args → List TS → Bool
  | .nil, [] => true
  | .last e, [s] => shapeOf e s
  | .more e _ rest, s :: cs => shapeOf e s && shapesOf rest cs
  | _, _ => false
end

/-- a component state whose transform state fits its call tree (a `Variable` has none) -/
def compWf (st : CompState) : Bool :=
  match st.expr with
  | .call .. | .brace .. => shapeOf st.expr st.tstate
  | _ => true

def termWf (t : TermState) : Bool := t.comps.all compWf

def optTermWf : Option TermState → Bool
  | some t => termWf t
  | none => true

def groupWf (g : GroupState) : Bool := optTermWf g.expr && termWf g.factor

-- ---------------------------------------------------------------------------------------------
-- prediction, returning the state after the call
-- ---------------------------------------------------------------------------------------------
/-- `Call.eval_new_data`: output and the component state afterwards.  The stateful transform
instances of the call tree (`LazyCall.stateful_transform`) are the only thing `self.call.eval` can
write; what it returns for them is stored back. -/
def newCallS (st : CompState) (env : Env) (mode : UnseenMode) : M ((Matrix × Bool) × CompState) := do
  let n := env.frame.nrows
  match st.kind with
  | .offset =>
    match st.offsetConst with
    | some q => pure ((List.replicate n [some q], false), st)
    | none => do
      let (v, ts) ← posOnly (evalArg env st.expr (some st.tstate))
      match v with
      | .offsetVar xs => pure ((colOfEntries xs, false), { st with tstate := ts })
      | _ => .error .typeError
  | .proportion =>
    match st.propConst with
    | some q => pure ((List.replicate n [some q], false), st)
    | none =>
      match st.propTrialsName.bind env.frame.col? with
      | some c => match colVal c with
        | .vec xs _ => pure ((colOfEntries xs, false), st)
        | _ => .error .typeError
      | none => .error (.keyError "trials")
  | _ => do
    let (v, ts) ← posOnly (evalArg env st.expr (some st.tstate))
    let st' : CompState := { st with tstate := ts }
    if st.kind == .numeric then
      match v with
      | .vec xs _ => pure ((colOfEntries xs, false), st')
      | _ => .error (.unmodelled "numeric call returned a non-vector")
    else
      match v with
      | .box b => do pure (← newCategoric st mode b.data, st')
      | .lvec xs _ => do pure (← newCategoric st mode xs, st')
      | .vec xs _ => do pure (← newCategoric st mode (← numericLevels xs), st')
      | _ => .error .typeError

/-- `Variable/Call.eval_new_data` of one component: output and the component state afterwards.
A `Variable` has no call tree, hence no transform state: its state is returned as it is. -/
def newCompS (st : CompState) (env : Env) (mode : UnseenMode) : M ((Matrix × Bool) × CompState) :=
  match st.expr with
  | .call .. | .brace .. => newCallS st env mode
  | _ => (newComp st env mode).map (fun o => (o, st))

/-- `Term.eval_new_data`: output and the term state afterwards -/
def newTermS (t : TermState) (env : Env) (mode : UnseenMode) : M ((Matrix × Bool) × TermState) := do
  let outs ← t.comps.mapM (fun c => newCompS c env mode)
  pure ((reduceMatrices (outs.map (·.1.1)), outs.any (·.1.2)), { t with comps := outs.map (·.2) })

/-- `GroupSpecificTerm.eval_new_data`: output and the state of `expr` and `factor` afterwards -/
def newGroupS (g : GroupState) (env : Env) (mode : UnseenMode) : M ((Matrix × Bool) × GroupState) := do
  let n := env.frame.nrows
  let ((xi, w1), e') ← match g.expr with
    | none => pure ((onesCol n, false), none)
    | some t => do
      let (o, t') ← newTermS t env mode
      pure (o, some t')
  let ((ji, w2), f') ← newTermS g.factor env mode
  let isZeroRow := fun (r : List Entry) => r.all (fun x => x == some 0)
  let ji' := if ji.any isZeroRow then ji.map (fun r => r ++ [some (if isZeroRow r then 1 else 0)]) else ji
  pure ((khatriRao ji' xi, w1 || w2), { g with expr := e', factor := f' })

-- ---------------------------------------------------------------------------------------------
-- observable outputs
-- ---------------------------------------------------------------------------------------------
/-- what is observed of one matrix container -/
structure PartOut where
  matrix : Matrix
  labels : Option (List String)
  slices : List Slice
  info : List String            -- kinds of the terms; for the group part also the groups
  deriving DecidableEq, Repr

structure Built where
  response : Option PartOut
  common : Option PartOut
  group : Option PartOut
  deriving DecidableEq, Repr

/-- the canonical output of one operation (the same type is used for the implementation's
canonicalised output, so that `Spec.C07.holds` judges both) -/
inductive Out
  | built (b : Built)
  | evaluated (matrix : Matrix) (slices : List Slice) (newFactors : List String) (warn : Bool)
  | absent                       -- the design has no such part (`dm.group is None`)
  | configSet
  | raised (cls : String)        -- an exception, by class name
  | noDesign                     -- the index refers to no design
  deriving DecidableEq, Repr

def errClass : Err → String
  | .keyError _ => "KeyError"
  | .typeError => "TypeError"
  | .valueError _ => "ValueError"
  | .unmodelled w => "unmodelled:" ++ w

-- ---------------------------------------------------------------------------------------------
-- designs
-- ---------------------------------------------------------------------------------------------
/-- the arguments of `design_matrices` that matter here: the formula (as the table of its atoms
and the terms with the coding decisions, cf. Model/Design.lean) and the caller's namespace -/
structure BuildSpec where
  table : List (String × Expr)
  response : Option TermSpec
  common : List TermSpec            -- `Intercept` with no components = the intercept
  group : List GroupSpec
  names : List (String × Val)

/-- what a built design remembers -/
structure DesignState where
  names : List (String × Val)                       -- `self.env`
  common : List (String × Option TermState)         -- none = Intercept
  group : List (GroupState × Nat)                   -- with the training width (`self.slices`)
  train : Built                                     -- the training matrices, labels and slices

def DesignState.wf (d : DesignState) : Bool :=
  d.common.all (fun p => optTermWf p.2) && d.group.all (fun p => groupWf p.1)

def interceptPart (n : Nat) : String × Matrix × Option (List String) :=
  ("Intercept", onesCol n, some ["Intercept"])

def partOut (s : Stacked) (info : List String) : PartOut := ⟨s.matrix, s.labels, s.slices, info⟩

def trainResponse (env : Env) (spec : BuildSpec) : M (Option TermOut) :=
  match spec.response with
  | some r => do
    let t ← trainTerm env spec.table r false true
    pure (some t)
  | none => pure none

def trainCommon (env : Env) (spec : BuildSpec) : M (List (String × Option TermOut)) :=
  spec.common.mapM (fun (ts : TermSpec) => do
    if ts.name == "Intercept" && ts.comps.isEmpty then pure (ts.name, (none : Option TermOut))
    else do pure (ts.name, some (← trainTerm env spec.table ts false false)))

def trainGroups (env : Env) (spec : BuildSpec) : M (List GroupOut) :=
  spec.group.mapM (fun g => trainGroup env spec.table g)

/-- the three containers (`ResponseMatrix`, `CommonEffectsMatrix`, `GroupEffectsMatrix`.evaluate) -/
def containers (n : Nat) (response : Option TermOut) (common : List (String × Option TermOut))
    (group : List GroupOut) : Built :=
  let cs := stack n (common.map (fun p =>
    match p.2 with
    | none => interceptPart n
    | some o => (p.1, o.data, o.labels)))
  let gs := stack n (group.map (fun g => (g.st.name, g.data, g.labels)))
  { response := response.map (fun r => ⟨r.data, r.labels, [], [r.st.kind]⟩),
    common := if common.isEmpty then none else
      some (partOut cs (common.map (fun p => match p.2 with | none => "intercept" | some o => o.st.kind))),
    group := if group.isEmpty then none else
      some (partOut gs (group.map (·.st.kind) ++ group.map (fun g => ",".intercalate g.st.groups))) }

/-- `design_matrices`: `set_type` + `set_data` of every term, then the three containers -/
def buildDesign (spec : BuildSpec) (frame : Frame) : M (DesignState × Built) := do
  let env : Env := { frame, names := spec.names }
  let response ← trainResponse env spec
  let common ← trainCommon env spec
  let group ← trainGroups env spec
  let built := containers frame.nrows response common group
  pure ({ names := spec.names,
          common := common.map (fun p => (p.1, p.2.map (·.st))),
          group := group.map (fun g => (g.st, g.data.ncols)),
          train := built }, built)

/-- `CommonEffectsMatrix.evaluate_new_data`: output and the design state afterwards.
The slices of the result are the training object's (`new_instance.slices = self.slices`). -/
def evalCommonS (d : DesignState) (frame : Frame) (mode : UnseenMode) : M (Out × DesignState) := do
  match d.train.common with
  | none => pure (.absent, d)
  | some tc =>
    let env : Env := { frame, names := d.names }
    let n := frame.nrows
    let parts ← d.common.mapM (fun (p : String × Option TermState) =>
      match p.2 with
      | none => pure ((onesCol n, false), p)
      | some t => do
        let (o, t') ← newTermS t env mode
        pure (o, (p.1, some t')))
    pure (.evaluated (hstack (parts.map (·.1.1)) n) tc.slices [] (parts.any (·.1.2)),
          { d with common := parts.map (·.2) })

/-- `GroupEffectsMatrix.evaluate_new_data`: new slices from the new widths; a factor is reported
in `factors_with_new_levels` when the width of one of its terms differs from the training width -/
def evalGroupS (d : DesignState) (frame : Frame) (mode : UnseenMode) : M (Out × DesignState) := do
  match d.train.group with
  | none => pure (.absent, d)
  | some _ =>
    let env : Env := { frame, names := d.names }
    let n := frame.nrows
    let parts ← d.group.mapM (fun (p : GroupState × Nat) => do
      let (o, g') ← newGroupS p.1 env mode
      pure (o, (g', p.2)))
    let widths := parts.map (fun p => (p.2.1.name, p.1.1.ncols))
    let fwnl := parts.foldl (fun acc p =>
      if p.1.1.ncols != p.2.2 && !acc.contains p.2.1.factor.name
      then acc ++ [p.2.1.factor.name] else acc) ([] : List String)
    pure (.evaluated (hstack (parts.map (·.1.1)) n) (slices widths 0) fwnl (parts.any (·.1.2)),
          { d with group := parts.map (·.2) })

-- ---------------------------------------------------------------------------------------------
-- the world
-- ---------------------------------------------------------------------------------------------
def modeOfString? (s : String) : Option UnseenMode :=
  if s == "error" then some .error else if s == "warning" then some .warning
  else if s == "silent" then some .silent else none

def modeName : UnseenMode → String
  | .error => "error" | .warning => "warning" | .silent => "silent"

def configKey : String := "EVAL_UNSEEN_CATEGORIES"

structure World where
  designs : List DesignState
  config : UnseenMode

/-- every design's transform states fit their call trees (holds in every reachable world) -/
def World.wf (w : World) : Bool := w.designs.all DesignState.wf

/-- a freshly started process: no design, `Config()` defaults (the first choice) -/
def World.init : World := ⟨[], .error⟩

inductive Op
  | build (spec : BuildSpec) (frame : Frame)
  | evalCommon (i : Nat) (frame : Frame)
  | evalGroup (i : Nat) (frame : Frame)
  | setConfig (key value : String)

/-- One operation.  Evaluation writes back the design state *returned* by the evaluation; a failed
operation leaves the world as it was (see Spec/C07.lean for what this does and does not claim). -/
def step (w : World) : Op → World × Out
  | .build spec frame =>
    match buildDesign spec frame with
    | .ok (d, b) => ({ w with designs := w.designs ++ [d] }, .built b)
    | .error e => (w, .raised (errClass e))
  | .evalCommon i frame =>
    match w.designs[i]? with
    | none => (w, .noDesign)
    | some d =>
      match evalCommonS d frame w.config with
      | .ok (o, d') => ({ w with designs := w.designs.set i d' }, o)
      | .error e => (w, .raised (errClass e))
  | .evalGroup i frame =>
    match w.designs[i]? with
    | none => (w, .noDesign)
    | some d =>
      match evalGroupS d frame w.config with
      | .ok (o, d') => ({ w with designs := w.designs.set i d' }, o)
      | .error e => (w, .raised (errClass e))
  | .setConfig key value =>
    -- `Config.__setattr__`: KeyError for an unknown field, ValueError for an invalid choice
    if key != configKey then (w, .raised "KeyError")
    else match modeOfString? value with
      | some m => ({ w with config := m }, .configSet)
      | none => (w, .raised "ValueError")

/-- the world after a history -/
def run (w : World) : List Op → World
  | [] => w
  | o :: h => run (step w o).1 h

/-- the outputs of the operations of a history, in order -/
def outputs (w : World) : List Op → List Out
  | [] => []
  | o :: h => (step w o).2 :: outputs (step w o).1 h

/-- the design an operation adds to the process (`build` that does not raise), as a list -/
def Op.created : Op → List DesignState
  | .build spec frame =>
    match buildDesign spec frame with
    | .ok (d, _) => [d]
    | .error _ => []
  | _ => []

/-- the configuration after an operation -/
def Op.configured : Op → UnseenMode → UnseenMode
  | .setConfig key value, c =>
    if key != configKey then c
    else match modeOfString? value with
      | some m => m
      | none => c
  | _, c => c

/-- does this operation add a design to the process? -/
def Op.creates (o : Op) : Bool := !o.created.isEmpty

/-- does this operation change the configuration? -/
def Op.configures : Op → Bool
  | .setConfig key value => key == configKey && (modeOfString? value).isSome
  | _ => false

end FormulaeModel.World
