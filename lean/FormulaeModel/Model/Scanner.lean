import FormulaeModel.Model.Token
/-
Model of formulae/scanner.py (`Scanner.scan`, `scan_token`, `number`, `floatnum`, `identifier`,
`char`, `backquote`, the tilde count and the implicit intercept).  Input is restricted to ASCII:
Python's `str.isalpha/isdigit/isalnum` on non-ASCII characters are outside the model and such
inputs are answered with `ScanErr.nonAscii` ("not modelled"), which the harness does not compare.
-/
namespace FormulaeModel.Scanner
open FormulaeModel

inductive ScanErr
  | empty                    -- ScanError("'code' is a string of length 0.")
  | unexpected (c : Char)    -- ScanError("Unexpected character")
  | unterminatedString       -- ScanError("Unterminated string.")
  | unterminatedBackquote    -- IndexError raised by `advance` in `backquote`
  | tildes                   -- ScanError("There is more than one '~' in model formula")
  | nonAscii                 -- not modelled
  | fuel                     -- unreachable with fuel = length + 1
  deriving DecidableEq, Repr

def isWs (c : Char) : Bool := c == ' ' || c == '\n' || c == '\t' || c == '\r'
def isQuote (c : Char) : Bool := c == '\'' || c == '"'
def isIdChar (c : Char) : Bool := c.isAlphanum || c == '.' || c == '_'

def mk (k : Kind) (cs : List Char) : Token := ⟨k, String.ofList cs⟩

def pyLiterals : List String := ["True", "False", "None"]

/-- One call of `scan_token` at the head of the remaining input: the token it adds (none for
whitespace) and the remaining input. -/
def scanToken : List Char → Except ScanErr (Option Token × List Char)
  | [] => .error .empty
  | c :: cs =>
    if isQuote c then
      -- char(): advance until any quote character; the closing one need not match the opening one
      let (body, rest) := cs.span (fun d => !isQuote d)
      match rest with
      | [] => .error .unterminatedString
      | q :: rest' => .ok (some (mk .STRING (c :: body ++ [q])), rest')
    else if c == '(' then .ok (some (mk .LEFT_PAREN [c]), cs)
    else if c == ')' then .ok (some (mk .RIGHT_PAREN [c]), cs)
    else if c == '[' then .ok (some (mk .LEFT_BRACKET [c]), cs)
    else if c == ']' then .ok (some (mk .RIGHT_BRACKET [c]), cs)
    else if c == '{' then .ok (some (mk .LEFT_BRACE [c]), cs)
    else if c == '}' then .ok (some (mk .RIGHT_BRACE [c]), cs)
    else if c == '`' then
      let (body, rest) := cs.span (fun d => d != '`')
      match rest with
      | [] => .error .unterminatedBackquote
      | q :: rest' => .ok (some (mk .BQNAME (c :: body ++ [q])), rest')
    else if c == ',' then .ok (some (mk .COMMA [c]), cs)
    else if c == '.' then
      match cs with
      | d :: _ =>
        if d.isDigit then
          let (ds, rest) := cs.span Char.isDigit
          .ok (some (mk .NUMBER (c :: ds)), rest)
        else .ok (some (mk .PERIOD [c]), cs)
      | [] => .ok (some (mk .PERIOD [c]), cs)
    else if c == '+' then .ok (some (mk .PLUS [c]), cs)
    else if c == '-' then .ok (some (mk .MINUS [c]), cs)
    else if c == '/' then
      match cs with
      | '/' :: rest => .ok (some (mk .SLASH_SLASH ['/', '/']), rest)
      | _ => .ok (some (mk .SLASH [c]), cs)
    else if c == '*' then
      match cs with
      | '*' :: rest => .ok (some (mk .STAR_STAR ['*', '*']), rest)
      | _ => .ok (some (mk .STAR [c]), cs)
    else if c == '!' then
      match cs with
      | '=' :: rest => .ok (some (mk .BANG_EQUAL ['!', '=']), rest)
      | _ => .ok (some (mk .BANG [c]), cs)
    else if c == '=' then
      match cs with
      | '=' :: rest => .ok (some (mk .EQUAL_EQUAL ['=', '=']), rest)
      | _ => .ok (some (mk .EQUAL [c]), cs)
    else if c == '<' then
      match cs with
      | '=' :: rest => .ok (some (mk .LESS_EQUAL ['<', '=']), rest)
      | _ => .ok (some (mk .LESS [c]), cs)
    else if c == '>' then
      match cs with
      | '=' :: rest => .ok (some (mk .GREATER_EQUAL ['>', '=']), rest)
      | _ => .ok (some (mk .GREATER [c]), cs)
    else if c == '%' then .ok (some (mk .MODULO [c]), cs)
    else if c == '~' then .ok (some (mk .TILDE [c]), cs)
    else if c == ':' then .ok (some (mk .COLON [c]), cs)
    else if c == '|' then .ok (some (mk .PIPE [c]), cs)
    else if isWs c then .ok (none, cs)
    else if c.isDigit then
      -- number(): digits, then an optional fractional part that needs a digit after the dot
      let (ds, rest) := cs.span Char.isDigit
      match rest with
      | '.' :: d :: rest2 =>
        if d.isDigit then
          let (fs, rest3) := (d :: rest2).span Char.isDigit
          .ok (some (mk .NUMBER (c :: ds ++ '.' :: fs)), rest3)
        else .ok (some (mk .NUMBER (c :: ds)), rest)
      | _ => .ok (some (mk .NUMBER (c :: ds)), rest)
    else if c.isAlpha then
      let (body, rest) := cs.span isIdChar
      let lex := String.ofList (c :: body)
      if pyLiterals.contains lex then .ok (some ⟨.PYTHON_LITERAL, lex⟩, rest)
      else .ok (some ⟨.IDENTIFIER, lex⟩, rest)
    else .error (.unexpected c)

/-- The `while not self.at_end()` loop. -/
def scanLoop : Nat → List Char → Except ScanErr (List Token)
  | _, [] => .ok []
  | 0, _ :: _ => .error .fuel
  | n + 1, cs@(_ :: _) => do
    let (t, rest) ← scanToken cs
    let ts ← scanLoop n rest
    match t with
    | some t => pure (t :: ts)
    | none => pure ts

def one : Token := ⟨.NUMBER, "1"⟩
def plus : Token := ⟨.PLUS, "+"⟩

def isTilde (t : Token) : Bool := t.kind == .TILDE

/-- Insert the implicit `1 +` (after the tilde, or in front when there is none). -/
def addIntercept : List Token → List Token
  | ts =>
    if ts.any isTilde then
      let (pre, post) := ts.span (fun t => !isTilde t)
      match post with
      | tl :: rest => pre ++ tl :: one :: plus :: rest
      | [] => ts
    else one :: plus :: ts

/-- `Scanner(code).scan(add_intercept)`, without the trailing EOF token. -/
def scan (code : List Char) (addInt : Bool := true) : Except ScanErr (List Token) :=
  if code.isEmpty then .error .empty
  else if code.any (fun c => c.toNat ≥ 128) then .error .nonAscii
  else do
    let ts ← scanLoop (code.length + 1) code
    if (ts.filter isTilde).length > 1 then .error .tildes
    else pure (if addInt then addIntercept ts else ts)

end FormulaeModel.Scanner
