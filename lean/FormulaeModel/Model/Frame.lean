/-
Data model shared by the evaluation models (C04-C10, C15-C17): data frames with exact rational
cells, design-matrix entries (`none` = NaN), level values.

Generated numeric data are small integers / dyadic rationals, so every float operation the
implementation performs on them (outside scale/bs/poly) is exact and can be compared with these
rationals exactly.
-/
namespace FormulaeModel

/-- A level of a categorical: a string, or a number (grouping by an integer column, `C(k)`). -/
inductive Level
  | s (v : String)
  | n (q : Int)
  deriving DecidableEq, Repr, Inhabited

/-- `str(level)` -/
def Level.label : Level → String
  | .s v => v
  | .n q => toString q

/-- Python's `<` between two levels of the same type (`none`: TypeError for mixed types). -/
def Level.lt? : Level → Level → Option Bool
  | .s a, .s b => some (a < b)
  | .n a, .n b => some (a < b)
  | _, _ => none

/-- a cell of a data-frame column -/
inductive Cell
  | num (q : Rat)
  | str (s : String)
  | na
  deriving DecidableEq, Repr, Inhabited

inductive ColKind
  | numeric (isInt : Bool)
  | string
  | categorical (ordered : Bool) (categories : List String)
  deriving DecidableEq, Repr

structure Column where
  name : String
  kind : ColKind
  cells : List Cell
  deriving Repr

abbrev Frame := List Column

def Frame.col? (f : Frame) (name : String) : Option Column := f.find? (fun c => c.name == name)

def Frame.nrows (f : Frame) : Nat :=
  match f with
  | [] => 0
  | c :: _ => c.cells.length

def Frame.wellFormed (f : Frame) : Bool := f.all (fun c => c.cells.length == f.nrows)

/-- rows `is` of the frame, in that order (any subset, order, repetition) -/
def Frame.rows (f : Frame) (is : List Nat) : Frame :=
  f.map (fun c => { c with cells := is.map (fun i => c.cells.getD i .na) })

/-- an entry of a design matrix: a rational, or NaN -/
abbrev Entry := Option Rat

/-- row-major matrix; every row has `cols` entries -/
abbrev Matrix := List (List Entry)

def Entry.mul : Entry → Entry → Entry
  | some a, some b => some (a * b)
  | _, _ => none

def Matrix.ncols (m : Matrix) : Nat :=
  match m with
  | [] => 0
  | r :: _ => r.length

/-- `np.column_stack`: rows are concatenated side by side -/
def hstack : List Matrix → Nat → Matrix
  | [], n => List.replicate n []
  | m :: ms, n => List.zipWith (· ++ ·) m (hstack ms n)

/-- insertion sort with a Boolean order (stable), and duplicate removal: `sorted(set(xs))` -/
def insertBy (lt : α → α → Bool) (x : α) : List α → List α
  | [] => [x]
  | y :: ys => if lt x y then x :: y :: ys else y :: insertBy lt x ys

def sortBy (lt : α → α → Bool) (xs : List α) : List α := xs.foldr (insertBy lt) []

def dedupL [DecidableEq α] : List α → List α
  | [] => []
  | x :: xs => if xs.contains x then dedupL xs else x :: dedupL xs

/-- `sorted(set(levels))`; `none` when the levels are of mixed type (Python raises TypeError) -/
def sortLevels (ls : List Level) : Option (List Level) :=
  let u := dedupL ls
  let allS := u.all (fun l => match l with | .s _ => true | _ => false)
  let allN := u.all (fun l => match l with | .n _ => true | _ => false)
  if allS || allN then some (sortBy (fun a b => (a.lt? b).getD false) u) else none

end FormulaeModel
