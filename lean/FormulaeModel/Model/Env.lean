/-
Model of name resolution in formulae (property C11):

  formulae/environment.py            VarLookupDict, Environment (namespace, with_outer_namespace, capture)
  formulae/matrices.py               design_matrices: Environment.capture(env, reference=1),
                                     env.with_outer_namespace(extra_namespace), column selection
  formulae/terms/call.py             Call.set_type: Environment([{**TRANSFORMS, **ENCODINGS}])
                                                      .with_outer_namespace(env.namespace)
  formulae/terms/call_resolver.py    LazyVariable.eval, LazyCall.eval / get_function_from_module

Representation choices (stated once):

* A Python object is `Val.obj tag attrs`: an identity tag plus its attribute table.  Name
  resolution can observe nothing else of a value (which object came out; `getattr` on it).
* A Python `dict` is an association list `Scope := List (String × Val)` read with
  *first binding wins* (`Scope.lookup`).  `d[k] = v` is `(k, v) :: d` (`Scope.set`), so the latest
  assignment wins; the dict display `{**a, **b}` is `Scope.merge a b = b ++ a` (keys of `b`
  override keys of `a`).  A pandas data frame used as `data_mask[name]` is the same thing (columns).
* A namespace object handed to `VarLookupDict` / `Environment` is either such a dict or itself a
  `VarLookupDict` (`Ns.vld`): `Call.set_type` puts the *object* `env.namespace` (one
  `VarLookupDict`) as a single outer namespace of the call environment, so the lookup is nested.
* A call stack is a `List Frame`, innermost frame first; Python's `frame is None` is `[]`.
* The wiring facts that are source text (which constant is passed as `reference`, in which order
  the dicts are put into the lists) are not hard-wired: the model is parameterised by a `Wiring`
  record that `harness/extract_tables.py` regenerates from the source on every run
  (`Generated.c11Wiring`); `Properties/C11.lean` ties it to the documented wiring by `decide`.

No Mathlib imports (the driver links against this file).
-/
namespace FormulaeModel.Env

/-- A Python object as far as name resolution can see it. -/
inductive Val where
  | obj (tag : String) (attrs : List (String × Val))
  deriving Repr, Inhabited

mutual
def Val.decEq : (a b : Val) → Decidable (a = b)
  | .obj t₁ a₁, .obj t₂ a₂ =>
    if ht : t₁ = t₂ then
      match Val.attrsDecEq a₁ a₂ with
      | isTrue ha => isTrue (by rw [ht, ha])
      | isFalse ha => isFalse (by intro h; cases h; exact ha rfl)
    else isFalse (by intro h; cases h; exact ht rfl)
def Val.attrsDecEq : (a b : List (String × Val)) → Decidable (a = b)
  | [], [] => isTrue rfl
  | [], _ :: _ => isFalse (by simp)
  | _ :: _, [] => isFalse (by simp)
  | (k₁, v₁) :: r₁, (k₂, v₂) :: r₂ =>
    if hk : k₁ = k₂ then
      match Val.decEq v₁ v₂ with
      | isTrue hv =>
        match Val.attrsDecEq r₁ r₂ with
        | isTrue hr => isTrue (by rw [hk, hv, hr])
        | isFalse hr => isFalse (by intro h; cases h; exact hr rfl)
      | isFalse hv => isFalse (by intro h; cases h; exact hv rfl)
    else isFalse (by intro h; cases h; exact hk rfl)
end
instance : DecidableEq Val := Val.decEq

/-- A plain object without attributes (a vector, a function, …). -/
def Val.const (tag : String) : Val := .obj tag []
def Val.tag : Val → String
  | .obj t _ => t

/-- The exceptions the modelled code can raise. -/
inductive Err where
  | keyError (name : String)          -- `KeyError(key)` of `VarLookupDict.__getitem__` / `data_mask[name]`
  | attributeError (attr : String)    -- `getattr` on an object without that attribute; `None.f_locals`
  | valueError                        -- "call-stack is not that deep!"
  | typeError                         -- "'env' must be either an integer or an instance of Environment."
  | wiring (what : String)            -- the regenerated wiring table names something the model does not know
  deriving Repr, DecidableEq, Inhabited

def Err.className : Err → String
  | .keyError _ => "KeyError" | .attributeError _ => "AttributeError" | .valueError => "ValueError"
  | .typeError => "TypeError" | .wiring _ => "WiringError"

/-! ### dicts -/

abbrev Scope := List (String × Val)

/-- `d.get(name)` / `name in d` / `d[name]` of a Python dict: first binding wins. -/
def Scope.lookup : Scope → String → Option Val
  | [], _ => none
  | (k, v) :: r, n => if k = n then some v else Scope.lookup r n

/-- `d[name] = v` -/
def Scope.set (s : Scope) (n : String) (v : Val) : Scope := (n, v) :: s

/-- `{**a, **b}` -/
def Scope.merge (a b : Scope) : Scope := b ++ a

/-- `data[list(cols)]`: the columns whose name is in `cols`. -/
def Scope.select (s : Scope) (cols : List String) : Scope := s.filter (fun kv => cols.contains kv.1)

/-! ### VarLookupDict -/

/-- What can sit in the `_dicts` list of a `VarLookupDict` / the `_namespaces` of an `Environment`. -/
inductive Ns where
  | dict (s : Scope)
  | vld (dicts : List Ns)       -- a `VarLookupDict` object whose `_dicts` is `dicts`
  deriving Repr, Inhabited

/-- The wiring facts read from the source text. -/
structure Wiring where
  /-- `Environment.capture(env, reference=…)` in `design_matrices` -/
  reference : Nat
  /-- `for _ in range(depth + 1)` in `Environment.capture`: the constant added to `depth` -/
  captureLoopExtra : Nat
  /-- `cls([frame.f_locals, frame.f_globals])` in `Environment.capture` -/
  frameScopes : List String
  /-- `Environment([{**TRANSFORMS, **ENCODINGS}]).with_outer_namespace(env.namespace)` in `Call.set_type`:
      the namespaces of the call environment, in order (`"builtins"`, `"outer"`) -/
  callEnvOrder : List String
  /-- `LazyVariable.eval`: `data_mask[name]` first, on `KeyError` `env.namespace[name]` -/
  lazyVariableOrder : List String
  /-- `VarLookupDict.__init__`: `self._dicts = [{}] + list(dicts)` -/
  leadingEmptyDict : Bool
  /-- `with_outer_namespace`: `self._namespaces + [outer_namespace]` (appended, not prepended) -/
  outerAppended : Bool
  deriving Repr, DecidableEq, Inhabited

/-- `VarLookupDict(dicts)` -/
def VarLookupDict.new (W : Wiring) (dicts : List Ns) : Ns :=
  .vld (if W.leadingEmptyDict then .dict [] :: dicts else dicts)

mutual
/-- `ns[name]` with `KeyError` as `none`.  For a `VarLookupDict`:
    `for d in self._dicts: try: return d[key] except KeyError: pass` then `raise KeyError(key)`. -/
def Ns.lookup : Ns → String → Option Val
  | .dict s, n => s.lookup n
  | .vld ds, n => Ns.lookupList ds n
def Ns.lookupList : List Ns → String → Option Val
  | [], _ => none
  | d :: ds, n =>
    match d.lookup n with
    | some v => some v
    | none => Ns.lookupList ds n
end

/-- `__getitem__` -/
def Ns.getItem (ns : Ns) (n : String) : Except Err Val :=
  match ns.lookup n with
  | some v => .ok v
  | none => .error (.keyError n)

/-- `__contains__`: `try: self[key] except KeyError: return False else: return True` -/
def Ns.contains (ns : Ns) (n : String) : Bool :=
  match ns.getItem n with
  | .ok _ => true
  | .error _ => false

/-- `get(key, default)` -/
def Ns.get (ns : Ns) (n : String) (default : Val) : Val :=
  match ns.getItem n with
  | .ok v => v
  | .error _ => default

/-- `__setitem__`: `self._dicts[0][key] = value` (writes the first dict; `IndexError`/`TypeError`
    shapes that cannot arise from `VarLookupDict.new` with the leading `{}` are reported as `none`). -/
def Ns.set (ns : Ns) (n : String) (v : Val) : Option Ns :=
  match ns with
  | .vld (.dict s :: rest) => some (.vld (.dict (s.set n v) :: rest))
  | _ => none

/-- `keys()`: `[list(d.keys()) for d in self._dicts]` is not modelled (unused by the library). -/
def Scope.keys (s : Scope) : List String := s.map (·.1)

/-- All the dicts reachable from a namespace object, in lookup order. -/
def Ns.flatten : Ns → List Scope
  | .dict s => [s]
  | .vld ds => flattenList ds
where
  flattenList : List Ns → List Scope
    | [] => []
    | d :: ds => d.flatten ++ flattenList ds

/-! ### Environment -/

structure Environment where
  namespaces : List Ns
  deriving Repr, Inhabited

/-- The `namespace` property: `VarLookupDict(self._namespaces)` (a fresh object on every access). -/
def Environment.namespace (W : Wiring) (e : Environment) : Ns := VarLookupDict.new W e.namespaces

/-- `with_outer_namespace(outer)`: `self.__class__(self._namespaces + [outer_namespace])` -/
def Environment.withOuterNamespace (W : Wiring) (e : Environment) (outer : Ns) : Environment :=
  if W.outerAppended then ⟨e.namespaces ++ [outer]⟩ else ⟨outer :: e.namespaces⟩

/-- One Python frame: `f_locals`, `f_globals`. -/
structure Frame where
  locals : Scope
  globals : Scope
  deriving Repr, Inhabited

/-- The `env` argument of `design_matrices` / `Environment.capture`. -/
inductive EnvArg where
  | int (k : Int)                 -- `isinstance(env, numbers.Integral)`
  | env (e : Environment)         -- `isinstance(env, cls)`
  | other                         -- anything else
  deriving Repr, Inhabited

/-- `for _ in range(n): if frame is None: raise ValueError(…); frame = frame.f_back` -/
def walkBack : Nat → List Frame → Except Err (List Frame)
  | 0, st => .ok st
  | _ + 1, [] => .error .valueError
  | n + 1, _ :: st => walkBack n st

def frameScope (fr : Frame) (which : String) : Except Err Ns :=
  if which = "f_locals" then .ok (.dict fr.locals)
  else if which = "f_globals" then .ok (.dict fr.globals)
  else .error (.wiring which)

/-- `Environment.capture(env, reference)`.  `stack` is the call stack as `inspect.currentframe()`
    sees it inside `capture`: `capture`'s own frame first, then its caller, … -/
def capture (W : Wiring) (arg : EnvArg) (reference : Int) (stack : List Frame) :
    Except Err Environment :=
  match arg with
  | .env e => .ok e
  | .other => .error .typeError
  | .int k =>
    let depth := k + reference
    -- `range(depth + 1)` is empty for a negative bound
    match walkBack (depth + (W.captureLoopExtra : Int)).toNat stack with
    | .error e => .error e
    | .ok [] => .error (.attributeError "f_locals")     -- `frame` is `None` after the loop
    | .ok (fr :: _) =>
      match W.frameScopes.mapM (frameScope fr) with
      | .ok nss => .ok ⟨nss⟩
      | .error e => .error e

/-- `design_matrices`: `extra_namespace = extra_namespace or {}`,
    `env = Environment.capture(env, reference=…)`, `env = env.with_outer_namespace(extra_namespace)`.
    `stack` as in `capture` (index 0 `capture`, index 1 `design_matrices`, index 2 its caller, …). -/
def designEnv (W : Wiring) (arg : EnvArg) (stack : List Frame) (extra : Option Scope) :
    Except Err Environment :=
  let extraNs : Scope := match extra with
    | some x => x
    | none => []
  match capture W arg W.reference stack with
  | .error e => .error e
  | .ok e => .ok (e.withOuterNamespace W (.dict extraNs))

/-- `Call.set_type`: `transforms_env = Environment([{**TRANSFORMS, **ENCODINGS}])`,
    `self.env = transforms_env.with_outer_namespace(env.namespace)`: the call environment has
    the namespaces named by `W.callEnvOrder`. -/
def callEnv (W : Wiring) (builtins : Scope) (env : Environment) : Except Err Environment :=
  match W.callEnvOrder.mapM (fun which =>
      if which = "builtins" then Except.ok (Ns.dict builtins)
      else if which = "outer" then Except.ok (env.namespace W)
      else Except.error (Err.wiring which)) with
  | .ok nss => .ok ⟨nss⟩
  | .error e => .error e

/-- `LazyVariable.eval(data_mask, env)`:
    `try: data_mask[name] except KeyError: try: env.namespace[name] except KeyError as e: raise e`. -/
def argLookup (W : Wiring) (data : Scope) (env : Environment) (name : String) : Except Err Val :=
  go W.lazyVariableOrder
where
  go : List String → Except Err Val
    | [] => .error (.keyError name)
    | which :: rest =>
      let r : Except Err (Option Val) :=
        if which = "data" then .ok (data.lookup name)
        else if which = "env" then .ok ((env.namespace W).lookup name)
        else .error (.wiring which)
      match r with
      | .error e => .error e
      | .ok (some v) => .ok v
      | .ok none => go rest

/-- `getattr(obj, name)` -/
def getattr (v : Val) (a : String) : Except Err Val :=
  match v with
  | .obj _ attrs =>
    match Scope.lookup attrs a with
    | some w => .ok w
    | none => .error (.attributeError a)

def getattrChain : Val → List String → Except Err Val
  | v, [] => .ok v
  | v, a :: rest =>
    match getattr v a with
    | .ok w => getattrChain w rest
    | .error e => .error e

/-- `get_function_from_module(name, env)` on `names = name.split(".")`:
    one segment: `env.namespace[names[0]]`; otherwise `module = env.namespace[names[0]]`, then
    `getattr` along `names[1:-1]` and finally `getattr(…, names[-1])` — a `getattr` chain along
    `names[1:]`.  (`str.split` never returns the empty list; it is reported as a `KeyError`.) -/
def calleeLookup (W : Wiring) (env : Environment) (names : List String) : Except Err Val :=
  match names with
  | [] => .error (.keyError "")
  | head :: rest =>
    match (env.namespace W).getItem head with
    | .error e => .error e
    | .ok m => getattrChain m rest

/-! ### the two resolutions, end to end -/

/-- Everything name resolution depends on in one `design_matrices(formula, data, env=…,
    extra_namespace=…)` call. -/
structure Input where
  /-- columns of the data frame -/
  data : Scope
  /-- `description.var_names` (the columns kept by `data[list(cols_to_select)]`) -/
  varNames : List String
  /-- `{**TRANSFORMS, **ENCODINGS}` -/
  builtins : Scope
  /-- call stack seen from inside `Environment.capture` -/
  stack : List Frame
  envArg : EnvArg
  extra : Option Scope
  deriving Repr, Inhabited

/-- The environment in which `LazyCall.eval` runs (`Call.env`). -/
def Input.callEnv (W : Wiring) (inp : Input) : Except Err Environment :=
  match designEnv W inp.envArg inp.stack inp.extra with
  | .error e => .error e
  | .ok env => Env.callEnv W inp.builtins env

/-- A name used as an argument of a call term. -/
def resolveArg (W : Wiring) (inp : Input) (name : String) : Except Err Val :=
  match inp.callEnv W with
  | .error e => .error e
  | .ok cenv => argLookup W (inp.data.select inp.varNames) cenv name

/-- A (possibly dotted) name used as the callee of a call term. -/
def resolveCallee (W : Wiring) (inp : Input) (names : List String) : Except Err Val :=
  match inp.callEnv W with
  | .error e => .error e
  | .ok cenv => calleeLookup W cenv names

/-- A plain variable term (`Variable.set_type`): the data frame only. -/
def resolveVariable (inp : Input) (name : String) : Except Err Val :=
  match (inp.data.select inp.varNames).lookup name with
  | some v => .ok v
  | none => .error (.keyError name)

end FormulaeModel.Env
