import FormulaeModel.Model.Terms
/-
Model of formulae/resolver.py (`Resolver`) and of what it needs from
formulae/terms/call_resolver.py (`CallResolver`, the `__str__`/`__eq__` of the lazy nodes) to give
a call atom its name and its identity.

The operator map (token kind -> term operator) is a table regenerated from the source
(`Generated.resolverOps`); the resolver is generic in it.
-/
namespace FormulaeModel.Resolver
open FormulaeModel FormulaeModel.Terms

/-- The Python operators `Resolver.visitBinaryExpr` dispatches to. -/
inductive Op
  | tilde | add | sub | pow | matmul | mul | truediv | or_
  deriving DecidableEq, Repr

abbrev OpTable := List (Kind × Op)

def apply : Op → Obj → Obj → R
  | .tilde, l, r => do add (← mkResponse l) r
  | .add, l, r => add l r
  | .sub, l, r => sub l r
  | .pow, l, r => pow l r
  | .matmul, l, r => matmul l r
  | .mul, l, r => mul l r
  | .truediv, l, r => div l r
  | .or_, l, r => or_ l r

-- ---------------------------------------------------------------------------------------------
-- literals
-- ---------------------------------------------------------------------------------------------
def stripLeadingZeros (ds : List Char) : List Char :=
  match ds.dropWhile (· == '0') with
  | [] => ['0']
  | r => r

def stripTrailingZeros (ds : List Char) : List Char :=
  (ds.reverse.dropWhile (· == '0')).reverse

/-- `str(float(lexeme))` for the plain decimals the scanner produces (no exponent form: valid
for values in [1e-4, 1e16) with at most 15 significant digits). -/
def pyFloatStr (lexeme : String) : String :=
  let (ip, rest) := lexeme.toList.span (· != '.')
  let fp := stripTrailingZeros (rest.drop 1)
  String.ofList (stripLeadingZeros ip ++ '.' :: (if fp.isEmpty then ['0'] else fp))

def pyIntStr (lexeme : String) : String := String.ofList (stripLeadingZeros lexeme.toList)

/-- `int(lexeme)` for a lexeme made of decimal digits (what the scanner produces for an integer
NUMBER token). -/
def digitsVal (ds : List Char) : Nat := ds.foldl (fun n c => 10 * n + (c.toNat - '0'.toNat)) 0

def isFloatLexeme (lexeme : String) : Bool := lexeme.toList.contains '.'

/-- numeric value of a NUMBER lexeme as (digits without the dot, number of fractional digits) -/
def allZero (ds : List Char) : Bool := ds.all (· == '0')

def numIsZero (lexeme : String) : Bool := allZero (lexeme.toList.filter (· != '.'))

def numIsOne (lexeme : String) : Bool :=
  let (ip, rest) := lexeme.toList.span (· != '.')
  stripLeadingZeros ip == ['1'] && allZero (rest.drop 1)

/-- canonical text of the *value* of a number (used for identity: `2 == 2.0`) -/
def numKey (lexeme : String) : String :=
  if isFloatLexeme lexeme then
    let s := pyFloatStr lexeme
    if s.toList.reverse.take 2 == ['0', '.'] then String.ofList (s.toList.take (s.length - 2)) else s
  else pyIntStr lexeme

-- ---------------------------------------------------------------------------------------------
-- call atoms: name = str(LazyCall), key = structural identity
-- ---------------------------------------------------------------------------------------------
def binarySymbol : Kind → Option String
  | .PLUS => some "+" | .MINUS => some "-" | .STAR_STAR => some "**" | .STAR => some "*"
  | .SLASH => some "/" | .EQUAL_EQUAL => some "==" | .BANG_EQUAL => some "!="
  | .LESS_EQUAL => some "<=" | .LESS => some "<" | .GREATER_EQUAL => some ">="
  | .GREATER => some ">" | _ => none

def unarySymbol : Kind → Option String
  | .PLUS => some "+" | .MINUS => some "-" | _ => none

/-- dict insertion: a repeated key keeps its position and takes the new value -/
def dictSet (d : List (String × (String × String))) (k : String) (v : String × String) :
    List (String × (String × String)) :=
  if d.any (·.1 == k) then d.map (fun p => if p.1 == k then (k, v) else p) else d ++ [(k, v)]

def insertSorted (p : String × String) : List (String × String) → List (String × String)
  | [] => [p]
  | q :: qs => if p.1 ≤ q.1 then p :: q :: qs else q :: insertSorted p qs

/-- `LazyCall.__str__` and the identity key (keyword arguments compared as a dict) -/
def finishCall (callee : String) (pos : List (String × String))
    (kw : List (String × (String × String))) : String × String :=
  let argS := pos.map (·.1) ++ kw.map (fun p => p.1 ++ "=" ++ p.2.1)
  let kwSorted := (kw.map (fun p => (p.1, p.2.2))).foldr insertSorted []
  let argK := pos.map (·.2) ++ kwSorted.map (fun p => p.1 ++ "=" ++ p.2)
  (callee ++ "(" ++ ", ".intercalate argS ++ ")", callee ++ "(" ++ ", ".intercalate argK ++ ")")

def kwName : Expr → Except Err String
  | .variable t => pure t.lexeme
  | .subset t _ _ _ => pure t.lexeme
  | _ => .error .attributeError

abbrev LazyR := Option String × String × String   -- (keyword if the node is an Assign, str, key)

def noKw (r : Except Err LazyR) : Except Err (String × String) := do
  match (← r) with
  | (none, s, k) => pure (s, k)
  | (some _, _, _) => .error .attributeError    -- CallResolver has no visitAssignExpr

mutual
/-- `CallResolver` on an argument expression: (str, identity key); an `Assign` node is reported
with its keyword so that the enclosing call can make it a keyword argument (anywhere else it is
an AttributeError: `CallResolver` has no `visitAssignExpr`). -/
def lazyArg : Expr → Except Err LazyR
  | .grouping _ e _ => do
    let (s, k) ← noKw (lazyArg e)
    pure (none, s, k)
  | .binary l op r =>
    match binarySymbol op.kind with
    | some sym => do
      let (ls, lk) ← noKw (lazyArg l)
      let (rs, rk) ← noKw (lazyArg r)
      pure (none, ls ++ " " ++ sym ++ " " ++ rs, "(" ++ lk ++ " " ++ sym ++ " " ++ rk ++ ")")
    | none => .error .other
  | .unary op r =>
    match unarySymbol op.kind with
    | some sym => do
      let (rs, rk) ← noKw (lazyArg r)
      pure (none, sym ++ rs, "(" ++ sym ++ rk ++ ")")
    | none => .error .other
  | .call c _ as _ => do
    let callee ← kwName c
    let (pos, kw) ← lazyArgs as [] []
    let (s, k) := finishCall callee pos kw
    pure (none, s, k)
  | .brace _ e _ => do
    match (← lazyArg e) with
    | (some kw, s, k) => let (s', k') := finishCall "I" [] [(kw, (s, k))]; pure (none, s', k')
    | (none, s, k) => let (s', k') := finishCall "I" [(s, k)] []; pure (none, s', k')
  | .variable n => pure (none, n.lexeme, "v:" ++ n.lexeme)
  | .subset n _ _ _ => pure (none, n.lexeme, "v:" ++ n.lexeme)     -- the level is ignored
  | .quoted t =>
    let nm := String.ofList ((t.lexeme.toList.drop 1).dropLast)
    pure (none, nm, "v:" ++ nm)
  | .literal t =>
    match t.kind with
    | .NUMBER =>
      pure (none, if isFloatLexeme t.lexeme then pyFloatStr t.lexeme else pyIntStr t.lexeme,
            "n:" ++ numKey t.lexeme)
    | .STRING => pure (none, t.lexeme, "s:" ++ t.lexeme)
    | _ =>
      -- True / False / None ;  True == 1 and False == 0 as values
      pure (none, t.lexeme, if t.lexeme == "True" then "n:1" else if t.lexeme == "False" then "n:0"
                      else "None")
  | .assign n _ v => do
    let k ← kwName n
    let (s, key) ← noKw (lazyArg v)
    pure (some k, s, key)
/-- arguments in order: positional list, keyword dict (a repeated keyword keeps its first
position and takes the later value) -/
def lazyArgs : Args → List (String × String) → List (String × (String × String)) →
    Except Err (List (String × String) × List (String × (String × String)))
  | .nil, pos, kw => pure (pos, kw)
  | .last e, pos, kw => do
    match (← lazyArg e) with
    | (some k, s, key) => pure (pos, dictSet kw k (s, key))
    | (none, s, key) => pure (pos ++ [(s, key)], kw)
  | .more e _ rest, pos, kw => do
    match (← lazyArg e) with
    | (some k, s, key) => lazyArgs rest pos (dictSet kw k (s, key))
    | (none, s, key) => lazyArgs rest (pos ++ [(s, key)]) kw
end

/-- the atom of a call term `callee(args)` -/
def callAtom (c : Expr) (as : Args) : Except Err Atom := do
  let callee ← kwName c
  let (pos, kw) ← lazyArgs as [] []
  let (nm, key) := finishCall callee pos kw
  pure (.call nm key)

-- ---------------------------------------------------------------------------------------------
-- Resolver
-- ---------------------------------------------------------------------------------------------
section
variable (ops : OpTable)

def lookupOp (k : Kind) : Option Op := (ops.find? (·.1 == k)).map (·.2)

def resolve : Expr → R
  | .grouping _ e _ => resolve e
  | .binary l op r =>
    match lookupOp ops op.kind with
    | some o => do
      let lv ← resolve l
      let rv ← resolve r
      apply o lv rv
    | none => .error .other                 -- ResolverError
  | .unary op r =>
    match op.kind with
    | .PLUS => resolve r
    | .MINUS => do
      match (← resolve r) with
      | .c .intercept => pure (.c .negIntercept)
      | .c .negIntercept => pure (.c .intercept)
      | _ => .error .other                  -- ResolverError
    | _ => .error .other
  | .call c _ as _ => do
    pure (.c (.term [← callAtom c as]))
  | .brace lb e rb => do
    let (nm, key) ← noKw (lazyArg (.brace lb e rb))
    pure (.c (.term [.call nm key]))
  | .variable n => pure (.c (.term [.var (.str n.lexeme) none]))
  | .subset n _ lv _ =>
    -- `if expr.level:` then `expr.level.value`
    match lv with
    | .variable l => pure (.c (.term [.var (.str n.lexeme) (some l.lexeme)]))
    | .literal t =>
      let v := String.ofList ((t.lexeme.toList.drop 1).dropLast)
      pure (.c (.term [.var (.str n.lexeme) (some v)]))
    | _ => .error .attributeError           -- a Grouping / Call / QuotedName has no `.value`
  | .quoted t =>
    pure (.c (.term [.var (.str (String.ofList ((t.lexeme.toList.drop 1).dropLast))) none]))
  | .literal t =>
    match t.kind with
    | .NUMBER =>
      if numIsZero t.lexeme then pure (.c .negIntercept)
      else if numIsOne t.lexeme then pure (.c .intercept)
      else if isFloatLexeme t.lexeme then pure (.c (.term [.var (.flt (pyFloatStr t.lexeme)) none]))
      else pure (.c (.term [.var (.int (Int.ofNat (digitsVal t.lexeme.toList))) none]))
    | .STRING =>
      pure (.c (.term [.var (.str (String.ofList ((t.lexeme.toList.drop 1).dropLast))) none]))
    | _ =>
      if t.lexeme == "True" then pure (.c .intercept)
      else if t.lexeme == "False" then pure (.c .negIntercept)
      else pure (.c (.term [.var .none none]))
  | .assign .. => .error .attributeError    -- Resolver has no visitAssignExpr

/-- `model_description`: wrap a non-Model result into a `Model`. -/
def describe (e : Expr) : Except Err ModelV := do
  match (← resolve ops e) with
  | .model m => pure m
  | .c t => pure { common := [t] }
  | .g t => pure { group := [t] }
  | .response _ => .error .valueError
end

end FormulaeModel.Resolver
