/-
Model of the stateful transforms of `formulae/transforms.py` (`Center`, `Scale`, `BSpline`,
`Polynomial`) and of the way `LazyCall.eval` (formulae/terms/call_resolver.py) uses them: one
instance per call node, created at the first evaluation and re-used on every later evaluation
(`evaluate_new_data`), so a transform is a state machine  `call : St → input → St × output`.

Numbers.  Inputs are exact rationals (core `Rat`).  Floating point rounding is *not* modelled
(trusted base).  The two places where the code takes a square root (`np.std`, `np.sqrt(norms2)`)
are kept symbolic: the model stores the *square* (`var = std²`, `norms2`) and returns cells
`Cell.quot num den2` standing for the real number `num / √den2`.  IEEE special values that the
code really produces (no exception is raised by numpy) are modelled explicitly:
`mean? [] = none` (NaN: `np.mean` of an empty array), `divSqrt _ 0` (0/0 = NaN, ±c/0 = ±inf).

`scipy.interpolate.splev` is modelled by `interval` (FITPACK's knot-interval search, clamped to
`[k, n-k-2]`) followed by the Cox–de Boor recursion `basis` started from the indicator of *that*
interval, with the 0/0 := 0 convention (FITPACK `fpbspl`, scipy's variant, skips a term whose knot
difference is 0).  Consequences that the code really has and the model mirrors:
  * inside `[lower, upper)` this is the usual right-continuous B-spline basis;
  * at `x = upper` (and beyond) the *last* interval `[t[n-k-2], t[n-k-1]]` is used, so the last
    basis function is 1 at `x = upper` — unless that interval is empty (an inner knot
    equal to the upper bound, or lower = upper), in which case every basis function of degree ≥ 1
    evaluates to 0 (see `bsDegenerate`, finding KF-C14-BS-UPPER-KNOT);
  * outside `[lower, upper]` the polynomial piece of the first / last interval is extrapolated
    (values can be negative; the rows still sum to one).
`np.percentile` (default method "linear") is modelled as linear interpolation between order
statistics at the virtual index `(n-1)·q`.

No Mathlib imports (this file is linked into the driver).
-/
namespace FormulaeModel.Transforms

/-! ## sums, means, sorting -/

def sum : List Rat → Rat
  | [] => 0
  | a :: l => a + sum l

/-- `np.mean`; `none` = NaN (empty array; numpy only warns). -/
def mean? : List Rat → Option Rat
  | [] => none
  | a :: l => some (sum (a :: l) / ((a :: l).length : Rat))

/-- `np.std(x)**2` (population variance, ddof = 0): `mean(|x - mean(x)|²)`. -/
def var? (x : List Rat) : Option Rat :=
  match mean? x with
  | none => none
  | some m => mean? (x.map (fun v => (v - m) * (v - m)))

def insertSorted (a : Rat) : List Rat → List Rat
  | [] => [a]
  | b :: l => if a ≤ b then a :: b :: l else b :: insertSorted a l

/-- `ndarray.sort()` / `np.sort` on finite values. -/
def sort : List Rat → List Rat
  | [] => []
  | a :: l => insertSorted a (sort l)

/-- `np.min`; `none` = the `ValueError` numpy raises for an empty array. -/
def min? : List Rat → Option Rat
  | [] => none
  | a :: l => some (l.foldl (fun m v => if v < m then v else m) a)

def max? : List Rat → Option Rat
  | [] => none
  | a :: l => some (l.foldl (fun m v => if m < v then v else m) a)

/-- A float cell whose value is `num / √den2`, or an IEEE special value. -/
inductive Cell
  | quot (num den2 : Rat)
  | nan | posInf | negInf
  deriving DecidableEq, Repr

/-- `num / np.sqrt(den2)` in IEEE arithmetic (exact apart from rounding). -/
def divSqrt (num den2 : Rat) : Cell :=
  if den2 < 0 then .nan
  else if den2 = 0 then (if num = 0 then .nan else if 0 < num then .posInf else .negInf)
  else .quot num den2

/-! ## Center -/

/-- Output vector of `Center`: finite values, or all-NaN (when the stored mean is NaN). -/
inductive Out
  | vals (l : List Rat)
  | nans (n : Nat)
  deriving DecidableEq, Repr

namespace Center

structure St where
  paramsSet : Bool
  /-- `self.mean`; only read when `paramsSet`; `none` then means NaN. -/
  mean : Option Rat
  deriving DecidableEq, Repr

def init : St := ⟨false, none⟩

/-- `x - self.mean` -/
def apply (m : Option Rat) (x : List Rat) : Out :=
  match m with
  | some m => .vals (x.map (fun v => v - m))
  | none => .nans x.length

/-- `Center.__call__` -/
def call (s : St) (x : List Rat) : St × Out :=
  let s' : St := if s.paramsSet then s else ⟨true, mean? x⟩
  (s', apply s'.mean x)

/-- A history of calls on one instance (what `LazyCall.eval` does across `design_matrices` and
`evaluate_new_data`). -/
def run (s : St) : List (List Rat) → St × List Out
  | [] => (s, [])
  | x :: xs =>
    let (s1, o) := call s x
    let (s2, os) := run s1 xs
    (s2, o :: os)

end Center

/-! ## Scale -/
namespace Scale

structure St where
  paramsSet : Bool
  mean : Option Rat
  /-- `self.std ** 2` -/
  var : Option Rat
  deriving DecidableEq, Repr

def init : St := ⟨false, none, none⟩

/-- `(x - self.mean) / self.std` -/
def apply (m v : Option Rat) (x : List Rat) : List Cell :=
  match m, v with
  | some m, some v => x.map (fun a => divSqrt (a - m) v)
  | _, _ => x.map (fun _ => Cell.nan)

def call (s : St) (x : List Rat) : St × List Cell :=
  let s' : St := if s.paramsSet then s else ⟨true, mean? x, var? x⟩
  (s', apply s'.mean s'.var x)

def run (s : St) : List (List Rat) → St × List (List Cell)
  | [] => (s, [])
  | x :: xs =>
    let (s1, o) := call s x
    let (s2, os) := run s1 xs
    (s2, o :: os)

end Scale

/-! ## BSpline -/

inductive Err
  | value   -- ValueError
  | type    -- TypeError
  | index   -- IndexError
  deriving DecidableEq, Repr

/-- The `degree` argument: a Python `int`, or anything else (float, str, None …). -/
inductive DegArg
  | int (d : Int)
  | nonInt
  deriving DecidableEq, Repr

/-- The `df` argument: `None`, an `int`, or a float (`zero` = it is `0.0`, i.e. falsy). -/
inductive DfArg
  | none
  | int (d : Int)
  | float (zero : Bool)
  deriving DecidableEq, Repr

/-- The `knots` argument: `None`, a 1-d sequence, or a nested (2-d) sequence with `len` rows. -/
inductive KnotsArg
  | none
  | vec (l : List Rat)
  | nested (len : Nat)
  deriving DecidableEq, Repr

structure BsArgs where
  df : DfArg := .none
  knots : KnotsArg := .none
  degree : DegArg := .int 3
  intercept : Bool := false
  lower : Option Rat := none
  upper : Option Rat := none
  deriving DecidableEq, Repr

/-- What `_initialize` stores: `_intercept`, `_degree`, `_knots`. -/
structure BsParams where
  intercept : Bool
  degree : Nat
  knots : List Rat
  deriving DecidableEq, Repr

/-- `np.percentile(x, 100·i/(m+1))` on the sorted data `s` (method "linear"). -/
def percentile (s : List Rat) (i m : Nat) : Rat :=
  let pos : Rat := ((s.length - 1 : Nat) : Rat) * (i : Rat) / ((m + 1 : Nat) : Rat)
  let lo := pos.floor.toNat
  let g := pos - (lo : Rat)
  match s[lo]?, s[lo + 1]? with
  | some a, some b => a + g * (b - a)
  | some a, none => a
  | none, _ => 0      -- not reached: 0 ≤ pos ≤ n-1 for non-empty `s`, i ≤ m+1

def range1 : Nat → List Nat      -- [1, …, m]
  | 0 => []
  | m + 1 => range1 m ++ [m + 1]

/-- `np.percentile(x, 100 * np.linspace(0, 1, m + 2)[1:-1])`; IndexError on empty data. -/
def innerFromData (x : List Rat) (m : Nat) : Except Err (List Rat) :=
  match x with
  | [] => .error .index
  | _ => .ok ((range1 m).map (fun i => percentile (sort x) i m))

/-- the two `degree` checks -/
def checkDegree : DegArg → Except Err Nat
  | .nonInt => .error .value
  | .int d => if d < 0 then .error .value else .ok d.toNat

/-- `df is None and knots is None` -/
def checkGiven : DfArg → KnotsArg → Except Err Unit
  | .none, .none => .error .value
  | _, _ => .ok ()

/-- `if df and not isinstance(df, int)` (a float `0.0` is falsy and passes) -/
def checkDfType : DfArg → Except Err Unit
  | .float false => .error .value
  | _ => .ok ()

/-- numeric value of a `df` that passed `checkDfType`, and whether it is a float -/
def dfValue : DfArg → Option (Int × Bool)
  | .none => none
  | .int d => some (d, false)
  | .float _ => some (0, true)

/-- `n_inner_knots = df - order (+ 1 if not intercept)`; refused when negative -/
def innerCount (d : Int) (order : Nat) (intercept : Bool) : Except Err Nat :=
  let n : Int := d - (order : Int) + (if intercept then 0 else 1)
  if n < 0 then .error .value else .ok n.toNat

def knotsLen : KnotsArg → Option Nat
  | .none => none
  | .vec l => some l.length
  | .nested len => some len

/-- The `if df is not None:` block. Returns the knots computed from the data, if any. -/
def dfBranch (x : List Rat) (df : DfArg) (knots : KnotsArg) (order : Nat) (intercept : Bool) :
    Except Err (Option (List Rat)) :=
  match dfValue df with
  | none => .ok none
  | some (d, isFloat) =>
    match innerCount d order intercept with
    | .error e => .error e
    | .ok nInner =>
      match knotsLen knots with
      | some len => if len ≠ nInner then .error .value else .ok none
      | none =>
        -- `np.linspace(0, 1, n_inner_knots + 2)` with a float count raises TypeError
        if isFloat then .error .type
        else match innerFromData x nInner with
          | .error e => .error e
          | .ok l => .ok (some l)

/-- `lower_bound = np.min(x)` when not given (ValueError on empty data) -/
def boundOr (given : Option Rat) (fromData : Option Rat) : Except Err Rat :=
  match given with
  | some b => .ok b
  | none => match fromData with
    | some b => .ok b
    | none => .error .value

def replicate2 (lo hi : Rat) : Nat → List Rat       -- [lower, upper] * order
  | 0 => []
  | n + 1 => lo :: hi :: replicate2 lo hi n

/-- The checks after the bounds are known, and the knot vector. -/
def finishKnots (lower upper : Rat) (knots : KnotsArg) (fromDf : Option (List Rat))
    (order : Nat) : Except Err (List Rat) :=
  if upper < lower then .error .value
  else
    let inner? : Except Err (List Rat) :=
      match knots, fromDf with
      | .nested _, _ => .error .value            -- 'knots' must be 1 dimensional
      | .vec l, _ => .ok l                       -- `if knots is not None: inner_knots = knots`
      | .none, some l => .ok l
      | .none, none => .error .value             -- not reachable after `checkGiven`
    match inner? with
    | .error e => .error e
    | .ok inner =>
      if inner.any (fun k => k < lower) then .error .value
      else if inner.any (fun k => upper < k) then .error .value
      else .ok (sort (replicate2 lower upper order ++ inner))

/-- the tail of `_initialize`: bounds/knots checks, then the three attributes are stored -/
def bsFinish (intercept : Bool) (degree : Nat) (lower upper : Rat) (knots : KnotsArg)
    (fromDf : Option (List Rat)) : Except Err BsParams :=
  match finishKnots lower upper knots fromDf (degree + 1) with
  | .error e => .error e
  | .ok t => .ok ⟨intercept, degree, t⟩

/-- `BSpline._initialize`, every validation branch in the order of the Python code. -/
def bsInitialize (x : List Rat) (a : BsArgs) : Except Err BsParams :=
  match checkDegree a.degree with
  | .error e => .error e
  | .ok degree =>
  match checkGiven a.df a.knots with
  | .error e => .error e
  | .ok () =>
  match checkDfType a.df with
  | .error e => .error e
  | .ok () =>
  match dfBranch x a.df a.knots (degree + 1) a.intercept with
  | .error e => .error e
  | .ok fromDf =>
  match boundOr a.lower (min? x) with
  | .error e => .error e
  | .ok lower =>
  match boundOr a.upper (max? x) with
  | .error e => .error e
  | .ok upper =>
  bsFinish a.intercept degree lower upper a.knots fromDf

/-- knot `i` (0-based). All uses below are in range; `0` is never read for valid indices. -/
def tk (t : List Rat) (i : Nat) : Rat := t.getD i 0

/-- `a / b` with the Cox–de Boor convention 0/0 := 0 (`fpbspl` skips the term). -/
def ratio (a b : Rat) : Rat := if b = 0 then 0 else a / b

/-- Cox–de Boor recursion started from the indicator of knot interval `l`. -/
def basis (t : List Rat) (l : Nat) : Nat → Nat → Rat → Rat
  | 0, j, _ => if j = l then 1 else 0
  | d + 1, j, x =>
    ratio (x - tk t j) (tk t (j + d + 1) - tk t j) * basis t l d j x
    + ratio (tk t (j + d + 2) - x) (tk t (j + d + 2) - tk t (j + 1)) * basis t l d (j + 1) x

/-- FITPACK `splev` interval search: advance while `x ≥ t[l+1]` and `l < hi`. -/
def intervalFrom (t : List Rat) (x : Rat) (hi : Nat) : Nat → Nat → Nat
  | 0, l => l
  | f + 1, l => if l < hi ∧ tk t (l + 1) ≤ x then intervalFrom t x hi f (l + 1) else l

/-- the knot interval `[t[l], t[l+1]]`, `k ≤ l ≤ n-k-2`, whose polynomial piece is evaluated -/
def interval (t : List Rat) (k : Nat) (x : Rat) : Nat :=
  intervalFrom t x (t.length - k - 2) t.length k

/-- the chosen interval is empty: `fpbspl` returns zeros for every degree ≥ 1 -/
def bsDegenerate (t : List Rat) (k : Nat) (x : Rat) : Bool :=
  tk t (interval t k x) == tk t (interval t k x + 1)

def rowAux (f : Nat → Rat) : Nat → Nat → List Rat     -- [f a, …, f (a+n-1)]
  | _, 0 => []
  | a, n + 1 => f a :: rowAux f (a + 1) n

/-- number of basis functions: `len(self._knots) - (self._degree + 1)` -/
def nBases (p : BsParams) : Nat := p.knots.length - (p.degree + 1)

/-- all basis functions at `x`: `splev(x, (knots, e_i, degree))` for every `i` -/
def bsFullRow (p : BsParams) (x : Rat) : List Rat :=
  rowAux (fun j => basis p.knots (interval p.knots p.degree x) p.degree j x) 0 (nBases p)

/-- one row of `BSpline.eval`: without intercept the first column is dropped -/
def bsRow (p : BsParams) (x : Rat) : List Rat :=
  if p.intercept then bsFullRow p x else (bsFullRow p x).drop 1

/-- number of columns of `BSpline.eval` -/
def bsNCols (p : BsParams) : Nat := if p.intercept then nBases p else nBases p - 1

/-- `BSpline.eval` (splev refuses an empty `x`: ValueError) -/
def bsEval (p : BsParams) (xs : List Rat) : Except Err (List (List Rat)) :=
  match xs with
  | [] => .error .value
  | _ => .ok (xs.map (bsRow p))

namespace BS
/-- `params_set` is `isSome`; the three attributes are set together at the end of `_initialize`,
so a refused call leaves the instance untouched. -/
abbrev St := Option BsParams

def init : St := none

/-- `BSpline.__call__`: the arguments are ignored once the parameters are set. -/
def call (s : St) (x : List Rat) (a : BsArgs) : Except Err (St × List (List Rat)) :=
  match s with
  | some p => match bsEval p x with
    | .error e => .error e
    | .ok m => .ok (some p, m)
  | none => match bsInitialize x a with
    | .error e => .error e
    | .ok p => match bsEval p x with
      | .error e => .error e         -- (the parameters stay set in Python; the call still fails)
      | .ok m => .ok (some p, m)
end BS

/-! ## Polynomial -/

/-- A float that is finite (`some q`) or not (`none`: NaN/±inf). NaN-propagating arithmetic. -/
abbrev Num := Option Rat

namespace Num
def sub (a b : Num) : Num := match a, b with | some a, some b => some (a - b) | _, _ => none
def mul (a b : Num) : Num := match a, b with | some a, some b => some (a * b) | _, _ => none
def add (a b : Num) : Num := match a, b with | some a, some b => some (a + b) | _, _ => none
/-- division; anything / 0 is non-finite -/
def div (a b : Num) : Num :=
  match a, b with
  | some a, some b => if b = 0 then none else some (a / b)
  | _, _ => none
def sum : List Num → Num
  | [] => some 0
  | a :: l => add a (sum l)
end Num

/-- a cell of the final `P /= sqrt(norms2)` -/
def numDivSqrt (p n2 : Num) : Cell :=
  match p, n2 with
  | some p, some n2 => divSqrt p n2
  | _, _ => .nan

namespace Poly

abbrev Memo := List (Nat × Num)        -- a Python dict `k ↦ value`

structure St where
  /-- never set to `True` by the code (so `degree`/`raw` are overwritten on every call) -/
  paramsSet : Bool
  degree : Nat
  raw : Bool
  alpha : Memo
  norms2 : Memo
  deriving DecidableEq, Repr

def init : St := ⟨false, 1, false, [], []⟩

def pow (v : Rat) : Nat → Rat
  | 0 => 1
  | k + 1 => pow v k * v

/-- `np.column_stack([np.power(x, k) for k in range(1, degree + 1)])`, as a list of columns;
`column_stack([])` raises ValueError. -/
def rawCols (x : List Rat) (degree : Nat) : Except Err (List (List Rat)) :=
  match degree with
  | 0 => .error .value
  | d + 1 => .ok ((range1 (d + 1)).map (fun k => x.map (fun v => pow v k)))

/-- `np.sum(P[:, k] ** 2)` -/
def sumSq (p : List Num) : Num := Num.sum (p.map (fun v => Num.mul v v))

/-- `np.sum(x * P[:, k] ** 2)` -/
def sumXSq (x : List Rat) (p : List Num) : Num :=
  Num.sum ((x.zip p).map (fun (a, v) => Num.mul (some a) (Num.mul v v)))

/-- `get_alpha(k)` with column `pk = P[:, k]`: memoised -/
def getAlpha (am : Memo) (k : Nat) (x : List Rat) (pk : List Num) : Memo × Num :=
  match am.lookup k with
  | some a => (am, a)
  | none => let a := Num.div (sumXSq x pk) (sumSq pk); ((k, a) :: am, a)

/-- `get_norm(k)`: memoised -/
def getNorm (nm : Memo) (k : Nat) (pk : List Num) : Memo × Num :=
  match nm.lookup k with
  | some a => (nm, a)
  | none => let a := sumSq pk; ((k, a) :: nm, a)

/-- One iteration `i` of `for i in range(1, degree + 1)`: `cur = P[:, i-1]`, `prev = P[:, i-2]`
(unused for `i = 1`); returns the memos and `P[:, i]`. -/
def step (x : List Rat) (i : Nat) (am nm : Memo) (cur prev : List Num) : Memo × Memo × List Num :=
  let r := getAlpha am (i - 1) x cur
  let p1 : List Num := (x.zip cur).map (fun vc => Num.mul (Num.sub (some vc.1) r.2) vc.2)
  if 2 ≤ i then
    -- `get_beta(i-1) = get_norm(i-1) / get_norm(i-2)`, evaluated in this order
    let r1 := getNorm nm (i - 1) cur
    let r0 := getNorm r1.1 (i - 2) prev
    let b := Num.div r1.2 r0.2
    (r.1, r0.1, (p1.zip prev).map (fun cq => Num.sub cq.1 (Num.mul b cq.2)))
  else
    (r.1, nm, p1)

/-- The loop; `acc` = the columns `P[:, 1 .. i-1]` in reverse order. -/
def loop (x : List Rat) : Nat → Nat → Memo → Memo → List Num → List Num → List (List Num) →
    Memo × Memo × List (List Num)
  | 0, _, am, nm, _, _, acc => (am, nm, acc.reverse)
  | todo + 1, i, am, nm, cur, prev, acc =>
    let r := step x i am nm cur prev
    loop x todo (i + 1) r.1 r.2.1 r.2.2 cur (r.2.2 :: acc)

/-- the final `[get_norm(k) for k in range(0, degree + 1)]` over the columns `P[:, 0..degree]` -/
def finalNorms : Memo → Nat → List (List Num) → Memo × List Num
  | nm, _, [] => (nm, [])
  | nm, k, p :: ps =>
    let (nm1, n) := getNorm nm k p
    let (nm2, ns) := finalNorms nm1 (k + 1) ps
    (nm2, n :: ns)

/-- Result of `Polynomial.__call__`: a refusal, raw power columns, or orthogonal columns given as
`(P_k, norms2_k)` — the float column is `P_k / √norms2_k`. -/
inductive Res
  | raw (cols : List (List Rat))
  | ortho (cols : List (List Num × Num))
  deriving DecidableEq, Repr

/-- `Polynomial.eval` for `raw = False` -/
def evalOrtho (s : St) (x : List Rat) : St × List (List Num × Num) :=
  let ones : List Num := x.map (fun _ => some 1)
  let (am, nm, cols) := loop x s.degree 1 s.alpha s.norms2 ones [] []
  let (nm', ns) := finalNorms nm 0 (ones :: cols)
  ({ s with alpha := am, norms2 := nm' }, cols.zip (ns.drop 1))

/-- `Polynomial.__call__` -/
def call (s : St) (x : List Rat) (degree : Nat) (raw : Bool) : Except Err (St × Res) :=
  let s1 : St := if s.paramsSet then s else { s with degree := degree, raw := raw }
  if s1.raw then
    match rawCols x s1.degree with
    | .error e => .error e
    | .ok cols => .ok (s1, .raw cols)
  else
    let (s2, cols) := evalOrtho s1 x
    .ok (s2, .ortho cols)

end Poly

/-! ## The pure three-term recurrence (no memo, no NaN): un-normalised orthogonal polynomials
`p k` as functions of the abscissa, with the coefficients estimated on the data `x`. -/
namespace Ortho

/-- `⟨f, g⟩ = Σ_{v ∈ x} f v · g v` -/
def ip (x : List Rat) (f g : Rat → Rat) : Rat := sum (x.map (fun v => f v * g v))

/-- `(P_k, P_{k-1})` as functions; `P_{-1} = 0`. -/
def pp (x : List Rat) : Nat → (Rat → Rat) × (Rat → Rat)
  | 0 => (fun _ => 1, fun _ => 0)
  | k + 1 =>
    let c := (pp x k).1
    let q := (pp x k).2
    let a := ip x (fun v => v * c v) c / ip x c c
    let b := if k = 0 then 0 else ip x c c / ip x q q
    (fun v => (v - a) * c v - b * q v, c)

/-- value of the k-th un-normalised orthogonal polynomial at `v` -/
def p (x : List Rat) (k : Nat) : Rat → Rat := (pp x k).1
/-- `alpha[k] = Σ x·P_k² / Σ P_k²` -/
def alpha (x : List Rat) (k : Nat) : Rat := ip x (fun v => v * p x k v) (p x k) / ip x (p x k) (p x k)
/-- `norms2[k] = Σ P_k²` -/
def norm2 (x : List Rat) (k : Nat) : Rat := ip x (p x k) (p x k)

end Ortho

end FormulaeModel.Transforms
