import FormulaeModel.Model.Frame
import FormulaeModel.Model.Expr
/-
Model of the missing-value step of `design_matrices` (matrices.py) and of the `var_names`
computation it relies on (`Model/Term/GroupSpecificTerm/Response/Variable/Call.var_names`,
`call_utils.CallVarsExtractor` over the lazy call tree).
-/
namespace FormulaeModel.NA
open FormulaeModel

def unquote (s : String) : String := String.ofList ((s.toList.drop 1).dropLast)

mutual
/-- `CallVarsExtractor` on an argument expression (lazy node): variables give their name, literals
the empty string, operators and calls the names of their arguments (positional first, then
keyword values); the callee is not a variable. -/
def argVars : Expr → List String
  | .grouping _ e _ => argVars e
  | .binary l _ r => argVars l ++ argVars r
  | .unary _ r => argVars r
  | .call _ _ as _ => argsVarsPos as ++ argsVarsKw as
  | .brace _ e _ => argVars e
  | .variable n => [n.lexeme]
  | .subset n _ _ _ => [n.lexeme]
  | .quoted t => [unquote t.lexeme]
  | .literal _ => [""]
  | .assign _ _ v => argVars v
def argsVarsPos : Args → List String
  | .nil => []
  | .last e => (match e with | .assign .. => [] | _ => argVars e)
  | .more e _ rest => (match e with | .assign .. => [] | _ => argVars e) ++ argsVarsPos rest
def argsVarsKw : Args → List String
  | .nil => []
  | .last e => (match e with | .assign _ _ v => argVars v | _ => [])
  | .more e _ rest => (match e with | .assign _ _ v => argVars v | _ => []) ++ argsVarsKw rest
end

/-- `var_names` of the component at a term position: a Variable gives its name, a Call the
variables of its arguments -/
def atomVars : Expr → List String
  | .call _ _ as _ => argsVarsPos as ++ argsVarsKw as
  | .brace _ e _ => argVars e
  | .variable n => [n.lexeme]
  | .subset n _ _ _ => [n.lexeme]
  | .quoted t => [unquote t.lexeme]
  | _ => []

/-- `Model.var_names`: union over all atoms at term positions of the formula (response included) -/
def formulaVars : Expr → List String
  | .grouping _ e _ => formulaVars e
  | .binary l _ r => formulaVars l ++ formulaVars r
  | .unary _ r => formulaVars r
  | e => atomVars e

inductive Err
  | valueError
  deriving DecidableEq, Repr

def cellMissing : Cell → Bool
  | .na => true
  | _ => false

/-- `data[list(cols_to_select)]` -/
def selectCols (used : List String) (f : Frame) : Frame := f.filter (fun c => used.contains c.name)

/-- `data.isna().any(axis=1)` on the selected columns; `n` is the number of rows of the frame (a
selection without columns still has the rows of the frame) -/
def incompleteRows (n : Nat) (f : Frame) : List Bool :=
  (List.range n).map (fun r => f.any (fun c => cellMissing (c.cells.getD r .na)))

/-- `cells[keep]` for a boolean mask -/
def kept {α : Type} (cells : List α) (keep : List Bool) : List α :=
  (List.zip cells keep).filterMap (fun p => if p.2 then some p.1 else none)

def keepRows (f : Frame) (keep : List Bool) : Frame :=
  f.map (fun c => { c with cells := kept c.cells keep })

/-- the NA step of `design_matrices`: the frame the design is built from.  A frame without rows is
refused ("'data' does not contain any observation"), and so is — since the repair D29 — a frame in
which `drop` leaves no row ("'data' does not contain any complete observation"). -/
def naStep (actions : List String) (action : String) (used : List String) (f : Frame) : Except Err Frame :=
  if f.nrows == 0 then .error .valueError
  else if !actions.contains action then .error .valueError
  else
    let sel := selectCols used f
    let inc := incompleteRows f.nrows sel
    if inc.any id then
      if action == "pass" then .ok sel
      else if action == "drop" then
        if inc.all id then .error .valueError
        else .ok (keepRows sel (inc.map (!·)))
      else .error .valueError
    else .ok sel

end FormulaeModel.NA
