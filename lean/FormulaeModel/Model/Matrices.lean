import FormulaeModel.Model.Design
import FormulaeModel.Model.Resolver
/-
Second half of the evaluation model: components (Variable / Call), terms, group-specific terms
and the matrix containers of matrices.py (column stacking, slices, evaluate_new_data).
See Model/Design.lean for the scope.
-/
namespace FormulaeModel.Design
open FormulaeModel

inductive CompKind
  | numeric | categoric | offset | proportion
  deriving DecidableEq, Repr

def CompKind.name : CompKind → String
  | .numeric => "numeric" | .categoric => "categoric" | .offset => "offset"
  | .proportion => "proportion"

/-- What a component remembers after training (`self.levels`, `self.contrast_matrix`, `self.kind`,
the stateful transform instances of its call tree, …). -/
structure CompState where
  name : String
  expr : Expr
  kind : CompKind
  forced : Bool                       -- grouping factor: kind forced to "categoric"
  levels : List Level := []
  contrast : Option ContrastMatrix := none
  tstate : TS := .leaf
  offsetConst : Option Rat := none
  propConst : Option Rat := none
  propTrialsName : Option String := none
  reference : Option String := none   -- response written `y[level]`

structure CompOut where
  st : CompState
  value : Matrix
  labels : Option (List String)       -- `none`: `.labels` is None or raises (proportion; y[level])

def colOfEntries (xs : List Entry) : Matrix := xs.map (fun x => [x])

def rowOfInts (r : List Int) : List Entry := r.map (fun (k : Int) => some (k : Rat))

/-- `contrast_matrix.matrix[codes]` -/
def codeRows (cm : ContrastMatrix) (levels : List Level) (xs : List (Option Level)) : M Matrix :=
  xs.mapM (fun x =>
    match x with
    | some l => match indexOf? l levels with
      | some i => pure (rowOfInts (cm.rows.getD i []))
      | none => .error (.unmodelled "value outside the levels at training time")
    | none => .error (.unmodelled "missing value in categorical data"))

def categoricLabels (name : String) (cm : ContrastMatrix) : List String :=
  cm.labels.map (fun l => name ++ "[" ++ l ++ "]")

/-- `eval_categoric`: levels from the data (sorted unique) or the declared order of an ordered
categorical; Treatment coding -/
def evalCategoric (name : String) (xs : List (Option Level)) (declared : Option (Bool × List String))
    (full : Bool) : M (List Level × ContrastMatrix × Matrix) := do
  if xs.any Option.isNone then .error (.unmodelled "missing value in categorical data") else
  let levels ← match declared with
    | some (true, cats) => pure (cats.map Level.s)
    | _ => match sortLevels (xs.filterMap id) with
      | some ls => pure ls
      | none => .error .typeError
  let cm ← (Contrast.treatment none).code full levels
  let v ← codeRows cm levels xs
  let _ := name
  pure (levels, cm, v)

/-- `eval_categorical_box` -/
def evalBox (b : Box) (full : Bool) : M (List Level × ContrastMatrix × Matrix) := do
  let contrast := b.contrast.getD (.treatment none)
  let levels ← match b.levels with
    | some ls => pure ls
    | none => match sortLevels (b.data.filterMap id) with
      | some ls => pure ls
      | none => .error .typeError
  let cm ← contrast.code full levels
  let v ← codeRows cm levels b.data
  pure (levels, cm, v)

def numericLevels (xs : List Entry) : M (List (Option Level)) :=
  xs.mapM (fun x => match x with
    | some q => if q.den == 1 then pure (some (Level.n q.num)) else .error (.unmodelled "non-integer level")
    | none => .error (.unmodelled "missing value in categorical data"))

/-- `set_type` + `set_data(full)` of one component -/
def trainComp (env : Env) (name : String) (e : Expr) (forced isResponse full : Bool) : M CompOut := do
  let n := env.frame.nrows
  match e with
  | .call .. | .brace .. =>
    let (v, ts) ← posOnly (evalArg env e none)
    let st : CompState := { name, expr := e, kind := .numeric, forced, tstate := ts }
    match v with
    | .vec xs isInt =>
      if forced then do
        let (levels, cm, m) ← evalCategoric name (← numericLevels xs) none full
        let _ := isInt
        pure ⟨{ st with kind := .categoric, levels, contrast := some cm }, m, some (categoricLabels name cm)⟩
      else pure ⟨st, colOfEntries xs, some [name]⟩
    | .lvec xs d => do
      let (levels, cm, m) ← evalCategoric name xs d full
      pure ⟨{ st with kind := .categoric, levels, contrast := some cm }, m, some (categoricLabels name cm)⟩
    | .box b => do
      let (levels, cm, m) ← evalBox b full
      pure ⟨{ st with kind := .categoric, levels, contrast := some cm }, m, some (categoricLabels name cm)⟩
    | .offsetVar xs =>
      if isResponse then .error (.valueError "offset() cannot be used as a response term.")
      -- grouping factor: `kind` is overwritten with "categoric" and `eval_categoric(<Offset>)`
      -- raises AttributeError
      else if forced then .error (.unmodelled "offset() as a grouping factor")
      else pure ⟨{ st with kind := .offset }, colOfEntries xs, some [name]⟩
    | .offsetConst q =>
      if isResponse then .error (.valueError "offset() cannot be used as a response term.")
      else if forced then .error (.unmodelled "offset() as a grouping factor")
      else pure ⟨{ st with kind := .offset, offsetConst := some q },
                 List.replicate n [some q], some [name]⟩
    | .prop ss ts c =>
      if !isResponse then .error (.valueError "'proportion()' can only be used as a response term.")
      else
        let trialsName := match e with
          | .call _ _ (.more _ _ (.last (.variable t))) _ => some t.lexeme
          | _ => none
        pure ⟨{ st with kind := .proportion, propConst := c, propTrialsName := trialsName },
              List.zipWith (fun a b => [a, b]) ss ts, none⟩
    | _ => .error (.valueError "Call result is of an unrecognized type")
  | _ =>
    -- Variable(name, level)
    let (colName, reference) := match e with
      | .subset v _ lv _ =>
        (v.lexeme, match lv with
          | .variable l => some l.lexeme
          | .literal t => some (String.ofList ((t.lexeme.toList.drop 1).dropLast))
          | _ => none)
      | .quoted t => (String.ofList ((t.lexeme.toList.drop 1).dropLast), none)
      | .variable v => (v.lexeme, none)
      | _ => (name, none)
    match env.frame.col? colName with
    | none => .error (.keyError colName)
    | some c =>
      let st : CompState := { name, expr := e, kind := .numeric, forced, reference }
      match colVal c with
      | .vec xs _ =>
        if forced then do
          let (levels, cm, m) ← evalCategoric name (← numericLevels xs) none full
          pure ⟨{ st with kind := .categoric, levels, contrast := some cm }, m,
                some (categoricLabels name cm)⟩
        else pure ⟨st, colOfEntries xs, some [name]⟩
      | .lvec xs d =>
        match isResponse, reference with
        | true, some r => do
          -- `np.where(x == self.reference, 1, 0)`; levels are still computed
          if xs.any Option.isNone then .error (.unmodelled "missing value in categorical data") else
          let levels ← match d with
            | some (true, cats) => pure (cats.map Level.s)
            | _ => match sortLevels (xs.filterMap id) with
              | some ls => pure ls
              | none => .error .typeError
          pure ⟨{ st with kind := .categoric, levels },
                xs.map (fun x => [some (if x == some (Level.s r) then 1 else 0)]),
                some [name ++ "[" ++ r ++ "]"]⟩
        | _, _ => do
          let (levels, cm, m) ← evalCategoric name xs d full
          pure ⟨{ st with kind := .categoric, levels, contrast := some cm }, m,
                some (categoricLabels name cm)⟩
      | _ => .error (.valueError "Variable is of an unrecognized type")

inductive UnseenMode
  | error | warning | silent
  deriving DecidableEq, Repr

/-- a new value is unseen: missing, or not one of the remembered levels
(`set(x) - set(self.levels)` is non-empty) -/
def isUnseen (levels : List Level) : Option Level → Bool
  | some l => !levels.contains l
  | none => true

/-- `eval_new_data_categoric`: rows of the remembered contrast matrix; unseen values follow the
configured policy. Returns the matrix and whether a warning was issued. -/
def newCategoric (st : CompState) (mode : UnseenMode) (xs : List (Option Level)) : M (Matrix × Bool) := do
  match st.contrast with
  | none => .error (.unmodelled "no contrast matrix (response with a reference level)")
  | some cm =>
    let unseen := xs.any (isUnseen st.levels)
    if !unseen then do
      pure (← codeRows cm st.levels xs, false)
    else if mode == .error then .error (.valueError "levels not present in the original data set")
    else
      let width := cm.labels.length
      let rows := xs.map (fun x =>
        match x.bind (fun l => indexOf? l st.levels) with
        | some i => rowOfInts (cm.rows.getD i [])
        | none => List.replicate width (some (0 : Rat)))
      pure (rows, mode == .warning)

/-- `eval_new_data` of one component on a new frame -/
def newComp (st : CompState) (env : Env) (mode : UnseenMode) : M (Matrix × Bool) := do
  let n := env.frame.nrows
  match st.expr with
  | .call .. | .brace .. =>
    match st.kind with
    | .offset =>
      match st.offsetConst with
      | some q => pure (List.replicate n [some q], false)
      | none => do
        let (v, _) ← posOnly (evalArg env st.expr (some st.tstate))
        match v with
        | .offsetVar xs => pure (colOfEntries xs, false)
        | _ => .error .typeError
    | .proportion =>
      match st.propConst with
      | some q => pure (List.replicate n [some q], false)
      | none =>
        match st.propTrialsName.bind env.frame.col? with
        | some c => match colVal c with
          | .vec xs _ => pure (colOfEntries xs, false)
          | _ => .error .typeError
        | none => .error (.keyError "trials")
    | _ => do
      let (v, _) ← posOnly (evalArg env st.expr (some st.tstate))
      if st.kind == .numeric then
        match v with
        | .vec xs _ => pure (colOfEntries xs, false)
        | _ => .error (.unmodelled "numeric call returned a non-vector")
      else
        match v with
        | .box b => newCategoric st mode b.data
        | .lvec xs _ => newCategoric st mode xs
        | .vec xs _ => do newCategoric st mode (← numericLevels xs)
        | _ => .error .typeError
  | _ =>
    let colName := match st.expr with
      | .subset v _ _ _ => v.lexeme
      | .quoted t => String.ofList ((t.lexeme.toList.drop 1).dropLast)
      | .variable v => v.lexeme
      | _ => st.name
    match env.frame.col? colName with
    | none => .error (.keyError colName)
    | some c =>
      match colVal c, st.kind with
      | .vec xs _, .numeric => pure (colOfEntries xs, false)
      | .vec xs _, _ => do newCategoric st mode (← numericLevels xs)
      | .lvec xs _, .numeric => .error (.unmodelled "non-numeric new data for a numeric variable")
      | .lvec xs _, _ => newCategoric st mode xs
      | _, _ => .error .typeError

-- ---------------------------------------------------------------------------------------------
-- terms
-- ---------------------------------------------------------------------------------------------
/-- `utils.get_interaction_matrix`: all products of a column of `x` with a column of `y`, the
column of `x` varying slowest -/
def interactionMatrix (x y : Matrix) : Matrix :=
  List.zipWith (fun rx ry => rx.flatMap (fun a => ry.map (fun b => Entry.mul a b))) x y

/-- labels of an interaction: `itertools.product` of the component labels joined by ':' -/
def interactionLabels (x y : List String) : List String :=
  x.flatMap (fun a => y.map (fun b => a ++ ":" ++ b))

def reduceMatrices : List Matrix → Matrix
  | [] => []
  | m :: ms => ms.foldl interactionMatrix m

def reduceLabels : List (List String) → List String
  | [] => []
  | l :: ls => ls.foldl interactionLabels l

structure TermSpec where
  name : String
  comps : List (String × Bool)        -- component name, full (spans_intercept) flag

structure TermState where
  name : String
  comps : List CompState
  kind : String

structure TermOut where
  st : TermState
  data : Matrix
  labels : Option (List String)

def compExpr (table : List (String × Expr)) (name : String) : M Expr :=
  match table.find? (·.1 == name) with
  | some p => pure p.2
  | none => .error (.unmodelled ("component " ++ name ++ " not found in the formula"))

/-- `Term.set_type` + `Term.set_data` -/
def trainTerm (env : Env) (table : List (String × Expr)) (spec : TermSpec) (forced isResponse : Bool) :
    M TermOut := do
  let outs ← spec.comps.mapM (fun (c : String × Bool) => do
    trainComp env c.1 (← compExpr table c.1) forced isResponse c.2)
  let kind := match outs with
    | [o] => o.st.kind.name
    | _ => "interaction"
  let labels := (outs.mapM (fun (o : CompOut) => o.labels)).map reduceLabels
  pure ⟨⟨spec.name, outs.map (·.st), kind⟩, reduceMatrices (outs.map (·.value)), labels⟩

def newTerm (t : TermState) (env : Env) (mode : UnseenMode) : M (Matrix × Bool) := do
  let outs ← t.comps.mapM (fun c => newComp c env mode)
  pure (reduceMatrices (outs.map (·.1)), outs.any (·.2))

-- ---------------------------------------------------------------------------------------------
-- group-specific terms
-- ---------------------------------------------------------------------------------------------
structure GroupSpec where
  name : String
  expr : Option TermSpec              -- none = intercept
  factor : TermSpec                   -- flags ignored: the factor is always coded full

structure GroupState where
  name : String
  expr : Option TermState
  factor : TermState
  groups : List String
  kind : String

structure GroupOut where
  st : GroupState
  data : Matrix
  labels : Option (List String)

/-- `scipy.linalg.khatri_rao(J.T, X.T).T`: per row, all products J[j]·X[k], j slowest -/
def khatriRao (j x : Matrix) : Matrix := interactionMatrix j x

def onesCol (n : Nat) : Matrix := List.replicate n [some (1 : Rat)]

def trainGroup (env : Env) (table : List (String × Expr)) (spec : GroupSpec) : M GroupOut := do
  let n := env.frame.nrows
  let factorSpec : TermSpec := { spec.factor with comps := spec.factor.comps.map (fun c => (c.1, true)) }
  let f ← trainTerm env table factorSpec true false
  let groups := reduceLabels (f.st.comps.map (fun c => (c.contrast.map (·.labels)).getD []))
  let (xi, exprState, kind, exprLabels) ← match spec.expr with
    | none => pure (onesCol n, none, "intercept", some ["1"])
    | some ts => do
      let t ← trainTerm env table ts false false
      pure (t.data, some t.st, t.st.kind, t.labels)
  let labels := do
    let fl ← f.labels
    let el ← exprLabels
    pure (fl.flatMap (fun g => el.map (fun l => l ++ "|" ++ g)))
  pure ⟨⟨spec.name, exprState, f.st, groups, kind⟩, khatriRao f.data xi, labels⟩

/-- `GroupSpecificTerm.eval_new_data`: rows whose indicator row is all zero get one extra column -/
def newGroup (g : GroupState) (env : Env) (mode : UnseenMode) : M (Matrix × Bool) := do
  let n := env.frame.nrows
  let (xi, w1) ← match g.expr with
    | none => pure (onesCol n, false)
    | some t => newTerm t env mode
  let (ji, w2) ← newTerm g.factor env mode
  let isZeroRow := fun (r : List Entry) => r.all (fun x => x == some 0)
  let ji' := if ji.any isZeroRow then ji.map (fun r => r ++ [some (if isZeroRow r then 1 else 0)]) else ji
  pure (khatriRao ji' xi, w1 || w2)

-- ---------------------------------------------------------------------------------------------
-- containers (matrices.py)
-- ---------------------------------------------------------------------------------------------
structure Slice where
  name : String
  start : Nat
  stop : Nat
  deriving DecidableEq, Repr

/-- the running `start / delta` computation of `evaluate` -/
def slices : List (String × Nat) → Nat → List Slice
  | [], _ => []
  | (name, w) :: rest, start => ⟨name, start, start + w⟩ :: slices rest (start + w)

structure Stacked where
  matrix : Matrix
  slices : List Slice
  labels : Option (List String)

def stack (n : Nat) (parts : List (String × Matrix × Option (List String))) : Stacked :=
  ⟨hstack (parts.map (·.2.1)) n, slices (parts.map (fun p => (p.1, p.2.1.ncols))) 0,
   (parts.mapM (fun (p : String × Matrix × Option (List String)) => p.2.2)).map List.flatten⟩

end FormulaeModel.Design
