import FormulaeModel.Model.Expr
/-
Model of formulae/terms/call_resolver.py.

* `resolve` mirrors `CallResolver` (visitGroupingExpr / visitBinaryExpr / visitUnaryExpr /
  visitCallExpr / visitVariableExpr / visitLiteralExpr / visitQuotedNameExpr), branch by branch,
  including the error branches: an operator kind that is not a key of `BINARY_OPERATORS` /
  `UNARY_OPERATORS` raises `CallResolverError`; `expr.callee.name.lexeme` on a callee that is not
  a `Variable` (`f(x)(y)`, `(f)(x)`, `2(x)`) raises `AttributeError`; an `Assign` that is visited
  (`f((k=2))`) raises `AttributeError` because there is no `visitAssignExpr`.
  The operator tables are parameters (`OpTable`); they are regenerated from the live module on
  every run (`Generated.callBinaryOps`, `callUnaryOps`, `callSymbols`).
* `Lazy.str` mirrors the four `__str__` methods (no parentheses around operands: defect D16).
* `Lazy.eval` mirrors the four `eval` methods over a small value domain (`Val`): exact rational
  scalars and vectors with numpy broadcasting, booleans, strings, `None`.  Anything outside the
  domain (string concatenation, arithmetic on boolean vectors, non-integer exponents, division of
  a vector by zero, numbers beyond the range of a double) is answered `unsupported`; the harness
  then compares the implementation with Python's own `eval` only.
-/
namespace FormulaeModel.Lazy
open FormulaeModel

/-! ### operator tables -/

structure OpTable where
  /-- `CallResolver.BINARY_OPERATORS`: token kind ↦ `__name__` of the function of `operator` -/
  binary : List (String × String)
  /-- `CallResolver.UNARY_OPERATORS` -/
  unary : List (String × String)
  /-- `LazyOperator.SYMBOLS`: function `__name__` ↦ printed symbol -/
  symbols : List (String × String)
  deriving DecidableEq, Repr

def lookup (tbl : List (String × String)) (k : String) : Option String :=
  match tbl.find? (fun p => p.1 == k) with
  | some p => some p.2
  | none => none

/-! ### literal values (`Token.literal`, i.e. `int(lexeme)`, `float(lexeme)`, the string without its
quotes, `eval("True"/"False"/"None")`) -/

inductive LitVal
  | int (n : Nat)
  /-- `float(lexeme)` as the exact decimal it spells, with `repr` of the float (`shown`) -/
  | float (q : Rat) (shown : String)
  | str (s : String)
  | pyTrue | pyFalse | pyNone
  deriving DecidableEq, Repr

def digitVal (c : Char) : Nat := c.toNat - '0'.toNat
def digitsVal (cs : List Char) : Nat := cs.foldl (fun a c => 10 * a + digitVal c) 0

/-- Split the lexeme of a NUMBER token (`D+`, `D+.D+`, `.D+`) into integer and fractional digits. -/
def splitNumber (lex : String) : Option (List Char × Option (List Char)) :=
  let cs := lex.toList
  let ip := cs.takeWhile Char.isDigit
  match cs.dropWhile Char.isDigit with
  | [] => if ip.isEmpty then none else some (ip, none)
  | c :: fp =>
    if c == '.' && !fp.isEmpty && fp.all Char.isDigit then some (ip, some fp) else none

def stripLeadingZeros (cs : List Char) : List Char := cs.dropWhile (· == '0')
def stripTrailingZeros (cs : List Char) : List Char := (stripLeadingZeros cs.reverse).reverse

/-- `repr(float(lexeme))` for the lexemes whose shortest round-trip representation is the
normalised decimal itself: at most 15 significant digits, value `0` or in `[1e-4, 1e16)`.
Outside that range (`1e-05`, `1e+16`, 17-digit expansions) the printing is not modelled. -/
def floatShown (ip fp : List Char) : Option String :=
  let ipS := stripLeadingZeros ip
  let fpS := stripTrailingZeros fp
  let sig := stripTrailingZeros (stripLeadingZeros (ipS ++ fp))
  let tiny := ipS.isEmpty && !fpS.isEmpty && (fp.take 4).all (· == '0')
  if sig.length ≤ 15 && ipS.length ≤ 16 && !tiny then
    some (String.ofList ((if ipS.isEmpty then ['0'] else ipS) ++ '.' ::
      (if fpS.isEmpty then ['0'] else fpS)))
  else none

/-- `Token.literal` of a NUMBER token. -/
def numberLit (lex : String) : Option LitVal :=
  match splitNumber lex with
  | some (ip, none) => some (.int (digitsVal ip))
  | some (ip, some fp) =>
    match floatShown ip fp with
    | some s => some (.float ((digitsVal (ip ++ fp) : Int) / ((10 ^ fp.length : Nat) : Int)) s)
    | none => none
  | none => none

/-- Python's `str(value)`. -/
def LitVal.pyStr : LitVal → String
  | .int n => toString n
  | .float _ s => s
  | .str s => s
  | .pyTrue => "True"
  | .pyFalse => "False"
  | .pyNone => "None"

/-- What the value of a NUMBER lexeme prints as (`str(int(lex))`, `str(float(lex))`). -/
def numberShown (lex : String) : Option String := (numberLit lex).map LitVal.pyStr

/-- `lexeme[1:-1]` -/
def dropEnds (s : String) : String := String.ofList (s.toList.drop 1).dropLast

/-! ### lazy trees -/

mutual
inductive Lazy
  /-- `LazyOperator(op, a)`: `fn = op.__name__`, `sym = SYMBOLS[fn]` -/
  | op1 (fn sym : String) (a : Lazy)
  /-- `LazyOperator(op, a, b)` -/
  | op2 (fn sym : String) (a b : Lazy)
  | var (name : String)
  | value (v : LitVal) (lexeme : Option String)
  /-- `LazyCall(callee, args, kwargs)`; `kwargs` in dict (insertion) order -/
  | call (callee : String) (args : LazyArgs) (kwargs : LazyKw)
  deriving DecidableEq, Repr
inductive LazyArgs
  | nil
  | cons (a : Lazy) (rest : LazyArgs)
  deriving DecidableEq, Repr
inductive LazyKw
  | nil
  | cons (k : String) (a : Lazy) (rest : LazyKw)
  deriving DecidableEq, Repr
end

def LazyKw.find? (k : String) : LazyKw → Option Lazy
  | .nil => none
  | .cons k' a rest => if k' == k then some a else rest.find? k

def LazyKw.erase (k : String) : LazyKw → LazyKw
  | .nil => .nil
  | .cons k' a rest => if k' == k then rest.erase k else .cons k' a (rest.erase k)

def LazyKw.keys : LazyKw → List String
  | .nil => []
  | .cons k _ rest => k :: rest.keys

/-- The dict that results from `kwargs[k] = a` followed by the assignments that produced `rest`:
the key keeps its first position and receives its last value. -/
def kwCons (k : String) (a : Lazy) (rest : LazyKw) : LazyKw :=
  match rest.find? k with
  | some a' => .cons k a' (rest.erase k)
  | none => .cons k a rest

/-! ### `__eq__` (what makes two call terms one term) -/

/-- Python's `==` on literal values: numbers (and `bool`, an `int`) by value whatever their type,
strings by content, `None` with `None`. -/
def LitVal.num? : LitVal → Option Rat
  | .int n => some (n : Int)
  | .float q _ => some q
  | .pyTrue => some 1
  | .pyFalse => some 0
  | _ => none

def LitVal.pyEq (a b : LitVal) : Bool :=
  match a.num?, b.num? with
  | some p, some q => p == q
  | none, none =>
    match a, b with
    | .str s, .str t => s == t
    | .pyNone, .pyNone => true
    | _, _ => false
  | _, _ => false

mutual
/-- `LazyOperator.__eq__` (same symbol, equal argument tuples), `LazyVariable.__eq__`,
`LazyValue.__eq__` (`value == value and lexeme == lexeme`), `LazyCall.__eq__` (same callee, equal
argument lists, equal keyword dicts — dict equality ignores the order). -/
def Lazy.pyEq : Lazy → Lazy → Bool
  | .op1 _ s a, .op1 _ s' a' => s == s' && a.pyEq a'
  | .op2 _ s a b, .op2 _ s' a' b' => s == s' && a.pyEq a' && b.pyEq b'
  | .var n, .var n' => n == n'
  | .value v l, .value v' l' => v.pyEq v' && l == l'
  | .call c as kw, .call c' as' kw' =>
    c == c' && as.pyEq as' && kw.keys.length == kw'.keys.length && kw.pySub kw'
  | _, _ => false
def LazyArgs.pyEq : LazyArgs → LazyArgs → Bool
  | .nil, .nil => true
  | .cons a r, .cons a' r' => a.pyEq a' && r.pyEq r'
  | _, _ => false
/-- every entry of the first dict has an equal entry under the same key in the second -/
def LazyKw.pySub : LazyKw → LazyKw → Bool
  | .nil, _ => true
  | .cons k a r, other =>
    (match other.find? k with
     | some a' => a.pyEq a'
     | none => false) && r.pySub other
end

inductive ResErr
  /-- `CallResolverError("Can't resolve call with binary expression of type …")` -/
  | binaryKind (k : Kind)
  /-- `CallResolverError("Can't resolve call with unary expression of type …")` -/
  | unaryKind (k : Kind)
  /-- `KeyError` in `LazyOperator.__init__` (`SYMBOLS[op.__name__]`) -/
  | symbol (fn : String)
  /-- `AttributeError`: `expr.callee.name` on a callee that is not a `Variable` -/
  | calleeNotVariable
  /-- `AttributeError`: `CallResolver` has no `visitAssignExpr` -/
  | assignVisited
  /-- literal token whose value/printing is outside the model (see `floatShown`) -/
  | unmodelledLiteral
  deriving DecidableEq, Repr

/-- `visitLiteralExpr`: `LazyValue(expr.value, expr.lexeme)`; the parser keeps the lexeme of
STRING tokens only. -/
def resolveLiteral (t : Token) : Except ResErr Lazy :=
  match t.kind with
  | .NUMBER =>
    match numberLit t.lexeme with
    | some v => .ok (.value v none)
    | none => .error .unmodelledLiteral
  | .STRING => .ok (.value (.str (dropEnds t.lexeme)) (some t.lexeme))
  | .PYTHON_LITERAL =>
    if t.lexeme == "True" then .ok (.value .pyTrue none)
    else if t.lexeme == "False" then .ok (.value .pyFalse none)
    else if t.lexeme == "None" then .ok (.value .pyNone none)
    else .error .unmodelledLiteral
  | _ => .error .unmodelledLiteral

/-- `arg.name.name.lexeme` of an `Assign` (the parser guarantees a `Variable` target). -/
def assignName : Expr → Option String
  | .variable n => some n.lexeme
  | .subset n _ _ _ => some n.lexeme
  | _ => none

/-- One step of the loop of `visitCallExpr`, seen from the front of the argument list: a positional
argument is prepended to `args`, a keyword argument is entered into the dict. -/
def packArg (kw : Option String) (a : Lazy) (rest : LazyArgs × LazyKw) : LazyArgs × LazyKw :=
  match kw with
  | none => (.cons a rest.1, rest.2)
  | some k => (rest.1, kwCons k a rest.2)

section
variable (T : OpTable)

mutual
/-- `expr.accept(CallResolver)` -/
def resolve : Expr → Except ResErr Lazy
  | .grouping _ e _ => resolve e
  | .binary l op r =>
    match lookup T.binary op.kind.name with
    | none => .error (.binaryKind op.kind)
    | some fn => do
      let a ← resolve l
      let b ← resolve r
      match lookup T.symbols fn with
      | none => .error (.symbol fn)
      | some sym => pure (.op2 fn sym a b)
  | .unary op r =>
    match lookup T.unary op.kind.name with
    | none => .error (.unaryKind op.kind)
    | some fn => do
      let a ← resolve r
      match lookup T.symbols fn with
      | none => .error (.symbol fn)
      | some sym => pure (.op1 fn sym a)
  | .call c _ as _ => do
    let (la, lk) ← resolveArgs as
    match assignName c with
    | some callee => pure (.call callee la lk)
    | none => .error .calleeNotVariable
  | .brace _ e _ =>
    -- the parser has already turned `{e}` into `Call(Variable(Token("IDENTIFIER", "I")), [e])`
    match e with
    | .assign n _ v => do
      let a ← resolve v
      match assignName n with
      | some k => pure (.call "I" .nil (kwCons k a .nil))
      | none => .error .assignVisited
    | e' => do
      let a ← resolve e'
      pure (.call "I" (.cons a .nil) .nil)
  | .variable n => pure (.var n.lexeme)
  | .subset n _ _ _ => pure (.var n.lexeme)
  | .quoted t => pure (.var (dropEnds t.lexeme))
  | .literal t => resolveLiteral t
  | .assign .. => .error .assignVisited
/-- the loop of `visitCallExpr` over `expr.args` -/
def resolveArgs : Args → Except ResErr (LazyArgs × LazyKw)
  | .nil => pure (.nil, .nil)
  | .last e =>
    match e with
    | .assign n _ v => do
      let a ← resolve v
      match assignName n with
      | some k => pure (packArg (some k) a (.nil, .nil))
      | none => .error .assignVisited
    | e' => do
      let a ← resolve e'
      pure (packArg none a (.nil, .nil))
  | .more e _ rest =>
    match e with
    | .assign n _ v => do
      let a ← resolve v
      match assignName n with
      | some k => do
        let r ← resolveArgs rest
        pure (packArg (some k) a r)
      | none => .error .assignVisited
    | e' => do
      let a ← resolve e'
      let r ← resolveArgs rest
      pure (packArg none a r)
end

/-- `Resolver.visitCallExpr`: `Term(Call(CallResolver(expr).resolve()))`. -/
def resolveCall (e : Expr) : Except ResErr Lazy := resolve T e

end

/-! ### `__str__` -/

def joinWith (sep : String) : List String → String
  | [] => ""
  | [s] => s
  | s :: rest => s ++ sep ++ joinWith sep rest

mutual
/-- `LazyOperator.__str__`, `LazyVariable.__str__`, `LazyValue.__str__`, `LazyCall.__str__` -/
def Lazy.str : Lazy → String
  | .op1 _ sym a => sym ++ a.str
  | .op2 _ sym a b => a.str ++ " " ++ sym ++ " " ++ b.str
  | .var n => n
  | .value v lex =>
    match lex with
    | some l => l
    | none => v.pyStr
  | .call c as kw => c ++ "(" ++ joinWith ", " (as.strs ++ kw.strs) ++ ")"
def LazyArgs.strs : LazyArgs → List String
  | .nil => []
  | .cons a rest => a.str :: rest.strs
def LazyKw.strs : LazyKw → List String
  | .nil => []
  | .cons k a rest => (k ++ "=" ++ a.str) :: rest.strs
end

/-- `Call.name = str(LazyCall)`. -/
def callName (T : OpTable) (e : Expr) : Except ResErr String := (resolveCall T e).map Lazy.str

mutual
/-- The same tree spelled as Python text with every operand parenthesised (not what the code
prints; used by the harness to let Python evaluate the tree the model predicts). -/
def Lazy.parenStr : Lazy → String
  | .op1 _ sym a => "(" ++ sym ++ a.parenStr ++ ")"
  | .op2 _ sym a b => "(" ++ a.parenStr ++ " " ++ sym ++ " " ++ b.parenStr ++ ")"
  | .var n => n
  | .value v lex =>
    match lex with
    | some l => l
    | none => v.pyStr
  | .call c as kw => c ++ "(" ++ joinWith ", " (as.parenStrs ++ kw.parenStrs) ++ ")"
def LazyArgs.parenStrs : LazyArgs → List String
  | .nil => []
  | .cons a rest => a.parenStr :: rest.parenStrs
def LazyKw.parenStrs : LazyKw → List String
  | .nil => []
  | .cons k a rest => (k ++ "=" ++ a.parenStr) :: rest.parenStrs
end

/-! ### values and Python's operators on them -/

inductive Val
  /-- Python `int` / `float` / numpy scalar (exact) -/
  | num (q : Rat)
  | bool (b : Bool)
  | str (s : String)
  | none
  /-- float64 column (`pd.Series` / `np.ndarray`) -/
  | vec (xs : List Rat)
  /-- boolean column -/
  | bvec (xs : List Bool)
  deriving DecidableEq, Repr

inductive EvalErr
  /-- `KeyError`: name in neither the data nor the namespace -/
  | name (n : String)
  /-- `ZeroDivisionError` (Python scalars) -/
  | zeroDiv
  /-- operands of different lengths -/
  | shape
  /-- `ValueError`: truth value of an array is ambiguous -/
  | ambiguous
  /-- outside the modelled value domain -/
  | unsupported
  /-- operator function name that is not one of the thirteen modelled ones -/
  | unknownOp (fn : String)
  /-- an error raised by the callee -/
  | callee
  /-- not an expression of the Python fragment -/
  | notPython
  deriving DecidableEq, Repr

def LitVal.toVal : LitVal → Val
  | .int n => .num (n : Int)
  | .float q _ => .num q
  | .str s => .str s
  | .pyTrue => .bool true
  | .pyFalse => .bool false
  | .pyNone => .none

/-- The functions of the `operator` module used by the tables. -/
inductive BinOp | add | sub | mul | truediv | pow | eq | ne | le | lt | ge | gt
  deriving DecidableEq, Repr
inductive UnOp | pos | neg
  deriving DecidableEq, Repr

def BinOp.ofName? : String → Option BinOp
  | "add" => some .add | "sub" => some .sub | "mul" => some .mul | "truediv" => some .truediv
  | "pow" => some .pow | "eq" => some .eq | "ne" => some .ne | "le" => some .le | "lt" => some .lt
  | "ge" => some .ge | "gt" => some .gt | _ => none

def UnOp.ofName? : String → Option UnOp
  | "pos" => some .pos | "neg" => some .neg | _ => none

/-- numeric operand: Python number (`bool` is an `int`) or float column -/
inductive NV
  | s (q : Rat)
  | v (xs : List Rat)

def Val.asNV? : Val → Option NV
  | .num q => some (.s q)
  | .bool b => some (.s (if b then 1 else 0))
  | .vec xs => some (.v xs)
  | _ => Option.none

def zipWithE {α : Type} (f : Rat → Rat → Except EvalErr α) :
    List Rat → List Rat → Except EvalErr (List α)
  | [], [] => .ok []
  | a :: as, b :: bs => do
    let c ← f a b
    let cs ← zipWithE f as bs
    pure (c :: cs)
  | _, _ => .error .shape

def mapE {α : Type} (f : Rat → Except EvalErr α) : List Rat → Except EvalErr (List α)
  | [] => .ok []
  | a :: as => do
    let c ← f a
    let cs ← mapE f as
    pure (c :: cs)

/-- numpy does not raise on a division by zero inside an array (it yields `inf`/`nan` and a
warning): not modelled. -/
def vecErr : EvalErr → EvalErr
  | .zeroDiv => .unsupported
  | e => e

/-- numpy broadcasting of a scalar operation -/
def broadcast {α : Type} (f : Rat → Rat → Except EvalErr α) (a b : NV) :
    Except EvalErr (α ⊕ List α) :=
  match a, b with
  | .s p, .s q => (f p q).map Sum.inl
  | .s p, .v ys => ((mapE (fun y => f p y) ys).mapError vecErr).map Sum.inr
  | .v xs, .s q => ((mapE (fun x => f x q) xs).mapError vecErr).map Sum.inr
  | .v xs, .v ys => ((zipWithE f xs ys).mapError vecErr).map Sum.inr

/-- doubles end near 2^1024: larger (or finer) exact values are outside the model -/
def inRange (q : Rat) : Bool := q.num.natAbs.log2 ≤ 1000 && q.den.log2 ≤ 1000

def checked (q : Rat) : Except EvalErr Rat := if inRange q then .ok q else .error .unsupported

def ratDiv (p q : Rat) : Except EvalErr Rat := if q = 0 then .error .zeroDiv else checked (p / q)

/-- `p ** q` for an integral exponent of moderate size -/
def ratPow (p q : Rat) : Except EvalErr Rat :=
  if q.den ≠ 1 then .error .unsupported
  else if q.num.natAbs > 64 then .error .unsupported
  else if q.num ≥ 0 then checked (p ^ q.num.natAbs)
  else if p = 0 then .error .zeroDiv
  else checked (1 / p ^ q.num.natAbs)

def isScalarNonNum : Val → Bool
  | .str _ | .none => true
  | _ => false

def isScalar : Val → Bool
  | .num _ | .bool _ | .str _ | .none => true
  | _ => false

def b2q (b : Bool) : Rat := if b then 1 else 0

/-- numeric operand of a comparison: a boolean column counts as 0/1 (numpy promotes it) -/
def Val.asNVb? : Val → Option NV
  | .bvec bs => some (.v (bs.map b2q))
  | v => v.asNV?

def isBvec : Val → Bool
  | .bvec _ => true
  | _ => false

/-- `+ - * / **` with numpy broadcasting.  A boolean column in arithmetic is an integer (or
boolean) array for numpy — logical `+`/`*` between two of them, integer dtype rules against
numbers (`2 ** (b - 2)` raises): not modelled. -/
def arith (f : Rat → Rat → Except EvalErr Rat) (a b : Val) : Except EvalErr Val :=
  if isBvec a || isBvec b then .error .unsupported else
  match a.asNV?, b.asNV? with
  | some x, some y => do
    match ← broadcast f x y with
    | .inl q => pure (.num q)
    | .inr qs => pure (.vec qs)
  | _, _ => .error .unsupported

def compareNum (f : Rat → Rat → Bool) (a b : Val) : Except EvalErr Val :=
  match a.asNVb?, b.asNVb? with
  | some x, some y => do
    match ← broadcast (fun p q => Except.ok (f p q)) x y with
    | .inl c => pure (.bool c)
    | .inr cs => pure (.bvec cs)
  | _, _ => .error .unsupported

/-- `==` : numbers by value, strings and `None` by identity of kind and content, a string or `None`
against any other scalar is `False` -/
def pyEq (a b : Val) : Except EvalErr Val :=
  match a, b with
  | .str s, .str t => .ok (.bool (s == t))
  | .none, .none => .ok (.bool true)
  | _, _ =>
    if (isScalarNonNum a && isScalar b) || (isScalar a && isScalarNonNum b) then .ok (.bool false)
    else compareNum (fun p q => p == q) a b

def pyNot : Val → Except EvalErr Val
  | .bool c => .ok (.bool (!c))
  | .bvec cs => .ok (.bvec (cs.map (!·)))
  | _ => .error .unsupported

def BinOp.apply : BinOp → Val → Val → Except EvalErr Val
  | .add, a, b => arith (fun p q => checked (p + q)) a b
  | .sub, a, b => arith (fun p q => checked (p - q)) a b
  | .mul, a, b => arith (fun p q => checked (p * q)) a b
  | .truediv, a, b => arith ratDiv a b
  | .pow, a, b => arith ratPow a b
  | .eq, a, b => pyEq a b
  | .ne, a, b => do pyNot (← pyEq a b)
  | .le, a, b => compareNum (fun p q => p ≤ q) a b
  | .lt, a, b => compareNum (fun p q => p < q) a b
  | .ge, a, b => compareNum (fun p q => p ≥ q) a b
  | .gt, a, b => compareNum (fun p q => p > q) a b

def UnOp.apply : UnOp → Val → Except EvalErr Val
  | .pos, a =>
    match a.asNV? with
    | some (.s q) => .ok (.num q)
    | some (.v xs) => .ok (.vec xs)
    | Option.none => .error .unsupported
  | .neg, a =>
    match a.asNV? with
    | some (.s q) => .ok (.num (-q))
    | some (.v xs) => .ok (.vec (xs.map (fun x => -x)))
    | Option.none => .error .unsupported

/-- `op(*args)` where `op` is the function of `operator` named `fn` -/
def applyBin (fn : String) (a b : Val) : Except EvalErr Val :=
  match BinOp.ofName? fn with
  | some op => op.apply a b
  | Option.none => .error (.unknownOp fn)

def applyUn (fn : String) (a : Val) : Except EvalErr Val :=
  match UnOp.ofName? fn with
  | some op => op.apply a
  | Option.none => .error (.unknownOp fn)

/-- What names evaluate to: `data_mask[name]`, then `env.namespace[name]` for variables;
`get_function_from_module(callee, env)` for callees (a callable receives the positional values
and the keyword values in dict order). -/
structure Env where
  var : String → Option Val
  fn : String → Option (List Val → List (String × Val) → Except EvalErr Val)

section
variable (env : Env)

mutual
/-- `LazyOperator.eval`, `LazyVariable.eval`, `LazyValue.eval`, `LazyCall.eval` -/
def Lazy.eval : Lazy → Except EvalErr Val
  | .op1 fn _ a => do
    let x ← a.eval
    applyUn fn x
  | .op2 fn _ a b => do
    let x ← a.eval
    let y ← b.eval
    applyBin fn x y
  | .var n =>
    match env.var n with
    | some v => .ok v
    | Option.none => .error (.name n)
  | .value v _ => .ok v.toVal
  | .call c as kw =>
    match env.fn c with
    | Option.none => .error (.name c)
    | some f => do
      let xs ← as.eval
      let ks ← kw.eval
      f xs ks
def LazyArgs.eval : LazyArgs → Except EvalErr (List Val)
  | .nil => .ok []
  | .cons a rest => do
    let x ← a.eval
    let xs ← rest.eval
    pure (x :: xs)
def LazyKw.eval : LazyKw → Except EvalErr (List (String × Val))
  | .nil => .ok []
  | .cons k a rest => do
    let x ← a.eval
    let xs ← rest.eval
    pure ((k, x) :: xs)
end

end

end FormulaeModel.Lazy
