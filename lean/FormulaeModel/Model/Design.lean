import FormulaeModel.Model.Frame
import FormulaeModel.Model.Expr
/-
Model of the evaluation stage: what `Variable`/`Call.set_type/set_data/eval_new_data`,
`Term.set_data/labels/eval_new_data`, `GroupSpecificTerm.set_data/labels/eval_new_data`,
`utils.get_interaction_matrix`, `categorical.Treatment/Sum/CategoricalBox`, the helpers
`C/T/S/center/binary/offset/prop/I` of transforms.py and the containers of matrices.py compute,
over exact rationals.

The coding decisions (full / reduced per component) are an *input* of this model: they are
produced by the redundancy analysis (model: `Model/Encoding.lean`, property C03) and are observed
from the implementation by the harness; this model says what the matrices, labels, levels and
slices are *given* those decisions.  Training (`train…`) and prediction (`new…`) are modelled as
the two separate code paths they are; the state a component remembers between them is `CompState`.
-/
namespace FormulaeModel.Design
open FormulaeModel

inductive Err
  | keyError (name : String)       -- column / name not found
  | typeError
  | valueError (what : String)
  | unmodelled (what : String)     -- outside this model (not compared)
  deriving Repr, DecidableEq

abbrev M := Except Err

-- ---------------------------------------------------------------------------------------------
-- contrast codings (categorical.py)
-- ---------------------------------------------------------------------------------------------
inductive Contrast
  | treatment (reference : Option Level)
  | sum (omitL : Option Level)
  deriving DecidableEq, Repr

structure ContrastMatrix where
  rows : List (List Int)      -- one row per level
  labels : List String
  deriving Repr, DecidableEq

def unitRow (n j : Nat) : List Int := (List.range n).map (fun k => if k == j then 1 else 0)

def indexOf? [DecidableEq α] (x : α) (xs : List α) : Option Nat :=
  let i := xs.findIdx (· == x)
  if i < xs.length then some i else none

/-- `Treatment.code_with_intercept`: identity, labels = str(level) -/
def treatmentFull (levels : List Level) : ContrastMatrix :=
  ⟨(List.range levels.length).map (unitRow levels.length), levels.map Level.label⟩

/-- `Treatment.code_without_intercept`: eye(n-1) with a zero row inserted at the reference -/
def treatmentReduced (reference : Option Level) (levels : List Level) : M ContrastMatrix := do
  let r ← match reference with
    | none => pure 0
    | some l => match indexOf? l levels with
      | some i => pure i
      | none => .error (.valueError "reference not in levels")
  let n := levels.length
  let rows := (List.range n).map (fun i =>
    if i < r then unitRow (n - 1) i else if i == r then List.replicate (n - 1) 0
    else unitRow (n - 1) (i - 1))
  pure ⟨rows, ((levels.take r) ++ (levels.drop (r + 1))).map Level.label⟩

def sumOmitIndex (omitL : Option Level) (levels : List Level) : M Nat :=
  match omitL with
  | none => pure (levels.length - 1)
  | some l => match indexOf? l levels with
    | some i => pure i
    | none => .error (.valueError "omit not in levels")

/-- `Sum.code_without_intercept` -/
def sumReduced (omitL : Option Level) (levels : List Level) : M ContrastMatrix := do
  let o ← sumOmitIndex omitL levels
  let n := levels.length
  let rows := (List.range n).map (fun i =>
    if i < o then unitRow (n - 1) i else if i == o then List.replicate (n - 1) (-1)
    else unitRow (n - 1) (i - 1))
  pure ⟨rows, ((levels.take o) ++ (levels.drop (o + 1))).map Level.label⟩

/-- `Sum.code_with_intercept`: a column of ones in front, label "mean" -/
def sumFull (omitL : Option Level) (levels : List Level) : M ContrastMatrix := do
  let c ← sumReduced omitL levels
  pure ⟨c.rows.map (fun r => 1 :: r), "mean" :: c.labels⟩

def Contrast.code (c : Contrast) (full : Bool) (levels : List Level) : M ContrastMatrix :=
  match c, full with
  | .treatment _, true => pure (treatmentFull levels)
  | .treatment r, false => treatmentReduced r levels
  | .sum o, true => sumFull o levels
  | .sum o, false => sumReduced o levels

-- ---------------------------------------------------------------------------------------------
-- values of lazy evaluation (call_resolver.py, transforms.py)
-- ---------------------------------------------------------------------------------------------
/-- `CategoricalBox` -/
structure Box where
  data : List (Option Level)
  contrast : Option Contrast
  levels : Option (List Level)
  deriving Repr, DecidableEq

inductive Val
  | vec (xs : List Entry) (isInt : Bool)           -- numeric Series
  | lvec (xs : List (Option Level)) (declared : Option (Bool × List String))  -- str / Categorical
  | num (q : Rat) (isInt : Bool)
  | str (s : String)
  | pyNone
  | bool (b : Bool)
  | levels (ls : List Level)                       -- a Python list taken from the environment
  | contrast (c : Contrast)
  | box (b : Box)
  | offsetVar (xs : List Entry)                    -- Offset(kind = "variable")
  | offsetConst (q : Rat)                          -- Offset(kind = "constant")
  | prop (succ trials : List Entry) (constant : Option Rat)   -- Proportion
  deriving Repr

/-- What the stateful transform instances of a call tree remember.  The state is a tree of the
same shape as the lazy call tree: in Python every `LazyCall` node owns its transform instance
(`self.stateful_transform`), created on the first evaluation and reused afterwards.  `own` is the
fitted parameter of the node's own transform (the mean of `center`), `children` the states of the
argument nodes in evaluation order. -/
inductive TS
  | leaf
  | node (own : Option Rat) (children : List TS)
  deriving Repr

def TS.child (ts : Option TS) (i : Nat) : Option TS :=
  match ts with
  | some (.node _ cs) => cs[i]?
  | _ => Option.none

def TS.own (ts : Option TS) : Option Rat :=
  match ts with
  | some (.node o _) => o
  | _ => Option.none

structure Env where
  frame : Frame
  /-- names bound in the caller's namespace (lists of levels, scalars, strings) -/
  names : List (String × Val) := []

def colVal (c : Column) : Val :=
  match c.kind with
  | .numeric isInt =>
    .vec (c.cells.map (fun x => match x with | .num q => some q | _ => Option.none)) isInt
  | .string =>
    .lvec (c.cells.map (fun x => match x with | .str s => some (.s s) | _ => Option.none)) Option.none
  | .categorical o cats =>
    .lvec (c.cells.map (fun x => match x with | .str s => some (.s s) | _ => Option.none))
      (some (o, cats))

/-- `LazyVariable.eval`: the data frame first, then the environment -/
def lookupName (env : Env) (name : String) : M Val :=
  match env.frame.col? name with
  | some c => pure (colVal c)
  | Option.none =>
    -- built-in encodings come before the caller's namespace
    if name == "Treatment" then pure (.contrast (.treatment Option.none))
    else if name == "Sum" then pure (.contrast (.sum Option.none))
    else
    match env.names.find? (·.1 == name) with
    | some p => pure p.2
    | Option.none => .error (.keyError name)

def entryOp (f : Rat → Rat → Option Rat) : Entry → Entry → Entry
  | some a, some b => f a b
  | _, _ => Option.none

def vecOp (f : Rat → Rat → Option Rat) (a b : Val) : M Val :=
  match a, b with
  | .vec xs i, .vec ys j => pure (.vec (List.zipWith (entryOp f) xs ys) (i && j))
  | .vec xs i, .num q j => pure (.vec (xs.map (fun x => entryOp f x (some q))) (i && j))
  | .num q i, .vec ys j => pure (.vec (ys.map (fun y => entryOp f (some q) y)) (i && j))
  | .num p i, .num q j => match f p q with
    | some r => pure (.num r (i && j))
    | Option.none => .error (.unmodelled "scalar division by zero")
  | _, _ => .error (.unmodelled "operator on non-numeric values")

def mean (xs : List Entry) : Entry :=
  if xs.isEmpty then Option.none
  else (xs.foldl (fun acc x => entryOp (fun a b => some (a + b)) acc x) (some 0)).map
    (· / (xs.length : Rat))

def intLexeme (s : String) : Option Int :=
  if !s.isEmpty && s.toList.all Char.isDigit then s.toNat?.map Int.ofNat else Option.none

/-- value of a plain decimal lexeme as a rational -/
def decLexeme (s : String) : Option Rat :=
  let (ip, rest) := s.toList.span (· != '.')
  let fp := rest.drop 1
  if (ip ++ fp).all Char.isDigit && !(ip ++ fp).isEmpty then
    let digits := String.ofList (ip ++ fp)
    digits.toNat?.map (fun n => (n : Rat) / ((10 : Rat) ^ fp.length))
  else Option.none

def levelOfVal : Val → Option Level
  | .str s => some (.s s)
  | .num q true => some (.n q.num)
  | _ => Option.none

def asLevels (xs : List (Option Level)) : List (Option Level) := xs

/-- data argument of `C/T/S`: `np.asarray(series)` -/
def dataLevels : Val → M (List (Option Level) × Option (Bool × List String))
  | .lvec xs d => pure (xs, d)
  | .vec xs true => pure (xs.map (fun x => x.map (fun q => Level.n q.num)), Option.none)
  | _ => .error (.unmodelled "categorical data of this type")

def contrastOfVal : Val → M (Option Contrast)
  | .pyNone => pure Option.none
  | .contrast c => pure (some c)
  | _ => .error (.valueError "contrast")

def levelsOfVal : Val → M (Option (List Level))
  | .pyNone => pure Option.none
  | .levels ls => pure (some ls)
  | _ => .error (.unmodelled "levels argument")

def sameSet [DecidableEq α] (a b : List α) : Bool := a.all b.contains && b.all a.contains

/-- `CategoricalBox(data, contrast, levels)` incl. the `levels` setter check -/
def mkBox (data : List (Option Level)) (declared : Option (Bool × List String))
    (contrast : Option Contrast) (levels : Option (List Level)) : M Box := do
  -- ordered data and no explicit levels: use the declared order
  let levels := match levels, declared with
    | Option.none, some (true, cats) => some (cats.map Level.s)
    | l, _ => l
  match levels with
  | some ls =>
    -- `set(value) != set(self.data)`
    let present := dedupL (data.filterMap id)
    if data.any Option.isNone then .error (.unmodelled "missing value in categorical data")
    else if sameSet ls present then pure ⟨data, contrast, some ls⟩
    else .error (.valueError "levels and data differ")
  | Option.none => pure ⟨data, contrast, Option.none⟩

structure CallArgs where
  pos : List Val
  kw : List (String × Val)

def CallArgs.get (a : CallArgs) (i : Nat) (name : String) : Val :=
  match a.pos[i]? with
  | some v => v
  | Option.none => ((a.kw.find? (·.1 == name)).map (·.2)).getD Val.pyNone

/-- the built-in functions this model covers (transforms.py).  `own` is the state of this call
node's transform instance: `none` on the first evaluation (`params_set = False`: the parameters
are estimated and remembered), `some m` afterwards (they are reused). Returns the value and the
state after the call. -/
def applyCallee (callee : String) (a : CallArgs) (own : Option Rat) : M (Val × Option Rat) :=
  match callee with
  | "I" => match a.pos with
    | [v] => pure (v, own)
    | _ => .error .typeError
  | "center" =>
    match a.pos with
    | [.vec xs _] =>
      match own with
      | Option.none =>
        match mean xs with
        | some m => pure (.vec (xs.map (fun x => x.map (· - m))) false, some m)
        | Option.none => .error (.unmodelled "mean of data with NaN")
      | some m => pure (.vec (xs.map (fun x => x.map (· - m))) false, some m)
    | _ => .error (.unmodelled "center of a non-vector")
  | "Treatment" => pure (.contrast (.treatment (levelOfVal (a.get 0 "reference"))), own)
  | "Sum" => pure (.contrast (.sum (levelOfVal (a.get 0 "omit"))), own)
  | "C" => do
    let contrast ← contrastOfVal (a.get 1 "contrast")
    let levels ← levelsOfVal (a.get 2 "levels")
    match a.get 0 "data" with
    | .box b =>
      let b' ← mkBox b.data Option.none (contrast <|> b.contrast) (levels <|> b.levels)
      pure (.box b', own)
    | d => do
      let (xs, decl) ← dataLevels d
      pure (.box (← mkBox xs decl contrast levels), own)
  | "T" => do
    let levels ← levelsOfVal (a.get 2 "levels")
    let (xs, decl) ← dataLevels (a.get 0 "data")
    pure (.box (← mkBox xs decl (some (.treatment (levelOfVal (a.get 1 "ref")))) levels), own)
  | "S" => do
    let levels ← levelsOfVal (a.get 2 "levels")
    let (xs, decl) ← dataLevels (a.get 0 "data")
    pure (.box (← mkBox xs decl (some (.sum (levelOfVal (a.get 1 "omit")))) levels), own)
  | "offset" =>
    match a.pos with
    | [.vec xs _] => pure (.offsetVar xs, own)
    | [.num q _] => pure (.offsetConst q, own)
    | _ => .error (.valueError "offset")
  | _ => .error (.unmodelled ("callee " ++ callee))

/-- `binary(x, success)` / `B` -/
def binaryFn (x : Val) (success : Val) : M Val := do
  match x with
  | .vec xs _ =>
    if xs.any Option.isNone then .error (.unmodelled "binary of data with NaN") else
    let vals := xs.filterMap id
    let s ← match success with
      | .pyNone => match sortBy (· < ·) vals with
        | v :: _ => pure v
        | [] => .error (.valueError "empty")
      | .num q _ => pure q
      | _ => .error (.valueError "No value in 'x' is equal")
    if vals.contains s then pure (.vec (xs.map (fun v => some (if v == some s then 1 else 0))) true)
    else .error (.valueError "No value in 'x' is equal")
  | .lvec xs _ =>
    if xs.any Option.isNone then .error (.unmodelled "binary of data with NaN") else
    let vals := xs.filterMap id
    let s ← match success with
      | .pyNone => match sortLevels vals with
        | some (v :: _) => pure v
        | _ => .error (.valueError "empty")
      | v => match levelOfVal v with
        | some l => pure l
        | Option.none => .error (.valueError "No value in 'x' is equal")
    if vals.contains s then pure (.vec (xs.map (fun v => some (if v == some s then 1 else 0))) true)
    else .error (.valueError "No value in 'x' is equal")
  | _ => .error (.unmodelled "binary of this type")

def isIntegral (xs : List Entry) : Bool := xs.all (fun x => match x with | some q => q.den == 1 | Option.none => false)

/-- `proportion(successes, trials)` with the validations of `Proportion.__init__` -/
def proportionFn (succ trials : Val) : M Val := do
  match succ with
  | .vec ss _ =>
    let (ts, const) ← match trials with
      | .vec ts _ => pure (ts, Option.none)
      | .num q true => pure (List.replicate ss.length (some q), some q)
      | _ => .error (.valueError "'trials' must be a variable name or an integer.")
    if !isIntegral ss then .error (.valueError "'successes' must be a collection of integer numbers")
    else if !isIntegral ts then .error (.valueError "'trials' must be a collection of integer numbers")
    else if !(List.zipWith (fun a b => match a, b with | some x, some y => decide (x ≤ y) | _, _ => false) ss ts).all id
      then .error (.valueError "'successes' cannot be greater than 'trials'")
    else pure (.prop ss ts const)
  | _ => .error (.valueError "'successes' must be a variable name.")

/-- `LazyCall.eval` once the arguments are evaluated -/
def finishCall (callee : String) (args : CallArgs) (own : Option Rat) : M (Val × Option Rat) :=
  match callee with
  | "binary" | "B" => do pure (← binaryFn (args.get 0 "x") (args.get 1 "success"), own)
  | "p" | "prop" | "proportion" => do
    pure (← proportionFn (args.get 0 "successes") (args.get 1 "trials"), own)
  | _ => applyCallee callee args own

abbrev ArgR := Option String × Val × TS     -- (keyword if the node is an Assign, value, state after)

def posOnly (r : M ArgR) : M (Val × TS) := do
  match (← r) with
  | (Option.none, v, st) => pure (v, st)
  | (some _, _, _) => .error .typeError

mutual
/-- `Lazy*.eval` on an argument expression.  `ts` is the state of this node's subtree:
`none` on the first evaluation (training), the remembered tree afterwards (prediction).
An `Assign` node is reported with its keyword (only a call's argument list accepts it). -/
def evalArg (env : Env) : Expr → Option TS → M ArgR
  | .grouping _ e _, ts => do
    let (v, st) ← posOnly (evalArg env e ts)
    pure (Option.none, v, st)
  | .variable n, _ => do pure (Option.none, ← lookupName env n.lexeme, .leaf)
  | .subset n _ _ _, _ => do pure (Option.none, ← lookupName env n.lexeme, .leaf)
  | .quoted t, _ => do
    pure (Option.none, ← lookupName env (String.ofList ((t.lexeme.toList.drop 1).dropLast)), .leaf)
  | .literal t, _ =>
    match t.kind with
    | .NUMBER =>
      match intLexeme t.lexeme with
      | some n => pure (Option.none, .num n true, .leaf)
      | Option.none => match decLexeme t.lexeme with
        | some q => pure (Option.none, .num q false, .leaf)
        | Option.none => .error (.unmodelled "number")
    | .STRING => pure (Option.none, .str (String.ofList ((t.lexeme.toList.drop 1).dropLast)), .leaf)
    | _ =>
      if t.lexeme == "True" then pure (Option.none, .bool true, .leaf)
      else if t.lexeme == "False" then pure (Option.none, .bool false, .leaf)
      else pure (Option.none, .pyNone, .leaf)
  | .unary op r, ts => do
    let (v, st) ← posOnly (evalArg env r (TS.child ts 0))
    if op.kind == .MINUS then do
      pure (Option.none, ← vecOp (fun a b => some (a * b)) (.num (-1) true) v, .node Option.none [st])
    else pure (Option.none, v, .node Option.none [st])
  | .binary l op r, ts => do
    let (a, sa) ← posOnly (evalArg env l (TS.child ts 0))
    let (b, sb) ← posOnly (evalArg env r (TS.child ts 1))
    let st := TS.node Option.none [sa, sb]
    match op.kind with
    | .PLUS => do pure (Option.none, ← vecOp (fun x y => some (x + y)) a b, st)
    | .MINUS => do pure (Option.none, ← vecOp (fun x y => some (x - y)) a b, st)
    | .STAR => do pure (Option.none, ← vecOp (fun x y => some (x * y)) a b, st)
    | .SLASH =>
      match b with
      | .num q _ => if q == 0 then .error (.unmodelled "division by zero") else do
          pure (Option.none, ← vecOp (fun x y => some (x / y)) a (.num q false), st)
      | _ => .error (.unmodelled "division by a vector")
    | _ => .error (.unmodelled "operator")
  | .call c _ as _, ts =>
    match c with
    | .variable n => do
      let (args, sts) ← evalArgs env as ts 0 ⟨[], []⟩
      let (v, own) ← finishCall n.lexeme args (TS.own ts)
      pure (Option.none, v, .node own sts)
    | _ => .error (.unmodelled "callee expression")
  | .brace _ e _, ts => do
    let (v, st) ← posOnly (evalArg env e (TS.child ts 0))
    pure (Option.none, v, .node Option.none [st])
  | .assign n _ v, ts => do
    let (x, st) ← posOnly (evalArg env v ts)
    match n with
    | .variable t => pure (some t.lexeme, x, st)
    | _ => .error .typeError
/-- arguments left to right: positional list and keyword list; the `i`-th argument uses the
`i`-th child state of the call node -/
def evalArgs (env : Env) : Args → Option TS → Nat → CallArgs → M (CallArgs × List TS)
  | .nil, _, _, acc => pure (acc, [])
  | .last e, ts, i, acc => do
    match (← evalArg env e (TS.child ts i)) with
    | (some k, x, st) => pure (⟨acc.pos, acc.kw ++ [(k, x)]⟩, [st])
    | (Option.none, x, st) => pure (⟨acc.pos ++ [x], acc.kw⟩, [st])
  | .more e _ rest, ts, i, acc => do
    match (← evalArg env e (TS.child ts i)) with
    | (some k, x, st) => do
      let (a, sts) ← evalArgs env rest ts (i + 1) ⟨acc.pos, acc.kw ++ [(k, x)]⟩
      pure (a, st :: sts)
    | (Option.none, x, st) => do
      let (a, sts) ← evalArgs env rest ts (i + 1) ⟨acc.pos ++ [x], acc.kw⟩
      pure (a, st :: sts)
end

end FormulaeModel.Design
