/-
Model of `formulae/contrasts.py` (patsy-style redundancy analysis), mirrored function by function.

Python object                      model
---------------------------------  -----------------------------------------------------------
factor (a component *name*)        `Factor := String`
`ExpandedFactor(incl, factor)`     `EFactor := Factor × Bool`   (factor, includes_intercept)
`Subterm.efactors : frozenset`     `Subterm := List EFactor`, duplicate-free, compared as a set
`set()` of Subterms                `List Subterm`, only ever queried with `in`
`dict`                             `Dict β := List (String × β)`: insertion ordered association
                                   list; assignment to an existing key keeps its position
`assert`                           `Except Err`
the `while self._simplify_subterm()` loop   fuel = length of the list (each round pops one entry;
                                   `Proofs/Contrasts` shows the fuel is never exhausted)

No Mathlib imports: this file is linked into the driver.
-/
namespace FormulaeModel.Contrasts

/-! ### Python `dict` with insertion order -/

abbrev Dict (β : Type) := List (String × β)

/-- `d[k] = v` -/
def Dict.set {β : Type} : Dict β → String → β → Dict β
  | [], k, v => [(k, v)]
  | (k', v') :: rest, k, v => if k' == k then (k, v) :: rest else (k', v') :: Dict.set rest k v

/-- `d.get(k)` -/
def Dict.get? {β : Type} : Dict β → String → Option β
  | [], _ => none
  | (k', v') :: rest, k => if k' == k then some v' else Dict.get? rest k

/-- `k in d` -/
def Dict.has {β : Type} (d : Dict β) (k : String) : Bool := d.any (fun e => e.1 == k)

def Dict.keys {β : Type} (d : Dict β) : List String := d.map (·.1)

/-- `d.update(e)` -/
def Dict.update {β : Type} (d e : Dict β) : Dict β := e.foldl (fun acc kv => Dict.set acc kv.1 kv.2) d

/-! ### `_sorted_subsets` -/

/-- The generator `helper`: all sub-sequences of the enumerated tuple.  (In Python the recursive
call goes through `_sorted_subsets`, which sorts the intermediate list; the intermediate order is
irrelevant because the final list is sorted twice by a total order on distinct index tuples.) -/
def subsetsRaw {α : Type} : List α → List (List α)
  | [] => [[]]
  | x :: xs => (subsetsRaw xs).flatMap (fun s => [s, x :: s])

/-- Python's `<` on tuples of positions. -/
def lexLt : List Nat → List Nat → Bool
  | [], [] => false
  | [], _ :: _ => true
  | _ :: _, [] => false
  | a :: as, b :: bs => if a < b then true else if b < a then false else lexLt as bs

/-- Stable insertion: `x` (which preceded every element of the list) goes before the first element
that is not strictly smaller. -/
def insertBy {α : Type} (lt : α → α → Bool) (x : α) : List α → List α
  | [] => [x]
  | y :: ys => if lt y x then y :: insertBy lt x ys else x :: y :: ys

/-- `list.sort()` (stable). -/
def sortBy {α : Type} (lt : α → α → Bool) : List α → List α
  | [] => []
  | x :: xs => insertBy lt x (sortBy lt xs)

/-- `_sorted_subsets(tupl)`: all subsets of the tuple, sorted by their positions and then (stably)
by size. -/
def sortedSubsets {α : Type} (tupl : List α) : List (List α) :=
  let expanded := tupl.zipIdx                                   -- list(enumerate(tupl)) as (obj, idx)
  let expandedSubsets := subsetsRaw expanded
  let s1 := sortBy (fun a b => lexLt (a.map (·.2)) (b.map (·.2))) expandedSubsets   -- .sort()
  let s2 := sortBy (fun a b => a.length < b.length) s1                                -- .sort(key=len)
  s2.map (fun subset => subset.map (·.1))

/-! ### `ExpandedFactor`, `Subterm` -/

abbrev Factor := String
abbrev EFactor := Factor × Bool
abbrev Subterm := List EFactor
/-- one `factor_coding` dictionary: factor name ↦ includes_intercept -/
abbrev Coding := Dict Bool

inductive Err
  | assertDiff      -- `assert len(diff) == 1`
  | assertFull      -- `assert not efactor.includes_intercept`
  | fuel            -- model artefact, proved unreachable
  deriving DecidableEq, Repr

def Err.tag : Err → String
  | .assertDiff => "assert_diff" | .assertFull => "assert_full" | .fuel => "fuel"

/-- `frozenset(l)`: duplicates removed. -/
def dedup {α : Type} [BEq α] : List α → List α
  | [] => []
  | x :: xs => if xs.contains x then dedup xs else x :: dedup xs

def mkSubterm (efactors : List EFactor) : Subterm := dedup efactors

/-- `a.issubset(b)` -/
def subset (a b : Subterm) : Bool := a.all (fun e => b.contains e)

/-- `Subterm.__eq__`: equality of the frozensets. -/
def eqv (a b : Subterm) : Bool := subset a b && subset b a

/-- `set.add` -/
def setAdd (s : Subterm) (e : EFactor) : Subterm := if s.contains e then s else s ++ [e]

/-- `self.can_absorb(other)` -/
def canAbsorb (self other : Subterm) : Bool :=
  let isOneElementSmaller := self.length == other.length + 1
  let isContainedWithinSelf := subset other self
  isOneElementSmaller && isContainedWithinSelf

/-- `self.absorb(other)` -/
def absorb (self other : Subterm) : Except Err Subterm :=
  let diff := self.filter (fun e => !other.contains e)
  match diff with
  | [efactor] =>
    if efactor.2 then .error .assertFull
    else .ok (setAdd other (efactor.1, true))
  | _ => .error .assertDiff

/-! ### `ExpandedTerm._simplify_subterm`, `simplify_subterms` -/

/-- Inner loop of `_simplify_subterm` for a fixed `short`: the first later entry that can absorb
`short` is replaced, in place, by the absorption; `none` when there is no such entry. -/
def absorbInto (short : Subterm) : List Subterm → Except Err (Option (List Subterm))
  | [] => .ok none
  | long :: rest =>
    if canAbsorb long short then
      match absorb long short with
      | .ok new => .ok (some (new :: rest))
      | .error e => .error e
    else
      match absorbInto short rest with
      | .ok (some r) => .ok (some (long :: r))
      | .ok none => .ok none
      | .error e => .error e

/-- `_simplify_subterm`: first pair `(short_i, long_i)` in iteration order; the long entry is
replaced (`self.subterms[short_i + 1 + long_i] = new`) and the short one popped.  `some l` is
`return True` with the mutated list, `none` is `return False`. -/
def simplifyStep : List Subterm → Except Err (Option (List Subterm))
  | [] => .ok none
  | short :: rest =>
    match absorbInto short rest with
    | .ok (some r) => .ok (some r)
    | .error e => .error e
    | .ok none =>
      match simplifyStep rest with
      | .ok (some r) => .ok (some (short :: r))
      | .ok none => .ok none
      | .error e => .error e

/-- `while self._simplify_subterm(): pass` -/
def simplifyLoop : Nat → List Subterm → Except Err (List Subterm)
  | 0, subs =>
    match simplifyStep subs with
    | .ok none => .ok subs
    | .ok (some _) => .error .fuel
    | .error e => .error e
  | fuel + 1, subs =>
    match simplifyStep subs with
    | .ok none => .ok subs
    | .ok (some subs') => simplifyLoop fuel subs'
    | .error e => .error e

def simplifySubterms (subs : List Subterm) : Except Err (List Subterm) :=
  simplifyLoop subs.length subs

/-! ### `ExpandedTerm.pick_contrast`, `pick_contrasts` -/

/-- the `factor_coding` dictionary of one subterm -/
def toCoding (s : Subterm) : Coding := s.foldl (fun d e => Dict.set d e.1 e.2) []

/-- `ExpandedTerm(name, components).pick_contrast(used_subterms)`; returns the factor codings and
the updated `used_subterms`. -/
def pickContrast (components : List Factor) (used : List Subterm) :
    Except Err (List Coding × List Subterm) :=
  let candidates := (sortedSubsets components).map (fun subset => mkSubterm (subset.map (fun f => (f, false))))
  let subterms := candidates.filter (fun st => !(used.any (fun u => eqv st u)))
  let used' := used ++ subterms                   -- used_subterms.update(self.subterms)
  match simplifySubterms subterms with
  | .ok final => .ok (final.map toCoding, used')
  | .error e => .error e

def pickContrastsAux (used : List Subterm) :
    List (String × List Factor) → Except Err (Dict (List Coding))
  | [] => .ok []
  | (name, components) :: rest =>
    match pickContrast components used with
    | .error e => .error e
    | .ok (codings, used') =>
      match pickContrastsAux used' rest with
      | .error e => .error e
      | .ok tail => .ok ((name, codings) :: tail)

/-- `pick_contrasts(group)`; `group` is a Python dict, so its keys are pairwise distinct and
`codings[name] = …` appends. -/
def pickContrasts (group : List (String × List Factor)) : Except Err (Dict (List Coding)) :=
  pickContrastsAux [] group

end FormulaeModel.Contrasts
