import FormulaeModel.Model.Scanner
import FormulaeModel.Model.Parser
import FormulaeModel.Model.Resolver
import FormulaeModel.Model.Encoding
import FormulaeModel.Model.Matrices
import FormulaeModel.Model.NA
/-
The whole of `design_matrices(formula, data, na_action)` as one Lean function, composed from the
stage models:

  string --Scanner--> tokens --Parser--> AST --Resolver/Terms--> model description
     --NA step (var_names, complete rows)--> frame
     --set_type (kinds)--> --Encoding (redundancy analysis, helper terms, flags)-->
     --Design/Matrices (levels, codings, products, labels, blocks, slices)--> matrices

Unlike the driver op "design" (which takes the coding decisions observed from the implementation
as an input), nothing but the formula, the data and the caller's names enters here.
-/
namespace FormulaeModel.Pipeline
open FormulaeModel FormulaeModel.Design

inductive PErr
  | scan | parse
  | resolve (e : Terms.Err)
  | na
  | encoding (e : Encoding.Err)
  | eval (e : Design.Err)
  | shape (what : String)

/-- every atom at a term position of the formula, keyed by its component name -/
def atomTable : Expr → List (String × Expr)
  | .grouping _ e _ => atomTable e
  | .binary l _ r => atomTable l ++ atomTable r
  | .unary _ r => atomTable r
  | e =>
    match Resolver.noKw (Resolver.lazyArg e) with
    | .ok (nm, _) => [(nm, e)]
    | .error _ => []

/-- `var_names` of one component of a resolved term: a Variable gives its name, a Call the
variables of its arguments (looked up in the formula by the component's name) -/
def atomUsed (table : List (String × Expr)) (a : Terms.Atom) : List String :=
  match table.find? (·.1 == a.name) with
  | some p => NA.atomVars p.2
  | none => []

def ctermUsed (table : List (String × Expr)) : Terms.CTerm → List String
  | .term cs => cs.flatMap (atomUsed table)
  | _ => []

/-- `Model.var_names`: the variables of the terms the RESOLVED model holds — response, common
terms, effect and grouping side of group-specific terms.  A variable all of whose terms were
removed again by `-` is not among them (`y ~ a + x - x` does not use `x`). -/
def modelVars (table : List (String × Expr)) (m : Terms.ModelV) : List String :=
  (match m.resp with | some cs => cs.flatMap (atomUsed table) | none => []) ++
  m.common.flatMap (ctermUsed table) ++
  m.group.flatMap (fun g => ctermUsed table g.expr ++ ctermUsed table g.factor)

/-- the used variables of a formula: those of the resolved model; when the term algebra refuses
the formula nothing is built at all, and the variables written in the formula are returned -/
def usedVars (ops : Resolver.OpTable) (e : Expr) : List String :=
  match Resolver.describe ops e with
  | .ok m => modelVars (atomTable e) m
  | .error _ => NA.formulaVars e

def liftE {α} : Design.M α → Except PErr α
  | .ok a => .ok a
  | .error e => .error (.eval e)

def isCallExpr : Expr → Bool
  | .call .. | .brace .. => true
  | _ => false

/-- `set_type`: the kind of a component of a common term -/
def compKind (env : Env) (table : List (String × Expr)) (a : Terms.Atom) : Except PErr Encoding.Comp := do
  let e ← liftE (compExpr table a.name)
  let out ← liftE (trainComp env a.name e false false false)
  match out.st.kind with
  | .numeric => pure ⟨a.name, .numeric, isCallExpr e⟩
  | .categoric => pure ⟨a.name, .categoric, isCallExpr e⟩
  | _ => .error (.shape "offset / proportion component in the redundancy analysis")

def termDesc (env : Env) (table : List (String × Expr)) : Terms.CTerm → Except PErr Encoding.TermDesc
  | .intercept => pure .intercept
  | .negIntercept => .error (.shape "NegatedIntercept left in the model")
  | .term [] => .error (.shape "empty term")
  | .term (a :: as) => do
    let c ← compKind env table a
    let cs ← as.mapM (compKind env table)
    pure (.term c cs)

structure Built where
  frame : Frame
  response : Option TermOut
  common : List (String × Option TermOut)
  group : List GroupOut

def specOf (t : Terms.CTerm) (flag : Bool) : Option TermSpec :=
  match t with
  | .term cs => some ⟨t.name, cs.map (fun a => (a.name, flag))⟩
  | _ => none

/-- `{term.name: term for term in terms}`: one entry per name, at the position of the first,
holding the last -/
def dictByName {α} (name : α → String) (xs : List α) : List α :=
  xs.foldl (fun d x =>
    if d.any (fun y => name y == name x) then d.map (fun y => if name y == name x then x else y)
    else d ++ [x]) []

def gName (g : Terms.GTerm) : String :=
  (match g.expr with | .intercept => "1" | t => t.name) ++ "|" ++ g.factor.name

/-- the whole pipeline, parametrised by how the used variables are read off the formula -/
def designMatricesWith (usedOf : Expr → Terms.ModelV → List String)
    (table : Parser.Table) (ops : Resolver.OpTable) (actions : List String)
    (formula : String) (env : Env) (naAction : String) : Except PErr Built := do
  let ts ← match Scanner.scan formula.toList with
    | .ok ts => pure ts
    | .error _ => .error .scan
  let e ← match Parser.parse table ts with
    | .ok e => pure e
    | .error _ => .error .parse
  let m ← match Resolver.describe ops e with
    | .ok m => pure m
    | .error er => .error (.resolve er)
  let atoms := atomTable e
  -- missing values: `description.var_names ∩ data.columns`, then the policy
  let used := (usedOf e m).filter ((env.frame.map (·.name)).contains ·)
  let frame ← match NA.naStep actions naAction used env.frame with
    | .ok f => pure f
    | .error _ => .error .na
  let env : Env := { env with frame := frame }
  -- common terms: kinds, redundancy analysis (helper terms, flags), evaluation
  let descs ← m.common.mapM (termDesc env atoms)
  let coded ← match Encoding.run true descs with
    | .ok c => pure (Encoding.designTerms c)
    | .error er => .error (.encoding er)
  let common ← coded.mapM (fun (ct : Encoding.CodedTerm) =>
    if ct.2.isEmpty && ct.1 == "Intercept" then pure (ct.1, none)
    else do
      let out ← liftE (trainTerm env atoms ⟨ct.1, ct.2.map (fun p => (p.1.name, p.2))⟩ false false)
      pure (ct.1, some out))
  -- group-specific terms: reduced iff `(1 | same factor)` is in the model
  let groups := dictByName gName m.group
  let group ← groups.mapM (fun g => do
    let flag := match g.expr with
      | .intercept => true
      | _ => !(m.group.any (fun t => t.factor == g.factor && t.expr == .intercept))
    let factor ← match specOf g.factor true with
      | some s => pure s
      | none => .error (.shape "grouping factor is not a term")
    let expr ← match g.expr with
      | .intercept => pure none
      | t => match specOf t flag with
        | some s => pure (some s)
        | none => .error (.shape "effect is not a term")
    liftE (trainGroup env atoms ⟨gName g, expr, factor⟩))
  -- response: always the complete set of indicators
  let response ← match m.resp with
    | none => pure none
    | some cs => do
      let out ← liftE (trainTerm env atoms ⟨(Terms.CTerm.term cs).name, cs.map (fun a => (a.name, true))⟩ false true)
      pure (some out)
  pure ⟨frame, response, common, group⟩

/-- the pipeline with every variable WRITTEN at a term position of the formula counted as used
(`NA.formulaVars`): the function the C04 / C15 / C17 whole-pipeline theorems are stated about.  It
coincides with `designMatricesModel` whenever no variable has all its terms removed again by `-`
(then the two selections of columns are the same set). -/
def designMatrices (table : Parser.Table) (ops : Resolver.OpTable) (actions : List String)
    (formula : String) (env : Env) (naAction : String) : Except PErr Built :=
  designMatricesWith (fun e _ => NA.formulaVars e) table ops actions formula env naAction

/-- the pipeline as the code runs it: the used variables are those of the RESOLVED model
(`Model.var_names` walks the terms that are left); this instance is what the driver executes and
what is compared with the implementation. -/
def designMatricesModel (table : Parser.Table) (ops : Resolver.OpTable) (actions : List String)
    (formula : String) (env : Env) (naAction : String) : Except PErr Built :=
  designMatricesWith (fun e m => modelVars (atomTable e) m) table ops actions formula env naAction

end FormulaeModel.Pipeline
