/-
Model of the contrast codings of `formulae/categorical.py` (`Treatment`, `Sum`, `ContrastMatrix`,
`CategoricalBox`), of `C`, `T`, `S` in `formulae/transforms.py` and of
`Call.eval_categorical_box` / `eval_categoric` in `formulae/terms/call.py`, *as the code is*.

Levels are strings (`str(level)` is the identity on them; the harness maps other level types
through `str`, which is assumed injective and order preserving on the generated values).
Matrices are lists of rows of integers (the implementation's float matrices hold integers only).
A matrix with `n` rows and no column is `List.replicate n []`.
-/
namespace FormulaeModel.Coding

abbrev IMatrix := List (List Int)

/-- Exceptions of the modelled code. -/
inductive Err where
  /-- `raise ValueError("reference not in levels")` in `Treatment.code_without_intercept` -/
  | referenceNotInLevels
  /-- `levels.index(self.omitLv)` in `Sum._omit_index`: `ValueError: x is not in list` -/
  | omitNotInLevels
  /-- `np.eye(len(levels) - 1)` with no level: `ValueError: negative dimensions are not allowed` -/
  | negativeDimensions
  /-- `CategoricalBox.levels` setter: `set(levels) != set(data)` (defect D13 lives here) -/
  | levelsDiffer
  /-- `pd.api.types.CategoricalDtype(categories=…)`: `ValueError: Categorical categories must be unique` -/
  | categoriesNotUnique
  /-- `T(box)` / `S(box)`: `CategoricalBox.__init__` reads `data.dtype` of a `CategoricalBox` -/
  | boxHasNoDtype
  /-- `matrix[codes]` with a code outside the matrix (numpy `IndexError`); never reached, see
  `C13_design` -/
  | indexOutOfBounds
  deriving DecidableEq, Repr

/-- Python class of the exception. -/
def Err.pyClass : Err → String
  | .boxHasNoDtype => "AttributeError"
  | .indexOutOfBounds => "IndexError"
  | _ => "ValueError"

def Err.tag : Err → String
  | .referenceNotInLevels => "reference_not_in_levels"
  | .omitNotInLevels => "omit_not_in_levels"
  | .negativeDimensions => "negative_dimensions"
  | .levelsDiffer => "levels_differ"
  | .categoriesNotUnique => "categories_not_unique"
  | .boxHasNoDtype => "box_has_no_dtype"
  | .indexOutOfBounds => "index_out_of_bounds"

/-- `ContrastMatrix(matrix, labels)`; the constructor's check `matrix.shape[1] != len(labels)` is
never reached with unequal values by `Treatment`/`Sum` (theorem `C13_labels`). -/
structure ContrastMatrix where
  matrix : IMatrix
  labels : List String
  deriving DecidableEq, Repr

/-- `np.eye(n, dtype=int)` -/
def eye (n : Nat) : IMatrix :=
  (List.range n).map fun i => (List.range n).map fun j => if i = j then 1 else 0

/-- `np.column_stack((np.ones(n, dtype=int), m))` for a matrix with `n` rows -/
def columnStackOnes (m : IMatrix) : IMatrix := m.map fun row => 1 :: row

/-- `levels[:i] + levels[i + 1:]` -/
def dropLevel (levels : List String) (i : Nat) : List String :=
  levels.take i ++ levels.drop (i + 1)

/-! ### `Treatment` -/

/-- `Treatment(reference).code_with_intercept(levels)`: `np.eye(len(levels))`, labels = levels. -/
def Treatment.codeWithIntercept (_reference : Option String) (levels : List String) :
    Except Err ContrastMatrix :=
  .ok ⟨eye levels.length, levels⟩

/-- The `if self.reference is None … else …` block of `code_without_intercept`. -/
def Treatment.referenceIndex (reference : Option String) (levels : List String) : Except Err Nat :=
  match reference with
  | none => .ok 0                     -- "First category is the default reference"
  | some r => if r ∈ levels then .ok (levels.idxOf r) else .error .referenceNotInLevels

/-- `Treatment(reference).code_without_intercept(levels)`:
`vstack((eye[:reference, :], zeros((1, n - 1)), eye[reference:, :]))` with `eye = np.eye(n - 1)`. -/
def Treatment.codeWithoutIntercept (reference : Option String) (levels : List String) :
    Except Err ContrastMatrix := do
  let r ← Treatment.referenceIndex reference levels
  if levels.length = 0 then throw .negativeDimensions     -- np.eye(-1)
  let e := eye (levels.length - 1)
  let contrast := e.take r ++ [List.replicate (levels.length - 1) 0] ++ e.drop r
  pure ⟨contrast, dropLevel levels r⟩

/-! ### `Sum` -/

/-- `Sum._omit_index`; `len(levels) - 1` is `-1` for no level, hence `Int`. -/
def Sum.omitIndex (omitLv : Option String) (levels : List String) : Except Err Int :=
  match omitLv with
  | none => .ok ((levels.length : Int) - 1)         -- "By default, omit the last level."
  | some o => if o ∈ levels then .ok (levels.idxOf o) else .error .omitNotInLevels

/-- `Sum._sum_contrast`: `out[:omit] = eye[:omit]; out[omit] = -1; out[omit + 1:] = eye[omit:]`. -/
def Sum.sumContrast (omitLv : Option String) (levels : List String) : Except Err IMatrix := do
  let n := levels.length
  let o ← Sum.omitIndex omitLv levels
  if n = 0 then throw .negativeDimensions               -- np.eye(-1)
  let e := eye (n - 1)
  pure (e.take o.toNat ++ [List.replicate (n - 1) (-1)] ++ e.drop o.toNat)

/-- `Sum(omitLv).code_without_intercept(levels)` -/
def Sum.codeWithoutIntercept (omitLv : Option String) (levels : List String) :
    Except Err ContrastMatrix := do
  let matrix ← Sum.sumContrast omitLv levels
  let o ← Sum.omitIndex omitLv levels
  pure ⟨matrix, dropLevel levels o.toNat⟩

/-- `Sum(omitLv).code_with_intercept(levels)`: a column of ones in front, label `"mean"`. -/
def Sum.codeWithIntercept (omitLv : Option String) (levels : List String) :
    Except Err ContrastMatrix := do
  let c ← Sum.codeWithoutIntercept omitLv levels
  pure ⟨columnStackOnes c.matrix, "mean" :: c.labels⟩

/-! ### Encodings as values -/

/-- The instances of `Encoding` the property speaks about. -/
inductive Contrast where
  | treatment (reference : Option String)
  | sum (omitLv : Option String)
  deriving DecidableEq, Repr

def Contrast.codeWithIntercept : Contrast → List String → Except Err ContrastMatrix
  | .treatment r, lv => Treatment.codeWithIntercept r lv
  | .sum o, lv => Sum.codeWithIntercept o lv

def Contrast.codeWithoutIntercept : Contrast → List String → Except Err ContrastMatrix
  | .treatment r, lv => Treatment.codeWithoutIntercept r lv
  | .sum o, lv => Sum.codeWithoutIntercept o lv

def Contrast.code (c : Contrast) (spansIntercept : Bool) (lv : List String) :
    Except Err ContrastMatrix :=
  if spansIntercept then c.codeWithIntercept lv else c.codeWithoutIntercept lv

/-- The keys of `ENCODINGS`: the classes available in a formula. -/
inductive EncodingClass where
  | Treatment | Sum
  deriving DecidableEq, Repr

/-- Calling the class without arguments: `Treatment()` / `Sum()` (defaults `reference=None`,
`omit=None`). -/
def EncodingClass.instantiate : EncodingClass → Contrast
  | .Treatment => .treatment none
  | .Sum => .sum none

/-- What can be written as the `contrast` argument of `C`. -/
inductive ContrastArg where
  | none                              -- `contrast=None`
  | cls (c : EncodingClass)           -- `C(x, Treatment)`: a callable
  | inst (c : Contrast)               -- `C(x, Treatment("b"))`
  deriving DecidableEq, Repr

/-! ### `CategoricalBox` -/

/-- A data column as `CategoricalBox.__init__` sees it: its values and, when
`data.dtype.ordered` exists and is true, the categories of the dtype. -/
structure Data where
  values : List String
  orderedCategories : Option (List String) := none
  deriving DecidableEq, Repr

structure Box where
  data : List String
  contrast : Option Contrast
  levels : Option (List String)
  deriving DecidableEq, Repr

/-- `set(a) != set(b)` negated: the two lists have the same elements. -/
def sameSet (a b : List String) : Bool := a.all (b.contains ·) && b.all (a.contains ·)

/-- `CategoricalBox(data, contrast, levels)` for a column `data`. -/
def mkBox (data : Data) (contrast : ContrastArg) (levels : Option (List String)) :
    Except Err Box := do
  -- "If 'data' is ordered and no explicit levels have been passed, use order in 'data'."
  let levels := match data.orderedCategories, levels with
    | some cats, none => some cats
    | _, lv => lv
  -- contrast setter: `if callable(value): value = value()`
  let contrast := match contrast with
    | .none => none
    | .cls c => some c.instantiate
    | .inst c => some c
  -- levels setter
  match levels with
  | some lv => if !sameSet lv data.values then throw .levelsDiffer
  | none => pure ()
  pure ⟨data.values, contrast, levels⟩

/-- First argument of `C`, `T`, `S`: a column or the result of an inner `C(...)`. -/
inductive Arg where
  | data (d : Data)
  | box (b : Box)
  deriving DecidableEq, Repr

/-- `C(data, contrast=None, levels=None)` -/
def C (x : Arg) (contrast : ContrastArg := .none) (levels : Option (List String) := none) :
    Except Err Box :=
  match x with
  | .data d => mkBox d contrast levels
  | .box b =>
    -- `if contrast is None: contrast = data.contrast` (an instance or None)
    let contrast := match contrast with
      | .none => (match b.contrast with | some c => ContrastArg.inst c | none => ContrastArg.none)
      | c => c
    let levels := match levels with | none => b.levels | lv => lv
    -- `data = data.data`: a plain ndarray, its dtype has no `ordered`
    mkBox ⟨b.data, none⟩ contrast levels

/-- `T(data, ref=None, levels=None)`: `CategoricalBox(data, Treatment(ref), levels)` -/
def T (x : Arg) (ref : Option String := none) (levels : Option (List String) := none) :
    Except Err Box :=
  match x with
  | .data d => mkBox d (.inst (.treatment ref)) levels
  | .box _ => .error .boxHasNoDtype

/-- `S(data, omit=None, levels=None)`: `CategoricalBox(data, Sum(omit), levels)` -/
def S (x : Arg) (omitLv : Option String := none) (levels : Option (List String) := none) :
    Except Err Box :=
  match x with
  | .data d => mkBox d (.inst (.sum omitLv)) levels
  | .box _ => .error .boxHasNoDtype

/-! ### Evaluation -/

/-- insertion into a sorted list without duplicates -/
def insertSorted (s : String) : List String → List String
  | [] => [s]
  | t :: ts => if s < t then s :: t :: ts else if s = t then t :: ts else t :: insertSorted s ts

/-- `sorted(list(set(data)))` -/
def sortedSet (data : List String) : List String := data.foldr insertSorted []

/-- `pd.Categorical(data).astype(dtype).codes`: position among the categories, `-1` when absent -/
def codes (categories data : List String) : List Int :=
  data.map fun v => if v ∈ categories then (categories.idxOf v : Int) else -1

/-- `matrix[c]` for one integer (numpy: a negative index counts from the end) -/
def rowAt (m : IMatrix) (c : Int) : Except Err (List Int) :=
  let i : Int := if c < 0 then c + m.length else c
  if i < 0 then .error .indexOutOfBounds else
  match m[i.toNat]? with
  | some row => .ok row
  | none => .error .indexOutOfBounds

/-- `matrix[codes]` -/
def takeRows (m : IMatrix) (cs : List Int) : Except Err IMatrix := cs.mapM (rowAt m)

structure Evaluated where
  levels : List String
  contrast : ContrastMatrix
  value : IMatrix
  spansIntercept : Bool
  deriving DecidableEq, Repr

/-- `Call.eval_categorical_box(box, spans_intercept)` -/
def evalCategoricalBox (box : Box) (spansIntercept : Bool) : Except Err Evaluated := do
  let contrast := match box.contrast with | none => Contrast.treatment none | some c => c
  let categories := match box.levels with
    | none => sortedSet box.data
    | some lv => lv
  if ¬ categories.Nodup then throw .categoriesNotUnique      -- CategoricalDtype(categories=…)
  let cs := codes categories box.data
  let cm ← contrast.code spansIntercept categories
  let value ← takeRows cm.matrix cs
  pure ⟨categories, cm, value, spansIntercept⟩

/-- `Call.eval_categoric` / `Variable.eval_categoric` (a plain column): sorted observed values, or
the categories of an ordered categorical; always `Treatment()`. -/
def evalCategoric (d : Data) (spansIntercept : Bool) : Except Err Evaluated := do
  let categories := match d.orderedCategories with
    | none => sortedSet d.values
    | some cats => cats
  let cm ← (Contrast.treatment none).code spansIntercept categories
  let value ← takeRows cm.matrix (codes categories d.values)
  pure ⟨categories, cm, value, spansIntercept⟩

/-- A term of a formula that denotes a factor, in one of the spellings the property compares. -/
inductive Spelling where
  | plain                                            -- `g`
  | c (contrast : ContrastArg) (levels : Option (List String))   -- `C(g, …)`
  | t (ref : Option String) (levels : Option (List String))      -- `T(g, …)`
  | s (omitLv : Option String) (levels : Option (List String))     -- `S(g, …)`
  | cc (inner : ContrastArg) (innerLevels : Option (List String))
       (outer : ContrastArg) (outerLevels : Option (List String))   -- `C(C(g, …), …)`
  | tc (inner : ContrastArg) (innerLevels : Option (List String)) (ref : Option String)  -- `T(C(g, …), ref)`
  | sc (inner : ContrastArg) (innerLevels : Option (List String)) (omitLv : Option String) -- `S(C(g, …), omitLv)`
  deriving DecidableEq, Repr

/-- Evaluation of a factor written in a given spelling (`set_type` then `set_data`). -/
def evalSpelling (d : Data) (sp : Spelling) (spansIntercept : Bool) : Except Err Evaluated :=
  match sp with
  | .plain => evalCategoric d spansIntercept
  | .c contrast levels => do evalCategoricalBox (← C (.data d) contrast levels) spansIntercept
  | .t ref levels => do evalCategoricalBox (← T (.data d) ref levels) spansIntercept
  | .s omitLv levels => do evalCategoricalBox (← S (.data d) omitLv levels) spansIntercept
  | .cc c1 l1 c2 l2 => do
      let inner ← C (.data d) c1 l1
      evalCategoricalBox (← C (.box inner) c2 l2) spansIntercept
  | .tc c1 l1 ref => do
      let inner ← C (.data d) c1 l1
      evalCategoricalBox (← T (.box inner) ref none) spansIntercept
  | .sc c1 l1 omitLv => do
      let inner ← C (.data d) c1 l1
      evalCategoricalBox (← S (.box inner) omitLv none) spansIntercept

end FormulaeModel.Coding
