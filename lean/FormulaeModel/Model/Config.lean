/-
Model of formulae/config.py: `Config.FIELDS`, `__init__` (first choice is the default),
`__setattr__` / `__setitem__` validation, `__getitem__`.  Generic in the field table, which is
regenerated from the source (`Generated.configFields`).
-/
namespace FormulaeModel.Config

abbrev Fields := List (String × List String)

inductive Err
  | keyError      -- "'key' is not a valid configuration option"
  | valueError    -- "value is not a valid value for 'key'"
  | attributeError
  deriving DecidableEq, Repr

/-- current value per field -/
abbrev State := List (String × String)

/-- `Config()` : every field takes its first choice -/
def init (fields : Fields) : State :=
  fields.filterMap (fun f => f.2.head?.map (fun v => (f.1, v)))

/-- `config[key] = value` -/
def set (fields : Fields) (st : State) (key value : String) : Except Err State :=
  match fields.find? (·.1 == key) with
  | none => .error .keyError
  | some f =>
    if f.2.contains value then
      .ok (if st.any (·.1 == key) then st.map (fun p => if p.1 == key then (key, value) else p)
           else st ++ [(key, value)])
    else .error .valueError

/-- `config[key]` -/
def get (st : State) (key : String) : Except Err String :=
  match st.find? (·.1 == key) with
  | some p => .ok p.2
  | none => .error .attributeError

end FormulaeModel.Config
