import FormulaeModel.Model.Expr
/-
Model of formulae/parser.py: the recursive-descent chain
  expression > assignment > tilde > random_effect > comparison > addition > multiplication >
  interaction > multiple_interaction > unary > call > primary.
The model is generic in the operator table (`Table`), which is regenerated from the source on
every run (`Generated/Tables.lean`); the shape of the chain (every binary level is a `while` loop
whose operands are parsed at the next-higher level; `~` and `=` are one-shot with an
addition-level right operand) is what `harness/extract_tables.py` checks before it emits the table.

Recursion is on an explicit fuel argument that every call decrements; the input is the token list
without the trailing EOF token.
-/
namespace FormulaeModel.Parser
open FormulaeModel

structure Table where
  /-- operator kinds of the left-associative binary levels, lowest precedence first
      (random_effect, comparison, addition, multiplication, interaction, multiple_interaction) -/
  levels : List (List Kind)
  /-- prefix operators of `unary` -/
  unaryOps : List Kind
  /-- how many levels are skipped for the right operand of `~` and `=` (it is `addition`) -/
  tildeRight : Nat
  /-- `Parser.parse` checks that the input is exhausted -/
  eofCheck : Bool
  deriving DecidableEq, Repr

inductive ParseErr
  | fuel
  | unexpected            -- "Don't know how to parse"
  | expected (k : Kind)   -- consume() failed
  | invalidTarget         -- "Invalid assignment target."
  | badSubset             -- subset notation errors
  | leftover              -- tokens after a complete expression
  deriving DecidableEq, Repr

abbrev PE := Except ParseErr (Expr × List Token)
abbrev PA := Except ParseErr (Args × List Token)
abbrev PT := Except ParseErr (Token × List Token)

/-- `consume(kind)` -/
def consume (k : Kind) : List Token → PT
  | t :: ts => if t.kind = k then .ok (t, ts) else .error (.expected k)
  | [] => .error (.expected k)

def isVariable : Expr → Bool
  | .variable _ => true
  | .subset .. => true
  | _ => false

/-- The checks `primary` applies to the level of `name[level]`. -/
def subsetLevelOk : Expr → Bool
  | .literal t => t.kind == .STRING
  | .subset .. => false
  | _ => true

section
variable (T : Table)

mutual
def expression : Nat → List Token → PE
  | 0, _ => .error .fuel
  | n + 1, ts => assignment n ts

def assignment : Nat → List Token → PE
  | 0, _ => .error .fuel
  | n + 1, ts => do
    let (e, ts1) ← tilde n ts
    match ts1 with
    | t :: ts2 =>
      if t.kind = .EQUAL then do
        let (r, ts3) ← binLevel n (T.levels.drop T.tildeRight) ts2
        if isVariable e then pure (.assign e t r, ts3) else .error .invalidTarget
      else pure (e, ts1)
    | [] => pure (e, ts1)

def tilde : Nat → List Token → PE
  | 0, _ => .error .fuel
  | n + 1, ts => do
    let (e, ts1) ← binLevel n T.levels ts
    match ts1 with
    | t :: ts2 =>
      if t.kind = .TILDE then do
        let (r, ts3) ← binLevel n (T.levels.drop T.tildeRight) ts2
        pure (.binary e t r, ts3)
      else pure (e, ts1)
    | [] => pure (e, ts1)

/-- One binary level given by the list of remaining (higher) levels; `[]` is `unary`. -/
def binLevel : Nat → List (List Kind) → List Token → PE
  | 0, _, _ => .error .fuel
  | n + 1, [], ts => unary n ts
  | n + 1, ops :: rest, ts => do
    let (e, ts1) ← binLevel n rest ts
    binLoop n ops rest e ts1

/-- `while self.match(ops): right = next(); expr = Binary(expr, op, right)` -/
def binLoop : Nat → List Kind → List (List Kind) → Expr → List Token → PE
  | 0, _, _, _, _ => .error .fuel
  | n + 1, ops, rest, acc, ts =>
    match ts with
    | t :: ts1 =>
      if ops.contains t.kind then do
        let (r, ts2) ← binLevel n rest ts1
        binLoop n ops rest (.binary acc t r) ts2
      else pure (acc, ts)
    | [] => pure (acc, ts)

def unary : Nat → List Token → PE
  | 0, _ => .error .fuel
  | n + 1, ts =>
    match ts with
    | t :: ts1 =>
      if T.unaryOps.contains t.kind then do
        let (r, ts2) ← unary n ts1
        pure (.unary t r, ts2)
      else call n ts
    | [] => call n ts

def call : Nat → List Token → PE
  | 0, _ => .error .fuel
  | n + 1, ts => do
    let (e, ts1) ← primary n ts
    callLoop n e ts1

def callLoop : Nat → Expr → List Token → PE
  | 0, _, _ => .error .fuel
  | n + 1, acc, ts =>
    match ts with
    | t :: ts1 =>
      if t.kind = .LEFT_PAREN then do
        -- finishcall
        match ts1 with
        | u :: ts2 =>
          if u.kind = .RIGHT_PAREN then callLoop n (.call acc t .nil u) ts2
          else do
            let (as, ts3) ← argList n ts1
            let (rp, ts4) ← consume .RIGHT_PAREN ts3
            callLoop n (.call acc t as rp) ts4
        | [] => do
          let (as, ts3) ← argList n ts1
          let (rp, ts4) ← consume .RIGHT_PAREN ts3
          callLoop n (.call acc t as rp) ts4
      else pure (acc, ts)
    | [] => pure (acc, ts)

/-- `while True: args.append(self.expression()); if not self.match("COMMA"): break` -/
def argList : Nat → List Token → PA
  | 0, _ => .error .fuel
  | n + 1, ts => do
    let (e, ts1) ← expression n ts
    match ts1 with
    | t :: ts2 =>
      if t.kind = .COMMA then do
        let (rest, ts3) ← argList n ts2
        pure (.more e t rest, ts3)
      else pure (.last e, ts1)
    | [] => pure (.last e, ts1)

def primary : Nat → List Token → PE
  | 0, _ => .error .fuel
  | n + 1, ts =>
    match ts with
    | [] => .error .unexpected
    | t :: ts1 =>
      match t.kind with
      | .IDENTIFIER =>
        match ts1 with
        | lb :: ts2 =>
          if lb.kind = .LEFT_BRACKET then do
            let (lv, ts3) ← primary n ts2
            if subsetLevelOk lv then do
              let (rb, ts4) ← consume .RIGHT_BRACKET ts3
              pure (.subset t lb lv rb, ts4)
            else .error .badSubset
          else pure (Expr.variable t, ts1)
        | [] => pure (Expr.variable t, ts1)
      | .NUMBER => pure (Expr.literal t, ts1)
      | .STRING => pure (Expr.literal t, ts1)
      | .PYTHON_LITERAL => pure (Expr.literal t, ts1)
      | .BQNAME => pure (Expr.quoted t, ts1)
      | .LEFT_PAREN => do
        let (e, ts2) ← expression n ts1
        let (rp, ts3) ← consume .RIGHT_PAREN ts2
        pure (.grouping t e rp, ts3)
      | .LEFT_BRACE => do
        let (e, ts2) ← expression n ts1
        let (rb, ts3) ← consume .RIGHT_BRACE ts2
        pure (.brace t e rb, ts3)
      | _ => .error .unexpected
end

/-- `Parser(tokens).parse()` with fuel. -/
def parseFuel (n : Nat) (ts : List Token) : Except ParseErr Expr := do
  let (e, rest) ← expression T n ts
  if T.eofCheck then
    match rest with
    | [] => pure e
    | _ :: _ => .error .leftover
  else pure e

/-- Enough fuel for every input: each token costs at most one full descent of the chain. -/
def fuelFor (ts : List Token) : Nat := (T.levels.length + 12) * (ts.length + 2)

def parse (ts : List Token) : Except ParseErr Expr := parseFuel T (fuelFor T ts) ts

end

end FormulaeModel.Parser
