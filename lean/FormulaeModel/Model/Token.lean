/-
Model of formulae/token.py.  A token is (kind, lexeme); the `literal` field of the Python class is
a function of (kind, lexeme) (int()/float()/eval of the lexeme) and is checked on the Python side
of the correspondence only.  The trailing EOF token of the Python scanner is represented by the
end of the list.
-/
namespace FormulaeModel

inductive Kind
  | LEFT_PAREN | RIGHT_PAREN | LEFT_BRACKET | RIGHT_BRACKET | LEFT_BRACE | RIGHT_BRACE
  | BQNAME | COMMA | PERIOD | PLUS | MINUS | SLASH_SLASH | SLASH | STAR_STAR | STAR
  | BANG_EQUAL | BANG | EQUAL_EQUAL | EQUAL | LESS_EQUAL | LESS | GREATER_EQUAL | GREATER
  | MODULO | TILDE | COLON | PIPE | NUMBER | IDENTIFIER | PYTHON_LITERAL | STRING
  deriving DecidableEq, Repr, Inhabited

def Kind.all : List Kind :=
  [.LEFT_PAREN, .RIGHT_PAREN, .LEFT_BRACKET, .RIGHT_BRACKET, .LEFT_BRACE, .RIGHT_BRACE,
   .BQNAME, .COMMA, .PERIOD, .PLUS, .MINUS, .SLASH_SLASH, .SLASH, .STAR_STAR, .STAR,
   .BANG_EQUAL, .BANG, .EQUAL_EQUAL, .EQUAL, .LESS_EQUAL, .LESS, .GREATER_EQUAL, .GREATER,
   .MODULO, .TILDE, .COLON, .PIPE, .NUMBER, .IDENTIFIER, .PYTHON_LITERAL, .STRING]

def Kind.name : Kind → String
  | .LEFT_PAREN => "LEFT_PAREN" | .RIGHT_PAREN => "RIGHT_PAREN"
  | .LEFT_BRACKET => "LEFT_BRACKET" | .RIGHT_BRACKET => "RIGHT_BRACKET"
  | .LEFT_BRACE => "LEFT_BRACE" | .RIGHT_BRACE => "RIGHT_BRACE"
  | .BQNAME => "BQNAME" | .COMMA => "COMMA" | .PERIOD => "PERIOD" | .PLUS => "PLUS"
  | .MINUS => "MINUS" | .SLASH_SLASH => "SLASH_SLASH" | .SLASH => "SLASH"
  | .STAR_STAR => "STAR_STAR" | .STAR => "STAR" | .BANG_EQUAL => "BANG_EQUAL" | .BANG => "BANG"
  | .EQUAL_EQUAL => "EQUAL_EQUAL" | .EQUAL => "EQUAL" | .LESS_EQUAL => "LESS_EQUAL"
  | .LESS => "LESS" | .GREATER_EQUAL => "GREATER_EQUAL" | .GREATER => "GREATER"
  | .MODULO => "MODULO" | .TILDE => "TILDE" | .COLON => "COLON" | .PIPE => "PIPE"
  | .NUMBER => "NUMBER" | .IDENTIFIER => "IDENTIFIER" | .PYTHON_LITERAL => "PYTHON_LITERAL"
  | .STRING => "STRING"

def Kind.ofName? (s : String) : Option Kind := Kind.all.find? (fun k => k.name == s)

structure Token where
  kind : Kind
  lexeme : String
  deriving DecidableEq, Repr, Inhabited

end FormulaeModel
