import FormulaeModel.Model.Env
import FormulaeModel.Generated.Tables
/-
The wiring record of the name-resolution model assembled from the tables that
`harness/extract_tables.py` (`extract_c11`) regenerates from the source on every run.
-/
namespace FormulaeModel.Env

def generatedWiring : Wiring :=
  { reference := Generated.captureReference,
    captureLoopExtra := Generated.captureLoopExtra,
    frameScopes := Generated.frameScopes,
    callEnvOrder := Generated.callEnvOrder,
    lazyVariableOrder := Generated.lazyVariableOrder,
    leadingEmptyDict := Generated.varLookupLeadingEmpty,
    outerAppended := Generated.outerNamespaceAppended }

end FormulaeModel.Env
