import FormulaeModel.Proofs.Env
import FormulaeModel.Model.EnvWiring
/-
C11 — name resolution order and evaluation environment: property theorems.
Statements use only Model/Env, Spec/C11 and Generated/ (through `Env.generatedWiring`).

All theorems are for arbitrary scopes (any number of bindings), arbitrary call stacks (any
number of frames), arbitrary depth `k`, arbitrary names.  They are stated for the documented
wiring `Spec.C11.documentedWiring`; `tie_wiring` proves by `decide` that the wiring regenerated
from the current source is the documented one, and the `…_generated` corollaries transport the
main statements to `Env.generatedWiring`.
-/
namespace FormulaeModel.C11
open FormulaeModel FormulaeModel.Env FormulaeModel.Spec.C11

/-! ### tie to the source text -/

theorem tie_shape : Generated.envShapeOk = true := by decide
theorem tie_wiring : Env.generatedWiring = documentedWiring := by decide
theorem tie_reference : Generated.captureReference = 1 := by decide
theorem tie_frame_scopes : Generated.frameScopes = ["f_locals", "f_globals"] := by decide
theorem tie_call_env_order : Generated.callEnvOrder = ["builtins", "outer"] := by decide
theorem tie_lazy_variable_order : Generated.lazyVariableOrder = ["data", "env"] := by decide
theorem tie_builtins_keys : builtinsKeysWF Generated.builtinsKeys = true := by decide

local notation "W" => documentedWiring

@[simp] private theorem w_reference : documentedWiring.reference = 1 := rfl
@[simp] private theorem w_loop : documentedWiring.captureLoopExtra = 1 := rfl
@[simp] private theorem w_frame : documentedWiring.frameScopes = ["f_locals", "f_globals"] := rfl
@[simp] private theorem w_call : documentedWiring.callEnvOrder = ["builtins", "outer"] := rfl
@[simp] private theorem w_lazy : documentedWiring.lazyVariableOrder = ["data", "env"] := rfl
@[simp] private theorem w_leading : documentedWiring.leadingEmptyDict = true := rfl
@[simp] private theorem w_outer : documentedWiring.outerAppended = true := rfl

/-! ### C11_first_match -/

/-- `VarLookupDict(ss)[n]` for any number of dicts of any size: the value is `v` exactly when
some dict `i` binds `n` to `v` and no earlier dict binds `n` (the leading `{}` never does). -/
theorem C11_first_match (ss : List Scope) (n : String) (v : Val) :
    (VarLookupDict.new W (ss.map Ns.dict)).lookup n = some v ↔
      ∃ i s, ss[i]? = some s ∧ s.lookup n = some v ∧
        ∀ (j : Nat) t, j < i → ss[j]? = some t → t.lookup n = none := by
  have h : (VarLookupDict.new W (ss.map Ns.dict)).lookup n = firstMatch ss n := by
    rw [lookup_flatten]
    simp only [VarLookupDict.new, w_leading, if_true, Ns.flatten, Ns.flatten.flattenList,
      flattenList_map_dict]
    simp [firstMatch_cons, binds]
  rw [h, firstMatch_iff]
  simp only [lookup_eq_binds]

/-- `__getitem__` raises `KeyError` exactly when no dict binds the name. -/
theorem C11_getitem_keyerror (ss : List Scope) (n : String) :
    (VarLookupDict.new W (ss.map Ns.dict)).getItem n = .error (.keyError n) ↔
      ∀ s ∈ ss, s.lookup n = none := by
  have h : (VarLookupDict.new W (ss.map Ns.dict)).lookup n = firstMatch ss n := by
    rw [lookup_flatten]
    simp only [VarLookupDict.new, w_leading, if_true, Ns.flatten, Ns.flatten.flattenList,
      flattenList_map_dict]
    simp [firstMatch_cons, binds]
  unfold Ns.getItem
  rw [h]
  cases hf : firstMatch ss n with
  | none => simpa [lookup_eq_binds] using (firstMatch_none_iff ss n).mp hf
  | some v =>
    simp only [reduceCtorEq, false_iff]
    intro hall
    have := (firstMatch_none_iff ss n).mpr (by simpa [lookup_eq_binds] using hall)
    rw [this] at hf; cases hf

example : (VarLookupDict.new W ([[("a", .const "1")], [("a", .const "2"), ("b", .const "3")],
    [("b", .const "4")]].map Ns.dict)).lookup "b" = some (.const "3") := by decide

/-! ### C11_nested_flatten -/

/-- A namespace object nested to any depth resolves a name like the flat list of its dicts. -/
theorem C11_nested_flatten (ns : Ns) (n : String) : ns.lookup n = firstMatch ns.flatten n :=
  lookup_flatten ns n

/-- The shape `Call.set_type` builds: a `VarLookupDict` whose last entry is itself a
`VarLookupDict` resolves like the one `VarLookupDict` over the concatenated lists. -/
theorem C11_nested_flatten_outer (inner outer : List Ns) (n : String) :
    (VarLookupDict.new W (inner ++ [VarLookupDict.new W outer])).lookup n
      = (VarLookupDict.new W (inner ++ outer)).lookup n := by
  have hfl : ∀ a b : List Ns, Ns.flatten.flattenList (a ++ b)
      = Ns.flatten.flattenList a ++ Ns.flatten.flattenList b := by
    intro a b
    induction a with
    | nil => rfl
    | cons x a ih => simp [Ns.flatten.flattenList, ih]
  rw [lookup_flatten, lookup_flatten]
  simp only [VarLookupDict.new, w_leading, if_true, Ns.flatten, Ns.flatten.flattenList, hfl,
    firstMatch_append, firstMatch_cons, firstMatch_nil]
  simp [binds]

example : (VarLookupDict.new W [.dict [("f", .const "builtin")],
      VarLookupDict.new W [.dict [("f", .const "local")], .dict [("g", .const "global")]]]).lookup "g"
    = some (.const "global") := by decide

/-! ### the environment `design_matrices` + `Call.set_type` build -/

private theorem drop_of_getElem? {α} (l : List α) (k : Nat) (x : α) (h : l[k]? = some x) :
    ∃ rest, l.drop k = x :: rest := by
  induction l generalizing k with
  | nil => simp at h
  | cons y l ih =>
    cases k with
    | zero => simp at h; exact ⟨l, by simp [h]⟩
    | succ k => simpa using ih k (by simpa using h)

/-- `C11_env_depth`: `env = k` takes `f_locals` and `f_globals` of the frame `k` above the
caller of `design_matrices` (`stack = capture's frame :: design_matrices' frame :: callers`),
for any stack and any `k`. -/
theorem C11_env_depth (f0 f1 : Frame) (callers : List Frame) (k : Nat) (fr : Frame)
    (hk : selectedFrame callers k = some fr) :
    capture W (.int k) documentedWiring.reference (f0 :: f1 :: callers)
      = .ok ⟨[.dict fr.locals, .dict fr.globals]⟩ := by
  obtain ⟨rest, hr⟩ := drop_of_getElem? callers k fr hk
  have hlen : k ≤ callers.length := by
    have := (List.getElem?_eq_some_iff.mp hk).1; omega
  have h2 : (((k : Int) + ((1 : Nat) : Int)) + ((1 : Nat) : Int)).toNat = k + 2 := by omega
  simp only [capture, w_reference, w_loop, w_frame, h2, walkBack]
  rw [walkBack_drop k callers hlen, hr]
  simp [List.mapM_cons, List.mapM_nil, frameScope, bind, Except.bind, pure, Except.pure]

/-- One frame too deep: `frame` is `None` after the loop and `frame.f_locals` raises
`AttributeError` (not the `ValueError` of the loop). -/
theorem C11_env_too_deep_by_one (f0 f1 : Frame) (callers : List Frame) :
    capture W (.int callers.length) documentedWiring.reference (f0 :: f1 :: callers)
      = .error (.attributeError "f_locals") := by
  have h2 : (((callers.length : Int) + ((1 : Nat) : Int)) + ((1 : Nat) : Int)).toNat
      = callers.length + 2 := by omega
  simp only [capture, w_reference, w_loop, w_frame, h2, walkBack]
  rw [walkBack_drop callers.length callers (Nat.le_refl _)]
  simp

/-- More than one frame too deep: `ValueError("call-stack is not that deep!")`. -/
theorem C11_env_too_deep (f0 f1 : Frame) (callers : List Frame) (k : Nat)
    (hk : callers.length < k) :
    capture W (.int k) documentedWiring.reference (f0 :: f1 :: callers) = .error .valueError := by
  have h2 : (((k : Int) + ((1 : Nat) : Int)) + ((1 : Nat) : Int)).toNat = k + 2 := by omega
  simp only [capture, w_reference, w_loop, w_frame, h2, walkBack]
  rw [walkBack_too_deep k callers hk]

/-- An `Environment` instance is used as it is; anything else but an integer is a `TypeError`. -/
theorem C11_env_instance (e : Environment) (r : Int) (st : List Frame) :
    capture W (.env e) r st = .ok e := rfl
theorem C11_env_type_error (r : Int) (st : List Frame) :
    capture W .other r st = .error .typeError := rfl

example : capture W (.int 1) documentedWiring.reference
    [⟨[("depth", .const "c")], []⟩, ⟨[("formula", .const "f")], []⟩,
     ⟨[("x", .const "L0")], [("x", .const "G0")]⟩, ⟨[("x", .const "L1")], [("y", .const "G1")]⟩]
    = .ok ⟨[.dict [("x", .const "L1")], .dict [("y", .const "G1")]]⟩ := by rfl

private theorem designEnv_too_deep (f0 f1 : Frame) (callers : List Frame) (k : Nat)
    (extra : Option Scope) (hlen : callers.length ≤ k) :
    ∃ e, designEnv W (.int k) (f0 :: f1 :: callers) extra = .error e := by
  unfold designEnv
  by_cases he : k = callers.length
  · subst he
    rw [C11_env_too_deep_by_one f0 f1 callers]; exact ⟨_, rfl⟩
  · rw [C11_env_too_deep f0 f1 callers k (by omega)]; exact ⟨_, rfl⟩

/-- The call environment, computed: `[builtins, VarLookupDict([locals, globals, extra])]`. -/
theorem callEnv_int (data : Scope) (varNames : List String) (builtins : Scope) (f0 f1 : Frame)
    (callers : List Frame) (k : Nat) (fr : Frame) (extra : Option Scope)
    (hk : selectedFrame callers k = some fr) :
    Input.callEnv W ⟨data, varNames, builtins, f0 :: f1 :: callers, .int k, extra⟩
      = .ok ⟨[.dict builtins,
              .vld [.dict [], .dict fr.locals, .dict fr.globals, .dict (extraOf extra)]]⟩ := by
  have hc := C11_env_depth f0 f1 callers k fr hk
  simp only [Input.callEnv, designEnv, hc]
  cases extra <;>
    simp [Environment.withOuterNamespace, Env.callEnv, List.mapM_cons,
      List.mapM_nil, bind, Except.bind, pure, Except.pure, Environment.namespace,
      VarLookupDict.new, extraOf]

theorem callEnv_instance (data : Scope) (varNames : List String) (builtins : Scope)
    (stack : List Frame) (e : Environment) (extra : Option Scope) :
    Input.callEnv W ⟨data, varNames, builtins, stack, .env e, extra⟩
      = .ok ⟨[.dict builtins, .vld (.dict [] :: (e.namespaces ++ [.dict (extraOf extra)]))]⟩ := by
  simp only [Input.callEnv, designEnv, capture]
  cases extra <;>
    simp [Environment.withOuterNamespace, Env.callEnv, List.mapM_cons,
      List.mapM_nil, bind, Except.bind, pure, Except.pure, Environment.namespace,
      VarLookupDict.new, extraOf]

/-! ### C11_order -/

/-- The scope list that `design_matrices` + `Call.set_type` build is exactly
`[builtins (TRANSFORMS ∪ ENCODINGS), locals, globals, extra_namespace]` (between them the two
always-empty leading dicts of the two `VarLookupDict`s). -/
theorem C11_order_scopes (data : Scope) (varNames : List String) (builtins : Scope) (f0 f1 : Frame)
    (callers : List Frame) (k : Nat) (fr : Frame) (extra : Option Scope)
    (hk : selectedFrame callers k = some fr) :
    ∃ cenv, Input.callEnv W ⟨data, varNames, builtins, f0 :: f1 :: callers, .int k, extra⟩ = .ok cenv ∧
      (cenv.namespace W).flatten = [[], builtins, [], fr.locals, fr.globals, extraOf extra] := by
  refine ⟨_, callEnv_int data varNames builtins f0 f1 callers k fr extra hk, ?_⟩
  simp [Environment.namespace, VarLookupDict.new, Ns.flatten,
    Ns.flatten.flattenList]

private theorem ns_lookup_order (builtins l g x : Scope) (n : String) :
    (Environment.namespace W ⟨[.dict builtins, .vld [.dict [], .dict l, .dict g, .dict x]]⟩).lookup n
      = firstMatch [builtins, l, g, x] n := by
  rw [lookup_flatten]
  simp [Environment.namespace, VarLookupDict.new, Ns.flatten,
    Ns.flatten.flattenList, firstMatch_cons, firstMatch_nil, binds]

/-- Callee lookup is `lookup` in the order builtins, locals, globals, extra (no data frame). -/
theorem C11_order_callee (data : Scope) (varNames : List String) (builtins : Scope) (f0 f1 : Frame)
    (callers : List Frame) (k : Nat) (fr : Frame) (extra : Option Scope) (name : String)
    (hk : selectedFrame callers k = some fr) :
    resolveCallee W ⟨data, varNames, builtins, f0 :: f1 :: callers, .int k, extra⟩ [name]
      = match firstMatch (calleeOrder (scopesOf data builtins fr (extraOf extra))) name with
        | some v => .ok v
        | none => .error (.keyError name) := by
  simp only [resolveCallee, callEnv_int data varNames builtins f0 f1 callers k fr extra hk,
    calleeLookup, Ns.getItem, ns_lookup_order, calleeOrder, scopesOf]
  cases firstMatch [builtins, fr.locals, fr.globals, extraOf extra] name <;> simp [getattrChain]

/-- Argument lookup is `lookup` in the order data, builtins, locals, globals, extra. -/
theorem C11_order_arg (data : Scope) (varNames : List String) (builtins : Scope) (f0 f1 : Frame)
    (callers : List Frame) (k : Nat) (fr : Frame) (extra : Option Scope) (name : String)
    (hk : selectedFrame callers k = some fr) (hn : name ∈ varNames) :
    resolveArg W ⟨data, varNames, builtins, f0 :: f1 :: callers, .int k, extra⟩ name
      = match firstMatch (argOrder (scopesOf data builtins fr (extraOf extra))) name with
        | some v => .ok v
        | none => .error (.keyError name) := by
  simp only [resolveArg, callEnv_int data varNames builtins f0 f1 callers k fr extra hk,
    argLookup, w_lazy, argLookup.go, select_lookup data varNames name hn,
    ns_lookup_order, argOrder, scopesOf]
  rw [firstMatch_cons data, ← lookup_eq_binds]
  cases data.lookup name with
  | some v => simp
  | none =>
    simp only [Option.none_or]
    cases firstMatch [builtins, fr.locals, fr.globals, extraOf extra] name <;> simp

/-- With an `Environment` instance as `env` (any number of namespaces, possibly nested): the
order is builtins, the namespaces of the instance in their order, extra. -/
theorem C11_order_instance (data : Scope) (varNames : List String) (builtins : Scope)
    (stack : List Frame) (e : Environment) (extra : Option Scope) (name : String) :
    resolveCallee W ⟨data, varNames, builtins, stack, .env e, extra⟩ [name]
      = match firstMatch (builtins :: (Ns.flatten.flattenList e.namespaces ++ [extraOf extra])) name with
        | some v => .ok v
        | none => .error (.keyError name) := by
  have hfl : ∀ a b : List Ns, Ns.flatten.flattenList (a ++ b)
      = Ns.flatten.flattenList a ++ Ns.flatten.flattenList b := by
    intro a b
    induction a with
    | nil => rfl
    | cons x a ih => simp [Ns.flatten.flattenList, ih]
  simp only [resolveCallee, callEnv_instance, calleeLookup, Ns.getItem]
  rw [lookup_flatten]
  simp only [Environment.namespace, VarLookupDict.new, w_leading, if_true, Ns.flatten,
    Ns.flatten.flattenList, hfl, List.append_nil, List.nil_append, List.cons_append]
  have : firstMatch ([] :: builtins :: [] ::
      (Ns.flatten.flattenList e.namespaces ++ [extraOf extra])) name
      = firstMatch (builtins :: (Ns.flatten.flattenList e.namespaces ++ [extraOf extra])) name := by
    simp [firstMatch_cons, binds]
  rw [this]
  cases firstMatch (builtins :: (Ns.flatten.flattenList e.namespaces ++ [extraOf extra])) name <;>
    simp [getattrChain]

/-! ### C11_dotted -/

/-- `a.b.c` as a callee: `a` is resolved in the callee order, then the attributes are followed;
a missing attribute raises `AttributeError` (no other scope is tried). -/
theorem C11_dotted (data : Scope) (varNames : List String) (builtins : Scope) (f0 f1 : Frame)
    (callers : List Frame) (k : Nat) (fr : Frame) (extra : Option Scope) (a : String)
    (path : List String) (hk : selectedFrame callers k = some fr) :
    resolveCallee W ⟨data, varNames, builtins, f0 :: f1 :: callers, .int k, extra⟩ (a :: path)
      = match firstMatch (calleeOrder (scopesOf data builtins fr (extraOf extra))) a with
        | some v => getattrChain v path
        | none => .error (.keyError a) := by
  simp only [resolveCallee, callEnv_int data varNames builtins f0 f1 callers k fr extra hk,
    calleeLookup, Ns.getItem, ns_lookup_order, calleeOrder, scopesOf]
  cases firstMatch [builtins, fr.locals, fr.globals, extraOf extra] a <;> simp

theorem C11_dotted_missing_attribute (t : String) (attrs : Scope) (a : String) (rest : List String)
    (h : attrs.lookup a = none) :
    getattrChain (.obj t attrs) (a :: rest) = .error (.attributeError a) := by
  simp [getattrChain, getattr, h]

/-! ### the statement as a whole: `Spec.C11.holds` of the model's outcome -/

/-- What the model does for a role. -/
def run (Wr : Wiring) (role : Role) (inp : Input) (name : String) (segments : List String) :
    Except Err Val :=
  match role with
  | .argument => resolveArg Wr inp name
  | .callee => resolveCallee Wr inp segments

/-- For every data frame, registry, call stack, depth, extra namespace and name: the outcome of
the model is the one the statement prescribes (including: too deep raises). -/
theorem C11_holds (role : Role) (data : Scope) (varNames : List String) (builtins : Scope)
    (f0 f1 : Frame) (callers : List Frame) (k : Nat) (extra : Option Scope) (name : String)
    (segments : List String) (hn : role = .argument → name ∈ varNames) :
    holds role data builtins callers k (extraOf extra) name segments
      (outcomeOf (run W role ⟨data, varNames, builtins, f0 :: f1 :: callers, .int k, extra⟩ name segments))
      = true := by
  simp only [holds, beq_iff_eq, expected]
  cases hk : selectedFrame callers k with
  | none =>
    have hlen : callers.length ≤ k := by
      simpa [selectedFrame] using hk
    obtain ⟨e, he⟩ := designEnv_too_deep f0 f1 callers k extra hlen
    cases role <;> simp [run, resolveArg, resolveCallee, Input.callEnv, he, outcomeOf]
  | some fr =>
    cases role with
    | argument =>
      simp only [run]
      rw [C11_order_arg data varNames builtins f0 f1 callers k fr extra name hk (hn rfl)]
      simp only [expectedArg]
      cases firstMatch (argOrder (scopesOf data builtins fr (extraOf extra))) name <;>
        simp [outcomeOf]
    | callee =>
      simp only [run]
      cases segments with
      | nil =>
        simp [resolveCallee, callEnv_int data varNames builtins f0 f1 callers k fr extra hk,
          calleeLookup, outcomeOf, expectedCallee]
      | cons a path =>
        rw [C11_dotted data varNames builtins f0 f1 callers k fr extra a path hk]
        simp only [expectedCallee]
        cases firstMatch (calleeOrder (scopesOf data builtins fr (extraOf extra))) a with
        | none => simp [outcomeOf]
        | some v => simpa using getattrChain_follow v path

/-- The same for the wiring regenerated from the current source. -/
theorem C11_holds_generated (role : Role) (data : Scope) (varNames : List String) (builtins : Scope)
    (f0 f1 : Frame) (callers : List Frame) (k : Nat) (extra : Option Scope) (name : String)
    (segments : List String) (hn : role = .argument → name ∈ varNames) :
    holds role data builtins callers k (extraOf extra) name segments
      (outcomeOf (run Env.generatedWiring role
        ⟨data, varNames, builtins, f0 :: f1 :: callers, .int k, extra⟩ name segments)) = true := by
  rw [tie_wiring]
  exact C11_holds role data varNames builtins f0 f1 callers k extra name segments hn

/-! ### C11_undefined -/

/-- A name bound in none of the five scopes raises `KeyError` (argument position). -/
theorem C11_undefined_arg (data : Scope) (varNames : List String) (builtins : Scope) (f0 f1 : Frame)
    (callers : List Frame) (k : Nat) (fr : Frame) (extra : Option Scope) (name : String)
    (hk : selectedFrame callers k = some fr)
    (hnone : ∀ s ∈ argOrder (scopesOf data builtins fr (extraOf extra)), s.lookup name = none) :
    resolveArg W ⟨data, varNames, builtins, f0 :: f1 :: callers, .int k, extra⟩ name
      = .error (.keyError name) := by
  have hd : (data.select varNames).lookup name = none := by
    by_cases hn : name ∈ varNames
    · rw [select_lookup _ _ _ hn]; exact hnone data (by simp [argOrder, scopesOf])
    · exact select_lookup_absent _ _ _ hn
  have hrest : firstMatch [builtins, fr.locals, fr.globals, extraOf extra] name = none := by
    rw [firstMatch_none_iff]
    intro s hs
    rw [← lookup_eq_binds]
    exact hnone s (by
      simp only [argOrder, scopesOf, List.mem_cons, List.not_mem_nil, or_false] at hs ⊢
      exact Or.inr hs)
  simp [resolveArg, callEnv_int data varNames builtins f0 f1 callers k fr extra hk,
    argLookup, w_lazy, argLookup.go, hd, ns_lookup_order, hrest]

/-- … and in callee position (the head of a dotted name). -/
theorem C11_undefined_callee (data : Scope) (varNames : List String) (builtins : Scope) (f0 f1 : Frame)
    (callers : List Frame) (k : Nat) (fr : Frame) (extra : Option Scope) (a : String)
    (path : List String) (hk : selectedFrame callers k = some fr)
    (hnone : ∀ s ∈ calleeOrder (scopesOf data builtins fr (extraOf extra)), s.lookup a = none) :
    resolveCallee W ⟨data, varNames, builtins, f0 :: f1 :: callers, .int k, extra⟩ (a :: path)
      = .error (.keyError a) := by
  rw [C11_dotted data varNames builtins f0 f1 callers k fr extra a path hk]
  have : firstMatch (calleeOrder (scopesOf data builtins fr (extraOf extra))) a = none := by
    rw [firstMatch_none_iff]
    intro s hs
    rw [← lookup_eq_binds]
    exact hnone s hs
  rw [this]

/-- Never "something else": whatever an argument resolves to is what one of the five scopes
binds the name to. -/
theorem C11_resolves_only_bound (data : Scope) (varNames : List String) (builtins : Scope)
    (f0 f1 : Frame) (callers : List Frame) (k : Nat) (extra : Option Scope) (name : String) (v : Val)
    (h : resolveArg W ⟨data, varNames, builtins, f0 :: f1 :: callers, .int k, extra⟩ name = .ok v) :
    ∃ fr, selectedFrame callers k = some fr ∧
      ∃ s ∈ argOrder (scopesOf data builtins fr (extraOf extra)), s.lookup name = some v := by
  cases hk : selectedFrame callers k with
  | none =>
    have hlen : callers.length ≤ k := by simpa [selectedFrame] using hk
    obtain ⟨e, he⟩ := designEnv_too_deep f0 f1 callers k extra hlen
    simp [resolveArg, Input.callEnv, he] at h
  | some fr =>
    refine ⟨fr, rfl, ?_⟩
    simp only [resolveArg, callEnv_int data varNames builtins f0 f1 callers k fr extra hk,
      argLookup, w_lazy, argLookup.go, ns_lookup_order] at h
    cases hd : (data.select varNames).lookup name with
    | some w =>
      simp [hd] at h
      subst h
      refine ⟨data, by simp [argOrder, scopesOf], ?_⟩
      by_cases hn : name ∈ varNames
      · rwa [select_lookup _ _ _ hn] at hd
      · rw [select_lookup_absent _ _ _ hn] at hd; cases hd
    | none =>
      simp [hd] at h
      cases hf : firstMatch [builtins, fr.locals, fr.globals, extraOf extra] name with
      | none => simp [hf] at h
      | some w =>
        simp [hf] at h
        subst h
        obtain ⟨i, s, hi, hv, _⟩ := (firstMatch_iff _ _ _).mp hf
        refine ⟨s, ?_, by rw [lookup_eq_binds]; exact hv⟩
        have := List.mem_of_getElem? hi
        simp only [argOrder, scopesOf, List.mem_cons, List.not_mem_nil, or_false] at this ⊢
        exact Or.inr this

/-! ### consequences named in the statement -/

/-- User locals / globals / `extra_namespace` cannot shadow a built-in callee: if the registry
binds the name, that is the callee, whatever the other scopes (and the data frame) contain. -/
theorem C11_builtin_callee_not_shadowed (data : Scope) (varNames : List String) (builtins : Scope)
    (f0 f1 : Frame) (callers : List Frame) (k : Nat) (fr : Frame) (extra : Option Scope)
    (name : String) (v : Val) (hk : selectedFrame callers k = some fr)
    (hb : builtins.lookup name = some v) :
    resolveCallee W ⟨data, varNames, builtins, f0 :: f1 :: callers, .int k, extra⟩ [name] = .ok v := by
  rw [C11_order_callee data varNames builtins f0 f1 callers k fr extra name hk]
  simp [calleeOrder, scopesOf, firstMatch_cons, ← lookup_eq_binds, hb]

/-- A data column shadows everything for an argument, a built-in shadows the user's scopes. -/
theorem C11_arg_data_first (data : Scope) (varNames : List String) (builtins : Scope)
    (f0 f1 : Frame) (callers : List Frame) (k : Nat) (fr : Frame) (extra : Option Scope)
    (name : String) (v : Val) (hk : selectedFrame callers k = some fr) (hn : name ∈ varNames)
    (hd : data.lookup name = some v) :
    resolveArg W ⟨data, varNames, builtins, f0 :: f1 :: callers, .int k, extra⟩ name = .ok v := by
  rw [C11_order_arg data varNames builtins f0 f1 callers k fr extra name hk hn]
  simp [argOrder, scopesOf, firstMatch_cons, ← lookup_eq_binds, hd]

theorem C11_arg_builtin_not_shadowed (data : Scope) (varNames : List String) (builtins : Scope)
    (f0 f1 : Frame) (callers : List Frame) (k : Nat) (fr : Frame) (extra : Option Scope)
    (name : String) (v : Val) (hk : selectedFrame callers k = some fr) (hn : name ∈ varNames)
    (hd : data.lookup name = none) (hb : builtins.lookup name = some v) :
    resolveArg W ⟨data, varNames, builtins, f0 :: f1 :: callers, .int k, extra⟩ name = .ok v := by
  rw [C11_order_arg data varNames builtins f0 f1 callers k fr extra name hk hn]
  simp [argOrder, scopesOf, firstMatch_cons, ← lookup_eq_binds, hd, hb]

/-! ### `__setitem__` writes the leading dict only -/

theorem C11_set_then_lookup (dicts : List Ns) (n : String) (v : Val) :
    ∃ ns', (VarLookupDict.new W dicts).set n v = some ns' ∧ ns'.lookup n = some v ∧
      ∃ s, ns' = .vld (.dict s :: dicts) := by
  refine ⟨.vld (.dict (Scope.set [] n v) :: dicts), ?_, ?_, _, rfl⟩
  · simp [VarLookupDict.new, Ns.set]
  · simp [Ns.lookup, Ns.lookupList, Scope.set, Scope.lookup]

/-! ### non-vacuity: several scopes define the same name -/

def exStack : List Frame :=
  [⟨[("depth", .const "capture")], []⟩,
   ⟨[("formula", .const "dm"), ("f", .const "dm-local")], []⟩,
   ⟨[("f", .const "L0"), ("x", .const "L0x")], [("f", .const "G0"), ("g", .const "G0g")]⟩,
   ⟨[("f", .const "L1")], [("f", .const "G1"), ("np", .obj "np1" [("log", .const "np1.log"),
      ("linalg", .obj "la" [("norm", .const "np1.linalg.norm")])])]⟩]

def exInput (k : Int) : Input :=
  { data := [("x", .const "col-x"), ("f", .const "col-f")],
    varNames := ["x", "f", "g", "h"],
    builtins := [("center", .const "builtin-center"), ("g", .const "builtin-g")],
    stack := exStack,
    envArg := .int k,
    extra := some [("f", .const "X"), ("g", .const "Xg"), ("h", .const "Xh"),
                   ("np", .obj "npX" [("log", .const "npX.log")])] }

-- argument `f`: the data column wins over locals, globals and extra, which all define it
example : resolveArg W (exInput 0) "f" = .ok (.const "col-f") := by rfl
-- callee `f`: no data frame; the local of the selected frame wins over its global and extra
example : resolveCallee W (exInput 0) ["f"] = .ok (.const "L0") := by rfl
example : resolveCallee W (exInput 1) ["f"] = .ok (.const "L1") := by rfl
-- `g`: built-in wins over the global of frame 0 and extra, for both roles
example : resolveArg W (exInput 0) "g" = .ok (.const "builtin-g") := by rfl
example : resolveCallee W (exInput 0) ["g"] = .ok (.const "builtin-g") := by rfl
-- `h`: only extra
example : resolveArg W (exInput 1) "h" = .ok (.const "Xh") := by rfl
-- dotted: `np` of the globals of frame 1 wins over extra's `np`; attributes are followed
example : resolveCallee W (exInput 1) ["np", "linalg", "norm"] = .ok (.const "np1.linalg.norm") := by
  rfl
example : resolveCallee W (exInput 0) ["np", "log"] = .ok (.const "npX.log") := by rfl
-- first match, then a missing attribute raises (extra's `np` has no `linalg`… frame 1's has no `exp`)
example : resolveCallee W (exInput 1) ["np", "exp"] = .error (.attributeError "exp") := by rfl
-- nowhere
example : resolveArg W (exInput 0) "q" = .error (.keyError "q") := by rfl
example : resolveCallee W (exInput 0) ["q", "r"] = .error (.keyError "q") := by rfl
-- too deep
example : resolveArg W (exInput 2) "x" = .error (.attributeError "f_locals") := by rfl
example : resolveArg W (exInput 3) "x" = .error .valueError := by rfl
-- the hypotheses of the theorems are satisfiable
example : (selectedFrame (exStack.drop 2) 1).map (·.locals) = some [("f", .const "L1")] := rfl
example : holds .callee (exInput 1).data (exInput 1).builtins (exStack.drop 2) 1
    (extraOf (exInput 1).extra) "np.log" ["np", "log"] (.value (.const "np1.log")) = true := by decide

end FormulaeModel.C11
