import FormulaeModel.Proofs.Blocks
import FormulaeModel.Proofs.Indicator
import FormulaeModel.Spec.C05
/-
C05 — block structure of group-specific terms in the evaluation model.
-/
namespace FormulaeModel.C05
open FormulaeModel FormulaeModel.Design

/-- indicator row of group `g` among `G` groups, as design entries -/
def indicatorRow (G g : Nat) : List Entry := rowOfInts (unitRow G g)

theorem indicatorRow_length (G g : Nat) : (indicatorRow G g).length = G := by
  simp [indicatorRow, rowOfInts, unitRow]

theorem indicatorRow_get (G g g' : Nat) (h : g' < G) :
    (indicatorRow G g)[g']'(by rw [indicatorRow_length]; exact h) = some (if g' = g then 1 else 0) := by
  simp only [indicatorRow, rowOfInts, List.getElem_map]
  rw [unitRow_get _ _ _ h]
  split <;> simp

/-- **Block structure** (every number of groups, every effect width, every row): in the
Khatri-Rao row of an observation of group `g` with effect row `x`, slot `g'` holds
`x` when `g' = g` and `0 · x` otherwise, at positions `g' * |x| + k` (group slowest, effect
fastest). -/
theorem C05_block_row (G g : Nat) (x : List Entry) (g' k : Nat) (hg' : g' < G) (hk : k < x.length) :
    (rowProd (indicatorRow G g) x)[g' * x.length + k]? =
      some (Entry.mul (some (if g' = g then 1 else 0)) x[k]) := by
  rw [rowProd_getElem? (indicatorRow G g) x g' k (by rw [indicatorRow_length]; exact hg') hk]
  rw [indicatorRow_get G g g' hg']

/-- … so for a row without missing values: its own slot carries the effect values, every other
slot is zero. -/
theorem C05_block_row_values (G g : Nat) (x : List Rat) (g' k : Nat) (hg' : g' < G)
    (hk : k < x.length) :
    (rowProd (indicatorRow G g) (x.map some))[g' * x.length + k]? =
      some (some (if g' = g then x[k] else 0)) := by
  have := C05_block_row G g (x.map some) g' k hg' (by simpa using hk)
  simp only [List.length_map, List.getElem_map] at this
  rw [this]
  by_cases h : g' = g <;> simp [h, Entry.mul]

/-- the block has exactly `G * p` columns -/
theorem C05_block_width (G g : Nat) (x : List Entry) :
    (rowProd (indicatorRow G g) x).length = G * x.length := by
  rw [length_rowProd, indicatorRow_length]

/-- the matrix `khatri_rao` of the model is this row product, row by row -/
theorem C05_khatriRao_rows (j x : Matrix) (r : Nat) (hj : r < j.length) (hx : r < x.length) :
    (khatriRao j x)[r]'(by simp [khatriRao, interactionMatrix]; omega) = rowProd j[r] x[r] :=
  interactionMatrix_row j x r hj hx

/-- grouping by an interaction `g1:g2`: the indicator row of the cell is the product of the
component indicator rows, i.e. cell `(a, b)` sits at position `a * |g2| + b` — lexicographic
order of the two (sorted / declared) level lists. -/
theorem C05_cell_order (G1 G2 a b a' b' : Nat) (ha' : a' < G1) (hb' : b' < G2) :
    (rowProd (indicatorRow G1 a) (indicatorRow G2 b))[a' * G2 + b']? =
      some (some (if a' = a ∧ b' = b then 1 else 0)) := by
  have := rowProd_getElem? (indicatorRow G1 a) (indicatorRow G2 b) a' b'
    (by rw [indicatorRow_length]; exact ha') (by rw [indicatorRow_length]; exact hb')
  have hl : a' * (indicatorRow G2 b).length + b' = a' * G2 + b' := by rw [indicatorRow_length]
  rw [hl] at this
  rw [this, indicatorRow_get _ _ _ ha', indicatorRow_get _ _ _ hb']
  by_cases h1 : a' = a <;> by_cases h2 : b' = b <;> simp [h1, h2, Entry.mul]

-- non-vacuity: 3 groups, 2 effect columns, an observation of the middle group
example : rowProd (indicatorRow 3 1) [some 1, some (7 / 2)] =
    [some 0, some 0, some 1, some (7 / 2), some 0, some 0] := by decide +kernel

end FormulaeModel.C05
