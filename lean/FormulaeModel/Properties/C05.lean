import FormulaeModel.Proofs.Blocks
import FormulaeModel.Proofs.Indicator
import FormulaeModel.Spec.C05
import FormulaeModel.Proofs.GroupBlockSpec
import FormulaeModel.Proofs.GroupBlockWidth
/-
C05 — block structure of group-specific terms in the evaluation model.
-/
namespace FormulaeModel.C05
open FormulaeModel FormulaeModel.Design

/-- indicator row of group `g` among `G` groups, as design entries -/
def indicatorRow (G g : Nat) : List Entry := rowOfInts (unitRow G g)

theorem indicatorRow_length (G g : Nat) : (indicatorRow G g).length = G := by
  simp [indicatorRow, rowOfInts, unitRow]

theorem indicatorRow_get (G g g' : Nat) (h : g' < G) :
    (indicatorRow G g)[g']'(by rw [indicatorRow_length]; exact h) = some (if g' = g then 1 else 0) := by
  simp only [indicatorRow, rowOfInts, List.getElem_map]
  rw [unitRow_get _ _ _ h]
  split <;> simp

/-- **Block structure** (every number of groups, every effect width, every row): in the
Khatri-Rao row of an observation of group `g` with effect row `x`, slot `g'` holds
`x` when `g' = g` and `0 · x` otherwise, at positions `g' * |x| + k` (group slowest, effect
fastest). -/
theorem C05_block_row (G g : Nat) (x : List Entry) (g' k : Nat) (hg' : g' < G) (hk : k < x.length) :
    (rowProd (indicatorRow G g) x)[g' * x.length + k]? =
      some (Entry.mul (some (if g' = g then 1 else 0)) x[k]) := by
  rw [rowProd_getElem? (indicatorRow G g) x g' k (by rw [indicatorRow_length]; exact hg') hk]
  rw [indicatorRow_get G g g' hg']

/-- … so for a row without missing values: its own slot carries the effect values, every other
slot is zero. -/
theorem C05_block_row_values (G g : Nat) (x : List Rat) (g' k : Nat) (hg' : g' < G)
    (hk : k < x.length) :
    (rowProd (indicatorRow G g) (x.map some))[g' * x.length + k]? =
      some (some (if g' = g then x[k] else 0)) := by
  have := C05_block_row G g (x.map some) g' k hg' (by simpa using hk)
  simp only [List.length_map, List.getElem_map] at this
  rw [this]
  by_cases h : g' = g <;> simp [h, Entry.mul]

/-- the block has exactly `G * p` columns -/
theorem C05_block_width (G g : Nat) (x : List Entry) :
    (rowProd (indicatorRow G g) x).length = G * x.length := by
  rw [length_rowProd, indicatorRow_length]

/-- the matrix `khatri_rao` of the model is this row product, row by row -/
theorem C05_khatriRao_rows (j x : Matrix) (r : Nat) (hj : r < j.length) (hx : r < x.length) :
    (khatriRao j x)[r]'(by simp [khatriRao, interactionMatrix]; omega) = rowProd j[r] x[r] :=
  interactionMatrix_row j x r hj hx

/-- grouping by an interaction `g1:g2`: the indicator row of the cell is the product of the
component indicator rows, i.e. cell `(a, b)` sits at position `a * |g2| + b` — lexicographic
order of the two (sorted / declared) level lists. -/
theorem C05_cell_order (G1 G2 a b a' b' : Nat) (ha' : a' < G1) (hb' : b' < G2) :
    (rowProd (indicatorRow G1 a) (indicatorRow G2 b))[a' * G2 + b']? =
      some (some (if a' = a ∧ b' = b then 1 else 0)) := by
  have := rowProd_getElem? (indicatorRow G1 a) (indicatorRow G2 b) a' b'
    (by rw [indicatorRow_length]; exact ha') (by rw [indicatorRow_length]; exact hb')
  have hl : a' * (indicatorRow G2 b).length + b' = a' * G2 + b' := by rw [indicatorRow_length]
  rw [hl] at this
  rw [this, indicatorRow_get _ _ _ ha', indicatorRow_get _ _ _ hb']
  by_cases h1 : a' = a <;> by_cases h2 : b' = b <;> simp [h1, h2, Entry.mul]

-- non-vacuity: 3 groups, 2 effect columns, an observation of the middle group
example : rowProd (indicatorRow 3 1) [some 1, some (7 / 2)] =
    [some 0, some 0, some 1, some (7 / 2), some 0, some 0] := by decide +kernel

/-! ## Term level: the evaluation model's own `trainGroup`

The theorems above are about the building blocks.  The theorems below are about the function the
correspondence check runs, `trainGroup` (Model/Matrices.lean): the grouping factor trained as a
term with every component coded full, the effect expression trained as a term (or a column of ones
for the intercept), and `khatriRao` of the two.  All frames, environments, tables and
specifications; no bound on the number of rows, levels, grouping components or effect columns.

Coding hypothesis.  `trainGroup` codes the factor with the *component's own* contrast, full.  For a
plain variable and for `C(g)` / `C(g, Treatment(…))` that is the complete indicator coding; for
`C(g, Sum)` it is `[1 | sum contrasts]`, and the block is *not* an indicator block (model and
library agree on that: `C05_factor_sum_counterexample`).  The theorems therefore carry the
hypothesis `IndicatorCoded` on the trained state — which is decidable on the result — and
`C05_plain_factor_indicatorCoded` / `C05_treatment_factor_indicatorCoded` discharge it for plain
variables / every factor that asks for Treatment coding. -/

/-- every grouping component remembered the complete indicator coding (Treatment, full) -/
def IndicatorCoded (st : GroupState) : Prop :=
  ∀ c ∈ st.factor.comps, c.contrast = some (treatmentFull c.levels)

instance (st : GroupState) : Decidable (IndicatorCoded st) := by
  unfold IndicatorCoded; infer_instance

/-- number of cells of the grouping factor: the product of the numbers of levels -/
def cells (st : GroupState) : Nat := cellCount 1 (st.factor.comps.map (·.levels.length))

theorem unitE_eq_indicatorRow (G g : Nat) : unitE G g = indicatorRow G g := rfl

theorem entry_one_mul (e : Entry) : Entry.mul (some 1) e = e := by
  cases e <;> simp [Entry.mul]

theorem entry_zero_mul (e : Entry) : Entry.mul (some 0) e = e.map (fun _ => 0) := by
  cases e <;> simp [Entry.mul]

/-- grouping by plain variables: the complete indicator coding is what `trainGroup` uses -/
theorem C05_plain_factor_indicatorCoded (env : Env) (table : List (String × Expr)) (spec : GroupSpec)
    (out : GroupOut) (h : trainGroup env table spec = .ok out)
    (hp : PlainFactor table (spec.factor.comps.map (·.1))) : IndicatorCoded out.st :=
  (trainGroup_factor_state env table spec out h).2 hp.treatment

/-- … and so does every factor whose components ask for Treatment coding (`C(g)`, `C(g, Treatment)`) -/
theorem C05_treatment_factor_indicatorCoded (env : Env) (table : List (String × Expr)) (spec : GroupSpec)
    (out : GroupOut) (h : trainGroup env table spec = .ok out)
    (hT : TreatmentFactor env table (spec.factor.comps.map (·.1))) : IndicatorCoded out.st :=
  (trainGroup_factor_state env table spec out h).2 hT

/-- **(1) the factor matrix is the complete indicator matrix** (any number of grouping
components).  `cols` are the values the components read (`factorColumns`); for row `r`,
`rowCell … r = some ps` lists for every component (number of levels, position of the row's level
among the component's levels — `indexOf?`); the row of the factor matrix is the indicator row of
the cell, cells numbered in lexicographic order, first component slowest (`cellIndex`). -/
theorem C05_factor_indicator (env : Env) (table : List (String × Expr)) (spec : GroupSpec) (f : TermOut)
    (h : trainTerm env table (factorSpecOf spec) true false = .ok f)
    (ht : ∀ c ∈ f.st.comps, c.contrast = some (treatmentFull c.levels)) :
    ∃ cols, factorColumns env table (spec.factor.comps.map (·.1)) = .ok cols ∧
      ∀ r (hr : r < f.data.length), ∃ ps,
        rowCell (f.st.comps.map (·.levels)) (cols.map (·.2)) r = some ps ∧
        (∀ p ∈ ps, p.2 < p.1) ∧ ps.map (·.1) = f.st.comps.map (·.levels.length) ∧
        f.data[r] = indicatorRow (cellCount 1 (ps.map (·.1))) (cellIndex 0 ps) := by
  obtain ⟨outs, cols, hcols, hF, _, hcomps, hfd, _⟩ := trainTerm_factor_parts env table spec f h
  have ht' : ∀ o ∈ outs, o.st.contrast = some (treatmentFull o.st.levels) := by
    intro o ho
    exact ht o.st (by rw [hcomps]; exact List.mem_map.2 ⟨o, ho, rfl⟩)
  refine ⟨cols, hcols, ?_⟩
  intro r hr
  have hr' : r < (reduceMatrices (outs.map (·.value))).length := by rw [← hfd]; exact hr
  obtain ⟨ps, h1, h2, h3, _, h5⟩ := reduceMatrices_factor_row outs cols hF ht' r hr'
  refine ⟨ps, ?_, h2, ?_, ?_⟩
  · rw [hcomps, List.map_map]; exact h1
  · rw [hcomps, List.map_map]; exact h3
  · simp only [hfd]; exact h5

/-- **(1′) the levels**: every grouping component remembers the declared order (ordered
Categorical, explicit `levels=`) or else the sorted distinct values it read: no duplicates, exactly
the values present, non-decreasing for Python's `<`. -/
theorem C05_factor_levels (env : Env) (table : List (String × Expr)) (spec : GroupSpec) (out : GroupOut)
    (h : trainGroup env table spec = .ok out) (ht : IndicatorCoded out.st) :
    ∃ cols, factorColumns env table (spec.factor.comps.map (·.1)) = .ok cols ∧
      out.st.factor.comps.map (·.name) = spec.factor.comps.map (·.1) ∧
      out.st.factor.comps.length = cols.length ∧
      ∀ (i : Nat) (c : CompState) (col : Val × List (Option Level)),
        out.st.factor.comps[i]? = some c → cols[i]? = some col →
        match valDeclared col.1 with
        | some ls => c.levels = ls
        | none => c.levels.Nodup ∧ (∀ l, l ∈ c.levels ↔ some l ∈ col.2) ∧ SortedBy levelLt c.levels := by
  obtain ⟨cols, X, hcols, _, hnames, hlen, hord, _⟩ := trainGroup_block env table spec out h ht
  refine ⟨cols, hcols, hnames, hlen, ?_⟩
  intro i c col hc hcol
  have := hord i c col hc hcol
  unfold LevelOrder at this
  split
  · rename_i ls hd
    rw [hd] at this
    exact this
  · rename_i hd
    rw [hd] at this
    obtain ⟨h1, h2, h3⟩ := sortLevels_spec _ _ this
    refine ⟨h1, ?_, h3⟩
    intro l
    rw [h2 l]
    simp [List.mem_filterMap]

/-- **(2) block structure of `trainGroup`**: every row of the block is the Kronecker row of the
indicator row of the row's cell with the row of the effect matrix (`effectData`: a column of ones
for the intercept, the data of the trained effect term otherwise). -/
theorem C05_trainGroup_block (env : Env) (table : List (String × Expr)) (spec : GroupSpec) (out : GroupOut)
    (h : trainGroup env table spec = .ok out) (ht : IndicatorCoded out.st) :
    ∃ cols X, factorColumns env table (spec.factor.comps.map (·.1)) = .ok cols ∧
      effectData env table spec = .ok X ∧
      ∀ r (hr : r < out.data.length), ∃ ps x,
        rowCell (out.st.factor.comps.map (·.levels)) (cols.map (·.2)) r = some ps ∧
        cellIndex 0 ps < cells out.st ∧ X[r]? = some x ∧
        out.data[r] = rowProd (indicatorRow (cells out.st) (cellIndex 0 ps)) x := by
  obtain ⟨cols, X, hcols, hX, _, _, _, hrows⟩ := trainGroup_block env table spec out h ht
  refine ⟨cols, X, hcols, hX, ?_⟩
  intro r hr
  obtain ⟨ps, x, h1, _, h3, h4, h5, h6⟩ := hrows r hr
  rw [h3] at h4 h6
  exact ⟨ps, x, h1, h4, h5, h6⟩

/-- **(2′) entry by entry**: in the row of an observation of cell `g`, slot `g' < G` holds at
offset `k` the product `[g' = g] · x[k]` (`Entry.mul`): the effect value itself in the row's own
slot; in every other slot `0` where the effect value is a number and NaN (`none`) where the effect
value is NaN (`0 · NaN`, as numpy computes it). -/
theorem C05_trainGroup_entries (env : Env) (table : List (String × Expr)) (spec : GroupSpec) (out : GroupOut)
    (h : trainGroup env table spec = .ok out) (ht : IndicatorCoded out.st) :
    ∃ cols X, factorColumns env table (spec.factor.comps.map (·.1)) = .ok cols ∧
      effectData env table spec = .ok X ∧
      ∀ r (hr : r < out.data.length), ∃ ps x,
        rowCell (out.st.factor.comps.map (·.levels)) (cols.map (·.2)) r = some ps ∧
        cellIndex 0 ps < cells out.st ∧ X[r]? = some x ∧
        out.data[r].length = cells out.st * x.length ∧
        ∀ g' k (_ : g' < cells out.st) (hk : k < x.length),
          out.data[r][g' * x.length + k]? =
            some (if g' = cellIndex 0 ps then x[k] else x[k].map (fun _ => 0)) := by
  obtain ⟨cols, X, hcols, hX, hrows⟩ := C05_trainGroup_block env table spec out h ht
  refine ⟨cols, X, hcols, hX, ?_⟩
  intro r hr
  obtain ⟨ps, x, h1, h2, h3, h4⟩ := hrows r hr
  refine ⟨ps, x, h1, h2, h3, by rw [h4, C05_block_width], ?_⟩
  intro g' k hg' hk
  rw [h4, C05_block_row _ _ x g' k hg' hk]
  by_cases hg : g' = cellIndex 0 ps
  · simp [hg, entry_one_mul]
  · simp [hg, entry_zero_mul]

/-- the intercept effect: the effect row is `[1]`, so the block *is* the indicator matrix -/
theorem C05_trainGroup_intercept (env : Env) (table : List (String × Expr)) (spec : GroupSpec)
    (out : GroupOut) (h : trainGroup env table spec = .ok out) (ht : IndicatorCoded out.st)
    (hi : spec.expr = none) :
    ∃ cols, factorColumns env table (spec.factor.comps.map (·.1)) = .ok cols ∧
      ∀ r (hr : r < out.data.length), ∃ ps,
        rowCell (out.st.factor.comps.map (·.levels)) (cols.map (·.2)) r = some ps ∧
        cellIndex 0 ps < cells out.st ∧
        out.data[r] = rowProd (indicatorRow (cells out.st) (cellIndex 0 ps)) [some 1] := by
  obtain ⟨cols, X, hcols, hX, hrows⟩ := C05_trainGroup_block env table spec out h ht
  refine ⟨cols, hcols, ?_⟩
  intro r hr
  obtain ⟨ps, x, h1, h2, h3, h4⟩ := hrows r hr
  simp only [effectData, hi, pure_ok] at hX
  subst hX
  have : x = [some 1] := by
    have hx := List.mem_of_getElem? h3
    exact List.eq_of_mem_replicate hx
  subst this
  exact ⟨ps, h1, h2, h4⟩

/-- **(3) labels and group names**: the group names are the `:`-joined level labels in cell
order; the column labels are, cell-major, `effectLabel|factorLabel` where the factor label of a
cell is the `:`-join of `name[level]`; there are `G · (number of effect labels)` of them. -/
theorem C05_trainGroup_labels (env : Env) (table : List (String × Expr)) (spec : GroupSpec) (out : GroupOut)
    (h : trainGroup env table spec = .ok out) (ht : IndicatorCoded out.st) :
    ∃ el, effectLabels env table spec = .ok el ∧
      out.st.groups = reduceLabels (out.st.factor.comps.map (fun c => c.levels.map Level.label)) ∧
      (out.st.factor.comps ≠ [] → out.st.groups.length = cells out.st) ∧
      ∀ ls, out.labels = some ls → ∃ els, el = some els ∧
        ls = (reduceLabels (out.st.factor.comps.map (fun c =>
                c.levels.map (fun l => c.name ++ "[" ++ l.label ++ "]")))).flatMap
              (fun g => els.map (fun l => l ++ "|" ++ g)) ∧
        (out.st.factor.comps ≠ [] → ls.length = cells out.st * els.length) := by
  obtain ⟨el, hel, hgroups, hlabels⟩ := trainGroup_labels env table spec out h ht
  have hcount : ∀ (lab : CompState → Level → String), out.st.factor.comps ≠ [] →
      (reduceLabels (out.st.factor.comps.map (fun c => c.levels.map (lab c)))).length = cells out.st := by
    intro lab hne
    unfold cells
    cases hcs : out.st.factor.comps with
    | nil => exact absurd hcs hne
    | cons c cs =>
      simp only [List.map_cons, reduceLabels, cellCount_one_cons]
      have hlen : ∀ (lps : List (List String × Nat)) (acc : List String),
          ((lps.map (·.1)).foldl interactionLabels acc).length = cellCount acc.length (lps.map (·.1.length)) := by
        intro lps
        induction lps with
        | nil => intro acc; rfl
        | cons p lps ih =>
          intro acc
          simp only [List.map_cons, List.foldl_cons, cellCount]
          rw [ih, interactionLabels_eq, length_labelProd]
          rfl
      have := hlen (cs.map (fun c => (c.levels.map (lab c), 0))) (c.levels.map (lab c))
      simpa [List.map_map, Function.comp_def] using this
  refine ⟨el, hel, hgroups, ?_, ?_⟩
  · intro hne
    rw [hgroups]
    exact hcount (fun _ l => l.label) hne
  · intro ls hls
    rw [hlabels] at hls
    cases el with
    | none => simp at hls
    | some els =>
      simp only [Option.map_some, Option.some.injEq] at hls
      subst hls
      refine ⟨els, rfl, rfl, ?_⟩
      intro hne
      have := length_labelProd bar (reduceLabels (out.st.factor.comps.map (fun c =>
        c.levels.map (fun l => c.name ++ "[" ++ l.label ++ "]")))) els
      rw [this, hcount (fun c l => c.name ++ "[" ++ l.label ++ "]") hne]

/-- **(3′) as many labels as columns** (no coding hypothesis, every effect, every factor): when
the labels of the block exist, every row of the block has exactly one entry per label — with (3):
`G · p` entries, `p` the number of effect labels. -/
theorem C05_trainGroup_width (env : Env) (table : List (String × Expr)) (spec : GroupSpec) (out : GroupOut)
    (h : trainGroup env table spec = .ok out) (ls : List String) (hls : out.labels = some ls) :
    ∀ row ∈ out.data, row.length = ls.length :=
  trainGroup_width env table spec out h ls hls

/-- for well-formed frames (every column has `nrows` cells) the block has one row per row of the
frame, so (2) speaks about every observation -/
theorem C05_trainGroup_nrows (env : Env) (hwf : env.frame.wellFormed = true) (hn : env.namesScalar = true)
    (table : List (String × Expr)) (spec : GroupSpec) (out : GroupOut)
    (hnf : spec.factor.comps ≠ []) (hne : ∀ ts, spec.expr = some ts → ts.comps ≠ [])
    (h : trainGroup env table spec = .ok out) : out.data.length = env.frame.nrows :=
  (trainGroup_perm env hwf hn (List.range env.frame.nrows) (List.Perm.refl _) table spec out hnf hne h).2

/-- **single grouping variable** `(e | g)`, `g` a plain column: no coding hypothesis is needed.
The values and levels are the ones the specification (Spec/C05) prescribes: `componentValues`
(the column, row by row) and `componentLevels` (declared order of an ordered Categorical, else the
sorted distinct values); the group names are the level labels; row `r` of an observation whose
value is level number `g` carries the effect row in slot `g` and `0 · x` elsewhere. -/
theorem C05_trainGroup_single (env : Env) (table : List (String × Expr)) (spec : GroupSpec) (out : GroupOut)
    (name : String) (flag : Bool) (x : Token)
    (hf : spec.factor.comps = [(name, flag)]) (hx : compExpr table name = .ok (.variable x))
    (h : trainGroup env table spec = .ok out) :
    ∃ xs levels X, Spec.C05.componentValues env table name = .ok xs ∧
      Spec.C05.componentLevels env table name = .ok levels ∧
      effectData env table spec = .ok X ∧
      out.st.groups = levels.map Level.label ∧
      ∀ r (hr : r < out.data.length), ∃ l g xr,
        xs[r]? = some (some l) ∧ indexOf? l levels = some g ∧ g < levels.length ∧ X[r]? = some xr ∧
        out.data[r] = rowProd (indicatorRow levels.length g) xr ∧
        ∀ g' k (_ : g' < levels.length) (hk : k < xr.length),
          out.data[r][g' * xr.length + k]? =
            some (if g' = g then xr[k] else xr[k].map (fun _ => 0)) := by
  have hplain : PlainFactor table (spec.factor.comps.map (·.1)) := by
    intro nm hnm e he
    simp only [hf, List.map_cons, List.map_nil, List.mem_singleton] at hnm
    subst hnm
    rw [hx] at he
    simp only [Except.ok.injEq] at he
    subst he
    rfl
  have ht := C05_plain_factor_indicatorCoded env table spec out h hplain
  obtain ⟨cols, X, hcols, hX, hnames, hlen, hord, hrows⟩ := trainGroup_block env table spec out h ht
  obtain ⟨_, _, hgroups, _⟩ := trainGroup_labels env table spec out h ht
  -- the one column
  simp only [hf, List.map_cons, List.map_nil, factorColumns, List.mapM_cons, List.mapM_nil, bind_ok,
    pure_ok] at hcols
  obtain ⟨col, ⟨e, he, v, hv, xs, hxs, rfl⟩, _, rfl, rfl⟩ := hcols
  rw [hx] at he
  simp only [Except.ok.injEq] at he
  subst he
  -- the one component
  simp only [List.length_cons, List.length_nil] at hlen
  obtain ⟨c, hc⟩ : ∃ c, out.st.factor.comps = [c] := by
    cases hcs : out.st.factor.comps with
    | nil => rw [hcs] at hlen; simp at hlen
    | cons c cs =>
      cases cs with
      | nil => exact ⟨c, rfl⟩
      | cons c' cs' => rw [hcs] at hlen; simp at hlen
  have hord0 := hord 0 c (v, xs) (by rw [hc]; rfl) rfl
  refine ⟨xs, c.levels, X, componentValues_eq env table name _ hx rfl v xs hv hxs,
    componentLevels_eq env table name x hx v xs c.levels hv hxs hord0, hX, ?_, ?_⟩
  · rw [hgroups, hc]; rfl
  · intro r hr
    obtain ⟨ps, xr, h1, h2, h3, h4, h5, h6⟩ := hrows r hr
    simp only [hc, List.map_cons, List.map_nil, rowCell, List.zip_cons_cons, List.zip_nil_right,
      List.mapM_cons, List.mapM_nil] at h1 h3
    cases hli : levelIndex c.levels (xs.getD r none) with
    | none => rw [hli] at h1; simp at h1
    | some g =>
      rw [hli] at h1
      simp only [Option.map_some, Option.pure_def, Option.bind_eq_bind, Option.bind_some,
        Option.some.injEq] at h1
      subst h1
      have hg : g < c.levels.length := levelIndex_lt _ _ _ hli
      cases hxr : xs.getD r none with
      | none => rw [hxr] at hli; simp [levelIndex] at hli
      | some l =>
        rw [hxr] at hli
        simp only [levelIndex, Option.bind_some] at hli
        have hxr' : xs[r]? = some (some l) := by
          simp only [List.getD_eq_getElem?_getD] at hxr
          cases hq : xs[r]? with
          | none => rw [hq] at hxr; simp at hxr
          | some q => rw [hq] at hxr; simp only [Option.getD_some] at hxr; rw [hxr]
        have hrow : out.data[r] = rowProd (indicatorRow c.levels.length g) xr := by
          rw [h6]
          simp [cellCount, cellIndex, unitE_eq_indicatorRow]
        refine ⟨l, g, xr, hxr', hli, hg, h5, hrow, ?_⟩
        intro g' k hg' hk
        rw [hrow, C05_block_row _ _ xr g' k hg' hk]
        by_cases hgg : g' = g
        · simp [hgg, entry_one_mul]
        · simp [hgg, entry_zero_mul]

/-- the anatomy of the state for a single plain grouping variable: one component, named and
read as the variable, with the levels the specification prescribes, indicator coded -/
theorem C05_single_component (env : Env) (table : List (String × Expr)) (spec : GroupSpec) (out : GroupOut)
    (name : String) (flag : Bool) (x : Token)
    (hf : spec.factor.comps = [(name, flag)]) (hx : compExpr table name = .ok (.variable x))
    (h : trainGroup env table spec = .ok out) :
    ∃ c, out.st.factor.comps = [c] ∧ c.name = name ∧ c.expr = .variable x ∧
      Spec.C05.componentLevels env table name = .ok c.levels ∧ IndicatorCoded out.st ∧
      cells out.st = c.levels.length := by
  have hplain : PlainFactor table (spec.factor.comps.map (·.1)) := by
    intro nm hnm e he
    simp only [hf, List.map_cons, List.map_nil, List.mem_singleton] at hnm
    subst hnm
    rw [hx] at he
    simp only [Except.ok.injEq] at he
    subst he
    rfl
  have ht := C05_plain_factor_indicatorCoded env table spec out h hplain
  obtain ⟨cols, X, hcols, hX, hnames, hlen, hord, hrows⟩ := trainGroup_block env table spec out h ht
  simp only [hf, List.map_cons, List.map_nil, factorColumns, List.mapM_cons, List.mapM_nil, bind_ok,
    pure_ok] at hcols
  obtain ⟨col, ⟨e, he, v, hv, xs, hxs, rfl⟩, _, rfl, rfl⟩ := hcols
  rw [hx] at he
  simp only [Except.ok.injEq] at he
  subst he
  simp only [List.length_cons, List.length_nil] at hlen
  obtain ⟨c, hc⟩ : ∃ c, out.st.factor.comps = [c] := by
    cases hcs : out.st.factor.comps with
    | nil => rw [hcs] at hlen; simp at hlen
    | cons c cs =>
      cases cs with
      | nil => exact ⟨c, rfl⟩
      | cons c' cs' => rw [hcs] at hlen; simp at hlen
  have hord0 := hord 0 c (v, xs) (by rw [hc]; rfl) rfl
  have hname : c.name = name := by
    rw [hc, hf] at hnames
    simpa using hnames
  have hexpr := trainGroup_factor_exprs env table spec out h c (by rw [hc]; simp)
  rw [hname, hx] at hexpr
  simp only [Except.ok.injEq] at hexpr
  refine ⟨c, hc, hname, hexpr.symm, componentLevels_eq env table name x hx v xs c.levels hv hxs hord0, ht, ?_⟩
  simp [cells, hc, cellCount]

/-- name of the cell `ps` (one (number of levels, position) per component): the `:`-join of the
labels of its levels -/
def cellName (comps : List CompState) (ps : List (Nat × Nat)) : Option String :=
  match comps, ps with
  | c :: cs, p :: ps' =>
    some ((List.zip cs ps').foldl (fun s q => s ++ ":" ++ (q.1.levels.map Level.label).getD q.2.2 "")
      ((c.levels.map Level.label).getD p.2 ""))
  | _, _ => none

theorem zip_label_positions (cs : List CompState) (ps : List (Nat × Nat))
    (h : ps.map (·.1) = cs.map (·.levels.length)) (hlt : ∀ p ∈ ps, p.2 < p.1) :
    ((List.zip cs ps).map (fun q => (q.1.levels.map Level.label, q.2.2))).map (·.1) =
        cs.map (fun c => c.levels.map Level.label) ∧
      ((List.zip cs ps).map (fun q => (q.1.levels.map Level.label, q.2.2))).map
        (fun p => (p.1.length, p.2)) = ps ∧
      ∀ q ∈ (List.zip cs ps).map (fun q => (q.1.levels.map Level.label, q.2.2)), q.2 < q.1.length := by
  induction cs generalizing ps with
  | nil =>
    cases ps with
    | nil => simp
    | cons p ps => simp at h
  | cons c cs ih =>
    cases ps with
    | nil => simp at h
    | cons p ps =>
      simp only [List.map_cons, List.cons.injEq] at h
      obtain ⟨h1, h2, h3⟩ := ih ps h.2 (fun q hq => hlt q (by simp [hq]))
      have hp := hlt p (by simp)
      refine ⟨?_, ?_, ?_⟩
      · simp only [List.zip_cons_cons, List.map_cons, h1]
      · simp only [List.zip_cons_cons, List.map_cons, h2, List.length_map]
        rw [← h.1]
      · intro q hq
        simp only [List.zip_cons_cons, List.map_cons, List.mem_cons] at hq
        rcases hq with rfl | hq
        · simp only [List.length_map]; rw [← h.1]; exact hp
        · exact h3 q hq

/-- **cells in lexicographic order, by name**: the group name at the slot index of a cell is the
`:`-join of the labels of the cell's levels (component 1 slowest). -/
theorem C05_group_name_at_cell (env : Env) (table : List (String × Expr)) (spec : GroupSpec) (out : GroupOut)
    (h : trainGroup env table spec = .ok out) (ht : IndicatorCoded out.st)
    (ps : List (Nat × Nat)) (hne : out.st.factor.comps ≠ [])
    (hps : ps.map (·.1) = out.st.factor.comps.map (·.levels.length)) (hlt : ∀ p ∈ ps, p.2 < p.1) :
    out.st.groups[cellIndex 0 ps]? = cellName out.st.factor.comps ps := by
  obtain ⟨_, _, hgroups, _⟩ := trainGroup_labels env table spec out h ht
  rw [hgroups]
  cases hcs : out.st.factor.comps with
  | nil => exact absurd hcs hne
  | cons c cs =>
    rw [hcs] at hps
    cases ps with
    | nil => simp at hps
    | cons p ps' =>
      simp only [List.map_cons, List.cons.injEq] at hps
      obtain ⟨h1, h2, h3⟩ := zip_label_positions cs ps' hps.2 (fun q hq => hlt q (by simp [hq]))
      have hp := hlt p (by simp)
      have hg : p.2 < (c.levels.map Level.label).length := by
        simp only [List.length_map]; rw [← hps.1]; exact hp
      have := (foldl_labelProd_getElem? _ (c.levels.map Level.label) p.2 hg h3).1
      rw [h1, h2] at this
      simp only [List.map_cons, reduceLabels, cellIndex_zero_cons, cellName]
      rw [this, List.foldl_map]
      simp [List.getD_eq_getElem?_getD, List.getElem?_eq_getElem hg]

/-! ### non-vacuity and the `C(g, Sum)` counterexample -/

def tk (k : Kind) (s : String) : Token := ⟨k, s⟩
def var (s : String) : Expr := .variable (tk .IDENTIFIER s)
def call2 (f : String) (a b : Expr) : Expr :=
  .call (var f) (tk .LEFT_PAREN "(") (.more a (tk .COMMA ",") (.last b)) (tk .RIGHT_PAREN ")")

/-- three observations: groups b, a, b; second factor u, u, v; a numeric effect -/
def exFrame : Frame :=
  [⟨"g", .string, [.str "b", .str "a", .str "b"]⟩,
   ⟨"h", .string, [.str "u", .str "u", .str "v"]⟩,
   ⟨"x", .numeric false, [.num 1, .num 2, .num (7 / 2)]⟩]
def exEnv : Env := { frame := exFrame }
def exTable : List (String × Expr) :=
  [("g", var "g"), ("h", var "h"), ("x", var "x"), ("C(g, Sum)", call2 "C" (var "g") (var "Sum"))]
/-- `(x | g)` -/
def exSlope : GroupSpec :=
  { name := "x|g", expr := some { name := "x", comps := [("x", false)] },
    factor := { name := "g", comps := [("g", false)] } }
/-- `(1 | g:h)` -/
def exCells : GroupSpec :=
  { name := "1|g:h", expr := none, factor := { name := "g:h", comps := [("g", false), ("h", false)] } }
/-- `(1 | C(g, Sum))` -/
def exSum : GroupSpec :=
  { name := "1|C(g, Sum)", expr := none, factor := { name := "C(g, Sum)", comps := [("C(g, Sum)", true)] } }

def dataOf (r : M GroupOut) : Option Matrix :=
  match r with
  | .ok o => some o.data
  | .error _ => none

def okEq {α : Type} [BEq α] (r : M α) (v : α) : Bool :=
  match r with
  | .ok a => a == v
  | .error _ => false

def holdsOf (r : M GroupOut) (p : GroupOut → Bool) : Bool :=
  match r with
  | .ok o => p o
  | .error _ => false

-- training succeeds, the coding hypothesis holds, and the blocks are what the theorems say:
-- levels a < b; rows b, a, b carry x in slots 1, 0, 1
example : dataOf (trainGroup exEnv exTable exSlope) =
    some [[some 0, some 1], [some 2, some 0], [some 0, some (7 / 2)]] := by decide +kernel
-- cells (a,u), (a,v), (b,u), (b,v); rows (b,u), (a,u), (b,v) are cells 2, 0, 3
example : dataOf (trainGroup exEnv exTable exCells) =
    some [[some 0, some 0, some 1, some 0], [some 1, some 0, some 0, some 0],
          [some 0, some 0, some 0, some 1]] := by decide +kernel
example : holdsOf (trainGroup exEnv exTable exSlope) (fun o => decide (IndicatorCoded o.st)) = true := by
  decide +kernel
example : holdsOf (trainGroup exEnv exTable exCells) (fun o =>
    decide (IndicatorCoded o.st) && o.st.groups == ["a:u", "a:v", "b:u", "b:v"] &&
    o.labels == some ["1|g[a]:h[u]", "1|g[a]:h[v]", "1|g[b]:h[u]", "1|g[b]:h[v]"] &&
    cells o.st == 4) = true := by
  decide +kernel
example : rowCell [[.s "a", .s "b"], [.s "u", .s "v"]]
    [[some (.s "b"), some (.s "a"), some (.s "b")], [some (.s "u"), some (.s "u"), some (.s "v")]] 2
    = some [(2, 1), (2, 1)] ∧ cellIndex 0 [(2, 1), (2, 1)] = 3 := by decide +kernel
example : holdsOf (trainGroup exEnv exTable exCells) (fun o =>
    o.st.groups[cellIndex 0 [(2, 1), (2, 0)]]? == some "b:u" &&
    cellName o.st.factor.comps [(2, 1), (2, 0)] == some "b:u") = true := by decide +kernel
example : holdsOf (trainGroup exEnv exTable exSlope) (fun o =>
    o.labels == some ["x|g[a]", "x|g[b]"] && o.data.all (fun r => r.length == 2)) = true := by
  decide +kernel
-- the grouping factor `g:h` as a term: indicator coded, rows = indicator rows of the cells 2, 0, 3
example : (match trainTerm exEnv exTable (factorSpecOf exCells) true false with
    | .ok f => decide (∀ c ∈ f.st.comps, c.contrast = some (treatmentFull c.levels)) &&
        f.data == [indicatorRow 4 2, indicatorRow 4 0, indicatorRow 4 3]
    | .error _ => false) = true := by decide +kernel
-- the instances of the theorems
example : ∀ out, trainGroup exEnv exTable exSlope = .ok out →
    ∃ xs levels X, Spec.C05.componentValues exEnv exTable "g" = .ok xs ∧
      Spec.C05.componentLevels exEnv exTable "g" = .ok levels ∧
      effectData exEnv exTable exSlope = .ok X ∧ out.st.groups = levels.map Level.label ∧
      ∀ r (hr : r < out.data.length), ∃ l g xr,
        xs[r]? = some (some l) ∧ indexOf? l levels = some g ∧ g < levels.length ∧ X[r]? = some xr ∧
        out.data[r] = rowProd (indicatorRow levels.length g) xr ∧
        ∀ g' k (_ : g' < levels.length) (hk : k < xr.length),
          out.data[r][g' * xr.length + k]? = some (if g' = g then xr[k] else xr[k].map (fun _ => 0)) :=
  fun out h => C05_trainGroup_single exEnv exTable exSlope out "g" false (tk .IDENTIFIER "g") rfl rfl h
example : okEq (Spec.C05.componentLevels exEnv exTable "g") [.s "a", .s "b"] = true ∧
    okEq (Spec.C05.componentValues exEnv exTable "g") [some (.s "b"), some (.s "a"), some (.s "b")] = true ∧
    okEq (effectData exEnv exTable exSlope) [[some 1], [some 2], [some (7 / 2)]] = true := by decide +kernel
example : PlainFactor exTable (exCells.factor.comps.map (·.1)) := by
  intro nm hnm e he
  simp only [exCells, List.map_cons, List.map_nil, List.mem_cons, List.not_mem_nil, or_false] at hnm
  rcases hnm with rfl | rfl <;> (cases he; rfl)
example : exEnv.frame.wellFormed = true ∧ exEnv.namesScalar = true := by decide

/-- The statement of (2) without the coding hypothesis. -/
def C05_trainGroup_block_Statement : Prop :=
  ∀ (env : Env) (table : List (String × Expr)) (spec : GroupSpec) (out : GroupOut),
    trainGroup env table spec = .ok out →
    ∃ X, effectData env table spec = .ok X ∧
      ∀ r (hr : r < out.data.length), ∃ G g x, g < G ∧ X[r]? = some x ∧
        out.data[r] = rowProd (indicatorRow G g) x

/-- **`(1 | C(g, Sum))`**: the factor is coded with *its own* contrast, full: a column of ones and
the sum contrasts (`groups = ["mean", "a"]`), so the rows of the block are not indicator rows.
The model mirrors the library here (`design_matrices("y ~ 1 + (1|C(g, Sum))", …).group` has the
columns `1|C(g, Sum)[mean]`, `…[a]`, …); C05 as stated ("the complete indicator matrix of g") does
not hold for such a grouping factor. -/
theorem C05_factor_sum_counterexample : ¬ C05_trainGroup_block_Statement := by
  intro hS
  have hd : dataOf (trainGroup exEnv exTable exSum) =
      some [[some 1, some (-1)], [some 1, some 1], [some 1, some (-1)]] := by
    decide +kernel
  cases hout : trainGroup exEnv exTable exSum with
  | error e => rw [hout] at hd; simp [dataOf] at hd
  | ok out =>
    rw [hout] at hd
    simp only [dataOf, Option.some.injEq] at hd
    obtain ⟨X, hX, hrows⟩ := hS exEnv exTable exSum out hout
    simp only [effectData, exSum, pure_ok] at hX
    subst hX
    obtain ⟨G, g, x, hg, hx, hrow⟩ := hrows 0 (by rw [hd]; decide)
    have hx' : x = [some 1] := by
      have := List.mem_of_getElem? hx
      exact List.eq_of_mem_replicate this
    subst hx'
    simp only [hd, List.getElem_cons_zero] at hrow
    have hlen := congrArg List.length hrow
    rw [C05_block_width] at hlen
    simp only [List.length_cons, List.length_nil] at hlen
    have hG : G = 2 := by omega
    subst hG
    have : g = 0 ∨ g = 1 := by omega
    rcases this with rfl | rfl <;> exact absurd hrow (by decide +kernel)

example : holdsOf (trainGroup exEnv exTable exSum) (fun o =>
    !decide (IndicatorCoded o.st) && o.st.groups == ["mean", "a"]) = true := by decide +kernel

end FormulaeModel.C05
