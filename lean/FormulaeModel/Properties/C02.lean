import FormulaeModel.Proofs.TermsRefine
import FormulaeModel.Model.Scanner
import FormulaeModel.Model.Parser
import FormulaeModel.Generated.Tables
import FormulaeModel.Proofs.ScannerShape
import FormulaeModel.Properties.C01
/-
C02 — property theorems (statements only use Model/, Spec/C02 and Generated/).
-/
namespace FormulaeModel.C02
open FormulaeModel FormulaeModel.Terms FormulaeModel.Resolver FormulaeModel.Spec.C02

/-- Tie: the operator map read from resolver.py is the documented one. -/
theorem resolver_ops_tie : Generated.resolverOps =
    [(.TILDE, .tilde), (.PLUS, .add), (.MINUS, .sub), (.STAR_STAR, .pow), (.COLON, .matmul),
     (.STAR, .mul), (.SLASH, .truediv), (.PIPE, .or_)] := by decide
theorem resolver_shape : Generated.resolverShapeOk = true := by decide

theorem ops_eq : Generated.resolverOps = docOps := resolver_ops_tie

/-- the formula text → AST, through the model scanner (without / with the implicit `1 +`) and the
model parser under the regenerated table; used to write witnesses and non-vacuity examples -/
def exprOf (s : String) (addInt : Bool := false) : Option Expr :=
  match Scanner.scan s.toList addInt with
  | .ok ts => (Parser.parse Generated.parserTable ts).toOption
  | .error _ => none

-- ---------------------------------------------------------------------------------------------
-- 1. the intercept-free fragment: resolve computes the Wilkinson–Rogers expansion
-- ---------------------------------------------------------------------------------------------
/-- Full statement (false on the pinned tree: D22, D24, D25). For every expression of the
intercept-free fragment (`denT e = some d`: atoms, parentheses, `+ - : * /`, `** n` with a
literal n ≥ 1) on which `resolve` succeeds, the value is a `Term` or a `Model` of `Term`s only and
its set of terms (ordered duplicate-free component lists) is `d`. -/
def C02_plain_refines_Statement : Prop :=
  ∀ (e : Expr) (d : List STerm) (v : Obj), denT e = some d →
    resolve Generated.resolverOps e = .ok v →
    isPlainValue v = true ∧ ∀ t, t ∈ termsOf v ↔ t ∈ d

/-- **The heart.** The statement above outside the three wrong-answer classes D22 (`m * m`),
D24 (`-` on a model that holds a term twice), D25 (`**` on a model that holds a term twice).
Stronger than set equality: the denotation's list *is* the implementation's term list with later
duplicates dropped (`nub` keeps first occurrences), so also the component order inside the terms
that `/` and `**` build from "all factors of a" agrees. -/
theorem C02_plain_refines_partial (e : Expr) (d : List STerm) (v : Obj)
    (hd : denT e = some d) (hr : resolve Generated.resolverOps e = .ok v)
    (h22 : gapD22 Generated.resolverOps e = false) (h24 : gapD24 Generated.resolverOps e = false)
    (h25 : gapD25 Generated.resolverOps e = false) :
    isPlainValue v = true ∧ nub (termsOf v) = d ∧ ∀ t, t ∈ termsOf v ↔ t ∈ d := by
  rw [ops_eq] at hr h22 h24 h25
  obtain ⟨p, rfl, _, hs⟩ := plain_main e d v hd hr
  have hl := hs ⟨h22, h24, h25⟩
  refine ⟨isPlainValue_toObj p, ?_, ?_⟩
  · rw [termsOf_toObj]; exact hl
  · intro t; rw [termsOf_toObj, ← hl, mem_dedup]

/-- every term of the result is a duplicate-free component list (`Term.__init__` de-duplicates),
with or without the gap classes -/
theorem C02_plain_terms_nodup (e : Expr) (d : List STerm) (v : Obj)
    (hd : denT e = some d) (hr : resolve Generated.resolverOps e = .ok v) :
    isPlainValue v = true ∧ ∀ t ∈ termsOf v, t.Nodup := by
  rw [ops_eq] at hr
  obtain ⟨p, rfl, hg, _⟩ := plain_main e d v hd hr
  exact ⟨isPlainValue_toObj p, fun t ht => (hg t (by rwa [termsOf_toObj] at ht)).1⟩

/-- a concrete expression on which the full statement fails -/
def plainRefuted (s : String) : Bool :=
  match exprOf s with
  | some e =>
    (match denT e, resolve Generated.resolverOps e with
     | some d, .ok v => !(isPlainValue v && sameSet (termsOf v) d)
     | _, _ => false)
  | none => false

theorem not_statement_of_refuted {s : String} (h : plainRefuted s = true) :
    ¬ C02_plain_refines_Statement := by
  intro hS
  unfold plainRefuted at h
  split at h
  · rename_i e _
    split at h
    · rename_i d v hd hr
      obtain ⟨h1, h2⟩ := hS e d v hd hr
      have : sameSet (termsOf v) d = true := sameSet_iff.2 h2
      simp [h1, this] at h
    · simp at h
  · simp at h

/-- D22: `(a + b) * (a + b)` loses `a:b`. -/
theorem C02_plain_refines_counterexample_D22 : ¬ C02_plain_refines_Statement :=
  not_statement_of_refuted (s := "(a + b) * (a + b)") (by decide +kernel)
/-- D24: `((a + b) * (a + c) - a) : d` keeps `a:d`. -/
theorem C02_plain_refines_counterexample_D24 : ¬ C02_plain_refines_Statement :=
  not_statement_of_refuted (s := "((a + b) * (a + c) - a) : d") (by decide +kernel)
/-- D25: `((p + r + p:q):q) ** 2` has both `p:q:r` and `r:q:p`. -/
theorem C02_plain_refines_counterexample_D25 : ¬ C02_plain_refines_Statement :=
  not_statement_of_refuted (s := "((p + r + p:q):q) ** 2") (by decide +kernel)

/-- non-vacuity: a non-trivial expression satisfies every hypothesis of `C02_plain_refines_partial`
(and its denotation has many terms) -/
def plainHyps (s : String) (minTerms : Nat) : Bool :=
  match exprOf s with
  | some e =>
    (match denT e, resolve Generated.resolverOps e with
     | some d, .ok _ => decide (d.length ≥ minTerms)
     | _, _ => false) &&
    !gapD22 Generated.resolverOps e && !gapD24 Generated.resolverOps e &&
    !gapD25 Generated.resolverOps e
  | none => false

example : plainHyps "(a + b) * f(x, 2) / d + (a + b + `w z`) ** 3 - a:b + {x + 1}:(a + b)" 10 = true := by
  decide +kernel
example : plainHyps "(a + b + c) : (b + c) - b" 5 = true := by decide +kernel

-- ---------------------------------------------------------------------------------------------
-- 2. nothing of the fragment is refused
-- ---------------------------------------------------------------------------------------------
/-- Full statement (false on the pinned tree: D5, `(…) ** 1`). -/
def C02_plain_total_Statement : Prop :=
  ∀ (e : Expr) (d : List STerm), denT e = some d →
    ∃ v, resolve Generated.resolverOps e = .ok v

/-- On the intercept-free fragment with every `**` exponent ≥ 2, `resolve` raises nothing
(numeric literals are not atoms of the fragment: `denT` is `none` on them). -/
theorem C02_plain_total_expGe2 (e : Expr) (d : List STerm) (hd : denT e = some d)
    (he : expGe2 e = true) : ∃ v, resolve Generated.resolverOps e = .ok v := by
  rw [ops_eq]; exact plain_total e d hd he

/-- The same with the D5 class as the guard (`gapD5 e = false` ⇒ every exponent ≥ 2). -/
theorem C02_plain_total_partial (e : Expr) (d : List STerm) (hd : denT e = some d)
    (h5 : gapD5 e = false) : ∃ v, resolve Generated.resolverOps e = .ok v :=
  C02_plain_total_expGe2 e d hd (expGe2_of_noD5 e d hd h5)

def plainRefused (s : String) : Bool :=
  match exprOf s with
  | some e =>
    (match denT e, resolve Generated.resolverOps e with
     | some _, .error _ => true
     | _, _ => false)
  | none => false

/-- D5: `(a + b) ** 1` is in the fragment and is refused. -/
theorem C02_plain_total_counterexample_D5 : ¬ C02_plain_total_Statement := by
  intro hS
  have h : plainRefused "(a + b) ** 1" = true := by decide +kernel
  unfold plainRefused at h
  split at h
  · rename_i e _
    split at h
    · rename_i d er hd hr
      obtain ⟨v, hv⟩ := hS e _ hd
      rw [hr] at hv; cases hv
    · simp at h
  · simp at h

def totalHyps (s : String) : Bool :=
  match exprOf s with
  | some e => (denT e).isSome && expGe2 e && !gapD5 e
  | none => false

example : totalHyps "(a + b) * f(x, 2) / d + (a + b + `w z`) ** 3 - a:b + {x + 1}:(a + b)" = true := by
  decide +kernel

-- ---------------------------------------------------------------------------------------------
-- 4. no duplicate terms after the implicit `1 +`
-- ---------------------------------------------------------------------------------------------
/-- Full statement (false: without the leading `1 +` nothing de-duplicates `Model(*terms)`). -/
def C02_nodup_Statement : Prop :=
  ∀ (e : Expr) (m : ModelV), describe Generated.resolverOps e = .ok m →
    m.common.Nodup ∧ m.group.Nodup

/-- If the right-hand side is an additive chain that starts with the literal `1` (the scanner's
implicit intercept), the model `model_description` returns holds no common term and no
group-specific term twice: every later `+` goes through `Model.add_term`, every `-` through
`list.remove`. No restriction on the items (any operators, group terms, intercept literals). -/
theorem C02_nodup (e : Expr) (m : ModelV) (h1 : implicitOne e = true)
    (hd : describe Generated.resolverOps e = .ok m) : m.common.Nodup ∧ m.group.Nodup := by
  rw [ops_eq] at hd; exact describe_nodup e m h1 hd

def hasDup (s : String) (addInt : Bool) : Bool :=
  match exprOf s addInt with
  | some e =>
    (match describe Generated.resolverOps e with
     | .ok m => (nub m.common).length != m.common.length || (nub m.group).length != m.group.length
     | .error _ => false)
  | none => false

theorem nodup_of_nub_length {α : Type} [BEq α] [LawfulBEq α] {l : List α} (h : l.Nodup) :
    (nub l).length = l.length := by rw [nub_eq, dedup_of_nodup h]

/-- the hypothesis is needed even for scanner output: without a `~`, `a | (g + h) * (g + k)` is
scanned to `1 + a | …`, parsed as `(1 + a) | …`, and `1|g`, `a|g` come out twice -/
theorem C02_nodup_counterexample : ¬ C02_nodup_Statement := by
  intro hS
  have h : hasDup "a | (g + h) * (g + k)" true = true := by decide +kernel
  unfold hasDup at h
  split at h
  · rename_i e _
    split at h
    · rename_i m hm
      obtain ⟨h1, h2⟩ := hS e m hm
      simp [nodup_of_nub_length h1, nodup_of_nub_length h2] at h
    · simp at h
  · simp at h

def nodupHyps (s : String) : Bool :=
  match exprOf s true with
  | some e =>
    implicitOne e &&
    (match describe Generated.resolverOps e with
     | .ok m => decide (m.common.length ≥ 4) && decide (m.group.length ≥ 2)
     | .error _ => false)
  | none => false

example : nodupHyps "y ~ (a + b) * (a + c) + (a | g) - b" = true := by decide +kernel

-- ---------------------------------------------------------------------------------------------
-- 3. the whole formula: intercept bookkeeping, group-specific terms, response
-- ---------------------------------------------------------------------------------------------
/-- Full statement `C02_refines` (false on the pinned tree: D3, D22, D24, D25 give wrong answers;
D4, D5 are refusals and make `describe` fail, so they do not falsify this implication).
For every formula of the documented language (`den e = some d`) that `model_description`
accepts, the returned model read as a `Sem` equals the denotation: same response, same intercept
flag, same set of common terms, same set of group-specific terms. -/
def C02_refines_Statement : Prop :=
  ∀ (e : Expr) (m : ModelV) (d : Sem), describe Generated.resolverOps e = .ok m → den e = some d →
    ∃ s, semOfModel m = some s ∧ semEq s d = true

/-- the two shapes the scanner's implicit `1 +` produces: the right-hand side is an additive chain
that starts with the literal `1` (always when there is a `~`), or the whole formula is one bare
`eff | grp` whose effect side received the `1 +` -/
def scannerShape (e : Expr) : Bool := implicitOne e || barePipe e

/-- **`C02_chain` / `C02_refines_partial`.** The full statement for every formula of one of the
two scanner shapes, outside the wrong-answer classes D3, D22, D24, D25. No bound on the number
or nesting of items: plain items of the whole intercept-free fragment, `+ 1`, `+ 0`, `- 1`,
`+ -1` anywhere in the chain, group-specific items `(eff | grp)` whose effect side is any chain
of plain items and intercept literals and whose grouping side is any plain expression, added or
subtracted; with or without a response. -/
theorem C02_refines_partial (e : Expr) (m : ModelV) (d : Sem)
    (hdesc : describe Generated.resolverOps e = .ok m) (hden : den e = some d)
    (hshape : scannerShape e = true) (h3 : hasGapD3 e = false)
    (h22 : gapD22 Generated.resolverOps e = false) (h24 : gapD24 Generated.resolverOps e = false)
    (h25 : gapD25 Generated.resolverOps e = false) :
    ∃ s, semOfModel m = some s ∧ semEq s d = true := by
  rw [ops_eq] at hdesc h22 h24 h25
  simp only [scannerShape, Bool.or_eq_true] at hshape
  rcases hshape with h1 | h1
  · exact refines_main e m d hdesc hden h1 h3 ⟨h22, h24, h25⟩
  · exact refines_barepipe e m d hdesc hden h1 h3 ⟨h22, h24, h25⟩

/-- a concrete formula on which the full statement fails -/
def refinesRefuted (s : String) (addInt : Bool) : Bool :=
  match exprOf s addInt with
  | some e =>
    (match describe Generated.resolverOps e, den e with
     | .ok m, some d =>
       (match semOfModel m with
        | some x => !semEq x d
        | none => true)
     | _, _ => false)
  | none => false

theorem not_refines_of_refuted {s : String} {b : Bool} (h : refinesRefuted s b = true) :
    ¬ C02_refines_Statement := by
  intro hS
  unfold refinesRefuted at h
  split at h
  · rename_i e _
    split at h
    · rename_i m d hm hd
      obtain ⟨x, hx, hxe⟩ := hS e m d hm hd
      simp [hx, hxe] at h
    · simp at h
  · simp at h

/-- D3: `y ~ (x + z - 1 | g)` keeps the group intercept. -/
theorem C02_refines_counterexample_D3 : ¬ C02_refines_Statement :=
  not_refines_of_refuted (s := "y ~ (x + z - 1 | g)") (b := true) (by decide +kernel)
/-- D22: `y ~ (a + b) * (a + b)` loses `a:b`. -/
theorem C02_refines_counterexample_D22 : ¬ C02_refines_Statement :=
  not_refines_of_refuted (s := "y ~ (a + b) * (a + b)") (b := true) (by decide +kernel)
/-- D24: `y ~ ((a + b) * (a + c) - a) : d` keeps `a:d`. -/
theorem C02_refines_counterexample_D24 : ¬ C02_refines_Statement :=
  not_refines_of_refuted (s := "y ~ ((a + b) * (a + c) - a) : d") (b := true) (by decide +kernel)
/-- D25: `y ~ ((p + r + p:q):q) ** 2` has both `p:q:r` and `r:q:p`. -/
theorem C02_refines_counterexample_D25 : ¬ C02_refines_Statement :=
  not_refines_of_refuted (s := "y ~ ((p + r + p:q):q) ** 2") (b := true) (by decide +kernel)
/-- the shape guard: an AST the scanner never produces, `0 + a` without the implicit `1 +`,
resolves to a model that still holds the `NegatedIntercept`. -/
theorem C02_refines_needs_scanner_shape : ¬ C02_refines_Statement :=
  not_refines_of_refuted (s := "0 + a") (b := false) (by decide +kernel)

/-- non-vacuity: formulas through the model scanner and parser that satisfy every hypothesis of
`C02_refines_partial` -/
def refinesHyps (s : String) (minCommon minGroup : Nat) : Bool :=
  match exprOf s true with
  | some e =>
    (match describe Generated.resolverOps e, den e with
     | .ok _, some d => decide (d.common.length ≥ minCommon) && decide (d.group.length ≥ minGroup)
     | _, _ => false) &&
    scannerShape e && !hasGapD3 e && !gapD22 Generated.resolverOps e &&
    !gapD24 Generated.resolverOps e && !gapD25 Generated.resolverOps e
  | none => false

example : refinesHyps "y ~ a*b + (0 + x | g) - a + 0 + (1 + x | g:h)" 2 3 = true := by
  decide +kernel
example : refinesHyps "y[l] ~ 0 + (a + b) ** 2 / c + (1 | g) - (1 | g) + 1" 4 0 = true := by
  decide +kernel
example : refinesHyps "x + z | g / h" 0 6 = true := by decide +kernel

-- ---------------------------------------------------------------------------------------------
-- 5. every scanned formula of the language has one of the two scanner shapes
-- ---------------------------------------------------------------------------------------------
/-- where the formula's `~` (if it has one) sits: at the root of the tree.  (A `~` inside
parentheses, braces or a call argument is admitted by the grammar; such a formula is outside the
documented language — `Lang` is false for it — which is checked per case, not proved.) -/
def tildeAtRoot (e : Expr) (ts : List Token) : Bool :=
  !ts.any Scanner.isTilde ||
    (match e with
     | .binary _ op _ => op.kind == .TILDE
     | _ => false)

/-- Full statement: the hypothesis `scannerShape` of `C02_refines_partial` holds for everything
the front end produces — every character string the scanner accepts (with its implicit `1 +`)
and the parser accepts, whose tree is a formula of the documented language. -/
def C02_scanner_shape_Statement : Prop :=
  ∀ (code : List Char) (ts : List Token) (e : Expr), Scanner.scan code true = .ok ts →
    Parser.parse Generated.parserTable ts = .ok e → Lang e = true → scannerShape e = true

/-- **`C02_scanner_shape_partial`.** The full statement for every formula without a `~` and every
formula whose `~` is the root of the tree — no bound on length or nesting.  Proof: the scanner put
`1 +` in front (resp. right after the only `~`); the tree is a derivation of the documented grammar
with exactly that yield (C01); so the literal `1` is the bottom of the left spine of the tree
(resp. of the right-hand side), directly under a `+`, and every operator above it binds at most as
tightly as `+`: it is `+` / `-` all the way up (an additive chain starting with `1`), or a `|` on
top (bare pipe), or a comparison on top, which is not a formula of the language. -/
theorem C02_scanner_shape_partial (code : List Char) (ts : List Token) (e : Expr)
    (hs : Scanner.scan code true = .ok ts) (hp : Parser.parse Generated.parserTable ts = .ok e)
    (hl : Lang e = true) (ht : tildeAtRoot e ts = true) : scannerShape e = true := by
  open Proofs.ScannerShape in
  rw [Tie.parser_table] at hp
  obtain ⟨hst, hf⟩ := (C01.C01_parse_iff Spec.C01.documentedTable (by decide) (by decide) ts e).mp hp
  obtain ⟨ts0, hc, rfl⟩ := scan_addIntercept code ts hs
  rcases addIntercept_cases ts0 hc with ⟨hfree, hadd⟩ | ⟨pre, tl, rest, htl, hpre, hrest, hadd⟩
  · rw [hadd] at hf
    exact shape_noTilde e ts0 hst hf hfree hl
  · rw [hadd] at hf ht
    have hany : (pre ++ tl :: Scanner.one :: Scanner.plus :: rest).any Scanner.isTilde = true := by
      simp [htl]
    simp only [tildeAtRoot, hany, Bool.not_true, Bool.false_or] at ht
    have hroot : rootTilde e = true := by
      cases e <;> first | exact ht | cases ht
    have := shape_tilde_root e hroot hst pre rest tl hf hpre hrest
    simp [scannerShape, this]

/-- a concrete text on which the full statement fails -/
def shapeRefuted (s : String) : Bool :=
  match Scanner.scan s.toList true with
  | .ok ts =>
    (match Parser.parse Generated.parserTable ts with
     | .ok e => Lang e && !scannerShape e
     | .error _ => false)
  | .error _ => false

/-- **The guard `tildeAtRoot` cannot be dropped** — the full statement is false.  In
`f(a[(y ~ x)]) + b` the only `~` sits inside the level of `a[...]` inside a call argument; the
scanner puts its `1 +` right after it, the lazy-call resolver ignores the level of a subscripted
name altogether, so the formula is accepted, names its call term `f(a)` and has NO intercept.
Replayed on the real library: `model_description("f(a[(y ~ x)]) + b")` has the terms `f(a)`, `b`
and no `Intercept` (DESIGN 10.3, C02). -/
theorem C02_scanner_shape_counterexample : ¬ C02_scanner_shape_Statement := by
  intro hS
  have h : shapeRefuted "f(a[(y ~ x)]) + b" = true := by decide +kernel
  unfold shapeRefuted at h
  split at h
  · rename_i ts hs
    split at h
    · rename_i e hp
      simp only [Bool.and_eq_true, Bool.not_eq_true'] at h
      have := hS _ ts e hs hp h.1
      rw [this] at h
      cases h.2
    · cases h
  · cases h

/-- **From the text to the denotation.**  `C02_refines_partial` with its shape hypothesis
discharged by `C02_scanner_shape_partial`: for every character string the scanner and the parser
accept (no `~`, or the `~` at the root), if `model_description` accepts the tree and the tree is a
formula of the documented language, the returned model read as a `Sem` IS the Wilkinson–Rogers
denotation — outside the wrong-answer classes D3, D22, D24, D25. -/
theorem C02_refines_text_partial (code : List Char) (ts : List Token) (e : Expr) (m : ModelV) (d : Sem)
    (hs : Scanner.scan code true = .ok ts) (hp : Parser.parse Generated.parserTable ts = .ok e)
    (ht : tildeAtRoot e ts = true)
    (hdesc : describe Generated.resolverOps e = .ok m) (hden : den e = some d)
    (h3 : hasGapD3 e = false)
    (h22 : gapD22 Generated.resolverOps e = false) (h24 : gapD24 Generated.resolverOps e = false)
    (h25 : gapD25 Generated.resolverOps e = false) :
    ∃ s, semOfModel m = some s ∧ semEq s d = true :=
  C02_refines_partial e m d hdesc hden
    (C02_scanner_shape_partial code ts e hs hp (by simp [Lang, hden]) ht) h3 h22 h24 h25

/-- every hypothesis of `C02_refines_text_partial` on a non-trivial text -/
def textHyps (s : String) (minCommon minGroup : Nat) : Bool :=
  match Scanner.scan s.toList true with
  | .ok ts =>
    (match Parser.parse Generated.parserTable ts with
     | .ok e =>
       tildeAtRoot e ts &&
       (match describe Generated.resolverOps e, den e with
        | .ok _, some d => decide (d.common.length ≥ minCommon) && decide (d.group.length ≥ minGroup)
        | _, _ => false) &&
       !hasGapD3 e && !gapD22 Generated.resolverOps e && !gapD24 Generated.resolverOps e &&
       !gapD25 Generated.resolverOps e
     | .error _ => false)
  | .error _ => false

example : textHyps "y ~ a*b + (0 + x | g) - a + 0 + (1 + x | g:h)" 2 3 = true := by decide +kernel
example : textHyps "x + z | g / h" 0 6 = true := by decide +kernel

/-- premises satisfiable on non-trivial formulas of both kinds -/
def shapeHyps (s : String) : Bool :=
  match Scanner.scan s.toList true with
  | .ok ts =>
    (match Parser.parse Generated.parserTable ts with
     | .ok e => Lang e && tildeAtRoot e ts && decide (ts.length ≥ 12)
     | .error _ => false)
  | .error _ => false

example : shapeHyps "y ~ a*b + (0 + x | g) - a + 0" = true := by decide +kernel
example : shapeHyps "(a + b) ** 2 / c + (1 | g) - f(x, 2)" = true := by decide +kernel
example : shapeHyps "x + z + w + u + v + t | g / h" = true := by decide +kernel

end FormulaeModel.C02
