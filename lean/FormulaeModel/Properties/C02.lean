import FormulaeModel.Spec.C02
import FormulaeModel.Generated.Tables
namespace FormulaeModel.C02
open FormulaeModel

/-- Tie: the operator map read from resolver.py is the documented one. -/
theorem resolver_ops_tie : Generated.resolverOps =
    [(.TILDE, .tilde), (.PLUS, .add), (.MINUS, .sub), (.STAR_STAR, .pow), (.COLON, .matmul),
     (.STAR, .mul), (.SLASH, .truediv), (.PIPE, .or_)] := by decide
theorem resolver_shape : Generated.resolverShapeOk = true := by decide

end FormulaeModel.C02
