import FormulaeModel.Proofs.ProductOrder
import FormulaeModel.Proofs.Indicator
import FormulaeModel.Spec.C04
import FormulaeModel.Properties.Bridge
/-
C04 — property theorems about the evaluation model (Model/Design.lean, Model/Matrices.lean).
-/
namespace FormulaeModel.C04
open FormulaeModel FormulaeModel.Design

/-- Labels and columns of an interaction of ANY arity, with ANY numbers of columns per component,
are enumerated in one common order: pairing the n-ary label product with the n-ary data product
of a row gives exactly the left fold of pairwise "join the labels with ':' and multiply the
entries" (first component slowest). -/
theorem C04_product_order (c : List String × List Entry) (comps : List (List String × List Entry))
    (hc : c.1.length = c.2.length) (h : ∀ d ∈ comps, d.1.length = d.2.length) :
    List.zip (reduceLabels (c.1 :: comps.map (·.1))) (reduceRows (c.2 :: comps.map (·.2)))
      = comps.foldl (fun acc d => interL colon acc (List.zip d.1 d.2)) (List.zip c.1 c.2) := by
  have := (zip_foldl_products colon comps c.1 c.2 hc h).1
  have he : interactionLabels = labelProd colon := by funext x y; rfl
  simpa [reduceLabels, reduceRows, he] using this

/-- … and there are as many labels as columns. -/
theorem C04_product_count (c : List String × List Entry) (comps : List (List String × List Entry))
    (hc : c.1.length = c.2.length) (h : ∀ d ∈ comps, d.1.length = d.2.length) :
    (reduceLabels (c.1 :: comps.map (·.1))).length = (reduceRows (c.2 :: comps.map (·.2))).length := by
  have := (zip_foldl_products colon comps c.1 c.2 hc h).2
  have he : interactionLabels = labelProd colon := by funext x y; rfl
  simpa [reduceLabels, reduceRows, he] using this

/-- The matrix product is the row product, row by row. -/
theorem C04_interaction_rows (x y : Matrix) (r : Nat) (hx : r < x.length) (hy : r < y.length) :
    (interactionMatrix x y)[r]'(by simp [interactionMatrix]; omega) = rowProd x[r] y[r] :=
  interactionMatrix_row x y r hx hy

/-- Group-specific block: the label `e|g` and the Khatri-Rao column (group slowest, effect
fastest) are enumerated in the same order. -/
theorem C04_group_label (groupLabels effectLabels : List String) (jr xr : List Entry)
    (hj : groupLabels.length = jr.length) (hx : effectLabels.length = xr.length) :
    List.zip (groupLabels.flatMap (fun g => effectLabels.map (fun l => l ++ "|" ++ g))) (rowProd jr xr)
      = interL bar (List.zip groupLabels jr) (List.zip effectLabels xr) :=
  zip_labelProd_rowProd bar groupLabels effectLabels jr xr hj hx

/-- Full treatment coding: the column labelled with level `levels[j]` holds, for a row whose
value is `levels[i]`, 1 exactly when the two levels are equal (all level counts, all positions). -/
theorem C04_indicator_full (levels : List Level) (hn : levels.Nodup) (i j : Nat)
    (hi : i < levels.length) (hj : j < levels.length) :
    ((treatmentFull levels).rows[i]'(by simp [treatmentFull]; exact hi))[j]'(by
        simp [treatmentFull, unitRow]; exact hj) = if levels[i] = levels[j] then 1 else 0 :=
  treatmentFull_indicator levels hn i j hi hj

theorem C04_labels_full (levels : List Level) :
    (treatmentFull levels).labels = levels.map Level.label := rfl

/-- Reduced treatment coding with any admissible reference: labels are the levels without the
reference, in order, and the column of label `j` is the indicator of that level; the reference row
is zero. -/
theorem C04_indicator_reduced (reference : Option Level) (levels : List Level) (hn : levels.Nodup)
    (cm : ContrastMatrix) (h : treatmentReduced reference levels = .ok cm) (hne : levels ≠ []) :
    ∃ r, ∃ hr : r < levels.length,
      cm.labels = (levels.eraseIdx r).map Level.label ∧
      ∀ i j (hi : i < levels.length) (hj : j < levels.length - 1),
        ∃ hrow : i < cm.rows.length,
          (cm.rows[i])[j]? = some (if levels[i] =
            (levels.eraseIdx r)[j]'(by rw [List.length_eraseIdx]; simp [hr]; exact hj) then 1 else 0) := by
  obtain ⟨r, hrdef, hrows, hlabels⟩ := treatmentReduced_ok reference levels cm h
  have hr : r < levels.length := by
    rcases hrdef with ⟨_, rfl⟩ | ⟨l, _, hl⟩
    · exact List.length_pos_iff.mpr hne
    · exact (indexOf?_some l levels r hl).1
  refine ⟨r, hr, ?_, ?_⟩
  · rw [hlabels, take_drop_eq_eraseIdx]
  · intro i j hi hj
    refine ⟨by rw [hrows]; simp [reducedRows]; exact hi, ?_⟩
    have := reduced_indicator levels hn r i j hr hi hj
    simp only [hrows]
    exact this

-- non-vacuity: a three-way interaction with unequal column counts (2, 1, 3 columns)
example : List.zip (reduceLabels [["f[b]", "f[c]"], ["x"], ["g[u]", "g[v]", "g[w]"]])
    (reduceRows [[some 0, some 1], [some (5 / 2)], [some 1, some 0, some 0]])
    = [("f[b]:x:g[u]", some 0), ("f[b]:x:g[v]", some 0), ("f[b]:x:g[w]", some 0),
       ("f[c]:x:g[u]", some (5 / 2)), ("f[c]:x:g[v]", some 0), ("f[c]:x:g[w]", some 0)] := by
  decide +kernel

end FormulaeModel.C04
