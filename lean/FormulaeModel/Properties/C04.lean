import FormulaeModel.Proofs.ProductOrder
import FormulaeModel.Proofs.Indicator
import FormulaeModel.Spec.C04
import FormulaeModel.Properties.Bridge
import FormulaeModel.Proofs.ShapeStack
import FormulaeModel.Proofs.ShapeExamples
/-
C04 — property theorems about the evaluation model (Model/Design.lean, Model/Matrices.lean).
-/
namespace FormulaeModel.C04
open FormulaeModel FormulaeModel.Design

/-- Labels and columns of an interaction of ANY arity, with ANY numbers of columns per component,
are enumerated in one common order: pairing the n-ary label product with the n-ary data product
of a row gives exactly the left fold of pairwise "join the labels with ':' and multiply the
entries" (first component slowest). -/
theorem C04_product_order (c : List String × List Entry) (comps : List (List String × List Entry))
    (hc : c.1.length = c.2.length) (h : ∀ d ∈ comps, d.1.length = d.2.length) :
    List.zip (reduceLabels (c.1 :: comps.map (·.1))) (reduceRows (c.2 :: comps.map (·.2)))
      = comps.foldl (fun acc d => interL colon acc (List.zip d.1 d.2)) (List.zip c.1 c.2) := by
  have := (zip_foldl_products colon comps c.1 c.2 hc h).1
  have he : interactionLabels = labelProd colon := by funext x y; rfl
  simpa [reduceLabels, reduceRows, he] using this

/-- … and there are as many labels as columns. -/
theorem C04_product_count (c : List String × List Entry) (comps : List (List String × List Entry))
    (hc : c.1.length = c.2.length) (h : ∀ d ∈ comps, d.1.length = d.2.length) :
    (reduceLabels (c.1 :: comps.map (·.1))).length = (reduceRows (c.2 :: comps.map (·.2))).length := by
  have := (zip_foldl_products colon comps c.1 c.2 hc h).2
  have he : interactionLabels = labelProd colon := by funext x y; rfl
  simpa [reduceLabels, reduceRows, he] using this

/-- The matrix product is the row product, row by row. -/
theorem C04_interaction_rows (x y : Matrix) (r : Nat) (hx : r < x.length) (hy : r < y.length) :
    (interactionMatrix x y)[r]'(by simp [interactionMatrix]; omega) = rowProd x[r] y[r] :=
  interactionMatrix_row x y r hx hy

/-- Group-specific block: the label `e|g` and the Khatri-Rao column (group slowest, effect
fastest) are enumerated in the same order. -/
theorem C04_group_label (groupLabels effectLabels : List String) (jr xr : List Entry)
    (hj : groupLabels.length = jr.length) (hx : effectLabels.length = xr.length) :
    List.zip (groupLabels.flatMap (fun g => effectLabels.map (fun l => l ++ "|" ++ g))) (rowProd jr xr)
      = interL bar (List.zip groupLabels jr) (List.zip effectLabels xr) :=
  zip_labelProd_rowProd bar groupLabels effectLabels jr xr hj hx

/-- Full treatment coding: the column labelled with level `levels[j]` holds, for a row whose
value is `levels[i]`, 1 exactly when the two levels are equal (all level counts, all positions). -/
theorem C04_indicator_full (levels : List Level) (hn : levels.Nodup) (i j : Nat)
    (hi : i < levels.length) (hj : j < levels.length) :
    ((treatmentFull levels).rows[i]'(by simp [treatmentFull]; exact hi))[j]'(by
        simp [treatmentFull, unitRow]; exact hj) = if levels[i] = levels[j] then 1 else 0 :=
  treatmentFull_indicator levels hn i j hi hj

theorem C04_labels_full (levels : List Level) :
    (treatmentFull levels).labels = levels.map Level.label := rfl

/-- Reduced treatment coding with any admissible reference: labels are the levels without the
reference, in order, and the column of label `j` is the indicator of that level; the reference row
is zero. -/
theorem C04_indicator_reduced (reference : Option Level) (levels : List Level) (hn : levels.Nodup)
    (cm : ContrastMatrix) (h : treatmentReduced reference levels = .ok cm) (hne : levels ≠ []) :
    ∃ r, ∃ hr : r < levels.length,
      cm.labels = (levels.eraseIdx r).map Level.label ∧
      ∀ i j (hi : i < levels.length) (hj : j < levels.length - 1),
        ∃ hrow : i < cm.rows.length,
          (cm.rows[i])[j]? = some (if levels[i] =
            (levels.eraseIdx r)[j]'(by rw [List.length_eraseIdx]; simp [hr]; exact hj) then 1 else 0) := by
  obtain ⟨r, hrdef, hrows, hlabels⟩ := treatmentReduced_ok reference levels cm h
  have hr : r < levels.length := by
    rcases hrdef with ⟨_, rfl⟩ | ⟨l, _, hl⟩
    · exact List.length_pos_iff.mpr hne
    · exact (indexOf?_some l levels r hl).1
  refine ⟨r, hr, ?_, ?_⟩
  · rw [hlabels, take_drop_eq_eraseIdx]
  · intro i j hi hj
    refine ⟨by rw [hrows]; simp [reducedRows]; exact hi, ?_⟩
    have := reduced_indicator levels hn r i j hr hi hj
    simp only [hrows]
    exact this

-- non-vacuity: a three-way interaction with unequal column counts (2, 1, 3 columns)
example : List.zip (reduceLabels [["f[b]", "f[c]"], ["x"], ["g[u]", "g[v]", "g[w]"]])
    (reduceRows [[some 0, some 1], [some (5 / 2)], [some 1, some 0, some 0]])
    = [("f[b]:x:g[u]", some 0), ("f[b]:x:g[v]", some 0), ("f[b]:x:g[w]", some 0),
       ("f[c]:x:g[u]", some (5 / 2)), ("f[c]:x:g[v]", some 0), ("f[c]:x:g[w]", some 0)] := by
  decide +kernel


/-! ### design-level: labels and columns are equal in number, for the model's own top-level functions

Hypotheses (explicit, decidable): the data frame is rectangular (`Frame.wellFormed`) and every
vector-like value bound in the caller's namespace has one entry per row (`Env.namesSized`; implied
by `Env.namesScalar`).  No bound on the frame, the expression or the number of components.

The theorems are named `_partial` because the guard on the namespace excludes inputs the code
accepts (a vector of the wrong length bound in the caller's namespace, see
`C17_trainComp_rows_counterexample`).  The guard is an artefact of the proof (row counts and column
counts are established together, and the row counts need it); no counterexample to the unguarded
column statements is known, and none is expected: no width in the model depends on a length. -/

/-- One component (`Variable` / `Call`, any expression, any coding flag): whenever the component has
labels, every row of its matrix has exactly one entry per label. -/
theorem C04_trainComp_labels_partial (env : Env) (name : String) (e : Expr) (forced isResponse full : Bool)
    (out : CompOut) (ls : List String) (hwf : env.frame.wellFormed = true)
    (hn : env.namesSized env.frame.nrows = true)
    (h : trainComp env name e forced isResponse full = .ok out) (hl : out.labels = some ls) :
    ∀ r ∈ out.value, r.length = ls.length :=
  ((trainComp_shape env hwf hn name e forced isResponse full out h).cols ls hl).1

/-- One term (main effect or interaction of any arity): every row of `data` has exactly
`labels.length` entries. -/
theorem C04_trainTerm_labels_partial (env : Env) (table : List (String × Expr)) (spec : TermSpec)
    (forced isResponse : Bool) (out : TermOut) (ls : List String)
    (hwf : env.frame.wellFormed = true) (hn : env.namesSized env.frame.nrows = true)
    (h : trainTerm env table spec forced isResponse = .ok out) (hl : out.labels = some ls) :
    ∀ r ∈ out.data, r.length = ls.length :=
  ((trainTerm_shape env hwf hn table spec forced isResponse out h).cols ls hl).1

/-- One group-specific term: every row of the Khatri-Rao block has exactly `labels.length`
entries. -/
theorem C04_trainGroup_labels_partial (env : Env) (table : List (String × Expr)) (spec : GroupSpec)
    (out : GroupOut) (ls : List String) (hwf : env.frame.wellFormed = true)
    (hn : env.namesSized env.frame.nrows = true)
    (h : trainGroup env table spec = .ok out) (hl : out.labels = some ls) :
    ∀ r ∈ out.data, r.length = ls.length :=
  ((trainGroup_shape env hwf hn table spec out h).cols ls hl).1

open FormulaeModel.Pipeline in
/-- The whole of `design_matrices` (every formula, frame, namespace, `na_action`): in the response,
in every common term and in every group-specific term the rows have one entry per label; and in
the stacked common and group matrices (labels = the concatenation of the terms' labels) every row
has exactly as many entries as there are labels. -/
theorem C04_design_labels_partial (table : Parser.Table) (ops : Resolver.OpTable) (actions : List String)
    (formula : String) (env : Env) (naAction : String) (built : Built)
    (hwf : env.frame.wellFormed = true) (hn : env.namesScalar = true)
    (h : designMatrices table ops actions formula env naAction = .ok built) :
    (∀ out, built.response = some out → ∀ ls, out.labels = some ls → ∀ r ∈ out.data, r.length = ls.length) ∧
    (∀ p ∈ built.common, ∀ out, p.2 = some out → ∀ ls, out.labels = some ls →
      ∀ r ∈ out.data, r.length = ls.length) ∧
    (∀ g ∈ built.group, ∀ ls, g.labels = some ls → ∀ r ∈ g.data, r.length = ls.length) ∧
    (∀ ls, (Driver.C04.commonStack built.frame.nrows built.trained).labels = some ls →
      ∀ r ∈ (Driver.C04.commonStack built.frame.nrows built.trained).matrix, r.length = ls.length) ∧
    (∀ ls, (Driver.C04.groupStack built.frame.nrows built.trained).labels = some ls →
      ∀ r ∈ (Driver.C04.groupStack built.frame.nrows built.trained).matrix, r.length = ls.length) := by
  have hs := designMatrices_shape table ops actions formula env naAction built hwf hn h
  refine ⟨?_, ?_, ?_, ?_, ?_⟩
  · intro out hout ls hls
    obtain ⟨k, hk⟩ := hs.response out hout
    exact (hk.cols ls hls).1
  · intro p hp out hout ls hls
    obtain ⟨k, _, ho⟩ := (hs.common p hp).2 out hout
    exact (ho.cols ls hls).1
  · intro g hg ls hls
    obtain ⟨ne, hgs⟩ := hs.group g hg
    exact (hgs.cols ls hls).1
  · intro ls hls
    rw [Built.commonStack_eq] at hls ⊢
    exact stack_labels_width _ _ (fun p hp => ((built.commonParts_shape hs).2 p hp).2.2) ls hls
  · intro ls hls
    rw [Built.groupStack_eq] at hls ⊢
    apply stack_labels_width _ _ _ ls hls
    intro q hq l hl
    simp only [Built.groupParts, List.mem_map] at hq
    obtain ⟨g, hg, rfl⟩ := hq
    obtain ⟨ne, hgs⟩ := hs.group g hg
    exact (hgs.cols l hl).1

/-! ### non-vacuity of the design-level theorems (inputs: Proofs/ShapeExamples.lean) -/
open FormulaeModel.ShapeEx

example : exEnv.frame.wellFormed = true ∧ exEnv.namesSized exEnv.frame.nrows = true ∧
    exEnvNA.frame.wellFormed = true ∧ exEnvNA.namesScalar = true := by decide

-- C04_trainComp_labels_partial: `C(f)`, reduced coding: 2 labels, 2 columns in each of the 4 rows
example : (match trainComp exEnv "C(f)" (exCall1 "C" (exVar "f")) false false false with
    | .ok o => o.labels == some ["C(f)[b]", "C(f)[c]"] && o.value.map List.length == [2, 2, 2, 2]
    | .error _ => false) = true := by decide +kernel
example (out : CompOut) (ls : List String)
    (h : trainComp exEnv "C(f)" (exCall1 "C" (exVar "f")) false false false = .ok out)
    (hl : out.labels = some ls) : ∀ r ∈ out.value, r.length = ls.length :=
  C04_trainComp_labels_partial exEnv _ _ _ _ _ out ls (by decide) (by decide) h hl

-- C04_trainTerm_labels_partial: the interaction `C(f):x`
example : (match trainTerm exEnv exTable exTermSpec false false with
    | .ok o => o.labels == some ["C(f)[b]:x", "C(f)[c]:x"] && o.data.map List.length == [2, 2, 2, 2]
    | .error _ => false) = true := by decide +kernel
example (out : TermOut) (ls : List String) (h : trainTerm exEnv exTable exTermSpec false false = .ok out)
    (hl : out.labels = some ls) : ∀ r ∈ out.data, r.length = ls.length :=
  C04_trainTerm_labels_partial exEnv _ _ _ _ out ls (by decide) (by decide) h hl

-- C04_trainGroup_labels_partial: `(x | g)`
example : (match trainGroup exEnv exTable exGroupSpec with
    | .ok o => o.labels == some ["x|g[u]", "x|g[v]"] && o.data.map List.length == [2, 2, 2, 2]
    | .error _ => false) = true := by decide +kernel
example (out : GroupOut) (ls : List String) (h : trainGroup exEnv exTable exGroupSpec = .ok out)
    (hl : out.labels = some ls) : ∀ r ∈ out.data, r.length = ls.length :=
  C04_trainGroup_labels_partial exEnv _ _ out ls (by decide) (by decide) h hl

-- C04_design_labels_partial: the whole pipeline `y ~ f + x + (x|g)` with `na_action = "drop"` on the frame
-- with a missing cell: the stacked matrices carry labels
example : (match exDesign exEnvNA with
    | .ok b => (Driver.C04.commonStack b.frame.nrows b.trained).labels == some ["Intercept", "f[c]", "x"]
        && (Driver.C04.groupStack b.frame.nrows b.trained).labels
            == some ["1|g[u]", "1|g[v]", "x|g[u]", "x|g[v]"]
    | .error _ => false) = true := by decide +kernel
example (b : Pipeline.Built) (h : exDesign exEnvNA = .ok b) (ls : List String)
    (hl : (Driver.C04.commonStack b.frame.nrows b.trained).labels = some ls) :
    ∀ r ∈ (Driver.C04.commonStack b.frame.nrows b.trained).matrix, r.length = ls.length :=
  (C04_design_labels_partial _ _ _ _ exEnvNA _ b (by decide) (by decide) h).2.2.2.1 ls hl

end FormulaeModel.C04
