import FormulaeModel.Proofs.TransformsBasic
import FormulaeModel.Proofs.TransformsClamped
import FormulaeModel.Proofs.TransformsPolySpec
import FormulaeModel.Generated.Tables
/-
C14 — property theorems (statements use Model/Transforms, Spec/C14 only).
-/
namespace FormulaeModel.C14
open FormulaeModel FormulaeModel.Transforms

/-! ## center -/

/-- On non-empty training data `center(x)` is a vector of finite values with sum (hence mean)
zero.  (On an empty array numpy's mean is NaN: `Center.call init [] = (⟨true, none⟩, .vals [])`.) -/
theorem C14_center_mean (x : List Rat) (h : x ≠ []) :
    ∃ out, (Center.call Center.init x).2 = .vals out ∧ out.length = x.length ∧ sum out = 0 ∧
      Spec.C14.meanZero 0 out = true := by
  refine ⟨x.map (fun v => v - sum x / (x.length : Rat)), ?_, by simp, sum_centered h, ?_⟩
  · rw [Center.call_init, mean?_ne_nil h]; rfl
  · simp [Spec.C14.meanZero, sum_eq_spec, sum_centered h, Spec.C14.absR]

example : (Center.call Center.init [1, 2, 6]).2 = .vals [-2, -1, 3] := by decide +kernel

/-- Histories: after the first call (on any data, even empty) the state never changes again, and
every later call on any data `y` returns `y - mean(x_first)`. -/
theorem C14_center_affine (x : List Rat) (ys : List (List Rat)) :
    Center.run Center.init (x :: ys)
      = (⟨true, mean? x⟩, (x :: ys).map (Center.apply (mean? x))) := by
  rw [Center.run_cons, Center.call_init]
  simp only
  rw [Center.run_frozen _ rfl]
  simp

/-- … in particular for non-empty training data every output of the history is the shift by the
training mean, and all (input, output) pairs satisfy `Spec.C14.sameShift`. -/
theorem C14_center_affine_vals (x : List Rat) (h : x ≠ []) (ys : List (List Rat)) :
    (Center.run Center.init (x :: ys)).2
      = (x :: ys).map (fun y => Out.vals (y.map (fun v => v - sum x / (x.length : Rat)))) := by
  rw [C14_center_affine, mean?_ne_nil h]
  simp [Center.apply]

theorem sameShift_of_shift (m : Rat) (pairs : List (Rat × Rat)) (h : ∀ p ∈ pairs, p.2 = p.1 - m) :
    Spec.C14.sameShift 0 pairs = true := by
  cases pairs with
  | nil => rfl
  | cons p0 rest =>
    obtain ⟨x0, o0⟩ := p0
    simp only [Spec.C14.sameShift, List.all_eq_true]
    intro p hp
    obtain ⟨x1, o1⟩ := p
    have h0 := h (x0, o0) (by simp)
    have h1 := h (x1, o1) hp
    simp only at h0 h1
    subst h0 h1
    simp [Spec.C14.close, Spec.C14.absR]

/-- the state is frozen along any history (for any state with `paramsSet`) -/
theorem C14_center_state_frozen (s : Center.St) (h : s.paramsSet = true) (ys : List (List Rat)) :
    (Center.run s ys).1 = s := by rw [Center.run_frozen s h]

example : (Center.run Center.init [[1, 2, 6], [10], [0, 3]]).2
    = [.vals [-2, -1, 3], .vals [7], .vals [-3, 0]] := by decide +kernel

/-! ## scale -/

/-- Training data with at least two distinct values: the stored variance `v = std²` is positive,
every call of the history (the first and all later ones, on any data) returns the cells
`(t - m)/√v` with the *training* mean and variance, the state never changes after the first call,
and on the training data `Σ (t - m) = 0`, `Σ (t - m)² = n·v` (mean zero, unit population
standard deviation of the vector `(t - m)/√v`). -/
theorem C14_scale (x : List Rat) (a b : Rat) (ha : a ∈ x) (hb : b ∈ x) (hab : a ≠ b)
    (ys : List (List Rat)) :
    ∃ m v : Rat, 0 < v ∧
      Scale.run Scale.init (x :: ys)
        = (⟨true, some m, some v⟩, (x :: ys).map (fun y => y.map (fun t => Cell.quot (t - m) v))) ∧
      Spec.C14.standardizedExact (x.map (fun t => t - m)) v = true := by
  have hne : x ≠ [] := by intro h; simp [h] at ha
  have hv := var_pos ha hb hab
  refine ⟨sum x / (x.length : Rat), _, hv, ?_, ?_⟩
  · rw [Scale.run_cons, Scale.call_init]
    simp only
    rw [Scale.run_frozen _ rfl, mean?_ne_nil hne, var?_ne_nil hne]
    have hq : ∀ t : Rat, divSqrt (t - sum x / (x.length : Rat))
        (sum (x.map (fun v => (v - sum x / (x.length : Rat)) * (v - sum x / (x.length : Rat))))
          / (x.length : Rat)) = Cell.quot (t - sum x / (x.length : Rat))
        (sum (x.map (fun v => (v - sum x / (x.length : Rat)) * (v - sum x / (x.length : Rat))))
          / (x.length : Rat)) := by
      intro t
      unfold divSqrt
      rw [if_neg (not_lt.mpr hv.le), if_neg hv.ne']
    simp [Scale.apply, hq]
  · have hn := length_cast_ne_zero hne
    simp only [Spec.C14.standardizedExact, sum_eq_spec, Spec.C14.len, List.length_map,
      List.map_map, Bool.and_eq_true, decide_eq_true_eq]
    refine ⟨⟨hv, sum_centered hne⟩, ?_⟩
    have : ((fun v => v * v) ∘ fun t => t - sum x / (x.length : Rat))
        = fun v => (v - sum x / (x.length : Rat)) * (v - sum x / (x.length : Rat)) := rfl
    rw [this]
    generalize sum (x.map (fun v => (v - sum x / (x.length : Rat)) * (v - sum x / (x.length : Rat)))) = S
    field_simp

example : Scale.run Scale.init [[1, 3], [5]]
    = (⟨true, some 2, some 1⟩, [[.quot (-1) 1, .quot 1 1], [.quot 3 1]]) := by decide +kernel

/-- Constant non-empty training data: the variance is 0, no exception is raised, the training
output is all NaN (0/0) and later data give NaN / ±inf (numpy only warns). -/
theorem C14_scale_constant (x : List Rat) (c : Rat) (hne : x ≠ []) (h : ∀ v ∈ x, v = c)
    (ys : List (List Rat)) :
    Scale.run Scale.init (x :: ys)
      = (⟨true, some c, some 0⟩,
         x.map (fun _ => Cell.nan) ::
         ys.map (fun y => y.map (fun t =>
           if t = c then Cell.nan else if c < t then Cell.posInf else Cell.negInf))) := by
  obtain ⟨hm, hs⟩ := var_const hne h
  rw [Scale.run_cons, Scale.call_init]
  simp only
  rw [Scale.run_frozen _ rfl, mean?_ne_nil hne, var?_ne_nil hne, hm, hs]
  simp only [zero_div, Scale.apply, Prod.mk.injEq, List.cons.injEq, true_and]
  constructor
  · apply List.map_congr_left
    intro v hv
    simp [divSqrt, h v hv]
  · apply List.map_congr_left
    intro y _
    apply List.map_congr_left
    intro t _
    simp only [divSqrt, lt_irrefl, if_false, if_true, sub_eq_zero, sub_pos]

/-! ## bs: number of columns -/

/-- Accepted parameters: every row of `bs` has `df` columns when `df` is given (an integer), and
`len(knots) + degree` (+1 with intercept) columns when only knots are given. -/
theorem C14_bs_columns (x : List Rat) (a : BsArgs) (p : BsParams)
    (h : bsInitialize x a = .ok p) (v : Rat) :
    (∀ f : Int, a.df = .int f →
        0 ≤ f ∧ (bsRow p v).length = Spec.C14.expectedCols (some f.toNat) 0 p.degree p.intercept) ∧
    (∀ l, a.df = .none → a.knots = .vec l →
        (bsRow p v).length = Spec.C14.expectedCols none l.length p.degree p.intercept) := by
  obtain ⟨A, _⟩ := bsInitialize_ok h
  rw [length_bsRow, A.nCols]
  constructor
  · intro f hf
    have hl := A.inner_length_df hf
    rw [← A.hicpt] at hl
    simp only [Spec.C14.expectedCols]
    cases hi : p.intercept <;> simp only [hi, Bool.false_eq_true, if_false, if_true] at hl ⊢ <;> omega
  · intro l hdf hk
    have : A.inner = l := by
      rcases A.hinner with h1 | ⟨h1, _⟩
      · rw [hk] at h1; injection h1 with h1; exact h1.symm
      · rw [hk] at h1; cases h1
    simp only [Spec.C14.expectedCols, this]

example : (bsInitialize [0, 1, 2, 3, 4] { df := .int 5 }).map bsNCols = .ok 5 := by decide +kernel
example : (bsInitialize [0, 1, 2, 3, 4] { knots := .vec [1, 2], degree := .int 2, intercept := true }).map
    bsNCols = .ok 5 := by decide +kernel

/-! ## bs: validation -/

/-- Accepted ⇒ degree is an integer ≥ 0, the number of inner knots is a natural number matching
`df`, the knots are one-dimensional and lie within `[lower, upper]`, `lower ≤ upper`; the knot
vector is sorted, has `2(degree+1) + #inner` entries and is clamped at the bounds. -/
theorem C14_bs_validation (x : List Rat) (a : BsArgs) (p : BsParams)
    (h : bsInitialize x a = .ok p) :
    ∃ (z : Int) (lower upper : Rat) (inner : List Rat),
      a.degree = .int z ∧ 0 ≤ z ∧ p.degree = z.toNat ∧
      boundOr a.lower (min? x) = .ok lower ∧ boundOr a.upper (max? x) = .ok upper ∧
      lower ≤ upper ∧ (∀ k ∈ inner, lower ≤ k ∧ k ≤ upper) ∧
      (∀ n, a.knots ≠ .nested n) ∧ (a.df ≠ .float false) ∧
      (∀ f : Int, a.df = .int f →
        (inner.length : Int) = f - ((p.degree : Int) + 1) + (if a.intercept then 0 else 1)) ∧
      p.knots = sort (replicate2 lower upper (p.degree + 1) ++ inner) ∧
      p.knots.length = 2 * (p.degree + 1) + inner.length ∧
      tk p.knots p.degree = lower ∧ tk p.knots (p.knots.length - p.degree - 1) = upper := by
  obtain ⟨A, _⟩ := bsInitialize_ok h
  obtain ⟨_, _, hlo, hhi⟩ := A.clamped
  refine ⟨A.z, A.lower, A.upper, A.inner, A.hdeg, A.hz, A.hpdeg, A.hlo, A.hhi, A.hle, A.hin, ?_, ?_,
    fun f hf => A.inner_length_df hf, ?_, A.knots_length, hlo, hhi⟩
  · intro n hn
    rcases A.hinner with h1 | ⟨h1, _⟩ <;> rw [hn] at h1 <;> cases h1
  · intro hf
    have := A.hdfty
    rw [hf] at this
    simp [checkDfType] at this
  · rw [A.hknots, A.hpdeg]

/-- Acceptance is exactly validity (`Spec.C14.validBsArgs`): every invalid combination is refused
and every valid one accepted — on non-empty data, for every `df` except the float `0.0`. -/
theorem C14_bs_validation_iff (b : Rat) (l : List Rat) (a : BsArgs) (hf : a.df ≠ .float true)
    (dmin dmax : Rat) (hmin : min? (b :: l) = some dmin) (hmax : max? (b :: l) = some dmax) :
    (∃ p, bsInitialize (b :: l) a = .ok p) ↔
      Spec.C14.validBsArgs dmin dmax (quantOf (b :: l)) a = true :=
  bs_valid_iff b l a hf dmin dmax hmin hmax

/-- each invalid class is refused (instances of the equivalence, with the error class) -/
theorem C14_bs_refuses_invalid (b : Rat) (l : List Rat) (a : BsArgs) (hf : ∀ z, a.df ≠ .float z)
    (dmin dmax : Rat) (hmin : min? (b :: l) = some dmin) (hmax : max? (b :: l) = some dmax)
    (hinv : Spec.C14.validBsArgs dmin dmax (quantOf (b :: l)) a = false) :
    bsInitialize (b :: l) a = .error .value := by
  cases hr : bsInitialize (b :: l) a with
  | ok p =>
    have := (bs_valid_iff b l a (hf true) dmin dmax hmin hmax).mp ⟨p, hr⟩
    rw [hinv] at this; cases this
  | error e => rw [bsInitialize_error_class b l a hf e hr]

theorem C14_bs_refuses_float_df (x : List Rat) (a : BsArgs) (hd : a.df = .float false) :
    ∃ e, bsInitialize x a = .error e := by
  unfold bsInitialize
  cases checkDegree a.degree with
  | error e => exact ⟨e, rfl⟩
  | ok d =>
    simp only
    cases checkGiven a.df a.knots with
    | error e => exact ⟨e, rfl⟩
    | ok u => simp [hd, checkDfType]

example : bsInitialize [0, 1, 2] { df := .int 2 } = .error .value := by decide +kernel
example : bsInitialize [0, 1, 2] { df := .int 4, degree := .nonInt } = .error .value := by decide +kernel
example : bsInitialize [0, 1, 2] { knots := .vec [3] } = .error .value := by decide +kernel
example : bsInitialize [0, 1, 2] { knots := .vec [1], lower := some 2, upper := some 1 } = .error .value := by
  decide +kernel

/-- The full statement "every non-integer `df` is refused" is false of the code: the float `0.0`
is falsy, passes `if df and not isinstance(df, int)`, and `bs(x, df=0.0, knots=[], degree=0)` is
accepted (finding KF-C14-DF-FLOAT-ZERO). -/
def C14_bs_float_df_Statement : Prop :=
  ∀ (x : List Rat) (a : BsArgs) (z : Bool), a.df = .float z → ∃ e, bsInitialize x a = .error e

def acceptsFloatZero : Bool :=
  match bsInitialize [0, 1, 2] { df := .float true, knots := .vec [], degree := .int 0 } with
  | .ok _ => true
  | .error _ => false

theorem C14_bs_float_df_counterexample : ¬ C14_bs_float_df_Statement := by
  intro h
  obtain ⟨e, he⟩ := h [0, 1, 2] { df := .float true, knots := .vec [], degree := .int 0 } true rfl
  have : acceptsFloatZero = true := by decide +kernel
  unfold acceptsFloatZero at this
  rw [he] at this
  cases this

/-! ## bs: non-negativity and partition of unity (stretch goal — proved) -/

theorem mem_drop_one {α : Type} (l : List α) (v : α) (h : v ∈ l.drop 1) : v ∈ l :=
  List.mem_of_mem_drop h

/-- The contract of one row, for accepted parameters, at every `v` inside the boundary knots where
the knot interval selected by `splev` is not empty (`bsDegenerate = false`): the row has the
expected number of columns, is non-negative, and with `intercept = True` sums to one. -/
theorem C14_bs_partition_partial (x : List Rat) (a : BsArgs) (p : BsParams)
    (h : bsInitialize x a = .ok p) (v : Rat)
    (hlo : tk p.knots p.degree ≤ v) (hhi : v ≤ tk p.knots (p.knots.length - p.degree - 1))
    (hnd : bsDegenerate p.knots p.degree v = false) :
    (∀ c ∈ bsRow p v, 0 ≤ c) ∧ (p.intercept = true → sum (bsRow p v) = 1) ∧
    Spec.C14.bsRowHolds 0 p.intercept (tk p.knots p.degree)
      (tk p.knots (p.knots.length - p.degree - 1)) v (bsNCols p) (bsRow p v) = true := by
  obtain ⟨A, _⟩ := bsInitialize_ok h
  obtain ⟨hm, hlen, _, _⟩ := A.clamped
  obtain ⟨hnn, hsum⟩ := bsFullRow_partition p hm hlen v hlo hhi hnd
  have h1 : ∀ c ∈ bsRow p v, 0 ≤ c := by
    intro c hc
    unfold bsRow at hc
    split at hc
    · exact hnn c hc
    · exact hnn c (mem_drop_one _ _ hc)
  have h2 : p.intercept = true → sum (bsRow p v) = 1 := by
    intro hi; unfold bsRow; rw [if_pos hi]; exact hsum
  refine ⟨h1, h2, ?_⟩
  simp only [Spec.C14.bsRowHolds, length_bsRow, beq_self_eq_true, Bool.true_and, Bool.or_eq_true,
    Bool.not_eq_true', Bool.and_eq_true]
  right
  constructor
  · simp only [Spec.C14.rowNonneg, List.all_eq_true, decide_eq_true_eq, neg_zero]
    exact h1
  · cases hi : p.intercept with
    | false => left; rfl
    | true =>
      right
      simp [Spec.C14.rowSumsToOne, Spec.C14.close, sum_eq_spec, h2 hi, Spec.C14.absR]

/-- On `[lower, upper)` there is no guard: the basis functions of the clamped knot vector built
by `_initialize` are non-negative and (with intercept) sum to one. -/
theorem C14_bs_partition (x : List Rat) (a : BsArgs) (p : BsParams)
    (h : bsInitialize x a = .ok p) (v : Rat)
    (hlo : tk p.knots p.degree ≤ v) (hhi : v < tk p.knots (p.knots.length - p.degree - 1)) :
    (∀ c ∈ bsRow p v, 0 ≤ c) ∧ (p.intercept = true → sum (bsRow p v) = 1) ∧
    Spec.C14.bsRowHolds 0 p.intercept (tk p.knots p.degree)
      (tk p.knots (p.knots.length - p.degree - 1)) v (bsNCols p) (bsRow p v) = true := by
  obtain ⟨A, _⟩ := bsInitialize_ok h
  obtain ⟨_, hlen, _, _⟩ := A.clamped
  exact C14_bs_partition_partial x a p h v hlo (le_of_lt hhi)
    (not_degenerate_inside p.knots p.degree v hlen hlo hhi)

/-- The full statement (every `v` with `lower ≤ v ≤ upper`) … -/
def C14_bs_contract_Statement : Prop :=
  ∀ (x : List Rat) (a : BsArgs) (p : BsParams), bsInitialize x a = .ok p → ∀ v : Rat,
    Spec.C14.bsRowHolds 0 p.intercept (tk p.knots p.degree)
      (tk p.knots (p.knots.length - p.degree - 1)) v (bsNCols p) (bsRow p v) = true

def upperKnotWitness : Bool :=
  match bsInitialize [0, 1, 2, 2, 2, 2] { df := .int 5, intercept := true } with
  | .ok p => bsDegenerate p.knots p.degree 2 && (bsRow p 2).all (fun c => c == 0) &&
             !Spec.C14.bsRowHolds 0 p.intercept (tk p.knots p.degree)
               (tk p.knots (p.knots.length - p.degree - 1)) 2 (bsNCols p) (bsRow p 2)
  | .error _ => false

/-- … is false of the code at `v = upper` when an inner knot equals the upper bound (here the
median of `[0,1,2,2,2,2]` is its maximum): the selected interval is empty and every basis
function evaluates to 0 (finding KF-C14-BS-UPPER-KNOT). -/
theorem C14_bs_partition_counterexample : ¬ C14_bs_contract_Statement := by
  intro hS
  have hw : upperKnotWitness = true := by decide +kernel
  unfold upperKnotWitness at hw
  cases hr : bsInitialize [0, 1, 2, 2, 2, 2] { df := .int 5, intercept := true } with
  | error e => rw [hr] at hw; cases hw
  | ok p =>
    rw [hr] at hw
    have := hS _ _ p hr 2
    simp only [this, Bool.not_true, Bool.and_false] at hw
    cases hw

example : (bsInitialize [0, 1, 2, 3] { df := .int 4, intercept := true }).map (fun p => bsRow p (3/2))
    = .ok [1/8, 3/8, 3/8, 1/8] := by decide +kernel

/-! ## poly -/

/-- `raw=True`: column `k` is exactly `x^k`, `k = 1..degree` (any state: the arguments are
re-read on every call because `params_set` is never set). -/
theorem C14_poly_raw (s : Poly.St) (hs : s.paramsSet = false) (x : List Rat) (d : Nat) (hd : 1 ≤ d) :
    ∃ s' cols, Poly.call s x d true = .ok (s', .raw cols) ∧
      Spec.C14.rawPowers x d cols = true ∧ s'.paramsSet = false := by
  obtain ⟨d', rfl⟩ : ∃ d', d = d' + 1 := ⟨d - 1, by omega⟩
  refine ⟨{ s with degree := d' + 1, raw := true },
    (range1 (d' + 1)).map (fun k => x.map (fun v => Poly.pow v k)), ?_, ?_, hs⟩
  · simp [Poly.call, hs, Poly.rawCols]
  · have hpow : ∀ (v : Rat) (k : Nat), Poly.pow v k = Spec.C14.powR v k := by
      intro v k; induction k with
      | zero => rfl
      | succ k ih => simp [Poly.pow, Spec.C14.powR, ih]
    have hr : ∀ m, range1 m = List.range' 1 m := by
      intro m; induction m with
      | zero => rfl
      | succ m ih => rw [range1, ih, List.range'_1_concat]; simp [Nat.add_comm]
    have hfrom : ∀ n k, Spec.C14.rawPowersFrom x k
        ((List.range' k n).map (fun j => x.map (fun v => Poly.pow v j))) = true := by
      intro n; induction n with
      | zero => intro k; rfl
      | succ n ih =>
        intro k
        simp only [List.range'_succ, List.map_cons, Spec.C14.rawPowersFrom, Bool.and_eq_true,
          decide_eq_true_eq]
        exact ⟨by simp [hpow], ih (k + 1)⟩
    simp only [Spec.C14.rawPowers, hr, List.length_map, List.length_range', beq_self_eq_true,
      Bool.true_and]
    exact hfrom (d' + 1) 1

example : (Poly.call Poly.init [1, 2, 3] 3 true).map (·.2)
    = .ok (.raw [[1, 2, 3], [1, 4, 9], [1, 8, 27]]) := by decide +kernel

/-- `params_set` is never set: `degree` and `raw` are overwritten by every call. -/
theorem C14_poly_params_never_set (s : Poly.St) (x : List Rat) (d : Nat) (r : Bool)
    (s' : Poly.St) (res : Poly.Res) (h : Poly.call s x d r = .ok (s', res)) :
    s'.paramsSet = s.paramsSet ∧ (s.paramsSet = false → s'.degree = d ∧ s'.raw = r) := by
  unfold Poly.call at h
  simp only at h
  generalize hs1 : (if s.paramsSet = true then s else { s with degree := d, raw := r }) = s1 at h
  have hps : s1.paramsSet = s.paramsSet := by rw [← hs1]; split <;> rfl
  have hdr : s.paramsSet = false → s1.degree = d ∧ s1.raw = r := by
    intro hp; rw [← hs1]; simp [hp]
  have key : s'.paramsSet = s1.paramsSet ∧ s'.degree = s1.degree ∧ s'.raw = s1.raw := by
    split at h
    · split at h
      · simp at h
      · simp only [Except.ok.injEq, Prod.mk.injEq] at h; rw [← h.1]; exact ⟨rfl, rfl, rfl⟩
    · simp only [Except.ok.injEq, Prod.mk.injEq] at h; rw [← h.1]; exact ⟨rfl, rfl, rfl⟩
  refine ⟨by rw [key.1, hps], fun hp => ?_⟩
  rw [key.2.1, key.2.2]; exact hdr hp

open Poly Ortho in
/-- Training call (stretch goal — proved).  For data containing more than `D` distinct values
(`l`: `D+1` pairwise distinct values occurring in `x`), `poly(x, D)` on a fresh instance returns
the columns `P_k(x)/√norms2_k`, `k = 1..D`, where `P_k` are the polynomials of the three-term
recurrence; they are mutually orthogonal, orthogonal to the constant, and `P_k·P_k = norms2_k > 0`
(so the normalised columns are orthonormal): `Spec.C14.orthoExact`. -/
theorem C14_poly_orthogonal (x : List Rat) (D : Nat) (l : List Rat) (hnd : l.Nodup)
    (hlen : D < l.length) (hsub : ∀ v ∈ l, v ∈ x) :
    ∃ s', Poly.call Poly.init x D false
        = .ok (s', .ortho ((List.range' 1 D).map (fun k => (col x x k, (some (norm2 x k) : Num))))) ∧
      Spec.C14.orthoExact ((List.range' 1 D).map (fun k => (x.map (p x k), norm2 x k))) = true ∧
      s'.degree = D ∧ s'.raw = false ∧ s'.paramsSet = false ∧
      MemoOK s'.alpha (alpha x) ∧ MemoOK s'.norms2 (norm2 x) ∧ Complete s'.alpha s'.norms2 D := by
  have hN : ∀ j ≤ D, norm2 x j ≠ 0 := fun j hj => norm2_ne_zero x j l hnd (by omega) hsub
  let s1 : Poly.St := { Poly.init with degree := D, raw := false }
  obtain ⟨am', nm', he, hA, hM, hC, _⟩ := evalOrtho_ok x x s1 (fun j hj => hN j (Nat.le_of_lt hj : j ≤ D))
    (memoOK_nil _) (memoOK_nil _) (Or.inl rfl)
  refine ⟨{ s1 with alpha := am', norms2 := nm' }, ?_, ?_, rfl, rfl, rfl, hA, hM, hC⟩
  · simp only [Poly.call, Poly.init, Bool.false_eq_true, if_false]
    rw [show ({ paramsSet := false, degree := D, raw := false, alpha := [], norms2 := [] } : Poly.St)
      = s1 from rfl, he]
  · exact orthoExact_of x D hN _ (nodup_range' 1 D) (fun k hk => mem_range'_1 D k hk)

open Poly Ortho in
/-- Later calls (what `evaluate_new_data` does: same instance, same arguments): with the memoised
`alpha`/`norms2` of the training call, `poly` evaluates the *same* polynomials `P_k` (training
coefficients) on any new data `y`, divides by the *training* norms, and leaves the state
unchanged — although `params_set` is never set. -/
theorem C14_poly_frozen (x : List Rat) (D : Nat) (s : Poly.St)
    (hN : ∀ j < D, norm2 x j ≠ 0)
    (hd : s.degree = D) (hr : s.raw = false) (hp : s.paramsSet = false)
    (hA : MemoOK s.alpha (alpha x)) (hM : MemoOK s.norms2 (norm2 x))
    (hC : Complete s.alpha s.norms2 D) (y : List Rat) :
    Poly.call s y D false
      = .ok (s, .ortho ((List.range' 1 D).map (fun k => (col x y k, (some (norm2 x k) : Num))))) := by
  obtain ⟨ps, dg, rw', al, nm⟩ := s
  simp only at hd hr hp hA hM hC
  subst hd hr hp
  obtain ⟨am', nm', he, _, _, _, hfr⟩ :=
    evalOrtho_ok x y ⟨false, dg, false, al, nm⟩ hN hA hM (Or.inr hC)
  obtain ⟨e1, e2⟩ := hfr hC
  simp only at e1 e2
  simp only [Poly.call, Bool.false_eq_true, if_false]
  rw [he, e1, e2]

/-- `P_k` is a monic polynomial of degree `k` in the abscissa, so `1, P_1, …, P_d` and
`1, x, …, x^d` are related by a unitriangular change of basis (same span). -/
theorem C14_poly_monic (x : List Rat) (k : Nat) :
    ∃ P : Polynomial ℚ, P.Monic ∧ P.natDegree = k ∧ ∀ v, P.eval v = Ortho.p x k v :=
  ⟨(Ortho.PP x k).1, (Ortho.PP_monic x k).1, (Ortho.PP_monic x k).2.1,
   fun v => (Ortho.PP_eval x k v).1⟩

example : (Poly.call Poly.init [0, 1, 2, 3] 2 false).map (·.2)
    = .ok (.ortho [([some (-3/2), some (-1/2), some (1/2), some (3/2)], some 5),
                   ([some 1, some (-1), some (-1), some 1], some 4)]) := by decide +kernel

/-! ## ties to the tables regenerated from `formulae/transforms.py` -/

theorem tie_transforms_shape : Generated.transformsShapeOk = true := by decide

/-- the stateful registry: `standardize` is the same class as `scale` -/
theorem tie_registry : Generated.statefulRegistry =
    [("bs", "BSpline"), ("center", "Center"), ("poly", "Polynomial"), ("scale", "Scale"),
     ("standardize", "Scale")] := by decide

/-- default arguments of `BSpline.__call__` in the source … -/
theorem tie_bs_defaults : Generated.bsCallDefaults =
    [("df", "None"), ("knots", "None"), ("degree", "3"), ("intercept", "False"),
     ("lower_bound", "None"), ("upper_bound", "None")] := by decide
/-- … are the defaults of the model's argument record -/
theorem model_bs_defaults : ({} : BsArgs) = ⟨.none, .none, .int 3, false, none, none⟩ := rfl

theorem tie_poly_defaults : Generated.polyCallDefaults = [("degree", "1"), ("raw", "False")] := by
  decide
theorem model_poly_defaults : Poly.init.degree = 1 ∧ Poly.init.raw = false := ⟨rfl, rfl⟩

/-- which classes ever assign `self.params_set = True` (Polynomial does not) … -/
theorem tie_params_set : Generated.setsParamsSet =
    [("BSpline", true), ("Center", true), ("Polynomial", false), ("Scale", true)] := by decide
/-- … as in the model -/
theorem model_params_set (x : List Rat) :
    (Center.call Center.init x).1.paramsSet = true ∧ (Scale.call Scale.init x).1.paramsSet = true ∧
    (∀ a s m, BS.call BS.init x a = .ok (s, m) → s.isSome = true) := by
  refine ⟨by simp [Center.call, Center.init], by simp [Scale.call, Scale.init], ?_⟩
  intro a s m h
  simp only [BS.call, BS.init] at h
  split at h
  · simp at h
  · split at h
    · simp at h
    · simp only [Except.ok.injEq, Prod.mk.injEq] at h; rw [← h.1]; rfl

/-- `np.std` is called without `ddof` (population standard deviation, as `var?`) -/
theorem tie_std_population : Generated.scaleStdKeywords = [] := by decide

end FormulaeModel.C14
