import FormulaeModel.Spec.C15
import FormulaeModel.Model.Terms
import FormulaeModel.Proofs.Indicator
import FormulaeModel.Proofs.ResponsePipeline
import FormulaeModel.Proofs.ResponseResolver
import FormulaeModel.Proofs.ResponseCategorical
import FormulaeModel.Proofs.ResponseScan
import FormulaeModel.Properties.C01
import FormulaeModel.Generated.Tables
/-
C15 — theorems about the model of response handling (`Response`, `ResponseMatrix.evaluate`,
`Variable.eval_categoric` for `y[level]`, `proportion`).
-/
namespace FormulaeModel.C15
open FormulaeModel FormulaeModel.Design

/-- the response must be a single term with a single component; everything else is refused -/
theorem C15_single_term (o : Terms.Obj) :
    (∃ r, Terms.mkResponse o = .ok r) ↔ ∃ a, o = .c (.term [a]) := by
  constructor
  · rintro ⟨r, h⟩
    cases o with
    | c t =>
      cases t with
      | term cs =>
        match cs, h with
        | [a], _ => exact ⟨a, rfl⟩
        | [], h => simp [Terms.mkResponse] at h
        | _ :: _ :: _, h => simp [Terms.mkResponse] at h
      | intercept => simp [Terms.mkResponse] at h
      | negIntercept => simp [Terms.mkResponse] at h
    | g t => simp [Terms.mkResponse] at h
    | response cs => simp [Terms.mkResponse] at h
    | model m => simp [Terms.mkResponse] at h
  · rintro ⟨a, rfl⟩
    exact ⟨_, rfl⟩

/-- `y[level]`: a single 0/1 column, 1 exactly where y equals the level (whatever coding flag is
passed, whatever the other levels are) -/
theorem C15_subset_value (env : Env) (name : String) (v lb rb l : Token) (c : Column)
    (xs : List (Option Level)) (d : Option (Bool × List String)) (full : Bool) (out : CompOut)
    (hc : env.frame.col? v.lexeme = some c) (hv : colVal c = .lvec xs d)
    (h : trainComp env name (.subset v lb (.variable l) rb) false true full = .ok out) :
    out.value = xs.map (fun x => [some (if x == some (Level.s l.lexeme) then 1 else 0)]) ∧
    out.labels = some [name ++ "[" ++ l.lexeme ++ "]"] := by
  simp only [trainComp, hc, hv, bind, Except.bind, pure, Except.pure] at h
  repeat' split at h
  all_goals (first | (simp at h; done) | (simp only [Except.ok.injEq] at h; subst h; exact ⟨rfl, rfl⟩))

/-- a numeric response is returned unchanged -/
theorem C15_numeric_value (env : Env) (name : String) (v : Token) (c : Column)
    (xs : List Entry) (isInt full : Bool) (out : CompOut)
    (hc : env.frame.col? v.lexeme = some c) (hv : colVal c = .vec xs isInt)
    (h : trainComp env name (.variable v) false true full = .ok out) :
    out.value = colOfEntries xs ∧ out.st.kind = .numeric := by
  simp only [trainComp, hc, hv, bind, Except.bind, pure, Except.pure] at h
  simp only [Bool.false_eq_true, if_false, Except.ok.injEq] at h
  subst h
  exact ⟨rfl, rfl⟩

/-- `prop(y, n)`: accepted arguments give the pair (successes, trials); a constant number of
trials is broadcast to every row -/
theorem C15_prop_value (ss ts : List Entry) (i j : Bool) (v : Val)
    (h : proportionFn (.vec ss i) (.vec ts j) = .ok v) : v = .prop ss ts none := by
  simp only [proportionFn, bind, Except.bind, pure, Except.pure] at h
  repeat' split at h
  all_goals (first | (simp at h; done) | (simp only [Except.ok.injEq] at h; exact h.symm))

theorem C15_prop_constant (ss : List Entry) (i : Bool) (q : Rat) (v : Val)
    (h : proportionFn (.vec ss i) (.num q true) = .ok v) :
    v = .prop ss (List.replicate ss.length (some q)) (some q) := by
  simp only [proportionFn, bind, Except.bind, pure, Except.pure] at h
  repeat' split at h
  all_goals (first | (simp at h; done) | (simp only [Except.ok.injEq] at h; exact h.symm))

/-- a categorical response is always coded with the complete set of indicators: row `r` of the
coded data is the unit row of the level of observation `r` -/
theorem C15_full_rows (levels : List Level) (xs : List (Option Level)) (m : Matrix)
    (h : codeRows (treatmentFull levels) levels xs = .ok m) :
    m.length = xs.length ∧
    ∀ r (hr : r < xs.length) (hm : r < m.length), ∃ l i, xs[r] = some l ∧ indexOf? l levels = some i ∧
      m[r] = rowOfInts (unitRow levels.length i) := by
  induction xs generalizing m with
  | nil =>
    simp only [codeRows, List.mapM_nil, pure, Except.pure, Except.ok.injEq] at h
    subst h
    exact ⟨rfl, fun r hr => absurd hr (by simp)⟩
  | cons x xs ih =>
    simp only [codeRows, List.mapM_cons, bind, Except.bind, pure, Except.pure] at h
    split at h
    · simp at h
    · rename_i row hrow
      split at h
      · simp at h
      · rename_i rest hrest
        simp only [Except.ok.injEq] at h
        subst h
        have ih' := ih rest hrest
        refine ⟨by simp [ih'.1], ?_⟩
        intro r hr hm
        cases r with
        | zero =>
          cases x with
          | none => simp at hrow
          | some l =>
            simp only at hrow
            split at hrow
            · rename_i i hi
              simp only [pure, Except.pure, Except.ok.injEq] at hrow
              refine ⟨l, i, rfl, hi, ?_⟩
              simp only [List.getElem_cons_zero]
              rw [← hrow]
              have hlt := (indexOf?_some l levels i hi).1
              simp [treatmentFull, hlt]
            · simp at hrow
        | succ r =>
          have := ih'.2 r (by simpa using hr) (by simpa using hm)
          simpa using this

-- ---------------------------------------------------------------------------------------------
-- the predictor matrices do not depend on which response is named (whole-pipeline model)
-- ---------------------------------------------------------------------------------------------
open FormulaeModel.Pipeline in
/-- **the predictors are a function of the resolved right-hand side, the component table and the
frame after the NA step**: whenever `designMatrices` succeeds, its common and group-specific
parts are `Pipeline.predictors m.common m.group (atomTable e) ⟨frame after NA, names⟩` — a
function (defined in `Proofs/ResponsePipeline.lean` by the same steps: kinds, redundancy
analysis, evaluation; group terms) in which the response `m.resp` does not occur — and the response
part is `responsePart` of `m.resp` -/
theorem C15_predictors_function (T : Parser.Table) (ops : Resolver.OpTable) (actions : List String)
    (formula : String) (env : Env) (naAction : String) (b : Built)
    (h : designMatrices T ops actions formula env naAction = .ok b) :
    ∃ ts e m,
      Scanner.scan formula.toList = .ok ts ∧ Parser.parse T ts = .ok e ∧
      Resolver.describe ops e = .ok m ∧
      NA.naStep actions naAction (usedCols e env.frame) env.frame = .ok b.frame ∧
      predictors m.common m.group (atomTable e) { env with frame := b.frame } = .ok (b.common, b.group) ∧
      responsePart { env with frame := b.frame } (atomTable e) m.resp = .ok b.response :=
  designMatrices_factor T ops actions formula env naAction b h

open FormulaeModel.Pipeline in
/-- **predictor independence**: two successful runs (any formulas, any data, any NA policy) whose
model descriptions have the same common and group terms, whose caller namespaces are equal, whose
frames after the NA step have the same number of rows and which *agree on every component of the
right-hand side* (`AgreeOn`: the component tables give the component the same expression, and the
two frames after the NA step give the same columns to the names that expression reads) have equal
common and group-specific parts — terms, data, labels, remembered state.  Nothing is assumed
about the responses. -/
theorem C15_independent (T : Parser.Table) (ops : Resolver.OpTable) (actions : List String)
    (f₁ f₂ : String) (env₁ env₂ : Env) (na₁ na₂ : String) (b₁ b₂ : Built)
    (ts₁ ts₂ : List Token) (e₁ e₂ : Expr) (m₁ m₂ : Terms.ModelV)
    (h₁ : designMatrices T ops actions f₁ env₁ na₁ = .ok b₁)
    (h₂ : designMatrices T ops actions f₂ env₂ na₂ = .ok b₂)
    (hs₁ : Scanner.scan f₁.toList = .ok ts₁) (hp₁ : Parser.parse T ts₁ = .ok e₁)
    (hd₁ : Resolver.describe ops e₁ = .ok m₁)
    (hs₂ : Scanner.scan f₂.toList = .ok ts₂) (hp₂ : Parser.parse T ts₂ = .ok e₂)
    (hd₂ : Resolver.describe ops e₂ = .ok m₂)
    (hcommon : m₁.common = m₂.common) (hgroup : m₁.group = m₂.group)
    (hnames : env₁.names = env₂.names) (hrows : b₁.frame.nrows = b₂.frame.nrows)
    (hagree : ∀ n ∈ predictorNames m₁.common m₁.group,
      AgreeOn { env₁ with frame := b₁.frame } { env₂ with frame := b₂.frame } (atomTable e₁) (atomTable e₂) n) :
    b₁.common = b₂.common ∧ b₁.group = b₂.group := by
  obtain ⟨ts₁', e₁', m₁', a1, a2, a3, _, a5, _⟩ := designMatrices_factor T ops actions f₁ env₁ na₁ b₁ h₁
  obtain ⟨ts₂', e₂', m₂', c1, c2, c3, _, c5, _⟩ := designMatrices_factor T ops actions f₂ env₂ na₂ b₂ h₂
  rw [hs₁] at a1; cases a1
  rw [hp₁] at a2; cases a2
  rw [hd₁] at a3; cases a3
  rw [hs₂] at c1; cases c1
  rw [hp₂] at c2; cases c2
  rw [hd₂] at c3; cases c3
  have := predictors_congr { env₁ with frame := b₁.frame } { env₂ with frame := b₂.frame }
    (atomTable e₁) (atomTable e₂) m₁.common m₁.group hnames hrows hagree
  rw [a5, hcommon, hgroup, c5] at this
  simp only [Except.ok.injEq, Prod.mk.injEq] at this
  exact this

open FormulaeModel.Pipeline in
/-- … in particular for `y₁ ~ rhs` and `y₂ ~ rhs` (the same right-hand side expression, two
arbitrary left-hand sides): equality of the resolved common / group terms is then a theorem
(`Resolver.describe_tilde`), not a hypothesis. -/
theorem C15_independent_tilde (T : Parser.Table) (ops : Resolver.OpTable) (actions : List String)
    (f₁ f₂ : String) (env₁ env₂ : Env) (na₁ na₂ : String) (b₁ b₂ : Built)
    (ts₁ ts₂ : List Token) (y₁ y₂ rhs : Expr) (op₁ op₂ : Token)
    (h₁ : designMatrices T ops actions f₁ env₁ na₁ = .ok b₁)
    (h₂ : designMatrices T ops actions f₂ env₂ na₂ = .ok b₂)
    (hs₁ : Scanner.scan f₁.toList = .ok ts₁) (hp₁ : Parser.parse T ts₁ = .ok (.binary y₁ op₁ rhs))
    (hs₂ : Scanner.scan f₂.toList = .ok ts₂) (hp₂ : Parser.parse T ts₂ = .ok (.binary y₂ op₂ rhs))
    (hop₁ : Resolver.lookupOp ops op₁.kind = some .tilde)
    (hop₂ : Resolver.lookupOp ops op₂.kind = some .tilde)
    (hnames : env₁.names = env₂.names) (hrows : b₁.frame.nrows = b₂.frame.nrows)
    (hagree : ∀ rv, Resolver.resolve ops rhs = .ok rv →
      ∀ n ∈ predictorNames (Resolver.rhsCommon rv) (Resolver.rhsGroup rv),
      AgreeOn { env₁ with frame := b₁.frame } { env₂ with frame := b₂.frame }
        (atomTable (.binary y₁ op₁ rhs)) (atomTable (.binary y₂ op₂ rhs)) n) :
    b₁.common = b₂.common ∧ b₁.group = b₂.group := by
  obtain ⟨_, _, m₁, a1, a2, a3, _, _, _⟩ := designMatrices_factor T ops actions f₁ env₁ na₁ b₁ h₁
  obtain ⟨_, _, m₂, c1, c2, c3, _, _, _⟩ := designMatrices_factor T ops actions f₂ env₂ na₂ b₂ h₂
  rw [hs₁] at a1; cases a1
  rw [hp₁] at a2; cases a2
  rw [hs₂] at c1; cases c1
  rw [hp₂] at c2; cases c2
  obtain ⟨_, rv₁, _, hr₁, _, hc₁, hg₁⟩ := Resolver.describe_tilde ops y₁ op₁ rhs hop₁ m₁ a3
  obtain ⟨_, rv₂, _, hr₂, _, hc₂, hg₂⟩ := Resolver.describe_tilde ops y₂ op₂ rhs hop₂ m₂ c3
  rw [hr₁] at hr₂; cases hr₂
  exact C15_independent T ops actions f₁ f₂ env₁ env₂ na₁ na₂ b₁ b₂ ts₁ ts₂ _ _ m₁ m₂ h₁ h₂ hs₁ hp₁ a3
    hs₂ hp₂ c3 (by rw [hc₁, hc₂]) (by rw [hg₁, hg₂]) hnames hrows
    (by rw [hc₁, hg₁]; exact hagree rv₁ hr₁)

open FormulaeModel.Pipeline in
/-- **same data, two responses** (the statement's "the predictor matrices do not depend on which
response is named", end to end): `y₁ ~ rhs` and `y₂ ~ rhs` built on one frame, in one
namespace, neither run meeting a missing value in the columns it uses, give the same common and
group-specific parts whenever both build and keep the same number of rows.  Decidable side
conditions: the component names of the two left-hand sides are not component names of the
right-hand side (`hfresh`; otherwise the component table `{name: expression}` would hand the
left-hand expression to the right-hand term), and the right-hand components are calls / names
(`hshape`, true of every component the resolver makes from an identifier, a quoted name, `y[l]`
or a call). -/
theorem C15_independent_same_data (T : Parser.Table) (ops : Resolver.OpTable) (actions : List String)
    (f₁ f₂ : String) (env : Env) (na₁ na₂ : String) (b₁ b₂ : Built)
    (ts₁ ts₂ : List Token) (y₁ y₂ rhs : Expr) (op₁ op₂ : Token)
    (h₁ : designMatrices T ops actions f₁ env na₁ = .ok b₁)
    (h₂ : designMatrices T ops actions f₂ env na₂ = .ok b₂)
    (hs₁ : Scanner.scan f₁.toList = .ok ts₁) (hp₁ : Parser.parse T ts₁ = .ok (.binary y₁ op₁ rhs))
    (hs₂ : Scanner.scan f₂.toList = .ok ts₂) (hp₂ : Parser.parse T ts₂ = .ok (.binary y₂ op₂ rhs))
    (hop₁ : Resolver.lookupOp ops op₁.kind = some .tilde)
    (hop₂ : Resolver.lookupOp ops op₂.kind = some .tilde)
    (hc₁ : (NA.incompleteRows env.frame.nrows
      (NA.selectCols (usedCols (.binary y₁ op₁ rhs) env.frame) env.frame)).any id = false)
    (hc₂ : (NA.incompleteRows env.frame.nrows
      (NA.selectCols (usedCols (.binary y₂ op₂ rhs) env.frame) env.frame)).any id = false)
    (hrows : b₁.frame.nrows = b₂.frame.nrows)
    (hfresh : ∀ rv, Resolver.resolve ops rhs = .ok rv → ∀ p ∈ atomTable y₁ ++ atomTable y₂,
      p.1 ∉ predictorNames (Resolver.rhsCommon rv) (Resolver.rhsGroup rv))
    (hshape : ∀ rv, Resolver.resolve ops rhs = .ok rv → ∀ p ∈ atomTable rhs,
      p.1 ∈ predictorNames (Resolver.rhsCommon rv) (Resolver.rhsGroup rv) → isAtomShape p.2 = true) :
    b₁.common = b₂.common ∧ b₁.group = b₂.group := by
  obtain ⟨_, _, _, a1, a2, _, a4, _, _⟩ := designMatrices_factor T ops actions f₁ env na₁ b₁ h₁
  obtain ⟨_, _, _, c1, c2, _, c4, _, _⟩ := designMatrices_factor T ops actions f₂ env na₂ b₂ h₂
  rw [hs₁] at a1; cases a1
  rw [hp₁] at a2; cases a2
  rw [hs₂] at c1; cases c1
  rw [hp₂] at c2; cases c2
  have hf₁ := naStep_complete _ _ _ _ _ hc₁ a4
  have hf₂ := naStep_complete _ _ _ _ _ hc₂ c4
  refine C15_independent_tilde T ops actions f₁ f₂ env env na₁ na₂ b₁ b₂ ts₁ ts₂ y₁ y₂ rhs op₁ op₂
    h₁ h₂ hs₁ hp₁ hs₂ hp₂ hop₁ hop₂ rfl hrows ?_
  intro rv hrv
  rw [hf₁, hf₂]
  exact agreeOn_same_data env.frame env.names y₁ y₂ rhs op₁ op₂ _ _ (hfresh rv hrv) (hshape rv hrv)

/-- **no `~`, no response; a response only from a `~`** (any tables): if the design has a response
then the parsed formula has, at a position the resolver visits, an operator token that the
operator table maps to `~`, and that token is one of the scanned tokens -/
theorem C15_response_only_from_tilde (T : Parser.Table) (hE : T.eofCheck = true)
    (ops : Resolver.OpTable) (actions : List String)
    (formula : String) (env : Env) (naAction : String) (b : Pipeline.Built) (ts : List Token)
    (h : Pipeline.designMatrices T ops actions formula env naAction = .ok b)
    (hs : Scanner.scan formula.toList = .ok ts)
    (hr : b.response.isSome = true) :
    ∃ t ∈ ts, Resolver.lookupOp ops t.kind = some .tilde := by
  obtain ⟨ts', e, m, a1, a2, a3, _, _, a6⟩ := Pipeline.designMatrices_factor T ops actions formula env naAction b h
  rw [hs] at a1; cases a1
  have hm : m.resp.isSome = true := by
    cases hmr : m.resp with
    | none =>
      rw [hmr] at a6
      simp only [Pipeline.responsePart, pure, Except.pure, Except.ok.injEq] at a6
      rw [← a6] at hr; simp at hr
    | some _ => rfl
  have ht := Resolver.describe_resp ops e m a3 hm
  obtain ⟨t, ht1, ht2⟩ := Resolver.hasTilde_flat ops e ht
  have hflat : e.flat = ts := C01.C01_yield T hE _ ts e a2
  exact ⟨t, hflat ▸ ht1, ht2⟩

/-- with the tables regenerated from the source: a formula whose scan has no `~` token gives a
design without response -/
theorem C15_none (actions : List String) (formula : String) (env : Env) (naAction : String)
    (b : Pipeline.Built) (ts : List Token)
    (h : Pipeline.designMatrices Generated.parserTable Generated.resolverOps actions formula env naAction = .ok b)
    (hs : Scanner.scan formula.toList = .ok ts)
    (hno : ts.any Scanner.isTilde = false) : b.response = none := by
  cases hb : b.response with
  | none => rfl
  | some out =>
    obtain ⟨t, ht, hk⟩ := C15_response_only_from_tilde Generated.parserTable (by decide)
      Generated.resolverOps actions formula env naAction b ts h hs (by simp [hb])
    have hkind : t.kind = .TILDE := by
      revert hk
      cases t.kind <;> decide
    have : ts.any Scanner.isTilde = true := List.any_eq_true.mpr ⟨t, ht, by simp [Scanner.isTilde, hkind]⟩
    rw [hno] at this; cases this

/-- **without a response the design simply has none**, at the level of the formula text: a
formula in which the character `~` does not occur (with the tables regenerated from the source)
gives a design without response -/
theorem C15_none_chars (actions : List String) (formula : String) (env : Env) (naAction : String)
    (b : Pipeline.Built)
    (h : Pipeline.designMatrices Generated.parserTable Generated.resolverOps actions formula env naAction = .ok b)
    (hno : '~' ∉ formula.toList) : b.response = none := by
  obtain ⟨ts, _, _, hs, _⟩ := Pipeline.designMatrices_factor _ _ _ _ _ _ b h
  exact C15_none actions formula env naAction b ts h hs (Scanner.scan_no_tilde _ true ts hs hno)

/-- conversely, `lhs ~ rhs` that builds has a response -/
theorem C15_tilde_has_response (T : Parser.Table) (ops : Resolver.OpTable) (actions : List String)
    (formula : String) (env : Env) (naAction : String) (b : Pipeline.Built) (ts : List Token)
    (l r : Expr) (op : Token)
    (h : Pipeline.designMatrices T ops actions formula env naAction = .ok b)
    (hs : Scanner.scan formula.toList = .ok ts) (hp : Parser.parse T ts = .ok (.binary l op r))
    (hop : Resolver.lookupOp ops op.kind = some .tilde) : b.response.isSome = true := by
  obtain ⟨ts', e, m, a1, a2, a3, _, _, a6⟩ := Pipeline.designMatrices_factor T ops actions formula env naAction b h
  rw [hs] at a1; cases a1
  rw [hp] at a2; cases a2
  obtain ⟨a, _, _, _, hresp, _, _⟩ := Resolver.describe_tilde ops l op r hop m a3
  rw [hresp] at a6
  simp only [Pipeline.responsePart, bind, Except.bind, pure, Except.pure] at a6
  split at a6
  · simp at a6
  · simp only [Except.ok.injEq] at a6
    rw [← a6]; rfl

-- ---------------------------------------------------------------------------------------------
-- categorical response, `y[level]`
-- ---------------------------------------------------------------------------------------------
/-- in the whole-pipeline model the response term is its single component trained with
`is_response = True` and the **full** coding flag (never the flags of the redundancy analysis) -/
theorem C15_response_coded_full (env : Env) (atoms : List (String × Expr)) (a : Terms.Atom)
    (r : Option TermOut) (h : Pipeline.responsePart env atoms (some [a]) = .ok r) :
    ∃ e co, compExpr atoms a.name = .ok e ∧ trainComp env a.name e false true true = .ok co ∧
      r = some ⟨⟨a.name, [co.st], co.st.kind.name⟩, co.value, co.labels⟩ := by
  simp only [Pipeline.responsePart, trainTerm, List.map_cons, List.map_nil, List.mapM_cons,
    List.mapM_nil, bind, Except.bind, pure, Except.pure, Pipeline.liftE] at h
  cases he : compExpr atoms a.name with
  | error _ => simp [he] at h
  | ok e =>
    cases hco : trainComp env a.name e false true true with
    | error _ => simp [he, hco] at h
    | ok co =>
      refine ⟨e, co, rfl, hco, ?_⟩
      simp only [he, hco, Except.ok.injEq] at h
      rw [← h]
      have hn : (Terms.CTerm.term [a]).name = a.name := rfl
      rw [hn]
      cases hl : co.labels <;> simp [reduceMatrices, reduceLabels, hl]

/-- **categorical response**: a string / categorical response column trained as the pipeline
trains it (`is_response`, full coding) is one indicator column per level, the levels in sorted
order — or in the declared order of an ordered categorical — and row `r` has its 1 in the column
of the level of observation `r`; the labels are `name[level]`.  (`hd`: the declared categories of
an ordered categorical are distinct, as pandas guarantees.) -/
theorem C15_categorical_value (env : Env) (name : String) (v : Token) (c : Column)
    (xs : List (Option Level)) (d : Option (Bool × List String)) (out : CompOut)
    (hc : env.frame.col? v.lexeme = some c) (hv : colVal c = .lvec xs d)
    (hd : ∀ cats, d = some (true, cats) → cats.Nodup)
    (h : trainComp env name (.variable v) false true true = .ok out) :
    ∃ levels, Spec.C15.levelOrder xs d = some levels ∧ out.st.levels = levels ∧
      out.st.kind = .categoric ∧
      out.value = xs.map (fun x => levels.map (fun l => some (if x == some l then (1 : Rat) else 0))) ∧
      out.labels = some (levels.map (fun l => name ++ "[" ++ l.label ++ "]")) := by
  simp only [trainComp, hc, hv, bind, Except.bind, pure, Except.pure] at h
  split at h
  · simp at h
  · rename_i res hres
    obtain ⟨levels, cm, m⟩ := res
    simp only [Except.ok.injEq] at h
    subst h
    obtain ⟨h1, h2, h3⟩ := evalCategoric_full name xs d hd levels cm m hres
    refine ⟨levels, h1, rfl, rfl, h3, ?_⟩
    simp [categoricLabels, h2, treatmentFull]

/-- entry by entry: the entry in row `r`, column `k` of a categorical response is 1 exactly when
observation `r` equals level `k` (and 0 otherwise) -/
theorem C15_categorical_entry (env : Env) (name : String) (v : Token) (c : Column)
    (xs : List (Option Level)) (d : Option (Bool × List String)) (out : CompOut)
    (hc : env.frame.col? v.lexeme = some c) (hv : colVal c = .lvec xs d)
    (hd : ∀ cats, d = some (true, cats) → cats.Nodup)
    (h : trainComp env name (.variable v) false true true = .ok out) :
    out.value.length = xs.length ∧
    ∀ r (hr : r < xs.length) k (hk : k < out.st.levels.length),
      (out.value.getD r []).getD k none = some (if xs[r] = some out.st.levels[k] then 1 else 0) := by
  obtain ⟨levels, _, h2, _, h4, _⟩ := C15_categorical_value env name v c xs d out hc hv hd h
  subst h2
  rw [h4]
  refine ⟨by simp, fun r hr k hk => ?_⟩
  simp [hr, hk]

/-- `y[level]` in both spellings (`y[a]`, `y["a"]`): a single 0/1 column, 1 exactly where y
equals the level; the levels of y are still remembered (sorted / declared order); there is no
contrast matrix -/
theorem C15_subset_value_general (env : Env) (name : String) (v lb rb : Token) (lv : Expr) (ref : String)
    (c : Column) (xs : List (Option Level)) (d : Option (Bool × List String)) (full : Bool) (out : CompOut)
    (hc : env.frame.col? v.lexeme = some c) (hv : colVal c = .lvec xs d)
    (hlv : (∃ l, lv = .variable l ∧ ref = l.lexeme) ∨
           (∃ t, lv = .literal t ∧ ref = Spec.C15.unq t.lexeme))
    (h : trainComp env name (.subset v lb lv rb) false true full = .ok out) :
    out.value = xs.map (fun x => [some (if x = some (Level.s ref) then 1 else 0)]) ∧
    out.labels = some [name ++ "[" ++ ref ++ "]"] ∧
    Spec.C15.levelOrder xs d = some out.st.levels ∧ out.st.contrast = none ∧
    out.st.kind = .categoric := by
  rcases hlv with ⟨l, rfl, rfl⟩ | ⟨t, rfl, rfl⟩
  all_goals
    simp only [trainComp, hc, hv, bind, Except.bind, pure, Except.pure] at h
    repeat' split at h
    all_goals first
      | (simp at h; done)
      | (simp only [Except.ok.injEq] at h; subst h
         refine ⟨by simp [Spec.C15.unq], rfl, ?_, rfl, rfl⟩
         simp_all [Spec.C15.levelOrder])

/-- a level that does not occur in the data is **not refused**: the response is the zero column -/
theorem C15_subset_absent_level (env : Env) (name : String) (v lb rb l : Token)
    (c : Column) (xs : List (Option Level)) (d : Option (Bool × List String)) (full : Bool) (out : CompOut)
    (hc : env.frame.col? v.lexeme = some c) (hv : colVal c = .lvec xs d)
    (habs : some (Level.s l.lexeme) ∉ xs)
    (h : trainComp env name (.subset v lb (.variable l) rb) false true full = .ok out) :
    out.value = xs.map (fun _ => [some 0]) := by
  rw [(C15_subset_value env name v lb rb l c xs d full out hc hv h).1]
  apply List.map_congr_left
  intro x hx
  have : x ≠ some (Level.s l.lexeme) := fun he => habs (he ▸ hx)
  simp [this]

-- non-vacuity of the categorical-response theorems
namespace Ex2
def tk (k : Kind) (s : String) : Token := ⟨k, s⟩
def fr : Frame :=
  [⟨"g", .string, [.str "b", .str "a", .str "b"]⟩,
   ⟨"o", .categorical true ["hi", "lo"], [.str "lo", .str "hi", .str "lo"]⟩,
   ⟨"x", .numeric true, [.num 0, .num 1, .num 5]⟩]
def env : Env := ⟨fr, []⟩
def var (n : String) : Expr := .variable (tk .IDENTIFIER n)
def sub (n l : String) : Expr := .subset (tk .IDENTIFIER n) (tk .LEFT_BRACKET "[") (var l) (tk .RIGHT_BRACKET "]")
theorem ok_of_check {ε α : Type} (x : Except ε α) (p : α → Bool)
    (h : (match x with | .ok a => p a | .error _ => false) = true) : ∃ a, x = .ok a ∧ p a = true := by
  cases x with
  | ok a => exact ⟨a, rfl, h⟩
  | error e => cases h
end Ex2

open Ex2 in
/-- `C15_categorical_value` / `C15_categorical_entry`: a string response (levels sorted: a, b) and
an ordered categorical response (declared order: hi, lo) -/
example :
    (∃ out, trainComp env "g" (var "g") false true true = .ok out ∧
      (out.value == [[some 0, some 1], [some 1, some 0], [some 0, some 1]] &&
       out.labels == some ["g[a]", "g[b]"]) = true) ∧
    (∃ out, trainComp env "o" (var "o") false true true = .ok out ∧
      (out.value == [[some 0, some 1], [some 1, some 0], [some 0, some 1]] &&
       out.labels == some ["o[hi]", "o[lo]"]) = true) ∧
    env.frame.col? "g" = some ⟨"g", .string, [.str "b", .str "a", .str "b"]⟩ ∧
    ["hi", "lo"].Nodup :=
  ⟨ok_of_check _ _ (by decide +kernel), ok_of_check _ _ (by decide +kernel), rfl, by decide⟩

open Ex2 in
/-- `C15_subset_value_general` / `C15_subset_absent_level`: `g[b]` and the absent level `g[z]` -/
example :
    (∃ out, trainComp env "g" (sub "g" "b") false true true = .ok out ∧
      (out.value == [[some 1], [some 0], [some 1]]) = true) ∧
    (∃ out, trainComp env "g" (sub "g" "z") false true true = .ok out ∧
      (out.value == [[some 0], [some 0], [some 0]]) = true) ∧
    some (Level.s "z") ∉ [some (Level.s "b"), some (Level.s "a"), some (Level.s "b")] :=
  ⟨ok_of_check _ _ (by decide +kernel), ok_of_check _ _ (by decide +kernel), by decide⟩

open Ex2 in
/-- `C15_response_coded_full`: the response part of the pipeline for the response `g` -/
example : ∃ r, Pipeline.responsePart env [("g", var "g")] (some [.var (.str "g") none]) = .ok r :=
  match h : Pipeline.responsePart env [("g", var "g")] (some [.var (.str "g") none]) with
  | .ok r => ⟨r, rfl⟩
  | .error e => by
    have : (match Pipeline.responsePart env [("g", var "g")] (some [.var (.str "g") none]) with
      | .ok _ => true | .error _ => false) = true := by decide +kernel
    rw [h] at this; cases this

-- non-vacuity of the pipeline theorems: concrete runs of the whole-pipeline model
section NonVacuity
open FormulaeModel.Pipeline
namespace Ex
def fr : Frame :=
  [⟨"y", .numeric true, [.num 1, .num 2, .num 3]⟩, ⟨"z", .numeric true, [.num 4, .num 2, .num 3]⟩,
   ⟨"x", .numeric true, [.num 0, .num 1, .num 5]⟩, ⟨"f", .string, [.str "a", .str "b", .str "a"]⟩]
def run (f : String) : Except PErr Built :=
  designMatrices Generated.parserTable Generated.resolverOps Generated.naActions f ⟨fr, []⟩ "drop"
def tk (k : Kind) (s : String) : Token := ⟨k, s⟩
def rhs : Expr :=
  .binary (.binary (.literal (tk .NUMBER "1")) (tk .PLUS "+") (.variable (tk .IDENTIFIER "x")))
    (tk .PLUS "+") (.variable (tk .IDENTIFIER "f"))
def lhs (v : String) : Expr := .variable (tk .IDENTIFIER v)
def whole (v : String) : Expr := .binary (lhs v) (tk .TILDE "~") rhs
def sel (v : String) : Frame := fr.filter (fun c => [v, "x", "f"].contains c.name)

theorem run_ok (f : String) (h : (match run f with | .ok _ => true | _ => false) = true) :
    ∃ b, run f = .ok b := by
  cases hr : run f with
  | ok b => exact ⟨b, rfl⟩
  | error e => rw [hr] at h; cases h
end Ex

open Ex in
/-- non-vacuity of `C15_independent_tilde` (and through it of `C15_independent`,
`C15_predictors_function`): `y ~ x + f` and `z ~ x + f` on one frame -/
example : ∃ b₁ b₂, run "y ~ x + f" = .ok b₁ ∧ run "z ~ x + f" = .ok b₂ ∧
    b₁.common = b₂.common ∧ b₁.group = b₂.group := by
  obtain ⟨b₁, h₁⟩ := run_ok "y ~ x + f" (by decide +kernel)
  obtain ⟨b₂, h₂⟩ := run_ok "z ~ x + f" (by decide +kernel)
  refine ⟨b₁, b₂, h₁, h₂, ?_⟩
  have hs₁ : Scanner.scan "y ~ x + f".toList = .ok (whole "y").flat := by rfl
  have hs₂ : Scanner.scan "z ~ x + f".toList = .ok (whole "z").flat := by rfl
  have hp₁ : Parser.parse Generated.parserTable (whole "y").flat = .ok (whole "y") := by rfl
  have hp₂ : Parser.parse Generated.parserTable (whole "z").flat = .ok (whole "z") := by rfl
  -- the frames after the NA step
  obtain ⟨_, _, _, a1, a2, _, a4, _, _⟩ := C15_predictors_function _ _ _ _ _ _ b₁ h₁
  obtain ⟨_, _, _, c1, c2, _, c4, _, _⟩ := C15_predictors_function _ _ _ _ _ _ b₂ h₂
  rw [hs₁] at a1; cases a1
  rw [hp₁] at a2; cases a2
  rw [hs₂] at c1; cases c1
  rw [hp₂] at c2; cases c2
  have hf₁ : b₁.frame = sel "y" := by
    have : NA.naStep Generated.naActions "drop" (usedCols (whole "y") fr) fr = .ok (sel "y") := by rfl
    exact Except.ok.inj (a4.symm.trans this)
  have hf₂ : b₂.frame = sel "z" := by
    have : NA.naStep Generated.naActions "drop" (usedCols (whole "z") fr) fr = .ok (sel "z") := by rfl
    exact Except.ok.inj (c4.symm.trans this)
  refine C15_independent_tilde _ _ _ _ _ _ _ _ _ b₁ b₂ _ _ (lhs "y") (lhs "z") rhs (tk .TILDE "~") (tk .TILDE "~")
    h₁ h₂ hs₁ hp₁ hs₂ hp₂ (by rfl) (by rfl) rfl (by rw [hf₁, hf₂]; rfl) ?_
  intro rv hrv n hn
  have : Resolver.resolve Generated.resolverOps rhs =
      .ok (.model { common := [.intercept, .term [.var (.str "x") none], .term [.var (.str "f") none]] }) := by rfl
  rw [this] at hrv; cases hrv
  rw [hf₁, hf₂]
  simp only [predictorNames, Resolver.rhsCommon, Resolver.rhsGroup, termNames, List.flatMap_cons,
    List.flatMap_nil, List.map_cons, List.map_nil, List.append_nil, List.nil_append,
    Terms.Atom.name, Terms.VName.text, List.mem_cons, List.cons_append, List.not_mem_nil, or_false] at hn
  rcases hn with rfl | rfl
  · refine ⟨by rfl, fun e he c hc => ?_⟩
    have : compExpr (atomTable (whole "y")) "x" = .ok (.variable (tk .IDENTIFIER "x")) := by rfl
    have he' := Except.ok.inj (he.symm.trans this); subst he'
    have hc' : c = "x" := by simpa [compNames, isCallLike, varColRef, tk] using hc
    subst hc'; rfl
  · refine ⟨by rfl, fun e he c hc => ?_⟩
    have : compExpr (atomTable (whole "y")) "f" = .ok (.variable (tk .IDENTIFIER "f")) := by rfl
    have he' := Except.ok.inj (he.symm.trans this); subst he'
    have hc' : c = "f" := by simpa [compNames, isCallLike, varColRef, tk] using hc
    subst hc'; rfl
open Ex in
/-- non-vacuity of `C15_independent_same_data`: the same two runs; every side condition holds -/
example : ∃ b₁ b₂, run "y ~ x + f" = .ok b₁ ∧ run "z ~ x + f" = .ok b₂ ∧
    b₁.common = b₂.common ∧ b₁.group = b₂.group := by
  obtain ⟨b₁, h₁⟩ := run_ok "y ~ x + f" (by decide +kernel)
  obtain ⟨b₂, h₂⟩ := run_ok "z ~ x + f" (by decide +kernel)
  refine ⟨b₁, b₂, h₁, h₂, ?_⟩
  have hs₁ : Scanner.scan "y ~ x + f".toList = .ok (whole "y").flat := by rfl
  have hs₂ : Scanner.scan "z ~ x + f".toList = .ok (whole "z").flat := by rfl
  have hp₁ : Parser.parse Generated.parserTable (whole "y").flat = .ok (whole "y") := by rfl
  have hp₂ : Parser.parse Generated.parserTable (whole "z").flat = .ok (whole "z") := by rfl
  obtain ⟨_, _, _, a1, a2, _, a4, _, _⟩ := C15_predictors_function _ _ _ _ _ _ b₁ h₁
  obtain ⟨_, _, _, c1, c2, _, c4, _, _⟩ := C15_predictors_function _ _ _ _ _ _ b₂ h₂
  rw [hs₁] at a1; cases a1
  rw [hp₁] at a2; cases a2
  rw [hs₂] at c1; cases c1
  rw [hp₂] at c2; cases c2
  have hf₁ : b₁.frame = sel "y" := by
    have : NA.naStep Generated.naActions "drop" (usedCols (whole "y") fr) fr = .ok (sel "y") := by rfl
    exact Except.ok.inj (a4.symm.trans this)
  have hf₂ : b₂.frame = sel "z" := by
    have : NA.naStep Generated.naActions "drop" (usedCols (whole "z") fr) fr = .ok (sel "z") := by rfl
    exact Except.ok.inj (c4.symm.trans this)
  have hrv : Resolver.resolve Generated.resolverOps rhs =
      .ok (.model { common := [.intercept, .term [.var (.str "x") none], .term [.var (.str "f") none]] }) := by rfl
  refine C15_independent_same_data _ _ _ _ _ ⟨fr, []⟩ _ _ b₁ b₂ _ _ (lhs "y") (lhs "z") rhs
    (tk .TILDE "~") (tk .TILDE "~") h₁ h₂ hs₁ hp₁ hs₂ hp₂ (by rfl) (by rfl)
    (by decide +kernel) (by decide +kernel) (by rw [hf₁, hf₂]; rfl) ?_ ?_
  · intro rv h p hp
    have hrv' := Except.ok.inj (h.symm.trans hrv); subst hrv'
    have ht : atomTable (lhs "y") ++ atomTable (lhs "z") = [("y", lhs "y"), ("z", lhs "z")] := by rfl
    have hn : predictorNames (Resolver.rhsCommon (.model { common := [.intercept,
        .term [.var (.str "x") none], .term [.var (.str "f") none]] })) (Resolver.rhsGroup (.model
        { common := [.intercept, .term [.var (.str "x") none], .term [.var (.str "f") none]] })) =
        ["x", "f"] := by rfl
    rw [ht] at hp; rw [hn]
    simp only [List.mem_cons, List.not_mem_nil, or_false] at hp
    rcases hp with rfl | rfl <;> decide
  · intro rv h p hp _
    have ht : atomTable rhs = [("1", .literal (tk .NUMBER "1")), ("x", lhs "x"), ("f", lhs "f")] := by rfl
    rw [ht] at hp
    simp only [List.mem_cons, List.not_mem_nil, or_false] at hp
    rename_i hin
    have hrv' := Except.ok.inj (h.symm.trans hrv); subst hrv'
    rcases hp with rfl | rfl | rfl
    · exact absurd hin (by decide)
    · rfl
    · rfl

open Ex in
/-- non-vacuity of `C15_none` / `C15_none_chars`: `x + f` builds, its text has no `~` character and
its scan no `~` token -/
example : ∃ b ts, run "x + f" = .ok b ∧ Scanner.scan "x + f".toList = .ok ts ∧
    ts.any Scanner.isTilde = false ∧ '~' ∉ "x + f".toList ∧ b.response = none := by
  obtain ⟨b, h⟩ := run_ok "x + f" (by decide +kernel)
  have hs : Scanner.scan "x + f".toList = .ok rhs.flat := by rfl
  exact ⟨b, _, h, hs, by decide, by decide, C15_none_chars _ _ _ _ b h (by decide)⟩

open Ex in
/-- non-vacuity of `C15_tilde_has_response` and `C15_response_only_from_tilde` -/
example : ∃ b, run "y ~ x + f" = .ok b ∧ b.response.isSome = true ∧
    ∃ t ∈ (whole "y").flat, Resolver.lookupOp Generated.resolverOps t.kind = some .tilde := by
  obtain ⟨b, h⟩ := run_ok "y ~ x + f" (by decide +kernel)
  have hs : Scanner.scan "y ~ x + f".toList = .ok (whole "y").flat := by rfl
  have hp : Parser.parse Generated.parserTable (whole "y").flat = .ok (whole "y") := by rfl
  have hr := C15_tilde_has_response _ _ _ _ _ _ b _ (lhs "y") rhs (tk .TILDE "~") h hs hp (by rfl)
  exact ⟨b, h, hr, C15_response_only_from_tilde _ (by decide) _ _ _ _ _ b _ h hs hr⟩

end NonVacuity

end FormulaeModel.C15
