import FormulaeModel.Spec.C15
import FormulaeModel.Model.Terms
import FormulaeModel.Proofs.Indicator
/-
C15 — theorems about the model of response handling (`Response`, `ResponseMatrix.evaluate`,
`Variable.eval_categoric` for `y[level]`, `proportion`).
-/
namespace FormulaeModel.C15
open FormulaeModel FormulaeModel.Design

/-- the response must be a single term with a single component; everything else is refused -/
theorem C15_single_term (o : Terms.Obj) :
    (∃ r, Terms.mkResponse o = .ok r) ↔ ∃ a, o = .c (.term [a]) := by
  constructor
  · rintro ⟨r, h⟩
    cases o with
    | c t =>
      cases t with
      | term cs =>
        match cs, h with
        | [a], _ => exact ⟨a, rfl⟩
        | [], h => simp [Terms.mkResponse] at h
        | _ :: _ :: _, h => simp [Terms.mkResponse] at h
      | intercept => simp [Terms.mkResponse] at h
      | negIntercept => simp [Terms.mkResponse] at h
    | g t => simp [Terms.mkResponse] at h
    | response cs => simp [Terms.mkResponse] at h
    | model m => simp [Terms.mkResponse] at h
  · rintro ⟨a, rfl⟩
    exact ⟨_, rfl⟩

/-- `y[level]`: a single 0/1 column, 1 exactly where y equals the level (whatever coding flag is
passed, whatever the other levels are) -/
theorem C15_subset_value (env : Env) (name : String) (v lb rb l : Token) (c : Column)
    (xs : List (Option Level)) (d : Option (Bool × List String)) (full : Bool) (out : CompOut)
    (hc : env.frame.col? v.lexeme = some c) (hv : colVal c = .lvec xs d)
    (h : trainComp env name (.subset v lb (.variable l) rb) false true full = .ok out) :
    out.value = xs.map (fun x => [some (if x == some (Level.s l.lexeme) then 1 else 0)]) ∧
    out.labels = some [name ++ "[" ++ l.lexeme ++ "]"] := by
  simp only [trainComp, hc, hv, bind, Except.bind, pure, Except.pure] at h
  repeat' split at h
  all_goals (first | (simp at h; done) | (simp only [Except.ok.injEq] at h; subst h; exact ⟨rfl, rfl⟩))

/-- a numeric response is returned unchanged -/
theorem C15_numeric_value (env : Env) (name : String) (v : Token) (c : Column)
    (xs : List Entry) (isInt full : Bool) (out : CompOut)
    (hc : env.frame.col? v.lexeme = some c) (hv : colVal c = .vec xs isInt)
    (h : trainComp env name (.variable v) false true full = .ok out) :
    out.value = colOfEntries xs ∧ out.st.kind = .numeric := by
  simp only [trainComp, hc, hv, bind, Except.bind, pure, Except.pure] at h
  simp only [Bool.false_eq_true, if_false, Except.ok.injEq] at h
  subst h
  exact ⟨rfl, rfl⟩

/-- `prop(y, n)`: accepted arguments give the pair (successes, trials); a constant number of
trials is broadcast to every row -/
theorem C15_prop_value (ss ts : List Entry) (i j : Bool) (v : Val)
    (h : proportionFn (.vec ss i) (.vec ts j) = .ok v) : v = .prop ss ts none := by
  simp only [proportionFn, bind, Except.bind, pure, Except.pure] at h
  repeat' split at h
  all_goals (first | (simp at h; done) | (simp only [Except.ok.injEq] at h; exact h.symm))

theorem C15_prop_constant (ss : List Entry) (i : Bool) (q : Rat) (v : Val)
    (h : proportionFn (.vec ss i) (.num q true) = .ok v) :
    v = .prop ss (List.replicate ss.length (some q)) (some q) := by
  simp only [proportionFn, bind, Except.bind, pure, Except.pure] at h
  repeat' split at h
  all_goals (first | (simp at h; done) | (simp only [Except.ok.injEq] at h; exact h.symm))

/-- a categorical response is always coded with the complete set of indicators: row `r` of the
coded data is the unit row of the level of observation `r` -/
theorem C15_full_rows (levels : List Level) (xs : List (Option Level)) (m : Matrix)
    (h : codeRows (treatmentFull levels) levels xs = .ok m) :
    m.length = xs.length ∧
    ∀ r (hr : r < xs.length) (hm : r < m.length), ∃ l i, xs[r] = some l ∧ indexOf? l levels = some i ∧
      m[r] = rowOfInts (unitRow levels.length i) := by
  induction xs generalizing m with
  | nil =>
    simp only [codeRows, List.mapM_nil, pure, Except.pure, Except.ok.injEq] at h
    subst h
    exact ⟨rfl, fun r hr => absurd hr (by simp)⟩
  | cons x xs ih =>
    simp only [codeRows, List.mapM_cons, bind, Except.bind, pure, Except.pure] at h
    split at h
    · simp at h
    · rename_i row hrow
      split at h
      · simp at h
      · rename_i rest hrest
        simp only [Except.ok.injEq] at h
        subst h
        have ih' := ih rest hrest
        refine ⟨by simp [ih'.1], ?_⟩
        intro r hr hm
        cases r with
        | zero =>
          cases x with
          | none => simp at hrow
          | some l =>
            simp only at hrow
            split at hrow
            · rename_i i hi
              simp only [pure, Except.pure, Except.ok.injEq] at hrow
              refine ⟨l, i, rfl, hi, ?_⟩
              simp only [List.getElem_cons_zero]
              rw [← hrow]
              have hlt := (indexOf?_some l levels i hi).1
              simp [treatmentFull, hlt]
            · simp at hrow
        | succ r =>
          have := ih'.2 r (by simpa using hr) (by simpa using hm)
          simpa using this

end FormulaeModel.C15
