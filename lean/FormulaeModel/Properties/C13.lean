import FormulaeModel.Proofs.Coding
import FormulaeModel.Generated.Tables
/-
C13 — property theorems.  Statements use only Model/Coding, Spec/C13 and Generated/Tables.

Every theorem is for an arbitrary list of levels (any length) and an arbitrary reference /
omitted level; nothing is bounded.

What is proved about "interchange": every admissible reduced coding, together with the constant,
is a basis of the space of functions of the level (`C13_treatment_basis`, `C13_sum_basis`,
`C13_basis_independent`, `C13_basis_spanning`), and every full coding spans it (`C13_full_span`);
hence two admissible codings of a factor generate the same factor space.  That equal factor spaces
give equal column spaces of the whole design matrix (products of factor spaces, term by term) is
the tensor-product argument of DESIGN.md, trusted mathematics, *tested* by harness/c13.py with
exact rational arithmetic.
-/
namespace FormulaeModel.C13
open FormulaeModel FormulaeModel.Coding FormulaeModel.Spec.C13 FormulaeModel.Proofs.Coding

/-! ### every reference / omitted level is reachable -/

/-- Naming the `r`-th of distinct levels selects index `r` (so the theorems below, stated for a
resolved index, cover every reference position), and the default is the first level. -/
theorem C13_every_reference (levels : List String) (hn : levels.Nodup) (r : Nat)
    (hr : r < levels.length) : referenceIndex? (some levels[r]) levels = some r := by
  have hm : levels[r] ∈ levels := List.getElem_mem hr
  have hi : levels.idxOf levels[r] < levels.length := List.idxOf_lt_length_iff.mpr hm
  have : levels.idxOf levels[r] = r := (List.getElem_inj hn).mp (List.getElem_idxOf hi)
  simp [referenceIndex?, hm, this]

theorem C13_every_omit (levels : List String) (hn : levels.Nodup) (o : Nat)
    (ho : o < levels.length) : omitIndex? (some levels[o]) levels = some o := by
  have hm : levels[o] ∈ levels := List.getElem_mem ho
  have hi : levels.idxOf levels[o] < levels.length := List.idxOf_lt_length_iff.mpr hm
  have : levels.idxOf levels[o] = o := (List.getElem_inj hn).mp (List.getElem_idxOf hi)
  simp [omitIndex?, hm, this]

/-! ### Treatment -/

/-- `Treatment(reference).code_without_intercept(levels)`, whenever the reference resolves to index
`r` (named level, or the first level by default; needs at least one level): `n` rows, `n - 1`
columns, reference row zero, the other rows the unit vectors in level order, labels = levels
without the reference, as many as columns. -/
theorem C13_treatment_shape (reference : Option String) (levels : List String) (r : Nat)
    (h : referenceIndex? reference levels = some r) :
    ∃ cm, Treatment.codeWithoutIntercept reference levels = .ok cm ∧
      treatmentReduced levels r cm.matrix cm.labels = true :=
  ⟨_, treatment_without_ok h,
    treatmentReduced_of_entries (entries_reducedClosed _ _ _) (referenceIndex_lt h)⟩

/-- A reference that is not a level (or no level at all) is refused, never replaced silently. -/
theorem C13_treatment_rejects (reference : Option String) (levels : List String)
    (h : referenceIndex? reference levels = none) :
    ∃ e, Treatment.codeWithoutIntercept reference levels = .error e :=
  treatment_without_err h

/-- Any matrix of that shape has full rank together with the constant: `treatInv n r` (rows
`e_ref` and `e_l - e_ref`, integer entries) is a two-sided inverse of `[1 | T]`, entry by entry. -/
theorem C13_treatment_basis (levels : List String) (r : Nat) (T : IMatrix) (labels : List String)
    (hr : r < levels.length) (h : treatmentReduced levels r T labels = true) :
    treatmentBasis levels.length r T = true ∧
    ∀ i k, i < levels.length → k < levels.length →
      mulEnt (treatInv levels.length r) (withConst T) levels.length i k = (if i = k then 1 else 0) ∧
      mulEnt (withConst T) (treatInv levels.length r) levels.length i k = (if i = k then 1 else 0) := by
  simp only [treatmentReduced, Bool.and_eq_true] at h
  have he := entries_of_rows h.1.1.1.1 h.1.1.1.2 h.1.1.2
  exact ⟨treatmentBasis_of_entries he hr,
    fun i k hi hk => ⟨treat_left he hr i k hi hk, treat_right he hr i k hi hk⟩⟩

/-- … in particular the matrix the model returns. -/
theorem C13_treatment_basis_model (reference : Option String) (levels : List String) (r : Nat)
    (h : referenceIndex? reference levels = some r) :
    ∃ cm, Treatment.codeWithoutIntercept reference levels = .ok cm ∧
      treatmentBasis levels.length r cm.matrix = true := by
  obtain ⟨cm, h1, h2⟩ := C13_treatment_shape reference levels r h
  exact ⟨cm, h1, (C13_treatment_basis levels r cm.matrix cm.labels (referenceIndex_lt h) h2).1⟩

/-! ### Sum -/

/-- `Sum(omit).code_without_intercept(levels)`, whenever the omitted level resolves to index `o`
(named level, or the last level by default): `n × (n-1)`, every column sums to zero over the
levels, the omitted row is all `-1`, the other rows are the unit vectors, labels = levels without
the omitted one. -/
theorem C13_sum_zero (omitted : Option String) (levels : List String) (o : Nat)
    (h : omitIndex? omitted levels = some o) :
    ∃ cm, Sum.codeWithoutIntercept omitted levels = .ok cm ∧
      sumReduced levels o cm.matrix cm.labels = true ∧
      ∀ j, j < levels.length - 1 → colSum cm.matrix levels.length j = 0 :=
  ⟨_, sum_without_ok h,
    sumReduced_of_entries (entries_reducedClosed _ _ _) (omitIndex_lt h),
    fun j hj => colSum_zero (entries_reducedClosed _ _ _) (omitIndex_lt h) j hj⟩

theorem C13_sum_rejects (omitted : Option String) (levels : List String)
    (h : omitIndex? omitted levels = none) :
    (∃ e, Sum.codeWithoutIntercept omitted levels = .error e) ∧
    (∃ e, Sum.codeWithIntercept omitted levels = .error e) :=
  ⟨sum_without_err h, sum_with_err h⟩

/-- Any matrix of that shape has full rank together with the constant: with
`A = sumInvNum n o` (rows `1ᵀ` and `n e_l - 1ᵀ`), `A · [1 | S] = n · I` and `[1 | S] · A = n · I`,
i.e. `(1/n) A` is the two-sided inverse. -/
theorem C13_sum_basis (levels : List String) (o : Nat) (S : IMatrix) (labels : List String)
    (ho : o < levels.length) (h : sumReduced levels o S labels = true) :
    sumBasis levels.length o S = true ∧
    ∀ i k, i < levels.length → k < levels.length →
      mulEnt (sumInvNum levels.length o) (withConst S) levels.length i k
        = (if i = k then (levels.length : Int) else 0) ∧
      mulEnt (withConst S) (sumInvNum levels.length o) levels.length i k
        = (if i = k then (levels.length : Int) else 0) := by
  simp only [sumReduced, Bool.and_eq_true] at h
  have he := entries_of_rows h.1.1.1.1.1 h.1.1.1.1.2 h.1.1.1.2
  exact ⟨sumBasis_of_entries he ho,
    fun i k hi hk => ⟨sum_left he ho i k hi hk, sum_right he ho i k hi hk⟩⟩

/-- The same over ℚ: the matrix with entries `sumInvNum[i][k] / n` is the inverse of `[1 | S]`. -/
theorem C13_sum_basis_rat (levels : List String) (o : Nat) (S : IMatrix) (labels : List String)
    (ho : o < levels.length) (h : sumReduced levels o S labels = true) :
    ∀ i k, i < levels.length → k < levels.length →
      sumToQ levels.length (fun m => ((ent (sumInvNum levels.length o) i m : Int) : Rat) / levels.length
          * (ent (withConst S) m k : Int)) = (if i = k then 1 else 0) ∧
      sumToQ levels.length (fun m => ((ent (withConst S) i m : Int) : Rat)
          * (((ent (sumInvNum levels.length o) m k : Int) : Rat) / levels.length))
        = (if i = k then 1 else 0) := by
  intro i k hi hk
  obtain ⟨h1, h2⟩ := (C13_sum_basis levels o S labels ho h).2 i k hi hk
  have hn : ((levels.length : Nat) : Rat) ≠ 0 := by
    have : levels.length ≠ 0 := by omega
    exact_mod_cast this
  unfold mulEnt at h1 h2
  have c1 := congrArg (fun z : Int => (z : Rat)) h1
  have c2 := congrArg (fun z : Int => (z : Rat)) h2
  simp only [sumToQ_cast, Rat.intCast_mul] at c1 c2
  constructor
  · rw [sumToQ_congr (g := fun m => (1 / (levels.length : Rat)) *
        (((ent (sumInvNum levels.length o) i m : Int) : Rat) * (ent (withConst S) m k : Int)))
        (fun m _ => by grind), sumToQ_mul_left, c1]
    by_cases hik : i = k
    · simp only [hik, if_true]; push_cast; grind
    · simp only [hik, if_false]; push_cast; grind
  · rw [sumToQ_congr (g := fun m => (1 / (levels.length : Rat)) *
        (((ent (withConst S) i m : Int) : Rat) * (ent (sumInvNum levels.length o) m k : Int)))
        (fun m _ => by grind), sumToQ_mul_left, c2]
    by_cases hik : i = k
    · simp only [hik, if_true]; push_cast; grind
    · simp only [hik, if_false]; push_cast; grind

/-! ### "full rank together with the constant", literally -/

/-- Linear independence over ℚ of the columns of `[1 | M]` for every admissible reduced coding
(treatment with any reference, sum with any omitted level). -/
theorem C13_basis_independent (levels : List String) (k : Nat) (M : IMatrix) (labels : List String)
    (hk : k < levels.length)
    (h : treatmentReduced levels k M labels = true ∨ sumReduced levels k M labels = true)
    (v : Nat → Rat)
    (hv : ∀ i, i < levels.length →
      sumToQ levels.length (fun c => (ent (withConst M) i c : Rat) * v c) = 0) :
    ∀ c, c < levels.length → v c = 0 := by
  rcases h with h | h
  · exact independent_of_left_inverse (s := 1) (by decide)
      (fun i c hi hc => ((C13_treatment_basis levels k M labels hk h).2 i c hi hc).1) v hv
  · have hn : (levels.length : Int) ≠ 0 := by omega
    exact independent_of_left_inverse hn
      (fun i c hi hc => ((C13_sum_basis levels k M labels hk h).2 i c hi hc).1) v hv

/-- … and they span: every function `f` of the level is `[1 | M] β` for explicit coefficients `β`
(`treatInv f`, resp. `(1/n) sumInvNum f`).  Together: a basis of the `n`-dimensional factor space. -/
theorem C13_basis_spanning (levels : List String) (k : Nat) (M : IMatrix) (labels : List String)
    (hk : k < levels.length)
    (h : treatmentReduced levels k M labels = true ∨ sumReduced levels k M labels = true)
    (f : Nat → Rat) :
    ∃ β : Nat → Rat, ∀ i, i < levels.length →
      sumToQ levels.length (fun c => (ent (withConst M) i c : Rat) * β c) = f i := by
  rcases h with h | h
  · exact ⟨_, spanning_of_right_inverse (s := 1) (by decide)
      (fun i c hi hc => ((C13_treatment_basis levels k M labels hk h).2 i c hi hc).2) f⟩
  · have hn : (levels.length : Int) ≠ 0 := by omega
    exact ⟨_, spanning_of_right_inverse hn
      (fun i c hi hc => ((C13_sum_basis levels k M labels hk h).2 i c hi hc).2) f⟩

/-- Interchange, the part that is proved: any two admissible reduced codings of the same levels
(treatment with any reference, sum with any omitted level) generate, together with the constant,
the same factor space — every column of `[1 | M₂]` is a rational combination of the columns of
`[1 | M₁]` (and, the statement being symmetric, conversely). -/
theorem C13_interchange_factor_space (levels : List String) (k₁ k₂ : Nat) (M₁ M₂ : IMatrix)
    (l₁ l₂ : List String) (hk₁ : k₁ < levels.length)
    (h₁ : treatmentReduced levels k₁ M₁ l₁ = true ∨ sumReduced levels k₁ M₁ l₁ = true)
    (_h₂ : treatmentReduced levels k₂ M₂ l₂ = true ∨ sumReduced levels k₂ M₂ l₂ = true)
    (c : Nat) :
    ∃ β : Nat → Rat, ∀ i, i < levels.length →
      sumToQ levels.length (fun a => (ent (withConst M₁) i a : Rat) * β a)
        = (ent (withConst M₂) i c : Rat) :=
  C13_basis_spanning levels k₁ M₁ l₁ hk₁ h₁ (fun i => (ent (withConst M₂) i c : Rat))

/-! ### full codings -/

/-- Full codings span all level indicators: the full treatment matrix *is* the matrix of
indicators (identity, labels = levels); the full sum matrix is `[1 | S]` with labels
`mean :: …`, and `[1 | S] · sumInvNum = n · I`, so each indicator is an explicit combination of
its columns. -/
theorem C13_full_span (levels : List String) :
    (∀ reference, ∃ cm, Treatment.codeWithIntercept reference levels = .ok cm ∧
        treatmentFull levels cm.matrix cm.labels = true) ∧
    (∀ omitted o, omitIndex? omitted levels = some o →
      ∃ cm red, Sum.codeWithIntercept omitted levels = .ok cm ∧
        Sum.codeWithoutIntercept omitted levels = .ok red ∧
        cm.matrix = withConst red.matrix ∧ cm.labels = "mean" :: red.labels ∧
        sumFull levels o cm.matrix cm.labels = true ∧
        spansIndicators levels.length o cm.matrix = true) := by
  constructor
  · intro reference
    exact ⟨_, rfl, by simp [treatmentFull, isIdentity_eye]⟩
  · intro omitted o h
    have he := entries_reducedClosed levels.length o (-1)
    exact ⟨_, _, sum_with_ok h, sum_without_ok h, rfl, rfl, sumFull_of_entries he (omitIndex_lt h),
      spansIndicators_of_entries he (omitIndex_lt h)⟩

/-! ### labels -/

/-- Labels name the levels of the columns (distinct levels): there are as many labels as
columns; a treatment column is the indicator of the level its label names; a sum column is `+1`
exactly at the level its label names (the first column of the full sum matrix is `mean`). -/
theorem C13_labels (levels : List String) (hn : levels.Nodup) :
    (∀ reference r, referenceIndex? reference levels = some r →
      ∃ cm, Treatment.codeWithoutIntercept reference levels = .ok cm ∧
        isShape cm.matrix levels.length cm.labels.length = true ∧
        indicatorOfLabel levels cm.labels cm.matrix = true) ∧
    (∀ reference, ∃ cm, Treatment.codeWithIntercept reference levels = .ok cm ∧
        isShape cm.matrix levels.length cm.labels.length = true ∧
        indicatorOfLabel levels cm.labels cm.matrix = true) ∧
    (∀ omitted o, omitIndex? omitted levels = some o →
      (∃ cm, Sum.codeWithoutIntercept omitted levels = .ok cm ∧
        isShape cm.matrix levels.length cm.labels.length = true ∧
        plusOneAtLabel levels cm.labels cm.matrix 0 = true) ∧
      (∃ cm, Sum.codeWithIntercept omitted levels = .ok cm ∧
        isShape cm.matrix levels.length cm.labels.length = true ∧
        cm.labels.head? = some "mean" ∧
        plusOneAtLabel levels cm.labels cm.matrix 1 = true)) := by
  refine ⟨?_, ?_, ?_⟩
  · intro reference r h
    have hr := referenceIndex_lt h
    have he := entries_reducedClosed levels.length r 0
    refine ⟨_, treatment_without_ok h, ?_, indicatorOfLabel_reduced hn he hr⟩
    simpa [List.length_eraseIdx, hr] using he.1
  · intro reference
    refine ⟨_, rfl, ?_, indicatorOfLabel_full levels hn⟩
    simp [eye, isShape_table]
  · intro omitted o h
    have ho := omitIndex_lt h
    have he := entries_reducedClosed levels.length o (-1)
    constructor
    · refine ⟨_, sum_without_ok h, ?_, plusOneAtLabel_reduced hn he ho⟩
      simpa [List.length_eraseIdx, ho] using he.1
    · refine ⟨_, sum_with_ok h, ?_, rfl, plusOneAtLabel_full hn he ho⟩
      have := isShape_withConst _ _ _ he.1
      simpa [List.length_eraseIdx, ho] using this

/-! ### `levels=`, default reference, default omitted level -/

/-- The first level is the default `Treatment` reference … -/
theorem C13_default_reference_first (a : String) (rest : List String) :
    Treatment.codeWithoutIntercept none (a :: rest)
      = Treatment.codeWithoutIntercept (some a) (a :: rest) := by
  rw [treatment_without_ok (r := 0) (by simp [referenceIndex?]),
    treatment_without_ok (r := 0) (by simp [referenceIndex?])]

/-- … and the last level the default `Sum` omitted level (distinct levels). -/
theorem C13_default_omit_last (levels : List String) (hn : levels.Nodup) (hne : levels ≠ []) :
    Sum.codeWithoutIntercept none levels
      = Sum.codeWithoutIntercept (some (levels.getLast hne)) levels := by
  have hl : 0 < levels.length := List.length_pos_iff.mpr hne
  have h1 : omitIndex? none levels = some (levels.length - 1) := by
    simp [omitIndex?, hne]
  have h2 : omitIndex? (some (levels.getLast hne)) levels = some (levels.length - 1) := by
    have := C13_every_omit levels hn (levels.length - 1) (by omega)
    rwa [← List.getLast_eq_getElem] at this
  rw [sum_without_ok h1, sum_without_ok h2]

/-- The specification holds of the model (`Spec.holds input (Model.run input)`): for every column,
every spelling of the factor (`g`, `C(g, contrast, levels)`, `T(g, ref, levels)`,
`S(g, omit, levels)`, `C(C(g, …), …)`) in the scope of the statement and every coding mode, either
the evaluation succeeds and the evaluated factor has exactly the levels (order!), contrast matrix,
labels and rows the spelling asks for, or it is refused and the named reference / omitted level
does not occur. -/
theorem C13_design (d : Data) (sp : Spelling) (spansIntercept : Bool)
    (hs : inScope d sp = true) (hg : aliasOnBox sp = false) :
    outcomeHolds d sp spansIntercept (evalSpelling d sp spansIntercept).toOption = true :=
  design_holds d sp spansIntercept hs hg

/-- `levels=` fixes the order: an evaluated `C(g, contrast, levels=lv)` has levels `lv` (row order
of the contrast matrix), its rows are the contrast rows of the observations' levels, and its
contrast matrix is the coding of `lv` — with the first of `lv` as the default treatment reference
and the last as the default omitted level (`codingHolds` resolves the defaults that way). -/
theorem C13_levels_order (d : Data) (contrast : ContrastArg) (lv : List String)
    (spansIntercept : Bool) (hs : arrangement d lv = true) (ev : Evaluated)
    (h : evalSpelling d (.c contrast (some lv)) spansIntercept = .ok ev) :
    ev.levels = lv ∧
    rowsFollowLevels lv d.values ev.contrast.matrix ev.value = true ∧
    codingHolds (meaning (.c contrast (some lv))).1 spansIntercept lv ev.contrast.matrix
      ev.contrast.labels = some true := by
  have hin : inScope d (.c contrast (some lv)) = true := by
    cases hd : d.orderedCategories <;> simp [inScope, explicitLevels, innerLevels, hs, hd]
  have := C13_design d (.c contrast (some lv)) spansIntercept hin rfl
  rw [h] at this
  simp only [Except.toOption, outcomeHolds, designHolds, Bool.and_eq_true, beq_iff_eq] at this
  obtain ⟨hsp, hd⟩ := this
  cases hc : codingHolds (meaning (.c contrast (some lv))).1 ev.spansIntercept ev.levels
      ev.contrast.matrix ev.contrast.labels with
  | none => simp [hc] at hd
  | some b =>
    simp only [hc, Option.map_some, Option.getD_some, Bool.and_eq_true] at hd
    have hlv : ev.levels = lv := by simpa [meaning, levelsOK] using hd.1.2
    rw [hlv] at hd hc
    rw [hsp] at hc
    exact ⟨hlv, hd.2, by rw [hc, hd.1.1]⟩

/-- Outside the scope (defect D13 of DESIGN.md, mirrored by the model; it concerns new data, C06):
a listed level that does not occur in the rows makes `C(g, levels=lv)` raise instead of giving a
zero column. -/
theorem C13_unobserved_level_refused (d : Data) (contrast : ContrastArg) (lv : List String)
    (x : String) (hx : x ∈ lv) (hnx : ¬ x ∈ d.values) (spansIntercept : Bool) :
    ∃ e, evalSpelling d (.c contrast (some lv)) spansIntercept = .error e := by
  have hss : sameSet lv d.values = false := by
    cases h : sameSet lv d.values with
    | false => rfl
    | true => exact absurd (((sameSet_iff _ _).mp h x).mp hx) hnx
  refine ⟨.levelsDiffer, ?_⟩
  obtain ⟨vals, ord⟩ := d
  cases ord <;> cases contrast <;>
    simp [evalSpelling, C, mkBox, hss, bind, Except.bind, throw, throwThe, MonadExceptOf.throw]

/-! ### aliases -/

/-- The full reading of "T(x, r) is C(x, Treatment(r)), S(x, o) is C(x, Sum(o))": for every first
argument, a column or the result of an inner `C(...)`. -/
def AliasesStatement : Prop :=
  ∀ (x : Arg) (a : Option String) (lv : Option (List String)),
    T x a lv = C x (.inst (.treatment a)) lv ∧ S x a lv = C x (.inst (.sum a)) lv

/-- Guard of the proved part: the first argument is a column. -/
def Arg.isData : Arg → Bool
  | .data _ => true
  | .box _ => false

/-- On columns the aliases give identical boxes; so do the class and the instance with default
arguments, and a missing contrast evaluates like `Treatment()`; a plain column evaluates like
`C(column)`. -/
theorem C13_aliases_partial (x : Arg) (hx : Arg.isData x = true) (a : Option String)
    (lv : Option (List String)) :
    T x a lv = C x (.inst (.treatment a)) lv ∧ S x a lv = C x (.inst (.sum a)) lv ∧
    C x (.cls .Treatment) lv = T x none lv ∧ C x (.cls .Sum) lv = S x none lv := by
  cases x with
  | data d => exact ⟨rfl, rfl, rfl, rfl⟩
  | box b => simp [Arg.isData] at hx

theorem C13_aliases_eval (d : Data) (lv : Option (List String)) (spansIntercept : Bool) :
    evalSpelling d (.c .none lv) spansIntercept = evalSpelling d (.t none lv) spansIntercept ∧
    (d.orderedCategories = none →
      evalSpelling d .plain spansIntercept = evalSpelling d (.c .none none) spansIntercept) :=
  ⟨C_default_eq_T d lv spansIntercept, variable_eq_C d spansIntercept⟩

/-- The full statement is false of the current code (finding KF-C13-D21): `T` / `S` applied to the
result of an inner `C(...)` raise `AttributeError` where `C` with the corresponding contrast
evaluates. -/
theorem C13_aliases_counterexample : ¬ AliasesStatement := by
  intro h
  have h1 := (h (.box ⟨["a", "b"], none, none⟩) (some "b") none).1
  have h2 : T (.box ⟨["a", "b"], none, none⟩) (some "b") none = .error .boxHasNoDtype := rfl
  have h3 : (C (.box ⟨["a", "b"], none, none⟩) (.inst (.treatment (some "b"))) none).toOption.isSome
      = true := by decide
  rw [← h1, h2] at h3
  exact absurd h3 (by decide)

/-- … and, on the evaluation level, the specification is false exactly there: every spelling in
the class `aliasOnBox` is refused although its option names an occurring level. -/
theorem C13_design_counterexample :
    outcomeHolds ⟨["a", "b", "a"], none⟩ (.tc .none none (some "b")) false
      (evalSpelling ⟨["a", "b", "a"], none⟩ (.tc .none none (some "b")) false).toOption = false ∧
    aliasOnBox (.tc .none none (some "b")) = true ∧
    inScope ⟨["a", "b", "a"], none⟩ (.tc .none none (some "b")) = true := by
  decide

theorem C13_alias_on_box_refused (d : Data) (sp : Spelling) (spansIntercept : Bool)
    (h : aliasOnBox sp = true) : ∃ e, evalSpelling d sp spansIntercept = .error e :=
  alias_on_box_refused d sp spansIntercept h

/-! ### ties to the source (regenerated on every run) -/

theorem tie_coding_shape : Generated.codingShapeOk = true := by decide
theorem tie_encodings : Generated.encodingsKeys = documentedEncodings := by decide
theorem tie_registry : Generated.codingRegistry = documentedRegistry := by decide
theorem tie_signatures : Generated.codingSignatures = documentedSignatures := by decide
theorem tie_default_reference :
    Generated.treatmentDefaultReference = documentedDefaultReference := by decide
theorem tie_default_omit : Generated.sumDefaultOmit = documentedDefaultOmit := by decide

/-! ### non-vacuity -/

-- every hypothesis above is satisfiable by non-trivial inputs
example : referenceIndex? (some "c") ["a", "b", "c", "d"] = some 2 := by decide
example : omitIndex? none ["a", "b", "c", "d"] = some 3 := by decide
example : (Treatment.codeWithoutIntercept (some "c") ["a", "b", "c", "d"]).toOption
    = some ⟨[[1, 0, 0], [0, 1, 0], [0, 0, 0], [0, 0, 1]], ["a", "b", "d"]⟩ := by decide
example : (Sum.codeWithIntercept (some "b") ["a", "b", "c"]).toOption
    = some ⟨[[1, 1, 0], [1, -1, -1], [1, 0, 1]], ["mean", "a", "c"]⟩ := by decide
example : treatmentReduced ["a", "b", "c"] 1 [[1, 0], [0, 0], [0, 1]] ["a", "c"] = true := by decide
example : sumReduced ["a", "b", "c"] 0 [[-1, -1], [1, 0], [0, 1]] ["b", "c"] = true := by decide
-- the predicates are not trivially true: a wrong reference row, a wrong omitted row, shifted labels
example : treatmentReduced ["a", "b", "c"] 1 [[1, 0], [0, 1], [0, 0]] ["a", "c"] = false := by decide
example : sumReduced ["a", "b", "c"] 0 [[-1, 0], [1, 0], [0, 1]] ["b", "c"] = false := by decide
example : treatmentBasis 3 1 [[1, 0], [0, 1], [0, 0]] = false := by decide
example : indicatorOfLabel ["a", "b", "c"] ["b", "c"] [[1, 0], [0, 0], [0, 1]] = false := by decide
example : inScope ⟨["b", "a", "c", "a"], none⟩ (.c (.cls .Sum) (some ["c", "a", "b"])) = true := by
  decide
example : arrangement ⟨["b", "a", "c", "a"], none⟩ ["c", "a", "b"] = true := by decide
example : inScope ⟨["b", "a"], some ["b", "a"]⟩ (.cc (.inst (.sum (some "a"))) none .none (some ["a", "b"]))
    = true := by decide
example : (evalSpelling ⟨["b", "a", "c", "a"], none⟩ (.c (.cls .Sum) (some ["c", "a", "b"])) false).toOption
    = some ⟨["c", "a", "b"], ⟨[[1, 0], [0, 1], [-1, -1]], ["c", "a"]⟩,
        [[-1, -1], [0, 1], [1, 0], [0, 1]], false⟩ := by decide
-- the scope excludes a listed level that does not occur (D13, mirrored by the model as ValueError)
example : inScope ⟨["b", "a"], none⟩ (.c .none (some ["a", "b", "c"])) = false ∧
    (match evalSpelling ⟨["b", "a"], none⟩ (.c .none (some ["a", "b", "c"])) false with
      | .error .levelsDiffer => true
      | _ => false) = true := by decide

end FormulaeModel.C13
