import FormulaeModel.Proofs.Indicator
import FormulaeModel.Properties.C13
import FormulaeModel.Proofs.CodingBridge
/-
Bridge between the two models of the contrast codings: the matrices the *evaluation model*
(Model/Design.lean, used by C04-C06, C08, C10, C15-C17) builds for treatment coding satisfy the
shape predicates of Spec/C13.lean, so every C13 theorem stated on those predicates (full rank with
the constant, explicit inverse, labels name the columns) applies to them.
-/
namespace FormulaeModel.Bridge
open FormulaeModel FormulaeModel.Design FormulaeModel.Spec.C13

theorem ent_reducedRows (n r i j : Nat) (hi : i < n) (hj : j < n - 1) :
    ent (reducedRows n r) i j = if i = (if j < r then j else j + 1) then 1 else 0 := by
  have h := reducedRows_entry n r i j hi hj
  have hlen : i < (reducedRows n r).length := by simp [reducedRows]; exact hi
  simp only [ent, List.getD_eq_getElem?_getD, List.getElem?_eq_getElem hlen, Option.getD_some, h]

theorem reducedRows_shape (n r : Nat) : isShape (reducedRows n r) n (n - 1) = true := by
  simp only [isShape, reducedRows, List.length_map, List.length_range, beq_self_eq_true, Bool.true_and,
    List.all_map, List.all_eq_true, Function.comp_apply, beq_iff_eq]
  intro i _
  split
  · simp [unitRow]
  · split <;> simp [unitRow]

/-- the reduced treatment matrix of the evaluation model has the C13 shape: reference row zero,
the other rows the unit vectors in level order, labels = levels without the reference -/
theorem design_treatmentReduced (levels : List String) (r : Nat) (hr : r < levels.length) :
    Spec.C13.treatmentReduced levels r (reducedRows levels.length r) (levels.eraseIdx r) = true := by
  simp only [Spec.C13.treatmentReduced, Bool.and_eq_true, beq_self_eq_true, and_true]
  refine ⟨⟨⟨reducedRows_shape _ _, ?_⟩, ?_⟩, ?_⟩
  · -- reference row is zero
    simp only [rowIsConst, allLt, List.all_eq_true, List.mem_range, beq_iff_eq]
    intro j hj
    rw [ent_reducedRows _ _ _ _ hr hj]
    split <;> (split <;> omega)
  · -- the other rows are unit vectors
    simp only [allLt, List.all_eq_true, List.mem_range, Bool.or_eq_true, beq_iff_eq]
    intro i hi
    by_cases hir : i = r
    · exact Or.inl hir
    · refine Or.inr ?_
      simp only [rowIsUnit, allLt, List.all_eq_true, List.mem_range, beq_iff_eq]
      intro j hj
      rw [ent_reducedRows _ _ _ _ hi hj]
      by_cases h1 : j < r <;> by_cases h2 : i < r <;> simp only [h1, h2, if_true, if_false] <;>
        (split <;> split <;> omega)
  · simp [List.length_eraseIdx, hr]

/-- hence the reduced treatment coding of the evaluation model has full rank together with the
constant (C13_treatment_basis applies): for every number of levels and every reference -/
theorem design_treatment_basis (levels : List String) (r : Nat) (hr : r < levels.length) :
    treatmentBasis levels.length r (reducedRows levels.length r) = true :=
  (C13.C13_treatment_basis levels r _ _ hr (design_treatmentReduced levels r hr)).1

/-! ### The two coding models are one function (`Proofs/CodingBridge.lean`)

`Bridge.code_agree` is the full statement: for both encodings, both `spans_intercept` values, every
option and every non-empty list of string levels the evaluation model's coding and the C13 model's
coding return the same matrix and labels, and fail in the same cases.  The corollaries below move
the C13 results onto the matrices the evaluation model (C04-C06, C08, C10, C15-C17) computes with. -/

/-- **Agreement of the coding models** (restated here so that it is audited as a property
theorem). -/
theorem coding_models_agree (c : Coding.Contrast) (full : Bool) (levels : List String)
    (hne : levels ≠ []) :
    viewD (Design.Contrast.code (toDesign c) full (levels.map Level.s)) =
      viewC (Coding.Contrast.code c full levels) :=
  code_agree c full levels hne

/-- premises satisfiable, result non-trivial: Sum coding of three levels omitting the second -/
example :
    viewD (Design.Contrast.code (toDesign (.sum (some "b"))) true (["a", "b", "c"].map Level.s)) =
      some ([[1, 1, 0], [1, -1, -1], [1, 0, 1]], ["mean", "a", "c"]) := by decide

/-- **Agreement for levels of any type** (integer levels of `C(k)` / integer grouping columns are
seen by the code through `str`): restated for the audit. -/
theorem coding_models_agree_levels (c : Design.Contrast) (full : Bool) (levels : List Level)
    (hne : levels ≠ [])
    (hinj : ∀ x, Design.Contrast.option c = some x → ∀ b, b ∈ levels → x.label = b.label → x = b) :
    viewD (Design.Contrast.code c full levels) =
      viewC (Coding.Contrast.code (toCoding c) full (levels.map Level.label)) :=
  code_agree_levels c full levels hne hinj

/-- the hypothesis cannot be dropped: the option `"2"` (a string) is no level of `[1, 2, 3]`
for the evaluation model, but `str` makes it one. -/
theorem coding_models_agree_levels_counterexample :
    viewD (Design.Contrast.code (.treatment (some (.s "2"))) false [.n 1, .n 2, .n 3]) = none ∧
    viewC (Coding.Contrast.code (toCoding (.treatment (some (.s "2")))) false
      ([Level.n 1, .n 2, .n 3].map Level.label)) ≠ none := by
  decide

example : viewD (Design.Contrast.code (.sum (some (.n 2))) false [.n 1, .n 2, .n 3]) =
    some ([[1, 0], [-1, -1], [0, 1]], ["1", "3"]) := by decide

theorem transfer {d : Design.M Design.ContrastMatrix} {c : Except Coding.Err Coding.ContrastMatrix}
    {cm : Coding.ContrastMatrix} (h : viewD d = viewC c) (hc : c = .ok cm) :
    ∃ cm', d = .ok cm' ∧ cm'.rows = cm.matrix ∧ cm'.labels = cm.labels := by
  subst hc
  cases d with
  | error e => simp [viewD, viewC] at h
  | ok cm' =>
    simp only [viewD, viewC, Option.some.injEq, Prod.mk.injEq] at h
    exact ⟨cm', rfl, h.1, h.2⟩

/-- The reduced Sum coding *of the evaluation model* has the C13 shape and every column sums to
zero, for every omitted level that is a level. -/
theorem design_sum_zero (omitted : Option String) (levels : List String) (o : Nat)
    (h : omitIndex? omitted levels = some o) :
    ∃ cm, Design.sumReduced (omitted.map Level.s) (levels.map Level.s) = .ok cm ∧
      Spec.C13.sumReduced levels o cm.rows cm.labels = true ∧
      ∀ j, j < levels.length - 1 → colSum cm.rows levels.length j = 0 := by
  obtain ⟨cm, hc, hs, hz⟩ := C13.C13_sum_zero omitted levels o h
  have hne : levels ≠ [] := by
    intro e; subst e; have := Proofs.Coding.omitIndex_lt h; simp at this
  obtain ⟨cm', hd, hr, hl⟩ := transfer (sumReduced_agree omitted levels hne) hc
  exact ⟨cm', hd, by rw [hr, hl]; exact hs, by rw [hr]; exact hz⟩

/-- … and is a basis together with the constant (C13_sum_basis applies to it). -/
theorem design_sum_basis (omitted : Option String) (levels : List String) (o : Nat)
    (h : omitIndex? omitted levels = some o) :
    ∃ cm, Design.sumReduced (omitted.map Level.s) (levels.map Level.s) = .ok cm ∧
      sumBasis levels.length o cm.rows = true := by
  obtain ⟨cm, hd, hs, _⟩ := design_sum_zero omitted levels o h
  exact ⟨cm, hd, (C13.C13_sum_basis levels o cm.rows cm.labels (Proofs.Coding.omitIndex_lt h) hs).1⟩

/-- The reduced Treatment coding of the evaluation model, for every reference that is a level:
C13 shape and basis with the constant. -/
theorem design_treatment_model (reference : Option String) (levels : List String) (r : Nat)
    (h : referenceIndex? reference levels = some r) :
    ∃ cm, Design.treatmentReduced (reference.map Level.s) (levels.map Level.s) = .ok cm ∧
      Spec.C13.treatmentReduced levels r cm.rows cm.labels = true ∧
      treatmentBasis levels.length r cm.rows = true := by
  obtain ⟨cm, hc, hs⟩ := C13.C13_treatment_shape reference levels r h
  have hne : levels ≠ [] := by
    intro e; subst e; have := Proofs.Coding.referenceIndex_lt h; simp at this
  obtain ⟨cm', hd, hr, hl⟩ := transfer (treatmentReduced_agree reference levels hne) hc
  refine ⟨cm', hd, by rw [hr, hl]; exact hs, ?_⟩
  rw [hr]
  exact (C13.C13_treatment_basis levels r cm.matrix cm.labels (Proofs.Coding.referenceIndex_lt h) hs).1

/-- An option naming no level is refused by the evaluation model too. -/
theorem design_rejects (levels : List String) (hne : levels ≠ []) :
    (∀ reference, referenceIndex? reference levels = none →
      ∃ e, Design.treatmentReduced (reference.map Level.s) (levels.map Level.s) = .error e) ∧
    (∀ omitted, omitIndex? omitted levels = none →
      ∃ e, Design.sumReduced (omitted.map Level.s) (levels.map Level.s) = .error e) := by
  constructor
  · intro reference h
    obtain ⟨e, he⟩ := C13.C13_treatment_rejects reference levels h
    have := treatmentReduced_agree reference levels hne
    rw [he] at this
    cases hd : Design.treatmentReduced (reference.map Level.s) (levels.map Level.s) with
    | error e' => exact ⟨e', rfl⟩
    | ok cm => rw [hd] at this; simp [viewD, viewC] at this
  · intro omitted h
    obtain ⟨⟨e, he⟩, _⟩ := C13.C13_sum_rejects omitted levels h
    have := sumReduced_agree omitted levels hne
    rw [he] at this
    cases hd : Design.sumReduced (omitted.map Level.s) (levels.map Level.s) with
    | error e' => exact ⟨e', rfl⟩
    | ok cm => rw [hd] at this; simp [viewD, viewC] at this

end FormulaeModel.Bridge
