import FormulaeModel.Proofs.Indicator
import FormulaeModel.Properties.C13
/-
Bridge between the two models of the contrast codings: the matrices the *evaluation model*
(Model/Design.lean, used by C04-C06, C08, C10, C15-C17) builds for treatment coding satisfy the
shape predicates of Spec/C13.lean, so every C13 theorem stated on those predicates (full rank with
the constant, explicit inverse, labels name the columns) applies to them.
-/
namespace FormulaeModel.Bridge
open FormulaeModel FormulaeModel.Design FormulaeModel.Spec.C13

theorem ent_reducedRows (n r i j : Nat) (hi : i < n) (hj : j < n - 1) :
    ent (reducedRows n r) i j = if i = (if j < r then j else j + 1) then 1 else 0 := by
  have h := reducedRows_entry n r i j hi hj
  have hlen : i < (reducedRows n r).length := by simp [reducedRows]; exact hi
  simp only [ent, List.getD_eq_getElem?_getD, List.getElem?_eq_getElem hlen, Option.getD_some, h]

theorem reducedRows_shape (n r : Nat) : isShape (reducedRows n r) n (n - 1) = true := by
  simp only [isShape, reducedRows, List.length_map, List.length_range, beq_self_eq_true, Bool.true_and,
    List.all_map, List.all_eq_true, Function.comp_apply, beq_iff_eq]
  intro i _
  split
  · simp [unitRow]
  · split <;> simp [unitRow]

/-- the reduced treatment matrix of the evaluation model has the C13 shape: reference row zero,
the other rows the unit vectors in level order, labels = levels without the reference -/
theorem design_treatmentReduced (levels : List String) (r : Nat) (hr : r < levels.length) :
    Spec.C13.treatmentReduced levels r (reducedRows levels.length r) (levels.eraseIdx r) = true := by
  simp only [Spec.C13.treatmentReduced, Bool.and_eq_true, beq_self_eq_true, and_true]
  refine ⟨⟨⟨reducedRows_shape _ _, ?_⟩, ?_⟩, ?_⟩
  · -- reference row is zero
    simp only [rowIsConst, allLt, List.all_eq_true, List.mem_range, beq_iff_eq]
    intro j hj
    rw [ent_reducedRows _ _ _ _ hr hj]
    split <;> (split <;> omega)
  · -- the other rows are unit vectors
    simp only [allLt, List.all_eq_true, List.mem_range, Bool.or_eq_true, beq_iff_eq]
    intro i hi
    by_cases hir : i = r
    · exact Or.inl hir
    · refine Or.inr ?_
      simp only [rowIsUnit, allLt, List.all_eq_true, List.mem_range, beq_iff_eq]
      intro j hj
      rw [ent_reducedRows _ _ _ _ hi hj]
      by_cases h1 : j < r <;> by_cases h2 : i < r <;> simp only [h1, h2, if_true, if_false] <;>
        (split <;> split <;> omega)
  · simp [List.length_eraseIdx, hr]

/-- hence the reduced treatment coding of the evaluation model has full rank together with the
constant (C13_treatment_basis applies): for every number of levels and every reference -/
theorem design_treatment_basis (levels : List String) (r : Nat) (hr : r < levels.length) :
    treatmentBasis levels.length r (reducedRows levels.length r) = true :=
  (C13.C13_treatment_basis levels r _ _ hr (design_treatmentReduced levels r hr)).1

end FormulaeModel.Bridge
