import FormulaeModel.Generated.Tables
import FormulaeModel.Spec.C01
/-
The tie between the tables regenerated from /repo's working tree (Generated/Tables.lean) and the
tables the specifications are written against.  Every statement is closed by `decide`, so a
change of a table in the source breaks this file.
-/
namespace FormulaeModel.Tie
open FormulaeModel

theorem parser_shape : Generated.parserShapeOk = true := by decide
theorem parser_table : Generated.parserTable = Spec.C01.documentedTable := by decide
theorem parser_table_wf : Spec.C01.TableWF Generated.parserTable = true := by decide

end FormulaeModel.Tie
