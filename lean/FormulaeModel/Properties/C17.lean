import FormulaeModel.Spec.C17
/-
C17 — the slice bookkeeping of `evaluate` and of `GroupEffectsMatrix.evaluate_new_data` (the same
running start/delta computation, on possibly widened widths) satisfies the specification for
every list of terms and widths; stacking gives one row per observation and exactly the covered
columns.
-/
namespace FormulaeModel.C17
open FormulaeModel FormulaeModel.Design FormulaeModel.Spec.C17

/-- For every list of (term, width) and every start column, the computed slices follow the term
order, are contiguous from `start` and end at `start + Σ widths`. -/
theorem C17_slices_from (ws : List (String × Nat)) (start : Nat) :
    slicesFrom (slices ws start) (ws.map (·.1)) start (start + (ws.map (·.2)).sum) = true := by
  induction ws generalizing start with
  | nil => simp [slices, slicesFrom]
  | cons w ws ih =>
    obtain ⟨name, width⟩ := w
    simp only [slices, List.map_cons, List.sum_cons, slicesFrom, beq_self_eq_true, Bool.true_and,
      Bool.and_eq_true, decide_eq_true_eq]
    refine ⟨by omega, ?_⟩
    have := ih (start + width)
    rwa [Nat.add_assoc] at this

/-- `evaluate`: slices start at zero and exactly cover the columns. -/
theorem C17_slices (ws : List (String × Nat)) :
    slicesOk (slices ws 0) (ws.map (·.1)) (ws.map (·.2)).sum = true := by
  have := C17_slices_from ws 0
  simpa [slicesOk] using this

/-- every slice has the width of its term -/
theorem C17_slice_widths (ws : List (String × Nat)) (start : Nat) :
    (slices ws start).map (fun s => s.stop - s.start) = ws.map (·.2) := by
  induction ws generalizing start with
  | nil => simp [slices]
  | cons w ws ih =>
    obtain ⟨name, width⟩ := w
    simp [slices, ih]

/-- indexing by a term name returns that term's slice when term names are distinct … -/
theorem C17_getitem_known (ws : List (String × Nat)) (start : Nat) (name : String)
    (h : name ∈ ws.map (·.1)) : ∃ s, getItem (slices ws start) name = some s ∧ s.name = name := by
  induction ws generalizing start with
  | nil => simp at h
  | cons w ws ih =>
    obtain ⟨n, width⟩ := w
    by_cases hn : n = name
    · exact ⟨⟨n, start, start + width⟩, by simp [getItem, slices, hn], hn⟩
    · have h' : name ∈ ws.map (·.1) := by
        simp only [List.map_cons, List.mem_cons] at h
        rcases h with h | h
        · exact absurd h.symm hn
        · exact h
      obtain ⟨s, hs, hsn⟩ := ih (start + width) h'
      refine ⟨s, ?_, hsn⟩
      simp only [getItem, slices, List.find?_cons]
      have : (n == name) = false := by simpa using hn
      simp only [this]
      exact hs

/-- … and an unknown name is refused -/
theorem C17_getitem_unknown (ws : List (String × Nat)) (start : Nat) (name : String)
    (h : name ∉ ws.map (·.1)) : getItem (slices ws start) name = none := by
  induction ws generalizing start with
  | nil => simp [getItem, slices]
  | cons w ws ih =>
    obtain ⟨n, width⟩ := w
    simp only [List.map_cons, List.mem_cons, not_or] at h
    have : (n == name) = false := by
      simp only [beq_eq_false_iff_ne, ne_eq]
      exact fun hh => h.1 hh.symm
    simp only [getItem, slices, List.find?_cons, this]
    exact ih (start + width) h.2

/-- column stacking keeps one row per observation -/
theorem C17_hstack_rows (ms : List Matrix) (n : Nat) (h : ∀ m ∈ ms, m.length = n) :
    (hstack ms n).length = n := by
  induction ms with
  | nil => simp [hstack]
  | cons m ms ih =>
    simp only [hstack, List.length_zipWith]
    have h1 := h m (by simp)
    have h2 := ih (fun m' hm' => h m' (by simp [hm']))
    omega

/-- every row of the stacked matrix has exactly the sum of the parts' widths -/
theorem C17_hstack_widths (ms : List Matrix) (ws : List Nat) (n : Nat)
    (hlen : ms.length = ws.length)
    (h : ∀ i (hi : i < ms.length), ms[i].length = n ∧ ∀ r ∈ ms[i], r.length = ws[i]'(by omega)) :
    ∀ r ∈ hstack ms n, r.length = ws.sum := by
  induction ms generalizing ws with
  | nil =>
    cases ws with
    | nil => intro r hr; simp [hstack] at hr; simp [hr]
    | cons => simp at hlen
  | cons m ms ih =>
    cases ws with
    | nil => simp at hlen
    | cons w ws =>
      intro r hr
      simp only [hstack] at hr
      rw [List.mem_iff_getElem] at hr
      obtain ⟨k, hk, rfl⟩ := hr
      simp only [List.getElem_zipWith, List.length_append, List.sum_cons]
      have h0 := h 0 (by simp)
      have hrest : ∀ r ∈ hstack ms n, r.length = ws.sum := by
        apply ih ws (by simpa using hlen)
        intro i hi
        have := h (i + 1) (by simp; omega)
        simpa using this
      simp only [List.length_zipWith] at hk
      have a1 : (m[k]'(by omega)).length = w := by
        have := h0.2 (m[k]'(by omega)) (List.getElem_mem _)
        simpa using this
      have a2 := hrest ((hstack ms n)[k]'(by omega)) (List.getElem_mem _)
      omega

/-- composition: the slices of any stacked matrix of the evaluation model (training, or a group
matrix re-stacked with widened blocks after `evaluate_new_data`) satisfy the specification, with
the column count being the sum of the blocks' widths -/
theorem C17_stack_slices (n : Nat) (parts : List (String × Matrix × Option (List String))) :
    slicesOk (stack n parts).slices (parts.map (·.1)) ((parts.map (fun p => p.2.1.ncols)).sum) = true := by
  have := C17_slices (parts.map (fun p => (p.1, p.2.1.ncols)))
  simpa [stack, List.map_map, Function.comp_def] using this

/-- … and it has one row per observation when every block has -/
theorem C17_stack_rows (n : Nat) (parts : List (String × Matrix × Option (List String)))
    (h : ∀ p ∈ parts, p.2.1.length = n) : (stack n parts).matrix.length = n := by
  apply C17_hstack_rows
  intro m hm
  simp only [List.mem_map] at hm
  obtain ⟨p, hp, rfl⟩ := hm
  exact h p hp

-- non-vacuity
example : slicesOk (slices [("Intercept", 1), ("f", 2), ("f:x", 3)] 0) ["Intercept", "f", "f:x"] 6 = true := by
  decide

end FormulaeModel.C17
