import FormulaeModel.Spec.C17
import FormulaeModel.Proofs.ShapeStack
import FormulaeModel.Proofs.ShapeExamples
/-
C17 — the slice bookkeeping of `evaluate` and of `GroupEffectsMatrix.evaluate_new_data` (the same
running start/delta computation, on possibly widened widths) satisfies the specification for
every list of terms and widths; stacking gives one row per observation and exactly the covered
columns.
-/
namespace FormulaeModel.C17
open FormulaeModel FormulaeModel.Design FormulaeModel.Spec.C17

/-- For every list of (term, width) and every start column, the computed slices follow the term
order, are contiguous from `start` and end at `start + Σ widths`. -/
theorem C17_slices_from (ws : List (String × Nat)) (start : Nat) :
    slicesFrom (slices ws start) (ws.map (·.1)) start (start + (ws.map (·.2)).sum) = true := by
  induction ws generalizing start with
  | nil => simp [slices, slicesFrom]
  | cons w ws ih =>
    obtain ⟨name, width⟩ := w
    simp only [slices, List.map_cons, List.sum_cons, slicesFrom, beq_self_eq_true, Bool.true_and,
      Bool.and_eq_true, decide_eq_true_eq]
    refine ⟨by omega, ?_⟩
    have := ih (start + width)
    rwa [Nat.add_assoc] at this

/-- `evaluate`: slices start at zero and exactly cover the columns. -/
theorem C17_slices (ws : List (String × Nat)) :
    slicesOk (slices ws 0) (ws.map (·.1)) (ws.map (·.2)).sum = true := by
  have := C17_slices_from ws 0
  simpa [slicesOk] using this

/-- every slice has the width of its term -/
theorem C17_slice_widths (ws : List (String × Nat)) (start : Nat) :
    (slices ws start).map (fun s => s.stop - s.start) = ws.map (·.2) := by
  induction ws generalizing start with
  | nil => simp [slices]
  | cons w ws ih =>
    obtain ⟨name, width⟩ := w
    simp [slices, ih]

/-- indexing by a term name returns that term's slice when term names are distinct … -/
theorem C17_getitem_known (ws : List (String × Nat)) (start : Nat) (name : String)
    (h : name ∈ ws.map (·.1)) : ∃ s, getItem (slices ws start) name = some s ∧ s.name = name := by
  induction ws generalizing start with
  | nil => simp at h
  | cons w ws ih =>
    obtain ⟨n, width⟩ := w
    by_cases hn : n = name
    · exact ⟨⟨n, start, start + width⟩, by simp [getItem, slices, hn], hn⟩
    · have h' : name ∈ ws.map (·.1) := by
        simp only [List.map_cons, List.mem_cons] at h
        rcases h with h | h
        · exact absurd h.symm hn
        · exact h
      obtain ⟨s, hs, hsn⟩ := ih (start + width) h'
      refine ⟨s, ?_, hsn⟩
      simp only [getItem, slices, List.find?_cons]
      have : (n == name) = false := by simpa using hn
      simp only [this]
      exact hs

/-- … and an unknown name is refused -/
theorem C17_getitem_unknown (ws : List (String × Nat)) (start : Nat) (name : String)
    (h : name ∉ ws.map (·.1)) : getItem (slices ws start) name = none := by
  induction ws generalizing start with
  | nil => simp [getItem, slices]
  | cons w ws ih =>
    obtain ⟨n, width⟩ := w
    simp only [List.map_cons, List.mem_cons, not_or] at h
    have : (n == name) = false := by
      simp only [beq_eq_false_iff_ne, ne_eq]
      exact fun hh => h.1 hh.symm
    simp only [getItem, slices, List.find?_cons, this]
    exact ih (start + width) h.2

/-- column stacking keeps one row per observation -/
theorem C17_hstack_rows (ms : List Matrix) (n : Nat) (h : ∀ m ∈ ms, m.length = n) :
    (hstack ms n).length = n := by
  induction ms with
  | nil => simp [hstack]
  | cons m ms ih =>
    simp only [hstack, List.length_zipWith]
    have h1 := h m (by simp)
    have h2 := ih (fun m' hm' => h m' (by simp [hm']))
    omega

/-- every row of the stacked matrix has exactly the sum of the parts' widths -/
theorem C17_hstack_widths (ms : List Matrix) (ws : List Nat) (n : Nat)
    (hlen : ms.length = ws.length)
    (h : ∀ i (hi : i < ms.length), ms[i].length = n ∧ ∀ r ∈ ms[i], r.length = ws[i]'(by omega)) :
    ∀ r ∈ hstack ms n, r.length = ws.sum := by
  induction ms generalizing ws with
  | nil =>
    cases ws with
    | nil => intro r hr; simp [hstack] at hr; simp [hr]
    | cons => simp at hlen
  | cons m ms ih =>
    cases ws with
    | nil => simp at hlen
    | cons w ws =>
      intro r hr
      simp only [hstack] at hr
      rw [List.mem_iff_getElem] at hr
      obtain ⟨k, hk, rfl⟩ := hr
      simp only [List.getElem_zipWith, List.length_append, List.sum_cons]
      have h0 := h 0 (by simp)
      have hrest : ∀ r ∈ hstack ms n, r.length = ws.sum := by
        apply ih ws (by simpa using hlen)
        intro i hi
        have := h (i + 1) (by simp; omega)
        simpa using this
      simp only [List.length_zipWith] at hk
      have a1 : (m[k]'(by omega)).length = w := by
        have := h0.2 (m[k]'(by omega)) (List.getElem_mem _)
        simpa using this
      have a2 := hrest ((hstack ms n)[k]'(by omega)) (List.getElem_mem _)
      omega

/-- composition: the slices of any stacked matrix of the evaluation model (training, or a group
matrix re-stacked with widened blocks after `evaluate_new_data`) satisfy the specification, with
the column count being the sum of the blocks' widths -/
theorem C17_stack_slices (n : Nat) (parts : List (String × Matrix × Option (List String))) :
    slicesOk (stack n parts).slices (parts.map (·.1)) ((parts.map (fun p => p.2.1.ncols)).sum) = true := by
  have := C17_slices (parts.map (fun p => (p.1, p.2.1.ncols)))
  simpa [stack, List.map_map, Function.comp_def] using this

/-- … and it has one row per observation when every block has -/
theorem C17_stack_rows (n : Nat) (parts : List (String × Matrix × Option (List String)))
    (h : ∀ p ∈ parts, p.2.1.length = n) : (stack n parts).matrix.length = n := by
  apply C17_hstack_rows
  intro m hm
  simp only [List.mem_map] at hm
  obtain ⟨p, hp, rfl⟩ := hm
  exact h p hp

-- non-vacuity
example : slicesOk (slices [("Intercept", 1), ("f", 2), ("f:x", 3)] 0) ["Intercept", "f", "f:x"] 6 = true := by
  decide


/-! ### design-level shape theorems: the evaluation model's own top-level functions

All of them are named `_partial`: the guard on the caller's namespace (`Env.namesSized` /
`Env.namesScalar`) excludes inputs the code accepts, and outside it the statements are false
(`C17_trainComp_rows_counterexample`, `C17_design_rows_counterexample` at the end of this file).

Hypotheses used below (all decidable, all explicit):
* `env.frame.wellFormed`: the data frame is rectangular (every column has `nrows` cells);
* `env.namesSized n`: every vector-like value bound in the caller's namespace has `n` entries
  (`env.namesScalar`, "the namespace holds scalars / lists of levels / encodings only", implies it
  for every `n`: `Env.namesSized_of_scalar`);
* a term has at least one component (`spec.comps ≠ []`, `GroupSpec.nonempty`,
  `Built.termsNonempty`): `reduceMatrices []` is the matrix without rows. -/

open FormulaeModel.Pipeline in
/-- `set_type` + `set_data` of one component (Variable or Call, any expression, any flags): one row
per row of the data frame. -/
theorem C17_trainComp_rows_partial (env : Env) (name : String) (e : Expr) (forced isResponse full : Bool)
    (out : CompOut) (hwf : env.frame.wellFormed = true)
    (hn : env.namesSized env.frame.nrows = true)
    (h : trainComp env name e forced isResponse full = .ok out) :
    out.value.length = env.frame.nrows :=
  (trainComp_shape env hwf hn name e forced isResponse full out h).rows

/-- `Term.set_data`: one row per row of the data frame. -/
theorem C17_trainTerm_rows_partial (env : Env) (table : List (String × Expr)) (spec : TermSpec)
    (forced isResponse : Bool) (out : TermOut) (hwf : env.frame.wellFormed = true)
    (hn : env.namesSized env.frame.nrows = true) (hne : spec.comps ≠ [])
    (h : trainTerm env table spec forced isResponse = .ok out) :
    out.data.length = env.frame.nrows :=
  (trainTerm_shape env hwf hn table spec forced isResponse out h).rows
    (fun h0 => hne (List.length_eq_zero_iff.1 h0))

/-- `GroupSpecificTerm.set_data`: one row per row of the data frame. -/
theorem C17_trainGroup_rows_partial (env : Env) (table : List (String × Expr)) (spec : GroupSpec)
    (out : GroupOut) (hwf : env.frame.wellFormed = true)
    (hn : env.namesSized env.frame.nrows = true) (hne : spec.nonempty = true)
    (h : trainGroup env table spec = .ok out) : out.data.length = env.frame.nrows :=
  (trainGroup_shape env hwf hn table spec out h).rows hne

/-- `Term.eval_new_data` of a trained term on ANY later rectangular frame (any unseen-level
policy): one row per row of the new frame, and every row as wide as the training matrix. -/
theorem C17_newTerm_shape_partial (env env' : Env) (table : List (String × Expr)) (spec : TermSpec)
    (forced isResponse : Bool) (out : TermOut) (mode : UnseenMode) (m : Matrix) (w : Bool)
    (hwf : env.frame.wellFormed = true) (hn : env.namesSized env.frame.nrows = true)
    (hwf' : env'.frame.wellFormed = true) (hn' : env'.namesSized env'.frame.nrows = true)
    (hne : spec.comps ≠ [])
    (h : trainTerm env table spec forced isResponse = .ok out)
    (h' : newTerm out.st env' mode = .ok (m, w)) :
    m.length = env'.frame.nrows ∧
      ∀ ls, out.labels = some ls → (∀ r ∈ m, r.length = ls.length) ∧ ∀ r ∈ out.data, r.length = ls.length := by
  have hs := trainTerm_shape env hwf hn table spec forced isResponse out h
  obtain ⟨h1, h2⟩ := newTerm_shape out.st hs.state env' hwf' hn' mode m w h'
  refine ⟨h1 ?_, ?_⟩
  · intro hnil
    have := hs.ncomps
    rw [hnil] at this
    exact hne (List.length_eq_zero_iff.1 this.symm)
  · intro ls hls
    obtain ⟨a, b⟩ := hs.cols ls hls
    exact ⟨by rw [b]; exact h2, a⟩

/-- `GroupSpecificTerm.eval_new_data` on ANY later rectangular frame: one row per row of the new
frame; the block is as wide as at training time when every new row belongs to a remembered group,
and wider by exactly the width of the effect (`fl.length * el.length + el.length`) when a new
group occurs (`ji` is the indicator matrix of the grouping factor on the new frame; a row of zeros
is a row that matches no remembered group). -/
theorem C17_newGroup_shape_partial (env env' : Env) (table : List (String × Expr)) (spec : GroupSpec)
    (out : GroupOut) (mode : UnseenMode) (m : Matrix) (w : Bool)
    (hwf : env.frame.wellFormed = true) (hn : env.namesSized env.frame.nrows = true)
    (hwf' : env'.frame.wellFormed = true) (hn' : env'.namesSized env'.frame.nrows = true)
    (hne : spec.nonempty = true)
    (h : trainGroup env table spec = .ok out)
    (h' : newGroup out.st env' mode = .ok (m, w)) :
    m.length = env'.frame.nrows ∧
    ∃ ji w2, newTerm out.st.factor env' mode = .ok (ji, w2) ∧
      ∀ ls, out.labels = some ls →
        (∀ r ∈ out.data, r.length = ls.length) ∧
        (ji.any isZeroRow = false → ∀ r ∈ m, r.length = ls.length) ∧
        (ji.any isZeroRow = true → ∀ r ∈ m, r.length = ls.length + out.st.effectWidth) := by
  have hs := trainGroup_shape env hwf hn table spec out h
  obtain ⟨h1, ji, w2, hji, ha, hb⟩ :=
    newGroup_shape out.st hs.state (by rw [hs.nonempty]; exact hne) env' hwf' hn' mode m w h'
  refine ⟨h1, ji, w2, hji, ?_⟩
  intro ls hls
  obtain ⟨c, d⟩ := hs.cols ls hls
  refine ⟨c, ?_, ?_⟩
  · intro hz; rw [d]; exact ha hz
  · intro hz
    have := hb hz
    rw [Nat.add_mul, Nat.one_mul, ← d] at this
    exact this

open FormulaeModel.Pipeline in
/-- The whole of `design_matrices`, for every formula, data frame, caller's namespace and
`na_action`: the response, every common term and every group-specific term have one row per row
of the frame left by the missing-value step, and that frame is rectangular. -/
theorem C17_design_rows_partial (table : Parser.Table) (ops : Resolver.OpTable) (actions : List String)
    (formula : String) (env : Env) (naAction : String) (built : Built)
    (hwf : env.frame.wellFormed = true) (hn : env.namesScalar = true)
    (h : designMatrices table ops actions formula env naAction = .ok built)
    (hne : built.termsNonempty = true) :
    built.frame.wellFormed = true ∧
    (∀ out, built.response = some out → out.data.length = built.frame.nrows) ∧
    (∀ p ∈ built.common, ∀ out, p.2 = some out → out.data.length = built.frame.nrows) ∧
    (∀ g ∈ built.group, g.data.length = built.frame.nrows) := by
  have hs := designMatrices_shape table ops actions formula env naAction built hwf hn h
  simp only [Built.termsNonempty, Bool.and_eq_true, List.all_eq_true] at hne
  refine ⟨hs.frame, ?_, ?_, ?_⟩
  · intro out hout
    obtain ⟨k, hk⟩ := hs.response out hout
    apply hk.rows
    intro h0
    have h1 := hne.1
    rw [hout] at h1
    have := hk.ncomps
    rw [h0] at this
    simp [List.length_eq_zero_iff.1 this] at h1
  · intro p hp out hout
    obtain ⟨k, hk, ho⟩ := (hs.common p hp).2 out hout
    exact ho.rows hk
  · intro g hg
    obtain ⟨ne, hgs⟩ := hs.group g hg
    apply hgs.rows
    rw [← hgs.nonempty]
    exact hne.2 g hg

open FormulaeModel.Pipeline in
/-- The stacked common-effects matrix of a design (`CommonEffectsMatrix`, as the observer
`Driver.C04.commonStack` builds it from what `design_matrices` returned): the per-term slices are
contiguous, start at zero, follow the term order and end at the column count; there is one row per
row of the frame left by the missing-value step; and every row has exactly that many columns. -/
theorem C17_design_common_partial (table : Parser.Table) (ops : Resolver.OpTable) (actions : List String)
    (formula : String) (env : Env) (naAction : String) (built : Built)
    (hwf : env.frame.wellFormed = true) (hn : env.namesScalar = true)
    (h : designMatrices table ops actions formula env naAction = .ok built) :
    let s := Driver.C04.commonStack built.frame.nrows built.trained
    let ncols := (built.commonParts.map (fun p => p.2.1.ncols)).sum
    slicesOk s.slices (built.common.map (·.1)) ncols = true ∧
    s.matrix.length = built.frame.nrows ∧
    ∀ r ∈ s.matrix, r.length = ncols := by
  have hs := designMatrices_shape table ops actions formula env naAction built hwf hn h
  obtain ⟨hnames, hparts⟩ := built.commonParts_shape hs
  simp only [Built.commonStack_eq]
  refine ⟨?_, ?_, ?_⟩
  · rw [← hnames]
    exact C17_stack_slices _ _
  · exact C17_stack_rows _ _ (fun p hp => (hparts p hp).1)
  · apply C17_hstack_widths _ (built.commonParts.map (fun p => p.2.1.ncols)) _ (by simp)
    intro i hi
    simp only [List.length_map] at hi
    simp only [List.getElem_map]
    obtain ⟨a, ⟨w, b⟩, _⟩ := hparts _ (List.getElem_mem hi)
    exact ⟨a, hasWidth_ncols _ w b⟩

open FormulaeModel.Pipeline in
/-- The same for the stacked group-effects matrix (`GroupEffectsMatrix`). -/
theorem C17_design_group_partial (table : Parser.Table) (ops : Resolver.OpTable) (actions : List String)
    (formula : String) (env : Env) (naAction : String) (built : Built)
    (hwf : env.frame.wellFormed = true) (hn : env.namesScalar = true)
    (h : designMatrices table ops actions formula env naAction = .ok built)
    (hne : built.termsNonempty = true) :
    let s := Driver.C04.groupStack built.frame.nrows built.trained
    let ncols := (built.groupParts.map (fun p => p.2.1.ncols)).sum
    slicesOk s.slices (built.group.map (·.st.name)) ncols = true ∧
    s.matrix.length = built.frame.nrows ∧
    ∀ r ∈ s.matrix, r.length = ncols := by
  have hs := designMatrices_shape table ops actions formula env naAction built hwf hn h
  obtain ⟨hnames, hparts⟩ := built.groupParts_shape hs hne
  simp only [Built.groupStack_eq]
  refine ⟨?_, ?_, ?_⟩
  · rw [← hnames]
    exact C17_stack_slices _ _
  · exact C17_stack_rows _ _ (fun p hp => (hparts p hp).1)
  · apply C17_hstack_widths _ (built.groupParts.map (fun p => p.2.1.ncols)) _ (by simp)
    intro i hi
    simp only [List.length_map] at hi
    simp only [List.getElem_map]
    obtain ⟨a, ⟨w, b⟩, _⟩ := hparts _ (List.getElem_mem hi)
    exact ⟨a, hasWidth_ncols _ w b⟩

open FormulaeModel.Pipeline in
/-- `evaluate_new_data` on the blocks of a design, for ANY later rectangular frame and any policy
for unseen levels: every common block has one row per row of the new frame and the training width;
every group block has one row per row of the new frame and either the training width or — when a
new group occurs — the training width plus the width of its effect. -/
theorem C17_design_new_blocks_partial (table : Parser.Table) (ops : Resolver.OpTable) (actions : List String)
    (formula : String) (env env' : Env) (naAction : String) (built : Built) (mode : UnseenMode)
    (hwf : env.frame.wellFormed = true) (hn : env.namesScalar = true)
    (hwf' : env'.frame.wellFormed = true) (hn' : env'.namesSized env'.frame.nrows = true)
    (h : designMatrices table ops actions formula env naAction = .ok built)
    (hne : built.termsNonempty = true) :
    (∀ p ∈ built.common, ∀ out, p.2 = some out → ∀ m w, newTerm out.st env' mode = .ok (m, w) →
      m.length = env'.frame.nrows ∧
      ∀ ls, out.labels = some ls → (∀ r ∈ m, r.length = ls.length) ∧ ∀ r ∈ out.data, r.length = ls.length) ∧
    (∀ g ∈ built.group, ∀ m w, newGroup g.st env' mode = .ok (m, w) →
      m.length = env'.frame.nrows ∧
      ∀ ls, g.labels = some ls → (∀ r ∈ g.data, r.length = ls.length) ∧
        ((∀ r ∈ m, r.length = ls.length) ∨ (∀ r ∈ m, r.length = ls.length + g.st.effectWidth))) := by
  have hs := designMatrices_shape table ops actions formula env naAction built hwf hn h
  simp only [Built.termsNonempty, Bool.and_eq_true, List.all_eq_true] at hne
  constructor
  · intro p hp out hout m w hm
    obtain ⟨k, hk, ho⟩ := (hs.common p hp).2 out hout
    obtain ⟨h1, h2⟩ := newTerm_shape out.st ho.state env' hwf' hn' mode m w hm
    refine ⟨h1 ?_, ?_⟩
    · intro hnil
      have := ho.ncomps
      rw [hnil] at this
      exact hk this.symm
    · intro ls hls
      obtain ⟨a, b⟩ := ho.cols ls hls
      exact ⟨by rw [b]; exact h2, a⟩
  · intro g hg m w hm
    obtain ⟨ne, hgs⟩ := hs.group g hg
    obtain ⟨h1, ji, w2, hji, ha, hb⟩ :=
      newGroup_shape g.st hgs.state (hne.2 g hg) env' hwf' hn' mode m w hm
    refine ⟨h1, ?_⟩
    intro ls hls
    obtain ⟨c, d⟩ := hgs.cols ls hls
    refine ⟨c, ?_⟩
    cases hz : ji.any isZeroRow with
    | false => left; rw [d]; exact ha hz
    | true =>
      right
      have := hb hz
      rw [Nat.add_mul, Nat.one_mul, ← d] at this
      exact this

/-! ### non-vacuity of the design-level theorems: a concrete frame with a missing cell, a 3-level
factor, a numeric column, a grouping column; a later frame in which a new group occurs -/

open FormulaeModel.ShapeEx

-- the hypotheses hold for the example environments
example : exEnv.frame.wellFormed = true ∧ exEnv.namesSized exEnv.frame.nrows = true ∧
    exEnv.namesScalar = true ∧ exEnvNA.frame.wellFormed = true ∧ exEnvNA.namesScalar = true ∧
    exNew.frame.wellFormed = true ∧ exNew.namesSized exNew.frame.nrows = true ∧
    exTermSpec.comps ≠ [] ∧ exGroupSpec.nonempty = true := by decide

-- C17_trainComp_rows_partial: the call `C(f)` is evaluated and has the 4 rows of the frame
example : (match trainComp exEnv "C(f)" (exCall1 "C" (exVar "f")) false false false with
    | .ok o => o.value.length == 4 && o.labels == some ["C(f)[b]", "C(f)[c]"]
    | .error _ => false) = true := by decide +kernel
example (out : CompOut) (h : trainComp exEnv "C(f)" (exCall1 "C" (exVar "f")) false false false = .ok out) :
    out.value.length = 4 := C17_trainComp_rows_partial exEnv _ _ _ _ _ out (by decide) (by decide) h

-- C17_trainTerm_rows_partial: the interaction `C(f):x`
example : (match trainTerm exEnv exTable exTermSpec false false with
    | .ok o => o.data == [[some 0, some 0], [some 2, some 0], [some 0, some 4], [some 0, some 0]]
    | .error _ => false) = true := by decide +kernel
example (out : TermOut) (h : trainTerm exEnv exTable exTermSpec false false = .ok out) :
    out.data.length = 4 := C17_trainTerm_rows_partial exEnv _ _ _ _ out (by decide) (by decide) (by decide) h

-- C17_trainGroup_rows_partial: `(x | g)`
example : (match trainGroup exEnv exTable exGroupSpec with
    | .ok o => o.data == [[some 1, some 0], [some 0, some 2], [some 4, some 0], [some 0, some 5]]
    | .error _ => false) = true := by decide +kernel
example (out : GroupOut) (h : trainGroup exEnv exTable exGroupSpec = .ok out) :
    out.data.length = 4 := C17_trainGroup_rows_partial exEnv _ _ out (by decide) (by decide) (by decide) h

-- C17_newTerm_shape_partial: the trained interaction on the later frame: 2 rows, 2 columns
example : (match trainTerm exEnv exTable exTermSpec false false with
    | .ok o => (match newTerm o.st exNew .error with
      | .ok (m, _) => m == [[some 7, some 0], [some 8, some 0]]
      | .error _ => false)
    | .error _ => false) = true := by decide +kernel

-- C17_newGroup_shape_partial: the new group `zz` widens the block from 2 to 2 + 1 columns
example : (match trainGroup exEnv exTable exGroupSpec with
    | .ok o => (match newGroup o.st exNew .silent with
      | .ok (m, _) => m == [[some 7, some 0, some 0], [some 0, some 0, some 8]] && o.st.effectWidth == 1
      | .error _ => false)
    | .error _ => false) = true := by decide +kernel

-- C17_design_rows_partial / C17_design_common_partial / C17_design_group_partial / C17_design_new_blocks_partial: the whole
-- pipeline on the frame with a missing cell: 3 retained rows, 3 common columns, 4 group columns
-- (`(x|g)` stands for `(1|g) + (x|g)`)
example : (match exDesign exEnvNA with
    | .ok b => b.termsNonempty && b.frame.nrows == 3 && b.common.map (fun (p : String × Option TermOut) => p.1) == ["Intercept", "f", "x"]
        && (Driver.C04.commonStack b.frame.nrows b.trained).slices
            == [⟨"Intercept", 0, 1⟩, ⟨"f", 1, 2⟩, ⟨"x", 2, 3⟩]
        && (Driver.C04.commonStack b.frame.nrows b.trained).matrix
            == [[some 1, some 0, some 1], [some 1, some 1, some 4], [some 1, some 0, some 5]]
        && (Driver.C04.groupStack b.frame.nrows b.trained).matrix
            == [[some 1, some 0, some 1, some 0], [some 1, some 0, some 4, some 0],
                [some 0, some 1, some 0, some 5]]
    | .error _ => false) = true := by decide +kernel
example (b : Pipeline.Built) (h : exDesign exEnvNA = .ok b) (hne : b.termsNonempty = true) :
    ∀ g ∈ b.group, g.data.length = b.frame.nrows :=
  (C17_design_rows_partial _ _ _ _ exEnvNA _ b (by decide) (by decide) h hne).2.2.2

/-! ### why the theorems above are `_partial`: the guard on the caller's namespace excludes inputs
the code accepts

The unguarded statement ("one row per row of the data frame" for EVERY environment) is false of
the model — and of the library, which the model mirrors here: a vector bound in the caller's
namespace is used as it is, whatever its length (`LazyVariable.eval` falls back to the environment,
nothing compares lengths; `np.column_stack` only complains when a second block disagrees).  With
`z = np.array([1., 2.])` in the caller's namespace and a 4-row data frame,
`design_matrices("y ~ 0 + I(z)", data)` returns a common matrix with 2 rows beside a response with
4 rows.  The guard `Env.namesSized` (implied by `Env.namesScalar`, which is what the harness
generates) excludes exactly this. -/

/-- the row-count statement without the guard on the namespace -/
def C17_trainComp_rows_Statement : Prop :=
  ∀ (env : Env) (name : String) (e : Expr) (forced isResponse full : Bool) (out : CompOut),
    env.frame.wellFormed = true →
    trainComp env name e forced isResponse full = .ok out → out.value.length = env.frame.nrows

/-- a 4-row frame, and a 2-entry vector `z` in the caller's namespace -/
def exEnvZ : Env := { frame := exFrame, names := [("z", .vec [some 1, some 2] false)] }

theorem C17_trainComp_rows_counterexample : ¬ C17_trainComp_rows_Statement := by
  intro hS
  have h : trainComp exEnvZ "I(z)" (exCall1 "I" (exVar "z")) false false false
      = .ok ⟨{ name := "I(z)", expr := exCall1 "I" (exVar "z"), kind := .numeric, forced := false,
               tstate := .node none [.leaf] }, [[some 1], [some 2]], some ["I(z)"]⟩ := by
    rfl
  have := hS exEnvZ _ _ _ _ _ _ (by decide) h
  exact absurd this (by decide)

/-- … and through the whole pipeline: `y ~ 0 + I(z)` gives a common block with 2 rows for a frame
(and a response) with 4 rows -/
theorem C17_design_rows_counterexample :
    (match Pipeline.designMatrices Generated.parserTable Generated.resolverOps Generated.naActions
        "y ~ 0 + I(z)" exEnvZ "drop" with
     | .ok b => b.frame.nrows == 4 && b.termsNonempty
         && b.response.map (fun (o : TermOut) => o.data.length) == some 4
         && b.common.map (fun (p : String × Option TermOut) => p.2.map (fun (o : TermOut) => o.data.length))
              == [some 2]
     | .error _ => false) = true := by decide +kernel

-- the counterexample is exactly outside the guard
example : exEnvZ.frame.wellFormed = true ∧ exEnvZ.namesSized exEnvZ.frame.nrows = false := by decide

/-- A term without components has no rows (`reduceMatrices []`): the guard `spec.comps ≠ []` of
`C17_trainTerm_rows_partial` is needed in the model; a `Term` of the library always has at least
one component, so this guard excludes no input of the code. -/
theorem C17_trainTerm_rows_counterexample_empty :
    (match trainTerm exEnv exTable ⟨"t", []⟩ false false with
     | .ok o => o.data.length == 0 && exEnv.frame.nrows == 4
     | .error _ => false) = true := by decide +kernel

end FormulaeModel.C17
