import FormulaeModel.Proofs.Contrasts
import FormulaeModel.Proofs.EncodingDim
import FormulaeModel.Proofs.Encoding
import FormulaeModel.Spec.C03
/-
C03 — property theorems (statements use Model/Contrasts, Model/Encoding and Spec/C03 only).
-/
namespace FormulaeModel.C03
open FormulaeModel FormulaeModel.Contrasts FormulaeModel.Encoding FormulaeModel.Spec.C03

/-! ## 1. `pick_contrasts` partitions the down-closure, for every family in every order -/

/-- a group handed to `pick_contrasts`, as a family of the specification (purely categorical) -/
def famOfGroup (g : List (String × List Factor)) : List STerm :=
  g.map (fun t => { cat := t.2, num := [] })

/-- a factor coding returned by `pick_contrasts`, as a coded term of the specification -/
def ctermOfCoding (c : Coding) : CTerm :=
  { red := (c.filter (fun e => !e.2)).map (·.1), full := (c.filter (fun e => e.2)).map (·.1), num := [] }

def codedOfOutput (out : Dict (List Coding)) : List CTerm :=
  out.flatMap (fun e => e.2.map ctermOfCoding)

theorem inInterval_ctermOfCoding (c : Coding) (U : List String) :
    inInterval (ctermOfCoding c) U = inIv c U := by
  rw [Bool.eq_iff_iff, inIv_iff]
  simp only [inInterval, ctermOfCoding, subsetOf, Bool.and_eq_true, List.all_eq_true,
    List.contains_iff_mem, List.mem_map, List.mem_filter, List.mem_append, Prod.exists,
    Bool.not_eq_true']
  constructor
  · rintro ⟨h1, h2⟩
    refine ⟨fun f b hm hb => h1 f ⟨f, b, ⟨hm, hb⟩, rfl⟩, fun u hu => ?_⟩
    rcases h2 u hu with ⟨a, b, ⟨hm, _⟩, rfl⟩ | ⟨a, b, ⟨hm, _⟩, rfl⟩ <;> exact ⟨b, hm⟩
  · rintro ⟨h1, h2⟩
    refine ⟨?_, fun u hu => ?_⟩
    · rintro x ⟨a, b, ⟨hm, hb⟩, rfl⟩; exact h1 a b hm hb
    · obtain ⟨b, hm⟩ := h2 u hu
      cases b with
      | false => exact Or.inl ⟨u, false, ⟨hm, rfl⟩, rfl⟩
      | true => exact Or.inr ⟨u, true, ⟨hm, rfl⟩, rfl⟩

/-- **C03_pick_contrasts_partition.**  For every family of terms, in every order of the terms and of
the factors inside a term (component lists duplicate-free, as `Term.__init__` guarantees),
`pick_contrasts` succeeds, returns one entry per term in order, every returned coding mentions a
factor at most once, and the intervals of the returned codings cover every subset of the
down-closure ⋃ 𝒫(Tᵢ) exactly once and nothing else. -/
theorem C03_pick_contrasts_partition (g : List (String × List Factor)) (hnd : ∀ t ∈ g, t.2.Nodup) :
    ∃ out, pickContrasts g = .ok out ∧ out.map (·.1) = g.map (·.1) ∧
      (∀ e ∈ out, ∀ c ∈ e.2, (c.map (·.1)).Nodup) ∧
      Partition (famOfGroup g) (codedOfOutput out) := by
  obtain ⟨out, hok, hnames, hwf, hcnt⟩ := pickContrasts_spec g hnd
  refine ⟨out, hok, hnames, hwf, ?_⟩
  intro N U
  have e1 : count (codedOfOutput out) N U =
      if sameSet [] N then cnt (out.flatMap (·.2)) U else 0 := by
    simp only [count, codedOfOutput, cnt]
    rw [show (out.flatMap (fun e => e.2.map ctermOfCoding)) = (out.flatMap (·.2)).map ctermOfCoding from by
      rw [List.map_flatMap]]
    rw [List.countP_map]
    by_cases hN : sameSet [] N = true
    · simp only [hN, if_true]
      apply List.countP_congr
      intro c _
      simp [Function.comp, ctermOfCoding, hN, ← inInterval_ctermOfCoding c U]
    · simp only [hN, Bool.false_eq_true, if_false]
      rw [List.countP_eq_zero]
      intro c _
      simp [ctermOfCoding, hN]
  have e2 : inDownset (famOfGroup g) N U = (sameSet [] N && inDown (g.map (·.2)) U) := by
    simp only [inDownset, famOfGroup, inDown, List.any_map, Function.comp_def, subsetOf]
    by_cases hN : sameSet [] N = true
    · simp [hN]
    · simp [hN]
  rw [e1, e2, hcnt U]
  by_cases hN : sameSet [] N = true <;> simp [hN]

/-- non-vacuity / sanity: a family listing an interaction before its margin; the codings are the
ones the real code returns (`f:g ↦ [{g: False}, {f: False, g: True}]`, `f ↦ []`). -/
def pickIs (g : List (String × List Factor)) (expected : Dict (List Coding)) : Bool :=
  match pickContrasts g with
  | .ok out => out == expected
  | .error _ => false

example : pickIs [("Intercept", []), ("f:g", ["f", "g"]), ("f", ["f"])]
    [("Intercept", [[]]), ("f:g", [[("g", false)], [("f", false), ("g", true)]]), ("f", [])] = true := by
  decide +kernel

/-- **C03_absorb_no_assert.**  Neither `assert` of `Subterm.absorb` (nor the model's fuel bound) is
reachable from `pick_contrasts`, whatever the family and the order. -/
theorem C03_absorb_no_assert (g : List (String × List Factor)) (hnd : ∀ t ∈ g, t.2.Nodup)
    (e : Contrasts.Err) : pickContrasts g ≠ .error e := by
  obtain ⟨out, hok, _⟩ := C03_pick_contrasts_partition g hnd
  rw [hok]; intro h; cases h

/-- the `assert`s are real: on subterms that are not produced by `pick_contrast` they fire -/
def absorbFails (long short : Subterm) (e : Contrasts.Err) : Bool :=
  match absorb long short with
  | .ok _ => false
  | .error e' => e == e'

example : absorbFails [("a", true), ("b", false)] [("b", false)] .assertFull = true := by decide +kernel
example : absorbFails [("a", false), ("b", false)] [("c", false)] .assertDiff = true := by decide +kernel

/-! ## 1b. number of columns of a partitioning coding -/

/-- **C03_columns_count.**  For all level counts ≥ 1 (treatment coding: a full factor contributes n
columns, a reduced one n − 1), a coding that partitions the down-closure of the family has
exactly `Σ_N Σ_{U ∈ downset_N} Π_{f ∈ U} (n_f − 1)` columns — the dimension of the model space. -/
theorem C03_columns_count (levels : String → Nat) (hpos : ∀ f, 1 ≤ levels f) (fam : List STerm)
    (coding : List CTerm) (hnd : ∀ c ∈ coding, (c.red ++ c.full).Nodup) (hp : Partition fam coding) :
    totalColumns levels coding = modelDim levels fam :=
  columns_count levels hpos fam coding hnd hp

/-- … in particular for what `pick_contrasts` returns, for every family in every order. -/
theorem C03_pick_contrasts_columns (levels : String → Nat) (hpos : ∀ f, 1 ≤ levels f)
    (g : List (String × List Factor)) (hnd : ∀ t ∈ g, t.2.Nodup) :
    ∃ out, pickContrasts g = .ok out ∧
      totalColumns levels (codedOfOutput out) = modelDim levels (famOfGroup g) := by
  obtain ⟨out, hok, _, hwf, hp⟩ := C03_pick_contrasts_partition g hnd
  refine ⟨out, hok, C03_columns_count levels hpos _ _ ?_ hp⟩
  intro c hc
  simp only [codedOfOutput, List.mem_flatMap, List.mem_map] at hc
  obtain ⟨e, he, cd, hcd, rfl⟩ := hc
  have hw : (cd.map (·.1)).Nodup := hwf e he cd hcd
  simp only [ctermOfCoding, ← List.map_append]
  have hperm : (cd.filter (fun e => !e.2) ++ cd.filter (fun e => e.2)).Perm cd := by
    have := List.filter_append_perm (fun e : String × Bool => !e.2) cd
    simpa using this
  exact (hperm.map (·.1)).nodup_iff.2 hw

/-- **C03_widths_one.**  The width-aware column count and dimension formula the driver evaluates for
cases with multi-column numeric atoms (`poly(v, 2)`, `bs(v, df=3)`) are the ones of
`C03_columns_count` when every numeric atom has one column. -/
theorem C03_widths_one (levels : String → Nat) (fam : List STerm) (coding : List CTerm) :
    totalColumnsW levels (fun _ => 1) coding = totalColumns levels coding ∧
    modelDimW levels (fun _ => 1) fam = modelDim levels fam := by
  have h1 : ∀ l : List String, prodList (l.map (fun _ => 1)) = 1 := by
    intro l; induction l with
    | nil => rfl
    | cons a t ih => simp [prodList, ih]
  have hw : ∀ num : List String, numWidth (fun _ => 1) num = 1 := fun num => h1 _
  have hc : columnsW levels (fun _ => 1) = columns levels := by
    funext c; simp [columnsW, hw]
  constructor
  · simp [totalColumnsW, totalColumns, hc]
  · simp [modelDimW, modelDim, hw]

/-- non-vacuity of the width-aware formula: `y ~ 0 + f:p` with a 3-level factor and a 2-column
numeric atom `p` — 6 columns, dimension 6 -/
example : totalColumnsW (fun _ => 3) (fun a => if a = "p" then 2 else 1)
      [{ red := [], full := ["f"], num := ["p"] }] = 6 ∧
    modelDimW (fun _ => 3) (fun a => if a = "p" then 2 else 1) [{ cat := ["f"], num := ["p"] }] = 6 := by
  decide +kernel

/-- non-vacuity: `y ~ 0 + f:g:h` with 2, 3, 4 levels — one coding, all factors full, 24 columns -/
example : (match pickContrasts [("f:g:h", ["f", "g", "h"])] with
    | .ok out => totalColumns (fun f => if f = "f" then 2 else if f = "g" then 3 else 4)
        (codedOfOutput out) == 24 &&
        modelDim (fun f => if f = "f" then 2 else if f = "g" then 3 else 4)
          (famOfGroup [("f:g:h", ["f", "g", "h"])]) == 24
    | .error _ => false) = true := by decide +kernel

/-! ## 2. the pipeline of `Model.eval`: full statement, counterexamples on the pinned tree -/

/-- the executable predicate run by the driver is implied by the specification -/
theorem partition_of_Partition {fam : List STerm} {coding : List CTerm} (h : Partition fam coding) :
    partition fam coding = true := by
  simp only [partition, List.all_eq_true, beq_iff_eq]
  intro N _ U _
  exact h N U

/-- the inputs the property quantifies over: component names inside a term pairwise distinct,
every name has one kind throughout the family, no `Call` components needing a copy is *not*
required -/
def WellFormedFam (fam : List TermDesc) : Bool :=
  fam.all (fun t => decide ((t.comps.map (·.name)).Nodup)) &&
  fam.all (fun t => t.comps.all (fun c => fam.all (fun u => u.comps.all (fun d =>
    c.name != d.name || c.kind == d.kind))))

/-- **C03_pipeline (full statement, false on the pinned tree).**  For every family, `Model.eval`
succeeds and the terms of the design matrix, with the flags it used, partition the down-closure
of the family in every numeric block. -/
def C03_pipeline_Statement : Prop :=
  ∀ fam : List TermDesc, WellFormedFam fam = true →
    ∃ coded, run false fam = .ok coded ∧
      Partition (fam.map ofTerm) ((designTerms coded).map ofCoded)

def catC (n : String) : Comp := { name := n, kind := .categoric, isCall := false }
def numC (n : String) : Comp := { name := n, kind := .numeric, isCall := false }
def callC (n : String) : Comp := { name := n, kind := .categoric, isCall := true }

def runFailsWith (envCopyable : Bool) (fam : List TermDesc) (e : Encoding.Err) : Bool :=
  match run envCopyable fam with
  | .ok _ => false
  | .error e' => e == e'

/-- D6 `y ~ f:g + f`: the second analysis leaves `f` without a coding, `encodings["f"][0]` raises. -/
def famD6 : List TermDesc := [.intercept, .term (catC "f") [catC "g"], .term (catC "f") []]
theorem C03_counterexample_D6 :
    WellFormedFam famD6 = true ∧ runFailsWith false famD6 .indexError = true ∧
    emptyCodingSecondPass false famD6 = true := by decide +kernel

/-- D7 `y ~ f:g:h`: the second analysis still has two codings for `f:h`; only the first is used and
3 of the 24 directions (level counts 2, 3, 4) are lost. -/
def famD7 : List TermDesc := [.intercept, .term (catC "f") [catC "g", catC "h"]]
theorem C03_counterexample_D7 :
    WellFormedFam famD7 = true ∧ modelHolds false famD7 = false ∧
    multipleSubtermsSecondPass false famD7 = true ∧ SinglePass2 false famD7 = false := by
  decide +kernel

/-- D8 `y ~ z:x + f:x:z`: the numeric part `x:z` is not found under the name `z:x`; `f` is coded
full although `z:x` already spans the constant direction of that block. -/
def famD8 : List TermDesc :=
  [.intercept, .term (numC "z") [numC "x"], .term (catC "f") [numC "x", numC "z"]]
theorem C03_counterexample_D8 :
    WellFormedFam famD8 = true ∧ modelHolds false famD8 = false ∧
    numericPartOrderMismatch famD8 = true ∧ SinglePass2 false famD8 = true := by decide +kernel

/-- D9 `y ~ g:C(k)`: the helper term `C(k)` cannot be built (deep copy of a typed `Call`). -/
def famD9 : List TermDesc := [.intercept, .term (catC "g") [callC "C(k)"]]
theorem C03_counterexample_D9 :
    WellFormedFam famD9 = true ∧ runFailsWith false famD9 .deepcopy = true ∧
    extraTermNeedsCallCopy famD9 = true := by decide +kernel

/-- D21 `y ~ 0 + x:z + z:x`: the same numeric term written in two orders is kept twice. -/
def famD21 : List TermDesc := [.term (numC "x") [numC "z"], .term (numC "z") [numC "x"]]
theorem C03_counterexample_D21 :
    WellFormedFam famD21 = true ∧ modelHolds false famD21 = false ∧
    duplicateTermUpToOrder famD21 = true := by decide +kernel

theorem modelHolds_of_statement (h : C03_pipeline_Statement) (fam : List TermDesc)
    (hw : WellFormedFam fam = true) : modelHolds false fam = true := by
  obtain ⟨coded, hrun, hp⟩ := h fam hw
  simp only [modelHolds, hrun, holds]
  exact partition_of_Partition hp

/-- the full statement is false of the code as it is -/
theorem C03_pipeline_false : ¬ C03_pipeline_Statement := by
  intro h
  have h1 := modelHolds_of_statement h famD7 C03_counterexample_D7.1
  rw [C03_counterexample_D7.2.1] at h1
  cases h1

/-! ## 2b. the part of the pipeline statement that holds of the code as it is -/

/-- **C03_pipeline_partial.**  For every family (no bound on the number of terms, factors, or on the
mix of categorical / numeric / call components) on which `Model.eval` succeeds: if
* the second redundancy analysis returns exactly one coding for every term (`SinglePass2`; fails
  exactly in the D6 / D7 situations),
* the grouping stage is faithful on the family it analyses — names determine terms, group keys are
  pairwise distinct, every group entry is a term with its categorical part, a group holds exactly
  the terms of one numeric block, a term outside every group is purely numeric and alone in its
  block (`faithfulB`; fails in the D8 / D21 situations), and
* the helper terms added by `add_extra_terms` are margins of terms of the family (`marginsOf`),
all three decidable and evaluated by the driver on every explored case (`pipelineGuard`), then the
terms of the design matrix, with the full / reduced flags actually handed to `set_data`, partition
the down-closure of the family in every numeric block — i.e. (bridge) the matrix has full column
rank and spans exactly the model space. -/
theorem C03_pipeline_partial (envCopyable : Bool) (fam : List TermDesc) (coded : List CodedTerm)
    (hrun : run envCopyable fam = .ok coded) (hguard : pipelineGuard envCopyable fam = true) :
    Partition (fam.map ofTerm) ((designTerms coded).map ofCoded) :=
  pipeline_partial envCopyable fam coded hrun hguard

/-- … hence the executable predicate the driver evaluates is true on the model's output -/
theorem C03_pipeline_partial_holds (envCopyable : Bool) (fam : List TermDesc)
    (hok : ∃ coded, run envCopyable fam = .ok coded) (hguard : pipelineGuard envCopyable fam = true) :
    modelHolds envCopyable fam = true := by
  obtain ⟨coded, hrun⟩ := hok
  simp only [modelHolds, hrun, holds]
  exact partition_of_Partition (C03_pipeline_partial envCopyable fam coded hrun hguard)

/-- non-vacuity: `y ~ f:g + g + x + z:f:x + z:x` — extra terms are created (`g` before `f:g`, duplicated
name), a numeric block with its numeric part present, and the guard holds -/
def famOk : List TermDesc :=
  [.intercept, .term (catC "f") [catC "g"], .term (catC "g") [], .term (numC "x") [],
   .term (numC "z") [catC "f", numC "x"], .term (numC "z") [numC "x"]]
example : pipelineGuard false famOk = true ∧ modelHolds false famOk = true ∧
    hierFamily famOk = false := by decide +kernel
/-- the counterexamples are outside the guard -/
example : pipelineGuard false famD6 = false ∧ pipelineGuard false famD7 = false ∧
    pipelineGuard false famD8 = false ∧ pipelineGuard false famD9 = false ∧
    pipelineGuard false famD21 = false := by decide +kernel

/-! ## 3. a syntactic sufficient condition: margins written first -/

/-- **C03_hierarchical.**  If in every analysis group of the family every term is preceded by all
its margins (all proper sub-terms already covered, the term itself new; a model without intercept
may start with a single factor) — `hierFamily`, decidable — then `add_extra_terms` adds nothing
and both analyses return exactly one coding for every term: the family is inside the guard of
`C03_pipeline_partial` (neither D6 nor D7 can occur). -/
theorem C03_hierarchical (envCopyable : Bool) (fam : List TermDesc) (h : hierFamily fam = true) :
    secondFamily envCopyable fam = .ok fam ∧ SinglePass2 envCopyable fam = true ∧
    emptyCodingSecondPass envCopyable fam = false ∧
    multipleSubtermsSecondPass envCopyable fam = false := by
  obtain ⟨h2, hs⟩ := hierarchical_singlePass envCopyable fam h
  refine ⟨h2, hs, ?_, ?_⟩
  all_goals
    simp only [SinglePass2, emptyCodingSecondPass, multipleSubtermsSecondPass] at hs ⊢
    cases hp : secondPass envCopyable fam with
    | none => rfl
    | some p =>
      obtain ⟨fam2, enc2⟩ := p
      simp only [hp, List.all_eq_true] at hs
      simp only [Bool.eq_false_iff, ne_eq, List.any_eq_true, not_exists, not_and]
      intro t ht
      have := hs t ht
      cases hg : Dict.get? enc2 t.name with
      | none => simp
      | some l =>
        simp only [hg, decide_eq_true_eq] at this
        cases l with
        | nil => simp at this
        | cons a as => simp at this ⊢ <;> simp [this]

/-- **C03_hierarchical_categorical** (end to end, purely syntactic hypotheses).  For every family of
categorical terms, with or without intercept, of any size — component names of a term pairwise
distinct, term names pairwise distinct (`AllCategoric`) — that is written margins first
(`hierGroup` on the terms as written, the intercept moved to the front): `Model.eval` succeeds,
creates no helper term, and the coded design partitions the down-closure of the family. -/
theorem C03_hierarchical_categorical (envCopyable : Bool) (fam : List TermDesc) (hc : AllCategoric fam)
    (hh : hierGroup ((moveInterceptFirst fam).map catEntry) = true) :
    ∃ coded, run envCopyable fam = .ok coded ∧ secondFamily envCopyable fam = .ok fam ∧
      Partition (fam.map ofTerm) ((designTerms coded).map ofCoded) :=
  hierarchical_categoric_partition envCopyable fam hc hh

/-- non-vacuity: `y ~ f + g + f:g` satisfies both hypotheses -/
example : AllCategoric [.intercept, .term (catC "f") [], .term (catC "g") [], .term (catC "f") [catC "g"]] ∧
    hierGroup ((moveInterceptFirst [.intercept, .term (catC "f") [], .term (catC "g") [],
      .term (catC "f") [catC "g"]]).map catEntry) = true :=
  ⟨⟨by decide +kernel, by decide +kernel, by decide +kernel⟩, by decide +kernel⟩

/-- non-vacuity: `y ~ f + g + f:g + f:x + x` … margins first, with an intercept, a numeric block -/
example : hierFamily [.intercept, .term (catC "f") [], .term (catC "g") [],
    .term (catC "f") [catC "g"], .term (numC "x") [], .term (catC "f") [numC "x"]] = true := by
  decide +kernel
/-- … and without intercept: `y ~ 0 + f + g + f:g` -/
example : hierFamily [.term (catC "f") [], .term (catC "g") [], .term (catC "f") [catC "g"]] = true := by
  decide +kernel
/-- an interaction before its margin is not margins-first -/
example : hierFamily famD6 = false := by decide +kernel

end FormulaeModel.C03
