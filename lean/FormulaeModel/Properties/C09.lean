import FormulaeModel.Spec.C09
import FormulaeModel.Generated.Tables
/-
C09 — theorems about the model of the missing-value step and of `var_names`.
-/
namespace FormulaeModel.C09
open FormulaeModel FormulaeModel.NA FormulaeModel.Spec.C09

theorem mem_filter_ne {l : List String} {x : String} : x ∈ l.filter (· != "") ↔ x ∈ l ∧ x ≠ "" := by
  simp [List.mem_filter]

mutual
/-- the visitor over the lazy call tree finds exactly the variable leaves (plus "" for literals):
positional arguments, keyword arguments, nested calls, operators, backquoted names -/
theorem argVars_eq : ∀ (e : Expr) (x : String), x ≠ "" → (x ∈ argVars e ↔ x ∈ freeVars e)
  | .grouping _ e _, x, hx => by simpa [argVars, freeVars] using argVars_eq e x hx
  | .binary l _ r, x, hx => by
    simp only [argVars, freeVars, List.mem_append]
    rw [argVars_eq l x hx, argVars_eq r x hx]
  | .unary _ r, x, hx => by simpa [argVars, freeVars] using argVars_eq r x hx
  | .call _ _ as _, x, hx => by
    simp only [argVars, freeVars]
    exact argsVars_eq as x hx
  | .brace _ e _, x, hx => by simpa [argVars, freeVars] using argVars_eq e x hx
  | .variable _, _, _ => by simp [argVars, freeVars]
  | .subset _ _ _ _, _, _ => by simp [argVars, freeVars]
  | .quoted _, _, _ => by simp [argVars, freeVars]
  | .literal _, x, hx => by simp [argVars, freeVars]; exact fun h => hx h
  | .assign _ _ v, x, hx => by simpa [argVars, freeVars] using argVars_eq v x hx
theorem argsVars_eq : ∀ (as : Args) (x : String), x ≠ "" →
    (x ∈ argsVarsPos as ++ argsVarsKw as ↔ x ∈ freeVarsArgs as)
  | .nil, _, _ => by simp [argsVarsPos, argsVarsKw, freeVarsArgs]
  | .last e, x, hx => by
    have ih := argVars_eq e x hx
    cases e <;> simp_all [argsVarsPos, argsVarsKw, freeVarsArgs, argVars, freeVars]
  | .more e _ rest, x, hx => by
    have ih := argsVars_eq rest x hx
    have ihe := argVars_eq e x hx
    simp only [List.mem_append] at ih
    cases e <;>
      simp_all only [argsVarsPos, argsVarsKw, freeVarsArgs, argVars, freeVars, List.mem_append,
        List.nil_append, List.append_nil] <;> (rw [← ih]; grind)
end

/-- the same for the component at a term position (`Variable.var_names`, `Call.var_names`) -/
theorem atomVars_eq (e : Expr) (x : String) (hx : x ≠ "")
    (ha : match e with | .call .. | .brace .. | .variable _ | .subset .. | .quoted _ => True | _ => False) :
    x ∈ atomVars e ↔ x ∈ freeVars e := by
  cases e with
  | call c lp as rp =>
    have := argsVars_eq as x hx
    simpa [atomVars, freeVars] using this
  | brace lb e rb => simpa [atomVars, freeVars] using argVars_eq e x hx
  | _ => simp_all [atomVars, freeVars]

/-- the NA step refuses every action that is not documented -/
theorem C09_action_refused (action : String) (used : List String) (f : Frame)
    (h : Spec.C09.documentedActions.contains action = false) :
    naStep Spec.C09.documentedActions action used f = .error .valueError := by
  simp only [naStep, h, Bool.not_false, if_true]

/-- `error`: raises iff some selected row is incomplete -/
theorem C09_error_iff (used : List String) (f : Frame) :
    (naStep Spec.C09.documentedActions "error" used f = .error .valueError) ↔
      (incompleteRows (selectCols used f)).any id = true := by
  simp only [naStep, Spec.C09.documentedActions]
  have h1 : ["drop", "error", "pass"].contains "error" = true := by decide
  have h2 : ("error" == "pass") = false := by decide
  have h3 : ("error" == "drop") = false := by decide
  simp only [h1, Bool.not_true, Bool.false_eq_true, if_false, h2, h3]
  split <;> simp_all

/-- `drop`: the design frame is the selected columns restricted to the complete rows; nothing
else changes (order kept) -/
theorem C09_drop (used : List String) (f : Frame) :
    naStep Spec.C09.documentedActions "drop" used f =
      .ok (if (incompleteRows (selectCols used f)).any id
           then keepRows (selectCols used f) ((incompleteRows (selectCols used f)).map (!·))
           else selectCols used f) := by
  simp only [naStep, Spec.C09.documentedActions]
  have h1 : ["drop", "error", "pass"].contains "drop" = true := by decide
  have h2 : ("drop" == "pass") = false := by decide
  simp only [h1, Bool.not_true, Bool.false_eq_true, if_false, h2, beq_self_eq_true, if_true]
  split <;> rfl

/-- `pass`: all rows are kept, in order -/
theorem C09_pass (used : List String) (f : Frame) :
    naStep Spec.C09.documentedActions "pass" used f = .ok (selectCols used f) := by
  simp only [naStep, Spec.C09.documentedActions]
  have h1 : ["drop", "error", "pass"].contains "pass" = true := by decide
  simp only [h1, Bool.not_true, Bool.false_eq_true, if_false, beq_self_eq_true, if_true]
  split <;> rfl

/-- missing values in unused columns are ignored: the mask only looks at selected columns -/
theorem C09_unused_ignored (used : List String) (f : Frame) (c : Column) (hc : used.contains c.name = false) :
    selectCols used (f ++ [c]) = selectCols used f := by
  simp only [selectCols, List.filter_append, List.filter_cons, hc, Bool.false_eq_true, if_false,
    List.filter_nil, List.append_nil]

theorem keep_length {α} (xs : List α) (keep : List Bool) (h : xs.length = keep.length) :
    ((xs.zip keep).filterMap (fun p => if p.2 then some p.1 else none)).length
      = (keep.filter id).length := by
  induction xs generalizing keep with
  | nil => cases keep <;> simp_all
  | cons x xs ih =>
    cases keep with
    | nil => simp at h
    | cons k keep =>
      have := ih keep (by simpa using h)
      cases k <;> simp_all

/-- all three matrices are built from the same filtered frame: the columns keep their names and
order, and every column keeps the same number of rows (row alignment) -/
theorem C09_row_alignment (f : Frame) (keep : List Bool)
    (hl : ∀ c ∈ f, c.cells.length = keep.length) :
    (keepRows f keep).map (·.name) = f.map (·.name) ∧
    ∀ c' ∈ keepRows f keep, c'.cells.length = (keep.filter id).length := by
  constructor
  · simp [keepRows, Function.comp_def]
  · intro c' hc'
    simp only [keepRows, List.mem_map] at hc'
    obtain ⟨c, hc, rfl⟩ := hc'
    exact keep_length c.cells keep (hl c hc)

theorem actions_tie : Generated.naActions = Spec.C09.documentedActions := by decide

end FormulaeModel.C09
