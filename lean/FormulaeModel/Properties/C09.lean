import FormulaeModel.Spec.C09
import FormulaeModel.Generated.Tables
import FormulaeModel.Proofs.PipelineUsed
import FormulaeModel.Model.Scanner
import FormulaeModel.Model.Parser
/-
C09 — theorems about the model of the missing-value step and of `var_names`.
-/
namespace FormulaeModel.C09
open FormulaeModel FormulaeModel.NA FormulaeModel.Spec.C09

theorem mem_filter_ne {l : List String} {x : String} : x ∈ l.filter (· != "") ↔ x ∈ l ∧ x ≠ "" := by
  simp [List.mem_filter]

mutual
/-- the visitor over the lazy call tree finds exactly the variable leaves (plus "" for literals):
positional arguments, keyword arguments, nested calls, operators, backquoted names -/
theorem argVars_eq : ∀ (e : Expr) (x : String), x ≠ "" → (x ∈ argVars e ↔ x ∈ freeVars e)
  | .grouping _ e _, x, hx => by simpa [argVars, freeVars] using argVars_eq e x hx
  | .binary l _ r, x, hx => by
    simp only [argVars, freeVars, List.mem_append]
    rw [argVars_eq l x hx, argVars_eq r x hx]
  | .unary _ r, x, hx => by simpa [argVars, freeVars] using argVars_eq r x hx
  | .call _ _ as _, x, hx => by
    simp only [argVars, freeVars]
    exact argsVars_eq as x hx
  | .brace _ e _, x, hx => by simpa [argVars, freeVars] using argVars_eq e x hx
  | .variable _, _, _ => by simp [argVars, freeVars]
  | .subset _ _ _ _, _, _ => by simp [argVars, freeVars]
  | .quoted _, _, _ => by simp [argVars, freeVars]
  | .literal _, x, hx => by simp [argVars, freeVars]; exact fun h => hx h
  | .assign _ _ v, x, hx => by simpa [argVars, freeVars] using argVars_eq v x hx
theorem argsVars_eq : ∀ (as : Args) (x : String), x ≠ "" →
    (x ∈ argsVarsPos as ++ argsVarsKw as ↔ x ∈ freeVarsArgs as)
  | .nil, _, _ => by simp [argsVarsPos, argsVarsKw, freeVarsArgs]
  | .last e, x, hx => by
    have ih := argVars_eq e x hx
    cases e <;> simp_all [argsVarsPos, argsVarsKw, freeVarsArgs, argVars, freeVars]
  | .more e _ rest, x, hx => by
    have ih := argsVars_eq rest x hx
    have ihe := argVars_eq e x hx
    simp only [List.mem_append] at ih
    cases e <;>
      simp_all only [argsVarsPos, argsVarsKw, freeVarsArgs, argVars, freeVars, List.mem_append,
        List.nil_append, List.append_nil] <;> (rw [← ih]; grind)
end

/-- the same for the component at a term position (`Variable.var_names`, `Call.var_names`) -/
theorem atomVars_eq (e : Expr) (x : String) (hx : x ≠ "")
    (ha : match e with | .call .. | .brace .. | .variable _ | .subset .. | .quoted _ => True | _ => False) :
    x ∈ atomVars e ↔ x ∈ freeVars e := by
  cases e with
  | call c lp as rp =>
    have := argsVars_eq as x hx
    simpa [atomVars, freeVars] using this
  | brace lb e rb => simpa [atomVars, freeVars] using argVars_eq e x hx
  | _ => simp_all [atomVars, freeVars]

/-- a frame without rows is refused, whatever the action -/
theorem C09_empty_refused (action : String) (used : List String) (f : Frame) (h : f.nrows = 0) :
    naStep Spec.C09.documentedActions action used f = .error .valueError := by
  simp [naStep, h]

/-- the NA step refuses every action that is not documented -/
theorem C09_action_refused (action : String) (used : List String) (f : Frame)
    (h : Spec.C09.documentedActions.contains action = false) :
    naStep Spec.C09.documentedActions action used f = .error .valueError := by
  simp only [naStep, h, Bool.not_false, if_true]
  split <;> rfl

/-- `error`: raises iff some selected row is incomplete -/
theorem C09_error_iff (used : List String) (f : Frame) (hn : f.nrows ≠ 0) :
    (naStep Spec.C09.documentedActions "error" used f = .error .valueError) ↔
      (incompleteRows f.nrows (selectCols used f)).any id = true := by
  simp only [naStep, Spec.C09.documentedActions]
  have h0 : (f.nrows == 0) = false := by simpa using hn
  have h1 : ["drop", "error", "pass"].contains "error" = true := by decide
  have h2 : ("error" == "pass") = false := by decide
  have h3 : ("error" == "drop") = false := by decide
  simp only [h0, h1, Bool.not_true, Bool.false_eq_true, if_false, h2, h3]
  split <;> simp_all

/-- `drop`: the design frame is the selected columns restricted to the complete rows; nothing
else changes (order kept); refused when no row is complete -/
theorem C09_drop (used : List String) (f : Frame) (hn : f.nrows ≠ 0) :
    naStep Spec.C09.documentedActions "drop" used f =
      (let inc := incompleteRows f.nrows (selectCols used f)
       if inc.any id then
         (if inc.all id then .error .valueError
          else .ok (keepRows (selectCols used f) (inc.map (!·))))
       else .ok (selectCols used f)) := by
  simp only [naStep, Spec.C09.documentedActions]
  have h0 : (f.nrows == 0) = false := by simpa using hn
  have h1 : ["drop", "error", "pass"].contains "drop" = true := by decide
  have h2 : ("drop" == "pass") = false := by decide
  simp only [h0, h1, Bool.not_true, Bool.false_eq_true, if_false, h2, beq_self_eq_true, if_true]

/-- `pass`: all rows are kept, in order -/
theorem C09_pass (used : List String) (f : Frame) (hn : f.nrows ≠ 0) :
    naStep Spec.C09.documentedActions "pass" used f = .ok (selectCols used f) := by
  simp only [naStep, Spec.C09.documentedActions]
  have h0 : (f.nrows == 0) = false := by simpa using hn
  have h1 : ["drop", "error", "pass"].contains "pass" = true := by decide
  simp only [h0, h1, Bool.not_true, Bool.false_eq_true, if_false, beq_self_eq_true, if_true]
  split <;> rfl

/-- missing values in unused columns are ignored: the mask only looks at selected columns -/
theorem C09_unused_ignored (used : List String) (f : Frame) (c : Column) (hc : used.contains c.name = false) :
    selectCols used (f ++ [c]) = selectCols used f := by
  simp only [selectCols, List.filter_append, List.filter_cons, hc, Bool.false_eq_true, if_false,
    List.filter_nil, List.append_nil]

theorem keep_length {α} (xs : List α) (keep : List Bool) (h : xs.length = keep.length) :
    (kept xs keep).length = (keep.filter id).length := by
  unfold kept
  induction xs generalizing keep with
  | nil => cases keep <;> simp_all
  | cons x xs ih =>
    cases keep with
    | nil => simp at h
    | cons k keep =>
      have := ih keep (by simpa using h)
      cases k <;> simp_all

/-- all three matrices are built from the same filtered frame: the columns keep their names and
order, and every column keeps the same number of rows (row alignment) -/
theorem C09_row_alignment (f : Frame) (keep : List Bool)
    (hl : ∀ c ∈ f, c.cells.length = keep.length) :
    (keepRows f keep).map (·.name) = f.map (·.name) ∧
    ∀ c' ∈ keepRows f keep, c'.cells.length = (keep.filter id).length := by
  constructor
  · simp [keepRows, Function.comp_def]
  · intro c' hc'
    simp only [keepRows, List.mem_map] at hc'
    obtain ⟨c, hc, rfl⟩ := hc'
    exact keep_length c.cells keep (hl c hc)

/-! ### `drop` = the run on the frame from which the incomplete rows were removed -/

theorem selectCols_keepRows (used : List String) (f : Frame) (keep : List Bool) :
    selectCols used (keepRows f keep) = keepRows (selectCols used f) keep := by
  simp only [selectCols, keepRows, List.filter_map]
  congr 1

/-- every cell that survives the mask sits at a position where the mask is true -/
theorem mem_kept {α} (xs : List α) (keep : List Bool) (x : α) (h : x ∈ kept xs keep) :
    ∃ i : Nat, xs[i]? = some x ∧ keep[i]? = some true := by
  unfold kept at h
  induction xs generalizing keep with
  | nil => simp at h
  | cons y ys ih =>
    cases keep with
    | nil => simp at h
    | cons k ks =>
      simp only [List.zip_cons_cons, List.filterMap_cons] at h
      cases k with
      | true =>
        simp only [if_true, List.mem_cons] at h
        rcases h with rfl | h
        · exact ⟨0, by simp, by simp⟩
        · obtain ⟨i, h1, h2⟩ := ih ks h
          exact ⟨i + 1, by simpa using h1, by simpa using h2⟩
      | false =>
        simp only [Bool.false_eq_true, if_false] at h
        obtain ⟨i, h1, h2⟩ := ih ks h
        exact ⟨i + 1, by simpa using h1, by simpa using h2⟩

theorem kept_all_true {α} (xs : List α) (keep : List Bool) (hl : xs.length = keep.length)
    (ht : ∀ b ∈ keep, b = true) : kept xs keep = xs := by
  unfold kept
  induction xs generalizing keep with
  | nil => cases keep <;> simp_all
  | cons y ys ih =>
    cases keep with
    | nil => simp at hl
    | cons k ks =>
      have hk : k = true := ht k (by simp)
      subst hk
      simp only [List.zip_cons_cons, List.filterMap_cons, if_true]
      rw [ih ks (by simpa using hl) (fun b hb => ht b (by simp [hb]))]

/-- after removing the incomplete rows no selected cell is missing -/
theorem no_missing_after_drop (n : Nat) (sel : Frame) (c : Column) (hc : c ∈ sel) (x : Cell)
    (hx : x ∈ kept c.cells ((incompleteRows n sel).map (!·))) : cellMissing x = false := by
  obtain ⟨i, h1, h2⟩ := mem_kept _ _ _ hx
  simp only [incompleteRows, List.map_map, List.getElem?_map, Option.map_eq_some_iff] at h2
  obtain ⟨r, hr, hb⟩ := h2
  have hri : r = i := by
    have := List.getElem?_range (n := n) (i := i)
    cases hlt : decide (i < n) with
    | true =>
      have hlt' : i < n := by simpa using hlt
      simp [List.getElem?_range hlt'] at hr
      exact hr.symm
    | false =>
      have hge : n ≤ i := by simpa using hlt
      have : (List.range n)[i]? = none := by simp [hge]
      simp [this] at hr
  subst hri
  simp only [Function.comp, Bool.not_eq_true', List.any_eq_false] at hb
  have := hb c hc
  simpa [List.getD, h1] using this

theorem incompleteRows_after_drop (n m : Nat) (sel : Frame)
    (hl : ∀ c ∈ sel, (kept c.cells ((incompleteRows n sel).map (!·))).length = m) :
    (incompleteRows m (keepRows sel ((incompleteRows n sel).map (!·)))).any id = false := by
  simp only [incompleteRows, List.any_map, List.any_eq_false, List.mem_range, Function.comp, id]
  intro r hr
  simp only [keepRows, List.any_map, Function.comp, Bool.not_eq_true, List.any_eq_false]
  intro c hc
  have hlen := hl c hc
  have hmem : (kept c.cells ((incompleteRows n sel).map (!·))).getD r .na
      ∈ kept c.cells ((incompleteRows n sel).map (!·)) := by
    have hr' : r < (kept c.cells ((incompleteRows n sel).map (!·))).length := by omega
    simp only [List.getD_eq_getElem?_getD, List.getElem?_eq_getElem hr', Option.getD_some]
    exact List.getElem_mem _
  have := no_missing_after_drop n sel c hc _ hmem
  simpa [incompleteRows] using this

theorem nrows_keepRows (f : Frame) (keep : List Bool) (hw : ∀ c ∈ f, c.cells.length = keep.length)
    (hf : f ≠ []) : (keepRows f keep).nrows = (keep.filter id).length := by
  cases f with
  | nil => exact absurd rfl hf
  | cons c cs =>
    simp only [keepRows, List.map_cons, Frame.nrows]
    exact keep_length c.cells keep (hw c (by simp))

/-- **drop is the run on the filtered frame.**  For a well-formed frame (all columns have
`f.nrows` cells), `na_action='drop'` gives exactly what the same call gives on the frame from which
the rows with a missing value in a used column were removed — including the refusal when no row
is complete (the filtered frame is then empty, which is refused too). -/
theorem C09_drop_eq_filtered (used : List String) (f : Frame)
    (hw : ∀ c ∈ f, c.cells.length = f.nrows) :
    naStep Spec.C09.documentedActions "drop" used f =
      naStep Spec.C09.documentedActions "drop" used
        (keepRows f ((incompleteRows f.nrows (selectCols used f)).map (!·))) := by
  generalize hkeep : (incompleteRows f.nrows (selectCols used f)).map (!·) = keep
  have hklen : keep.length = f.nrows := by subst hkeep; simp [incompleteRows]
  have hw' : ∀ c ∈ f, c.cells.length = keep.length := fun c hc => by rw [hklen]; exact hw c hc
  by_cases hn : f.nrows = 0
  · -- no rows: both sides refused
    have h2 : (keepRows f keep).nrows = 0 := by
      cases f with
      | nil => rfl
      | cons c cs =>
        rw [nrows_keepRows _ _ hw' (by simp)]
        have : keep = [] := List.eq_nil_of_length_eq_zero (by omega)
        simp [this]
    rw [C09_empty_refused _ _ _ hn, C09_empty_refused _ _ _ h2]
  · have hf : f ≠ [] := by intro h; subst h; exact hn rfl
    have hnr : (keepRows f keep).nrows = (keep.filter id).length := nrows_keepRows _ _ hw' hf
    rw [C09_drop used f hn]
    simp only
    by_cases hany : (incompleteRows f.nrows (selectCols used f)).any id = true
    · rw [if_pos hany]
      by_cases hall : (incompleteRows f.nrows (selectCols used f)).all id = true
      · -- every row incomplete: nothing is kept, the filtered frame is empty
        rw [if_pos hall]
        have : (keep.filter id).length = 0 := by
          subst hkeep
          simp only [List.length_eq_zero_iff, List.filter_eq_nil_iff, List.mem_map, id]
          rintro b ⟨a, ha, rfl⟩
          have := (List.all_eq_true.mp hall) a ha
          simp_all
        rw [C09_empty_refused _ _ _ (by omega)]
      · rw [if_neg hall]
        have hpos : (keepRows f keep).nrows ≠ 0 := by
          rw [hnr]
          subst hkeep
          have hall' : ∃ a ∈ incompleteRows f.nrows (selectCols used f), a = false := by
            simpa [List.all_eq_true] using hall
          obtain ⟨a, ha, hne⟩ := hall'
          have : (!a) ∈ ((incompleteRows f.nrows (selectCols used f)).map (!·)).filter id := by
            simp only [List.mem_filter, List.mem_map, id]
            exact ⟨⟨a, ha, rfl⟩, by simp [hne]⟩
          intro h0
          rw [List.length_eq_zero_iff] at h0
          simp [h0] at this
        rw [C09_drop used _ hpos]
        simp only
        rw [selectCols_keepRows, hnr]
        have hsel : ∀ c ∈ selectCols used f, (kept c.cells keep).length = (keep.filter id).length := by
          intro c hc
          exact keep_length _ _ (hw' c (List.mem_filter.mp hc).1)
        have hnone := incompleteRows_after_drop f.nrows (keep.filter id).length (selectCols used f)
          (by rw [hkeep]; exact hsel)
        rw [hkeep] at hnone
        rw [if_neg (by simpa using hnone), hkeep]
    · -- no incomplete row: nothing is removed
      rw [if_neg hany]
      have hall : ∀ b ∈ keep, b = true := by
        subst hkeep
        intro b hb
        simp only [List.mem_map] at hb
        obtain ⟨a, ha, rfl⟩ := hb
        have : ¬ (a = true) := fun h => hany (List.any_eq_true.mpr ⟨a, ha, by simpa using h⟩)
        simpa using this
      have hsame : keepRows f keep = f := by
        simp only [keepRows]
        conv => rhs; rw [← List.map_id f]
        apply List.map_congr_left
        intro c hc
        simp [kept_all_true c.cells keep (hw' c hc) hall]
      rw [hsame, C09_drop used f hn]
      simp only
      rw [if_neg hany]

/-- non-vacuity: a well-formed frame with a complete and an incomplete row in a used column, an
unused column with a missing value, and the all-incomplete frame (refused on both sides) -/
def exFrame : Frame :=
  [⟨"x", .string, [.str "a", .na, .str "c"]⟩, ⟨"u", .string, [.na, .str "p", .str "q"]⟩]

example : (∀ c ∈ exFrame, c.cells.length = exFrame.nrows) := by decide

example :
    (match naStep Spec.C09.documentedActions "drop" ["x"] exFrame with
     | .ok g => g.map (fun c => (c.name, c.cells)) == [("x", [.str "a", .str "c"])]
     | .error _ => false) = true ∧
    (match naStep Spec.C09.documentedActions "drop" ["u"] [⟨"u", .string, [.na, .na]⟩] with
     | .ok _ => false
     | .error _ => true) = true := by
  decide

theorem actions_tie : Generated.naActions = Spec.C09.documentedActions := by decide

-- ---------------------------------------------------------------------------------------------
-- which variables a formula uses: the resolved model, not the text
-- ---------------------------------------------------------------------------------------------
/-- the used variables of a formula text under the two readings: as the code computes them
(`Model.var_names` of the resolved model, `Pipeline.usedVars`), as the specification reads the
statement (variables of the terms of the denotation, `Spec.C09.usedVars`), and as written
(`NA.formulaVars`, every atom at a term position) -/
def readings (s : String) : Option (List String × List String × List String) :=
  match Scanner.scan s.toList true with
  | .ok ts =>
    (match Parser.parse Generated.parserTable ts with
     | .ok e => some (Pipeline.usedVars Generated.resolverOps e, Spec.C09.usedVars e, formulaVars e)
     | .error _ => none)
  | .error _ => none

/-- **The proved pipeline is the executed pipeline.**  The whole-pipeline theorems of C04 / C15 /
C17 are stated about `Pipeline.designMatrices` (every variable written in the formula is selected by
the NA step); the driver executes `Pipeline.designMatricesModel` (the variables of the resolved
model, as the code does).  The two are the same function on every formula, frame and policy for
which the two readings select the same columns — i.e. unless every term of some variable of the
frame is removed again (the case above). -/
theorem C09_pipeline_readings_agree (table : Parser.Table) (ops : Resolver.OpTable)
    (actions : List String) (formula : String) (env : Design.Env) (naAction : String)
    (h : Pipeline.SameSelection table ops formula env.frame) :
    Pipeline.designMatrices table ops actions formula env naAction =
      Pipeline.designMatricesModel table ops actions formula env naAction :=
  Pipeline.designMatrices_eq_model table ops actions formula env naAction h

/-- the hypothesis of `C09_pipeline_readings_agree` is satisfiable (a frame with missing values in
used columns, a formula with an interaction and a call), and fails exactly where a variable is
removed again -/
def selFrame : Frame :=
  [⟨"y", .numeric false, [.num 1, .num 2, .num 3]⟩, ⟨"a", .numeric false, [.num 1, .na, .num 2]⟩,
   ⟨"x", .numeric false, [.na, .num 3, .num 4]⟩, ⟨"u", .numeric false, [.na, .na, .num 0]⟩]

example : Pipeline.SameSelection Generated.parserTable Generated.resolverOps "y ~ a:x + f(x, k = a)"
    selFrame :=
  Pipeline.sameSel_sound _ _ _ _ (by decide +kernel)

example : Pipeline.sameSel Generated.parserTable Generated.resolverOps "y ~ a + x - x" selFrame = false := by
  decide +kernel

end FormulaeModel.C09
