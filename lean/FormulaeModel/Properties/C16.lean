import FormulaeModel.Spec.C16
import FormulaeModel.Generated.Tables
import FormulaeModel.Proofs.ResponseCategorical
import FormulaeModel.Proofs.HelpersPredict
/-
C16 — theorems about the model of the helper functions of transforms.py.
-/
namespace FormulaeModel.C16
open FormulaeModel FormulaeModel.Design

/-- `binary(x, s)` on a numeric column with an explicit success value: accepted iff `s` occurs,
and then the result is 1 exactly where x equals s (every length, every value) -/
theorem C16_binary_numeric (xs : List Rat) (isInt : Bool) (s : Rat) (sInt : Bool) :
    binaryFn (.vec (xs.map some) isInt) (.num s sInt) =
      if xs.contains s then .ok (.vec (xs.map (fun v => some (if v = s then 1 else 0))) true)
      else .error (.valueError "No value in 'x' is equal") := by
  simp only [binaryFn, bind, Except.bind, pure, Except.pure]
  have h1 : (xs.map some).any Option.isNone = false := by simp
  have h2 : (xs.map some).filterMap id = xs := by simp [List.filterMap_map]
  simp only [h1, Bool.false_eq_true, if_false, h2]
  split
  · congr 2
    simp only [List.map_map]
    apply List.map_congr_left
    intro v _
    simp [Function.comp]
  · rfl

/-- with the success value omitted `binary` uses the smallest value of the data it is given -/
theorem C16_binary_default (xs : List Rat) (isInt : Bool) (m : Rat) (rest : List Rat)
    (h : sortBy (· < ·) xs = m :: rest) :
    binaryFn (.vec (xs.map some) isInt) .pyNone = binaryFn (.vec (xs.map some) isInt) (.num m true) := by
  simp only [binaryFn, bind, Except.bind, pure, Except.pure]
  have h1 : (xs.map some).any Option.isNone = false := by simp
  have h2 : (xs.map some).filterMap id = xs := by simp [List.filterMap_map]
  simp only [h1, Bool.false_eq_true, if_false, h2, h]

/-- `offset(v)` contributes `v` unchanged; a constant is broadcast to every row -/
theorem C16_offset_variable (xs : List Entry) (isInt : Bool) (own : Option Rat) :
    applyCallee "offset" ⟨[.vec xs isInt], []⟩ own = .ok (.offsetVar xs, own) := rfl

theorem C16_offset_constant (q : Rat) (isInt : Bool) (own : Option Rat) :
    applyCallee "offset" ⟨[.num q isInt], []⟩ own = .ok (.offsetConst q, own) := rfl

/-- `I(e)` is `e` -/
theorem C16_I (v : Val) (own : Option Rat) : applyCallee "I" ⟨[v], []⟩ own = .ok (v, own) := rfl

/-- `prop` is accepted exactly when successes and trials are integers with successes ≤ trials -/
theorem C16_prop_valid_iff (ss ts : List Entry) (i j : Bool) :
    (∃ v, proportionFn (.vec ss i) (.vec ts j) = .ok v) ↔ Spec.C16.propValid ss ts = true := by
  have hp : Spec.C16.propValid ss ts =
      (isIntegral ss && isIntegral ts &&
        (List.zipWith (fun a b => match a, b with | some x, some y => decide (x ≤ y) | _, _ => false)
          ss ts).all id) := rfl
  rw [hp]
  unfold proportionFn
  simp only [bind, Except.bind, pure, Except.pure]
  cases h1 : isIntegral ss <;> cases h2 : isIntegral ts <;>
    cases h3 : (List.zipWith (fun a b => match a, b with
        | some x, some y => decide (x ≤ y) | _, _ => false) ss ts).all id <;>
    simp

theorem aliases_shape : Generated.aliasShapeOk = true := by decide
/-- tie: in the live TRANSFORMS registry the documented aliases are one object each -/
theorem aliases_tie : Spec.C16.documentedAliases.all
    (fun g => Generated.aliasGroups.any (fun h => g.all h.contains)) = true := by decide

-- ---------------------------------------------------------------------------------------------
-- `binary` on string / categorical data
-- ---------------------------------------------------------------------------------------------
/-- `binary(x, s)` on a string / categorical column (or any column of levels) with an explicit
success value: accepted iff `s` occurs in the data, and then the result is 1 exactly where x
equals s.  The declared categories `d` (ordered or not) play no role. -/
theorem C16_binary_levels (xs : List Level) (d : Option (Bool × List String)) (v : Val) (s : Level)
    (hs : levelOfVal v = some s) :
    binaryFn (.lvec (xs.map some) d) v =
      if xs.contains s then .ok (.vec (xs.map (fun x => some (if x = s then 1 else 0))) true)
      else .error (.valueError "No value in 'x' is equal") := by
  have hne := levelOfVal_ne_pyNone v s hs
  have h1 : (xs.map some).any Option.isNone = false := by simp
  have h2 : (xs.map some).filterMap id = xs := by simp [List.filterMap_map]
  unfold binaryFn
  simp only [h1, Bool.false_eq_true, if_false, h2, bind, Except.bind, pure, Except.pure]
  cases v <;> simp_all [levelOfVal]
  all_goals simp [Function.comp_def]

/-- with the success value omitted, `binary` on levels uses the first of the sorted distinct
values of the data it is given — the smallest value: it occurs in the data and no value is below
it — and is then never refused.  For an ordered categorical the *declared* order is not
consulted (`d` is arbitrary). -/
theorem C16_binary_levels_default (xs : List Level) (d : Option (Bool × List String)) (m : Level)
    (rest : List Level) (h : sortLevels xs = some (m :: rest)) :
    binaryFn (.lvec (xs.map some) d) .pyNone =
      .ok (.vec (xs.map (fun x => some (if x = m then 1 else 0))) true) ∧
    m ∈ xs ∧ ∀ l ∈ xs, levelLt l m = false := by
  obtain ⟨hm, hmin⟩ := sortLevels_head_min xs m rest h
  refine ⟨?_, hm, hmin⟩
  have h1 : (xs.map some).any Option.isNone = false := by simp
  have h2 : (xs.map some).filterMap id = xs := by simp [List.filterMap_map]
  unfold binaryFn
  simp only [h1, Bool.false_eq_true, if_false, h2, bind, Except.bind, pure, Except.pure, h]
  simp [hm, Function.comp_def]

/-- … and it is refused when there is no smallest value: no data, or values of mixed type -/
theorem C16_binary_levels_default_refused (xs : List Level) (d : Option (Bool × List String))
    (h : sortLevels xs = none ∨ sortLevels xs = some []) :
    binaryFn (.lvec (xs.map some) d) .pyNone = .error (.valueError "empty") := by
  have h1 : (xs.map some).any Option.isNone = false := by simp
  have h2 : (xs.map some).filterMap id = xs := by simp [List.filterMap_map]
  unfold binaryFn
  rcases h with h | h <;>
    simp only [h1, Bool.false_eq_true, if_false, h2, bind, Except.bind, pure, Except.pure, h]

/-- a success value that is not a level (a float, `True`, a list, …) is refused -/
theorem C16_binary_levels_bad_success (xs : List Level) (d : Option (Bool × List String)) (v : Val)
    (hv : v ≠ .pyNone) (hs : levelOfVal v = none) :
    binaryFn (.lvec (xs.map some) d) v = .error (.valueError "No value in 'x' is equal") := by
  have h1 : (xs.map some).any Option.isNone = false := by simp
  have h2 : (xs.map some).filterMap id = xs := by simp [List.filterMap_map]
  unfold binaryFn
  simp only [h1, Bool.false_eq_true, if_false, h2, bind, Except.bind, pure, Except.pure]
  cases v <;> simp_all [levelOfVal]

/-- **model = statement** for `binary` on levels: the model returns exactly the column of
`Spec.C16.binaryExpected` (1 where x equals s; s the smallest value if omitted) and refuses exactly
when the statement has no column (the success value never occurs / there is no smallest value) -/
theorem C16_binary_levels_spec (xs : List Level) (d : Option (Bool × List String)) (v : Val)
    (s : Option Level)
    (hs : (v = .pyNone ∧ s = none) ∨ (∃ l, levelOfVal v = some l ∧ s = some l)) :
    match Spec.C16.binaryExpected (xs.map some) s with
    | some col => binaryFn (.lvec (xs.map some) d) v = .ok (.vec col true)
    | none => ∃ e, binaryFn (.lvec (xs.map some) d) v = .error e := by
  have h2 : (xs.map some).filterMap id = xs := by simp [List.filterMap_map]
  rcases hs with ⟨rfl, rfl⟩ | ⟨l, hl, rfl⟩
  · simp only [Spec.C16.binaryExpected, h2]
    cases hsl : sortLevels xs with
    | none =>
      simp only [Option.bind_none]
      exact ⟨_, C16_binary_levels_default_refused xs d (Or.inl hsl)⟩
    | some ls =>
      cases ls with
      | nil =>
        simp only [Option.bind_some, List.head?_nil]
        exact ⟨_, C16_binary_levels_default_refused xs d (Or.inr hsl)⟩
      | cons m rest =>
        obtain ⟨h1, hm, _⟩ := C16_binary_levels_default xs d m rest hsl
        simp only [Option.bind_some, List.head?_cons]
        have : (xs.map some).contains (some m) = true := by simpa using hm
        simp only [this, if_true]
        rw [h1]
        simp [Function.comp_def]
  · simp only [Spec.C16.binaryExpected]
    rw [C16_binary_levels xs d v l hl]
    by_cases hc : l ∈ xs
    · have : (xs.map some).contains (some l) = true := by simpa using hc
      simp [this, hc, Function.comp_def]
    · have : (xs.map some).contains (some l) = false := by simpa using hc
      simp [this, hc]

-- ---------------------------------------------------------------------------------------------
-- helpers at prediction time (`eval_new_data`)
-- ---------------------------------------------------------------------------------------------
/-- **`offset(x)` at training and at prediction**: the training column is `x` unchanged, and on a
new frame the offset is the new frame's `x`, unchanged — recomputed, whatever the training data
were -/
theorem C16_offset_variable_predict (env : Env) (name : String) (k : Kind) (lp rp v : Token)
    (c : Column) (xs : List Entry) (i full : Bool) (out : CompOut)
    (hc : env.frame.col? v.lexeme = some c) (hv : colVal c = .vec xs i)
    (h : trainComp env name (call1 k "offset" lp rp (.variable v)) false false full = .ok out) :
    out.value = colOfEntries xs ∧ out.st.kind = .offset ∧
    ∀ (env' : Env) (mode : UnseenMode) (c' : Column) (xs' : List Entry) (i' : Bool),
      env'.frame.col? v.lexeme = some c' → colVal c' = .vec xs' i' →
      newComp out.st env' mode = .ok (colOfEntries xs', false) := by
  have ha := evalArg_variable env v (TS.child none 0) _ (lookupName_col env _ c hc)
  simp only [call1, trainComp, evalArg_call1 env k "offset" lp rp _ none _ _ ha, hv] at h
  simp only [finishCall_offset, C16_offset_variable, bind, Except.bind, pure, Except.pure, posOnly] at h
  simp only [Bool.false_eq_true, if_false, Except.ok.injEq] at h
  subst h
  refine ⟨rfl, rfl, ?_⟩
  intro env' mode c' xs' i' hc' hv'
  have ha' := evalArg_variable env' v (TS.child (some (TS.node (TS.own none) [TS.leaf])) 0) _
    (lookupName_col env' _ c' hc')
  rw [newComp_offset _ env' mode rfl rfl]
  simp only [evalArg_call1 env' k "offset" lp rp _ _ _ _ ha', hv', finishCall_offset,
    C16_offset_variable, bind, Except.bind, pure, Except.pure, posOnly]

/-- `offset(c)` with an argument that evaluates to a number at training (a literal —
`evalArg_intLiteral` —, or a name bound to a number in the caller's namespace): the constant is
broadcast to the rows of the training frame, and at prediction to the rows of the **new** frame -/
theorem C16_offset_constant_predict (env : Env) (name : String) (k : Kind) (lp rp : Token) (a : Expr)
    (q : Rat) (isInt : Bool) (sa : TS) (full : Bool) (out : CompOut)
    (ha : evalArg env a (TS.child none 0) = .ok (none, .num q isInt, sa))
    (h : trainComp env name (call1 k "offset" lp rp a) false false full = .ok out) :
    out.value = List.replicate env.frame.nrows [some q] ∧ out.st.kind = .offset ∧
    ∀ (env' : Env) (mode : UnseenMode),
      newComp out.st env' mode = .ok (List.replicate env'.frame.nrows [some q], false) := by
  simp only [call1, trainComp, evalArg_call1 env k "offset" lp rp _ none _ _ ha] at h
  simp only [finishCall_offset, C16_offset_constant, bind, Except.bind, pure, Except.pure, posOnly] at h
  simp only [Bool.false_eq_true, if_false, Except.ok.injEq] at h
  subst h
  refine ⟨rfl, rfl, ?_⟩
  intro env' mode
  rw [newComp_offset _ env' mode rfl rfl]

/-- what `eval_new_data` does for **every** offset component: a remembered constant is broadcast
to the rows of the new frame, otherwise the call is re-evaluated on the new frame -/
theorem C16_offset_newdata (st : CompState) (env' : Env) (mode : UnseenMode)
    (he : isCallLike' st.expr = true) (hk : st.kind = .offset) :
    newComp st env' mode =
      match st.offsetConst with
      | some q => .ok (List.replicate env'.frame.nrows [some q], false)
      | none =>
        match posOnly (evalArg env' st.expr (some st.tstate)) with
        | .ok (.offsetVar xs, _) => .ok (colOfEntries xs, false)
        | .ok _ => .error .typeError
        | .error e => .error e :=
  newComp_offset st env' mode he hk

/-- **`prop(s, t)` / `p` / `proportion` with a trials column**: at training the two columns
(successes, trials) — after the validation of `C16_prop_valid_iff` —, and at prediction the trials
column of the **new** frame -/
theorem C16_prop_variable_predict (env : Env) (name : String) (k : Kind) (f : String)
    (hf : f = "p" ∨ f = "prop" ∨ f = "proportion") (lp cm rp s t : Token)
    (cs ct : Column) (ss ts : List Entry) (i j full : Bool) (out : CompOut)
    (hcs : env.frame.col? s.lexeme = some cs) (hvs : colVal cs = .vec ss i)
    (hct : env.frame.col? t.lexeme = some ct) (hvt : colVal ct = .vec ts j)
    (h : trainComp env name (call2 k f lp cm rp (.variable s) (.variable t)) false true full = .ok out) :
    out.value = List.zipWith (fun a b => [a, b]) ss ts ∧ out.st.kind = .proportion ∧
    Spec.C16.propValid ss ts = true ∧
    ∀ (env' : Env) (mode : UnseenMode) (c' : Column) (ts' : List Entry) (j' : Bool),
      env'.frame.col? t.lexeme = some c' → colVal c' = .vec ts' j' →
      newComp out.st env' mode = .ok (colOfEntries ts', false) := by
  have ha := evalArg_variable env s (TS.child none 0) _ (lookupName_col env _ cs hcs)
  have hb := evalArg_variable env t (TS.child none 1) _ (lookupName_col env _ ct hct)
  have hfc : finishCall f = finishCall "p" := by
    rcases hf with rfl | rfl | rfl <;> rfl
  simp only [call2, trainComp, evalArg_call2 env k f lp rp cm _ _ none _ _ _ _ ha hb, hvs, hvt, hfc] at h
  simp only [finishCall_p, CallArgs.get, bind, Except.bind, pure, Except.pure, posOnly] at h
  cases hp : proportionFn (.vec ss i) (.vec ts j) with
  | error e => simp [hp] at h
  | ok v =>
    have hv := proportionFn_vec_ok ss ts i j v hp
    subst hv
    simp only [hp, List.getElem?_cons_zero, List.getElem?_cons_succ, Bool.not_true,
      Bool.false_eq_true, if_false, Except.ok.injEq] at h
    subst h
    refine ⟨rfl, rfl, (C16_prop_valid_iff ss ts i j).1 ⟨_, hp⟩, ?_⟩
    intro env' mode c' ts' j' hc' hv'
    rw [newComp_proportion _ env' mode rfl rfl]
    simp only [Option.bind_some, hc', hv']

/-- `prop(s, c)` with a trials argument that evaluates to an integer constant at training (a literal,
or a name bound to an integer): broadcast at training, and at prediction to the rows of the
**new** frame -/
theorem C16_prop_constant_predict (env : Env) (name : String) (k : Kind) (f : String)
    (hf : f = "p" ∨ f = "prop" ∨ f = "proportion") (lp cm rp s : Token) (b : Expr) (n : Rat) (sb : TS)
    (cs : Column) (ss : List Entry) (i full : Bool) (out : CompOut)
    (hcs : env.frame.col? s.lexeme = some cs) (hvs : colVal cs = .vec ss i)
    (hb : evalArg env b (TS.child none 1) = .ok (none, .num n true, sb))
    (h : trainComp env name (call2 k f lp cm rp (.variable s) b) false true full = .ok out) :
    out.value = ss.map (fun a => [a, some n]) ∧ out.st.kind = .proportion ∧
    ∀ (env' : Env) (mode : UnseenMode),
      newComp out.st env' mode = .ok (List.replicate env'.frame.nrows [some n], false) := by
  have ha := evalArg_variable env s (TS.child none 0) _ (lookupName_col env _ cs hcs)
  have hfc : finishCall f = finishCall "p" := by
    rcases hf with rfl | rfl | rfl <;> rfl
  simp only [call2, trainComp, evalArg_call2 env k f lp rp cm _ _ none _ _ _ _ ha hb, hvs, hfc] at h
  simp only [finishCall_p, CallArgs.get, bind, Except.bind, pure, Except.pure, posOnly] at h
  cases hp : proportionFn (.vec ss i) (.num n true) with
  | error e => simp [hp] at h
  | ok v =>
    have hv := proportionFn_const_ok ss i n v hp
    subst hv
    simp only [hp, List.getElem?_cons_zero, List.getElem?_cons_succ, Bool.not_true,
      Bool.false_eq_true, if_false, Except.ok.injEq] at h
    have hval : out.value = List.zipWith (fun a b => [a, b]) ss (List.replicate ss.length (some n)) ∧
        out.st.kind = .proportion ∧ out.st.propConst = some n ∧ isCallLike' out.st.expr = true := by
      cases b <;> (simp only [] at h; subst h; exact ⟨rfl, rfl, rfl, rfl⟩)
    obtain ⟨h1, h2, h3, h4⟩ := hval
    refine ⟨?_, h2, ?_⟩
    · rw [h1]
      clear hp hvs ha h h1
      induction ss with
      | nil => rfl
      | cons a ss ih => simp [List.replicate_succ, ih]
    · intro env' mode
      rw [newComp_proportion _ env' mode h4 h2, h3]

/-- what `eval_new_data` does for **every** proportion component -/
theorem C16_prop_newdata (st : CompState) (env' : Env) (mode : UnseenMode)
    (he : isCallLike' st.expr = true) (hk : st.kind = .proportion) :
    newComp st env' mode =
      match st.propConst with
      | some q => .ok (List.replicate env'.frame.nrows [some q], false)
      | none =>
        match st.propTrialsName.bind env'.frame.col? with
        | some c => match colVal c with
          | .vec xs _ => .ok (colOfEntries xs, false)
          | _ => .error .typeError
        | none => .error (.keyError "trials") :=
  newComp_proportion st env' mode he hk

/-- **`binary` is not stateful** (finding D14): on a new frame `binary(x)` / `B(x)` is `binaryFn`
of the **new** column alone — the success value is re-derived from the new data (its smallest
value), nothing of the training frame is remembered; with an explicit success value `binary(x, s)`
re-checks that `s` occurs in the new column and refuses the prediction otherwise. -/
theorem C16_binary_newdata_recomputed (env : Env) (name : String) (k : Kind) (f : String)
    (hf : f = "binary" ∨ f = "B") (lp rp v : Token) (full : Bool) (out : CompOut)
    (h : trainComp env name (call1 k f lp rp (.variable v)) false false full = .ok out) :
    ∀ (env' : Env) (mode : UnseenMode) (c' : Column), env'.frame.col? v.lexeme = some c' →
      newComp out.st env' mode =
        match binaryFn (colVal c') .pyNone with
        | .ok (.vec ys _) => .ok (colOfEntries ys, false)
        | .ok _ => .error (.unmodelled "numeric call returned a non-vector")
        | .error e => .error e := by
  have hfc : finishCall f = finishCall "binary" := by
    rcases hf with rfl | rfl <;> rfl
  intro env' mode c' hc'
  -- the trained state: a numeric call component holding the expression
  have hst : out.st.expr = call1 k f lp rp (.variable v) ∧ out.st.kind = .numeric := by
    cases hl : lookupName env v.lexeme with
    | error e =>
      simp only [call1, trainComp, evalArg, evalArgs, hl, bind, Except.bind, posOnly] at h
      simp at h
    | ok val =>
      have ha := evalArg_variable env v (TS.child none 0) _ hl
      simp only [call1, trainComp, evalArg_call1 env k f lp rp _ none _ _ ha, hfc] at h
      simp only [finishCall_binary, CallArgs.get, bind, Except.bind, pure, Except.pure, posOnly] at h
      cases hb : binaryFn val .pyNone with
      | error e =>
        simp only [List.getElem?_cons_zero, List.getElem?_cons_succ, List.getElem?_nil,
          List.find?_nil, Option.map_none, Option.getD_none, hb] at h
        cases h
      | ok r =>
        have hr : ∃ ys b, r = .vec ys b := binaryFn_vec _ _ _ hb
        obtain ⟨ys, b, rfl⟩ := hr
        simp only [List.getElem?_cons_zero, List.getElem?_cons_succ, List.getElem?_nil,
          List.find?_nil, Option.map_none, Option.getD_none, hb, Bool.false_eq_true, if_false,
          Except.ok.injEq] at h
        subst h
        exact ⟨rfl, rfl⟩
  obtain ⟨hexp, hkind⟩ := hst
  have ha' := evalArg_variable env' v (TS.child (some out.st.tstate) 0) _ (lookupName_col env' _ c' hc')
  rw [newComp_numericCall _ env' mode (by rw [hexp]; rfl) hkind, hexp]
  simp only [call1, evalArg_call1 env' k f lp rp _ _ _ _ ha', hfc, finishCall_binary, CallArgs.get,
    bind, Except.bind, pure, Except.pure, posOnly]
  simp
  cases binaryFn (colVal c') .pyNone with
  | error e => rfl
  | ok r => cases r <;> rfl

-- ---------------------------------------------------------------------------------------------
-- aliases at the evaluation level
-- ---------------------------------------------------------------------------------------------
/-- `B` is `binary`, `p` and `prop` are `proportion`: the same function of the evaluated
arguments and the transform state (results and errors alike) -/
theorem C16_alias_functions :
    finishCall "B" = finishCall "binary" ∧ finishCall "p" = finishCall "proportion" ∧
    finishCall "prop" = finishCall "proportion" :=
  ⟨by funext a own; rfl, by funext a own; rfl, by funext a own; rfl⟩

/-- … hence a call spelled with an alias evaluates like the call spelled with the other name, on
every frame, for every argument list (keywords included), at training and at prediction -/
theorem C16_alias_eval (env : Env) (f g : String) (hfg : finishCall f = finishCall g)
    (k k' : Kind) (lp lp' rp rp' : Token) (as : Args) (ts : Option TS) :
    evalArg env (.call (.variable ⟨k, f⟩) lp as rp) ts =
      evalArg env (.call (.variable ⟨k', g⟩) lp' as rp') ts := by
  simp only [evalArg, hfg]

/-- `Treatment(r)` / `Sum(o)` evaluate to the coding with that reference / omitted level -/
theorem C16_Treatment_value (r : Val) (own : Option Rat) :
    applyCallee "Treatment" ⟨[r], []⟩ own = .ok (.contrast (.treatment (levelOfVal r)), own) := rfl
theorem C16_Sum_value (o : Val) (own : Option Rat) :
    applyCallee "Sum" ⟨[o], []⟩ own = .ok (.contrast (.sum (levelOfVal o)), own) := rfl

/-- `T(x, r, …) = C(x, Treatment(r), …)` for data that is not already a `CategoricalBox`
(guard = the complement of the class of finding D25) -/
theorem C16_alias_T_partial (x r : Val) (tl : List Val) (kw : List (String × Val)) (own : Option Rat)
    (hx : ∀ b, x ≠ .box b) :
    applyCallee "T" ⟨x :: r :: tl, kw⟩ own =
      applyCallee "C" ⟨x :: .contrast (.treatment (levelOfVal r)) :: tl, kw⟩ own := by
  cases x <;> first | (exact absurd rfl (hx _)) | skip
  all_goals
    simp only [applyCallee, CallArgs.get, List.getElem?_cons_zero, List.getElem?_cons_succ,
      contrastOfVal, bind, Except.bind, pure, Except.pure]

/-- `S(x, o, …) = C(x, Sum(o), …)`, same guard -/
theorem C16_alias_S_partial (x o : Val) (tl : List Val) (kw : List (String × Val)) (own : Option Rat)
    (hx : ∀ b, x ≠ .box b) :
    applyCallee "S" ⟨x :: o :: tl, kw⟩ own =
      applyCallee "C" ⟨x :: .contrast (.sum (levelOfVal o)) :: tl, kw⟩ own := by
  cases x <;> first | (exact absurd rfl (hx _)) | skip
  all_goals
    simp only [applyCallee, CallArgs.get, List.getElem?_cons_zero, List.getElem?_cons_succ,
      contrastOfVal, bind, Except.bind, pure, Except.pure]

/-- outside the guard the alias fails (finding D25): `T(C(g), "b")` is refused although
`C(C(g), Treatment("b"))` is accepted -/
theorem C16_alias_T_counterexample :
    let box : Val := .box ⟨[some (.s "a"), some (.s "b")], none, none⟩
    (∃ e, applyCallee "T" ⟨[box, .str "b"], []⟩ none = .error e) ∧
    (∃ v, applyCallee "C" ⟨[box, .contrast (.treatment (levelOfVal (.str "b")))], []⟩ none = .ok v) :=
  ⟨⟨_, rfl⟩, ⟨_, rfl⟩⟩

-- ---------------------------------------------------------------------------------------------
-- non-vacuity: the hypotheses of the theorems above hold for concrete small inputs
-- ---------------------------------------------------------------------------------------------
namespace Ex
def tk (k : Kind) (s : String) : Token := ⟨k, s⟩
def fr : Frame :=
  [⟨"x", .numeric true, [.num 3, .num 1, .num 3]⟩, ⟨"s", .numeric true, [.num 1, .num 0, .num 2]⟩,
   ⟨"t", .numeric true, [.num 2, .num 2, .num 2]⟩, ⟨"g", .string, [.str "b", .str "a", .str "b"]⟩]
def fr' : Frame :=
  [⟨"x", .numeric true, [.num 7, .num 9]⟩, ⟨"s", .numeric true, [.num 1, .num 0]⟩,
   ⟨"t", .numeric true, [.num 5, .num 6]⟩, ⟨"g", .string, [.str "a", .str "a"]⟩]
def env : Env := ⟨fr, [("k", .num 3 true)]⟩
def env' : Env := ⟨fr', []⟩
def lp := tk .LEFT_PAREN "("
def rp := tk .RIGHT_PAREN ")"
def cm := tk .COMMA ","
def var (n : String) : Expr := .variable (tk .IDENTIFIER n)
theorem ok_of_toBool {ε α : Type} (x : Except ε α) (h : x.toBool = true) : ∃ a, x = .ok a := by
  cases x with
  | ok a => exact ⟨a, rfl⟩
  | error e => cases h
def lv : List Level := [.s "b", .s "a", .s "b"]
end Ex

open Ex in
/-- `C16_binary_levels`: success value present (accepted) and absent (refused) -/
example : levelOfVal (.str "a") = some (.s "a") ∧ lv.contains (.s "a") = true ∧
    levelOfVal (.str "z") = some (.s "z") ∧ lv.contains (.s "z") = false := by
  refine ⟨rfl, by decide, rfl, by decide⟩
open Ex in
/-- `C16_binary_levels_default`: the default success of ["b","a","b"] is "a" -/
example : sortLevels lv = some (.s "a" :: [.s "b"]) := by decide +kernel
/-- `C16_binary_levels_default_refused`: mixed types -/
example : sortLevels [.s "a", .n 1] = none := by decide +kernel
/-- `C16_binary_levels_bad_success` -/
example : Val.bool true ≠ .pyNone ∧ levelOfVal (.bool true) = none := ⟨(by intro h; cases h), rfl⟩
open Ex in
/-- `C16_binary_levels_spec`: both kinds of success argument -/
example : Spec.C16.binaryExpected (lv.map some) none = some [some 0, some 1, some 0] ∧
    Spec.C16.binaryExpected (lv.map some) (some (.s "z")) = none := by
  refine ⟨by decide +kernel, by decide +kernel⟩

open Ex in
/-- `C16_offset_variable_predict`: `offset(x)` trained on `fr`, predicted on `fr'` -/
example : env.frame.col? "x" = some ⟨"x", .numeric true, [.num 3, .num 1, .num 3]⟩ ∧
    (∃ out, trainComp env "offset(x)" (call1 .IDENTIFIER "offset" lp rp (var "x")) false false false = .ok out) ∧
    env'.frame.col? "x" = some ⟨"x", .numeric true, [.num 7, .num 9]⟩ :=
  ⟨rfl, ok_of_toBool _ (by decide +kernel), rfl⟩
open Ex in
/-- `C16_offset_constant_predict`: `offset(k)` with `k = 3` in the caller's namespace -/
example : evalArg env (var "k") (TS.child none 0) = .ok (none, .num 3 true, .leaf) ∧
    ∃ out, trainComp env "offset(k)" (call1 .IDENTIFIER "offset" lp rp (var "k")) false false false = .ok out :=
  ⟨rfl, ok_of_toBool _ (by decide +kernel)⟩
open Ex in
/-- `C16_prop_variable_predict` / `C16_prop_constant_predict`: `prop(s, t)`, `p(s, k)` (k = 3) as responses -/
example :
    (∃ out, trainComp env "prop(s, t)" (call2 .IDENTIFIER "prop" lp cm rp (var "s") (var "t")) false true true = .ok out) ∧
    (∃ out, trainComp env "p(s, k)" (call2 .IDENTIFIER "p" lp cm rp (var "s") (var "k")) false true true = .ok out) ∧
    evalArg env (var "k") (TS.child none 1) = .ok (none, .num 3 true, .leaf) :=
  ⟨ok_of_toBool _ (by decide +kernel), ok_of_toBool _ (by decide +kernel), rfl⟩
open Ex in
/-- `C16_binary_newdata_recomputed`: `binary(x)` trains on `fr` (success 1) and is recomputed on
`fr'`, where the success value becomes 7 — the instance of finding D14 -/
example :
    (∃ out, trainComp env "binary(x)" (call1 .IDENTIFIER "binary" lp rp (var "x")) false false false = .ok out) ∧
    (match binaryFn (.vec [some 3, some 1, some 3] true) .pyNone with
      | .ok (.vec ys _) => ys == [some 0, some 1, some 0] | _ => false) = true ∧
    (match binaryFn (.vec [some 7, some 9] true) .pyNone with
      | .ok (.vec ys _) => ys == [some 1, some 0] | _ => false) = true :=
  ⟨ok_of_toBool _ (by decide +kernel), by decide +kernel, by decide +kernel⟩
/-- `C16_alias_T_partial` / `C16_alias_S_partial`: a string column is not a box -/
example : ∀ b, Val.lvec [some (.s "a")] none ≠ .box b := by intro b h; cases h
/-- `C16_alias_eval` applies to the three alias pairs -/
example : finishCall "B" = finishCall "binary" := C16_alias_functions.1

end FormulaeModel.C16
