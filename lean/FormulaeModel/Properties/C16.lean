import FormulaeModel.Spec.C16
import FormulaeModel.Generated.Tables
/-
C16 — theorems about the model of the helper functions of transforms.py.
-/
namespace FormulaeModel.C16
open FormulaeModel FormulaeModel.Design

/-- `binary(x, s)` on a numeric column with an explicit success value: accepted iff `s` occurs,
and then the result is 1 exactly where x equals s (every length, every value) -/
theorem C16_binary_numeric (xs : List Rat) (isInt : Bool) (s : Rat) (sInt : Bool) :
    binaryFn (.vec (xs.map some) isInt) (.num s sInt) =
      if xs.contains s then .ok (.vec (xs.map (fun v => some (if v = s then 1 else 0))) true)
      else .error (.valueError "No value in 'x' is equal") := by
  simp only [binaryFn, bind, Except.bind, pure, Except.pure]
  have h1 : (xs.map some).any Option.isNone = false := by simp
  have h2 : (xs.map some).filterMap id = xs := by simp [List.filterMap_map]
  simp only [h1, Bool.false_eq_true, if_false, h2]
  split
  · congr 2
    simp only [List.map_map]
    apply List.map_congr_left
    intro v _
    simp [Function.comp]
  · rfl

/-- with the success value omitted `binary` uses the smallest value of the data it is given -/
theorem C16_binary_default (xs : List Rat) (isInt : Bool) (m : Rat) (rest : List Rat)
    (h : sortBy (· < ·) xs = m :: rest) :
    binaryFn (.vec (xs.map some) isInt) .pyNone = binaryFn (.vec (xs.map some) isInt) (.num m true) := by
  simp only [binaryFn, bind, Except.bind, pure, Except.pure]
  have h1 : (xs.map some).any Option.isNone = false := by simp
  have h2 : (xs.map some).filterMap id = xs := by simp [List.filterMap_map]
  simp only [h1, Bool.false_eq_true, if_false, h2, h]

/-- `offset(v)` contributes `v` unchanged; a constant is broadcast to every row -/
theorem C16_offset_variable (xs : List Entry) (isInt : Bool) (own : Option Rat) :
    applyCallee "offset" ⟨[.vec xs isInt], []⟩ own = .ok (.offsetVar xs, own) := rfl

theorem C16_offset_constant (q : Rat) (isInt : Bool) (own : Option Rat) :
    applyCallee "offset" ⟨[.num q isInt], []⟩ own = .ok (.offsetConst q, own) := rfl

/-- `I(e)` is `e` -/
theorem C16_I (v : Val) (own : Option Rat) : applyCallee "I" ⟨[v], []⟩ own = .ok (v, own) := rfl

/-- `prop` is accepted exactly when successes and trials are integers with successes ≤ trials -/
theorem C16_prop_valid_iff (ss ts : List Entry) (i j : Bool) :
    (∃ v, proportionFn (.vec ss i) (.vec ts j) = .ok v) ↔ Spec.C16.propValid ss ts = true := by
  have hp : Spec.C16.propValid ss ts =
      (isIntegral ss && isIntegral ts &&
        (List.zipWith (fun a b => match a, b with | some x, some y => decide (x ≤ y) | _, _ => false)
          ss ts).all id) := rfl
  rw [hp]
  unfold proportionFn
  simp only [bind, Except.bind, pure, Except.pure]
  cases h1 : isIntegral ss <;> cases h2 : isIntegral ts <;>
    cases h3 : (List.zipWith (fun a b => match a, b with
        | some x, some y => decide (x ≤ y) | _, _ => false) ss ts).all id <;>
    simp

theorem aliases_shape : Generated.aliasShapeOk = true := by decide
/-- tie: in the live TRANSFORMS registry the documented aliases are one object each -/
theorem aliases_tie : Spec.C16.documentedAliases.all
    (fun g => Generated.aliasGroups.any (fun h => g.all h.contains)) = true := by decide

end FormulaeModel.C16
