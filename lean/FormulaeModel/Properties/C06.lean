import FormulaeModel.Proofs.RowsDesign
import FormulaeModel.Proofs.RowsGuard
import FormulaeModel.Driver.C04
set_option linter.unusedSimpArgs false
/-
C06 — evaluating new data reproduces the training encoding.

Theorems about the evaluation model (`Model/Design.lean`, `Model/Matrices.lean`), for every
well-formed frame, every index list `is` with indices `< nrows` (any subset, order, repetition,
single row) and every component / term / group-specific term of the row-wise fragment:

* `C06_lookup_rows`, `C06_evalArg_rows`   lazy evaluation with the remembered transform state is
                                           row-wise (the state-machine lemma; `center` is the stateful case)
* `C06_state_frozen`, `C06_state_frozen_seq`  evaluating any sequence of new frames never changes the state
* `C06_levels_frozen`                      new data are coded with the remembered levels / contrast matrix
* `C06_rows_comp`, `C06_rows_term`, `C06_rows_group`, `C06_rows_common`, `C06_rows_groups`, `C06_rows`
* `C06_guard_syntactic`                    a syntactic sufficient condition for the data part of the guard
* `C06_rows_Statement` (unguarded) with `C06_counterexample_D13`, `C06_counterexample_D14`.

The fragment is everything the model covers except the two recorded defects: `RowwiseOk e` (no
call of `binary`/`B` — D14) and `D13Free env e` (no `C/T/S` call node receives explicit `levels` or
an ordered categorical as data — D13).  Missing values in categorical data need no guard: the
model's training path rejects them explicitly.  The statements are about non-response components
(`isResponse = false`): responses are never evaluated on new data.
-/
namespace FormulaeModel.C06
open FormulaeModel FormulaeModel.Design FormulaeModel.Spec.C06

/-! ### guards as decidable predicates -/

/-- every component expression of the term is in the row-wise fragment; a term has a component -/
def termOkB (env : Env) (table : List (String × Expr)) (spec : TermSpec) : Bool :=
  !spec.comps.isEmpty &&
  spec.comps.all (fun c => match compExpr table c.1 with
    | .ok e => RowwiseOk e && D13Free env e
    | .error _ => true)

def groupOkB (env : Env) (table : List (String × Expr)) (spec : GroupSpec) : Bool :=
  termOkB env table spec.factor &&
  (match spec.expr with
   | none => true
   | some ts => termOkB env table ts)

theorem termOk_of (env : Env) (table : List (String × Expr)) (spec : TermSpec)
    (h : termOkB env table spec = true) : TermOk env table spec := by
  simp only [termOkB, Bool.and_eq_true, Bool.not_eq_true', List.isEmpty_eq_false_iff, List.all_eq_true] at h
  refine ⟨h.1, ?_⟩
  intro c hc e he
  have := h.2 c hc
  rw [he] at this
  simpa using this

theorem groupOk_of (env : Env) (table : List (String × Expr)) (spec : GroupSpec)
    (h : groupOkB env table spec = true) : GroupOk env table spec := by
  simp only [groupOkB, Bool.and_eq_true] at h
  refine ⟨termOk_of _ _ _ h.1, ?_⟩
  intro ts hts
  have := h.2
  rw [hts] at this
  exact termOk_of _ _ _ this

/-- a well-formed training situation: rectangular frame, scalar namespace, indices inside the frame -/
structure Situation (env : Env) (is : List Nat) : Prop where
  wf : env.frame.wellFormed = true
  names : env.namesScalar = true
  idx : ∀ i ∈ is, i < env.frame.nrows

/-! ### lazy evaluation -/

/-- (1) a name looked up in the row-selected environment is the row selection of the training
value (`Val.rows` selects the rows of vector-like values and leaves scalars alone); errors coincide -/
theorem C06_lookup_rows (env : Env) (hn : env.namesScalar = true) (is : List Nat) (name : String) :
    lookupName (env.rows is) name = (lookupName env name).map (Val.rows is) :=
  lookupName_rows_eq env hn is name

/-- (2) **state-machine lemma.**  An expression of the row-wise fragment that evaluated to `v` on
the training frame, leaving the transform state `t`, evaluates on rows `is` of that frame *with
state `t`* to rows `is` of `v`, and leaves `t`: the parameters estimated at training time (the mean
of `center`) are reused, not re-estimated. -/
theorem C06_evalArg_rows (env : Env) (is : List Nat) (S : Situation env is) (e : Expr)
    (hok : RowwiseOk e = true) (hd : D13Free env e = true)
    (kw : Option String) (v : Val) (t : TS) (h : evalArg env e none = .ok (kw, v, t)) :
    evalArg (env.rows is) e (some t) = .ok (kw, v.rows is, t) :=
  (evalArg_rows env S.wf S.names is S.idx e hok hd kw v t h).2

/-- **Parameters are frozen.** For *every* expression the model covers (including `binary`) and
*every* later frame (not only rows of the training frame): a successful evaluation with the state
remembered from training returns that same state. -/
theorem C06_state_frozen (env env' : Env) (e : Expr) (kw kw' : Option String) (v v' : Val) (t t' : TS)
    (h : evalArg env e none = .ok (kw, v, t)) (h' : evalArg env' e (some t) = .ok (kw', v', t')) :
    t' = t :=
  evalArg_frozen env env' e kw kw' v v' t t' h h'

/-- the state after evaluating `e` on a sequence of frames starting from state `t`
(`none`: some evaluation raised).  Python mutates the transform instances in place; this is the
value of that hidden state. -/
def stateAfter (e : Expr) : TS → List Env → Option TS
  | t, [] => some t
  | t, env :: envs =>
    match evalArg env e (some t) with
    | .ok (_, _, t') => stateAfter e t' envs
    | .error _ => none

/-- … lifted over call sequences: after training, evaluating any sequence of new frames never
changes the state (induction over the sequence). This is what justifies `newComp` not returning a
new `CompState`. -/
theorem C06_state_frozen_seq (env : Env) (e : Expr) (kw : Option String) (v : Val) (t : TS)
    (h : evalArg env e none = .ok (kw, v, t)) (envs : List Env) (t' : TS)
    (hs : stateAfter e t envs = some t') : t' = t := by
  induction envs with
  | nil => simp only [stateAfter, Option.some.injEq] at hs; exact hs.symm
  | cons env' envs ih =>
    simp only [stateAfter] at hs
    split at hs
    · rename_i kw' v' t1 h1
      have := evalArg_frozen env env' e kw kw' v v' t t1 h h1
      subst this
      exact ih hs
    · simp at hs

/-- a row coded with the *remembered* levels and contrast matrix: row `i` of the matrix where `i`
is the position of some level in `st.levels`, or the zero row of an unseen value -/
def CodedBy (st : CompState) (cm : ContrastMatrix) (r : List Entry) : Prop :=
  (∃ l i, indexOf? l st.levels = some i ∧ r = rowOfInts (cm.rows.getD i [])) ∨
  r = List.replicate cm.labels.length (some 0)

theorem newCategoric_coded (st : CompState) (mode : UnseenMode) (xs : List (Option Level)) (m : Matrix)
    (w : Bool) (h : newCategoric st mode xs = .ok (m, w)) :
    ∃ cm, st.contrast = some cm ∧ ∀ r ∈ m, CodedBy st cm r := by
  unfold newCategoric at h
  split at h
  · simp at h
  · rename_i cm hcm
    refine ⟨cm, hcm, ?_⟩
    simp only at h
    split at h
    · simp only [bind_ok, pure_ok, Prod.mk.injEq] at h
      obtain ⟨m', hm', rfl, rfl⟩ := h
      intro r hr
      obtain ⟨k, hk, rfl⟩ := List.mem_iff_getElem.1 hr
      obtain ⟨hl, hall⟩ := mapM_ok_get _ xs m' hm'
      have := hall k (by omega) hk
      cases hxi : xs[k]'(by omega) with
      | none => rw [hxi] at this; simp at this
      | some l =>
        rw [hxi] at this
        simp only at this
        split at this
        · rename_i i hi
          simp only [pure_ok] at this
          exact Or.inl ⟨l, i, hi, this.symm⟩
        · simp at this
    · split at h
      · simp at h
      · simp only [pure_ok, Prod.mk.injEq] at h
        obtain ⟨rfl, rfl⟩ := h
        intro r hr
        simp only [List.mem_map] at hr
        obtain ⟨x, _, rfl⟩ := hr
        cases x with
        | none => exact Or.inr rfl
        | some l =>
          simp only [Option.bind_some]
          cases hi : indexOf? l st.levels with
          | none => exact Or.inr rfl
          | some i => exact Or.inl ⟨l, i, hi, rfl⟩

/-- **Levels and contrasts are frozen.** Whatever the new frame, a categorical component's new
matrix is made of rows of the contrast matrix remembered in `st`, indexed by the position of the
new values in the levels remembered in `st` (zero rows for unseen values under the non-default
policies): nothing is re-sorted or re-chosen from the frame being predicted. -/
theorem C06_levels_frozen (st : CompState) (env : Env) (mode : UnseenMode) (m : Matrix) (w : Bool)
    (hk : st.kind = .categoric) (h : newComp st env mode = .ok (m, w)) :
    ∃ cm, st.contrast = some cm ∧ ∀ r ∈ m, CodedBy st cm r := by
  unfold newComp at h
  simp only [hk] at h
  split at h
  rotate_left 2
  · split at h
    · simp at h
    · split at h
      · rename_i heq; cases heq
      · simp only [bind_ok] at h
        obtain ⟨ls, _, h⟩ := h
        exact newCategoric_coded st mode _ m w h
      · rename_i heq; cases heq
      · exact newCategoric_coded st mode _ m w h
      · simp at h
  all_goals (
    simp only [bind_ok] at h
    obtain ⟨⟨v, t⟩, _, h⟩ := h
    simp only [show (CompKind.categoric == CompKind.numeric) = false from rfl, Bool.false_eq_true,
      if_false] at h
    split at h
    · exact newCategoric_coded st mode _ m w h
    · exact newCategoric_coded st mode _ m w h
    · simp only [bind_ok] at h
      obtain ⟨ls, _, h⟩ := h
      exact newCategoric_coded st mode _ m w h
    · simp at h)


/-! ### the row identity -/

/-- **One component** (`Variable` / `Call`, common or grouping factor, full or reduced coding):
`eval_new_data` on rows `is` of the training frame returns rows `is` of the training value, with
no warning.  Guard = D14 ∪ D13 exactly. -/
theorem C06_rows_comp (env : Env) (is : List Nat) (S : Situation env is) (name : String) (e : Expr)
    (forced full : Bool) (mode : UnseenMode) (out : CompOut)
    (hok : RowwiseOk e = true) (hd : D13Free env e = true)
    (h : trainComp env name e forced false full = .ok out) :
    newComp out.st (env.rows is) mode = .ok (selectRows out.value is, false) :=
  (trainComp_rows env S.wf S.names is S.idx name e forced full mode out hok hd h).1

/-- The data part of the guard has a purely syntactic sufficient condition: no `C/T/S` call is
written with a `levels` argument (third positional or keyword) and no name in the expression refers
to an ordered categorical column of the training frame. -/
theorem C06_guard_syntactic (env : Env) (hn : env.namesScalar = true) (e : Expr)
    (h1 : NoLevelsArg e = true) (h2 : UnorderedNames env e = true) : D13Free env e = true :=
  d13Free_of_syntactic env hn e h1 h2

/-- `C06_rows_comp` under the syntactic guard -/
theorem C06_rows_comp_syntactic (env : Env) (is : List Nat) (S : Situation env is) (name : String)
    (e : Expr) (forced full : Bool) (mode : UnseenMode) (out : CompOut)
    (hok : RowwiseOk e = true) (h1 : NoLevelsArg e = true) (h2 : UnorderedNames env e = true)
    (h : trainComp env name e forced false full = .ok out) :
    newComp out.st (env.rows is) mode = .ok (selectRows out.value is, false) :=
  C06_rows_comp env is S name e forced full mode out hok (C06_guard_syntactic env S.names e h1 h2) h

/-- **One term** (interaction of components): `reduceMatrices` commutes with row selection. -/
theorem C06_rows_term (env : Env) (is : List Nat) (S : Situation env is) (table : List (String × Expr))
    (spec : TermSpec) (forced : Bool) (mode : UnseenMode) (out : TermOut)
    (hok : termOkB env table spec = true)
    (h : trainTerm env table spec forced false = .ok out) :
    newTerm out.st (env.rows is) mode = .ok (selectRows out.data is, false) :=
  (trainTerm_rows env S.wf S.names is S.idx table spec forced mode out (termOk_of _ _ _ hok) h).1

/-- **One group-specific term** `(expr | factor)`: every selected value of the factor was seen in
training and the factor is coded full, so no indicator row is all zero, no "new group" column is
appended, and the Khatri-Rao product commutes with row selection. -/
theorem C06_rows_group (env : Env) (is : List Nat) (S : Situation env is) (table : List (String × Expr))
    (spec : GroupSpec) (mode : UnseenMode) (out : GroupOut)
    (hok : groupOkB env table spec = true)
    (h : trainGroup env table spec = .ok out) :
    newGroup out.st (env.rows is) mode = .ok (selectRows out.data is, false) :=
  (trainGroup_rows env S.wf S.names is S.idx table spec mode out (groupOk_of _ _ _ hok) h).1

/-- the guard for a whole design -/
def designOkB (env : Env) (table : List (String × Expr)) (common : List (Option TermSpec))
    (groups : List GroupSpec) : Bool :=
  common.all (fun s => match s with | none => true | some s => termOkB env table s) &&
  groups.all (groupOkB env table)

/-- **The common-effects matrix** (`CommonEffectsMatrix.evaluate_new_data`): intercept column and
term matrices stacked side by side. -/
theorem C06_rows_common (env : Env) (is : List Nat) (S : Situation env is) (table : List (String × Expr))
    (specs : List (Option TermSpec)) (mode : UnseenMode) (parts : List (Option TermOut))
    (hok : specs.all (fun s => match s with | none => true | some s => termOkB env table s) = true)
    (h : trainCommon env table specs = .ok parts) :
    newCommonMatrix parts (env.rows is) mode = .ok (selectRows (commonMatrix env.frame.nrows parts) is) := by
  apply trainCommon_rows env S.wf S.names is S.idx table specs mode parts _ h
  intro s hs
  simp only [List.all_eq_true] at hok
  exact termOk_of _ _ _ (hok (some s) hs)

/-- **The group-effects matrix** (`GroupEffectsMatrix.evaluate_new_data`). -/
theorem C06_rows_groups (env : Env) (is : List Nat) (S : Situation env is) (table : List (String × Expr))
    (specs : List GroupSpec) (mode : UnseenMode) (gs : List GroupOut)
    (hok : specs.all (groupOkB env table) = true)
    (h : trainGroups env table specs = .ok gs) :
    newGroupMatrix gs (env.rows is) mode = .ok (selectRows (groupMatrix env.frame.nrows gs) is) := by
  apply trainGroups_rows env S.wf S.names is S.idx table specs mode gs _ h
  intro s hs
  simp only [List.all_eq_true] at hok
  exact groupOk_of _ _ _ (hok s hs)

/-- **C06 (assembled).** For a design trained on `env` — any formula whose components are in the
row-wise fragment — and any rows `is` of the training frame, both matrices evaluated on the new
frame satisfy the specification `Spec.C06.holds` against the training matrices. -/
theorem C06_rows (env : Env) (is : List Nat) (S : Situation env is) (table : List (String × Expr))
    (common : List (Option TermSpec)) (groups : List GroupSpec) (mode : UnseenMode)
    (parts : List (Option TermOut)) (gs : List GroupOut)
    (hok : designOkB env table common groups = true)
    (hc : trainCommon env table common = .ok parts) (hg : trainGroups env table groups = .ok gs) :
    ∃ newC newG,
      newCommonMatrix parts (env.rows is) mode = .ok newC ∧
      newGroupMatrix gs (env.rows is) mode = .ok newG ∧
      holds (commonMatrix env.frame.nrows parts) newC is = true ∧
      holds (groupMatrix env.frame.nrows gs) newG is = true := by
  simp only [designOkB, Bool.and_eq_true] at hok
  exact ⟨_, _, C06_rows_common env is S table common mode parts hok.1 hc,
    C06_rows_groups env is S table groups mode gs hok.2 hg,
    holds_of_eq _ _ _ rfl, holds_of_eq _ _ _ rfl⟩

/-- the training matrices of the theorems are the matrices the driver (the correspondence check)
stacks: `Driver.C04.commonStack` / `groupStack` -/
theorem C06_tie_commonStack (n : Nat) (t : Driver.C04.Trained) :
    (Driver.C04.commonStack n t).matrix = commonMatrix n (t.common.map (·.2)) := by
  simp only [Driver.C04.commonStack, stack, commonMatrix, List.map_map]
  congr 1
  apply List.map_congr_left
  intro p _
  simp only [Function.comp]
  cases p.2 <;> rfl

theorem C06_tie_groupStack (n : Nat) (t : Driver.C04.Trained) :
    (Driver.C04.groupStack n t).matrix = groupMatrix n t.group := by
  simp only [Driver.C04.groupStack, stack, groupMatrix, List.map_map]
  rfl

/-! ### the unguarded statement is false of the pinned tree: D13, D14 -/

/-- The full statement at component level, *without* the fragment guard. -/
def C06_rows_Statement : Prop :=
  ∀ (env : Env) (is : List Nat), Situation env is →
  ∀ (name : String) (e : Expr) (forced full : Bool) (mode : UnseenMode) (out : CompOut),
    trainComp env name e forced false full = .ok out →
    newComp out.st (env.rows is) mode = .ok (selectRows out.value is, false)

def tk (k : Kind) (s : String) : Token := ⟨k, s⟩
def var (s : String) : Expr := .variable (tk .IDENTIFIER s)
def call1 (f : String) (a : Expr) : Expr :=
  .call (var f) (tk .LEFT_PAREN "(") (.last a) (tk .RIGHT_PAREN ")")
def call2 (f : String) (a b : Expr) : Expr :=
  .call (var f) (tk .LEFT_PAREN "(") (.more a (tk .COMMA ",") (.last b)) (tk .RIGHT_PAREN ")")
def kwarg (k : String) (v : Expr) : Expr := .assign (var k) (tk .EQUAL "=") v

/-- a frame with a 3-level factor `f`, a numeric column `x`, an integer column `k`, an ordered
categorical `co` and a grouping column `g` -/
def exFrame : Frame :=
  [⟨"f", .string, [.str "a", .str "b", .str "c", .str "a"]⟩,
   ⟨"x", .numeric false, [.num 1, .num 2, .num 4, .num 5]⟩,
   ⟨"k", .numeric true, [.num 1, .num 2, .num 3, .num 2]⟩,
   ⟨"co", .categorical true ["lo", "mid", "hi"], [.str "lo", .str "mid", .str "hi", .str "lo"]⟩,
   ⟨"g", .string, [.str "u", .str "v", .str "u", .str "v"]⟩]

def exEnv : Env := { frame := exFrame, names := [("lv_f", .levels [.s "c", .s "a", .s "b"])] }

def trainedValue (r : M CompOut) : Option Matrix :=
  match r with
  | .ok o => some o.value
  | .error _ => none

/-- `newComp` applied to a trained component (`none`: training or prediction raised) -/
def predicted (r : M CompOut) (env : Env) : Option Matrix :=
  match r with
  | .ok o => (match newComp o.st env .error with
    | .ok (m, _) => some m
    | .error _ => none)
  | .error _ => none

theorem predicted_of_statement (hS : C06_rows_Statement) (env : Env) (is : List Nat) (S : Situation env is)
    (name : String) (e : Expr) (forced full : Bool) :
    predicted (trainComp env name e forced false full) (env.rows is) =
      (trainedValue (trainComp env name e forced false full)).map (selectRows · is) := by
  cases h : trainComp env name e forced false full with
  | error _ => rfl
  | ok o =>
    have := hS env is S name e forced full .error o h
    simp [predicted, trainedValue, this]

theorem exSituation (is : List Nat) (h : is.all (· < 4) = true) : Situation exEnv is :=
  ⟨by decide, by decide, by simpa [List.all_eq_true, exEnv, exFrame, Frame.nrows] using h⟩

def eD14 : Expr := call1 "binary" (var "k")
def eD13 : Expr := call2 "C" (var "f") (kwarg "levels" (var "lv_f"))
def eD13o : Expr := call1 "C" (var "co")

/-- **D14** `binary(k)`: trained on k = 1,2,3,2 the success value is 1 and the column is 1,0,0,0;
on rows 1,2 (k = 2,3) the success value is re-derived as 2 and the column is 1,0 instead of 0,0. -/
theorem C06_counterexample_D14 : ¬ C06_rows_Statement := by
  intro hS
  have := predicted_of_statement hS exEnv [1, 2] (exSituation _ (by decide)) "binary(k)" eD14 false false
  have h1 : predicted (trainComp exEnv "binary(k)" eD14 false false false) (exEnv.rows [1, 2])
      = some [[some 1], [some 0]] := by decide +kernel
  have h2 : (trainedValue (trainComp exEnv "binary(k)" eD14 false false false)).map (selectRows · [1, 2])
      = some [[some 0], [some 0]] := by decide +kernel
  rw [h1, h2] at this
  exact absurd this (by decide)

/-- **D13** `C(f, levels=lv_f)`: on rows 0,1 (f = a,b; level c absent) the `CategoricalBox.levels`
setter raises ValueError, where the statement asks for the two training rows. -/
theorem C06_counterexample_D13 : ¬ C06_rows_Statement := by
  intro hS
  have := predicted_of_statement hS exEnv [0, 1] (exSituation _ (by decide)) "C(f, levels = lv_f)" eD13
    false false
  have h1 : predicted (trainComp exEnv "C(f, levels = lv_f)" eD13 false false false) (exEnv.rows [0, 1])
      = none := by decide +kernel
  have h2 : (trainedValue (trainComp exEnv "C(f, levels = lv_f)" eD13 false false false)).map
      (selectRows · [0, 1]) = some [[some 1, some 0], [some 0, some 1]] := by decide +kernel
  rw [h1, h2] at this
  exact absurd this (by decide)

/-- D13, second form: `C(co)` over an ordered categorical, rows 0,1 (level "hi" absent) -/
theorem C06_counterexample_D13_ordered : ¬ C06_rows_Statement := by
  intro hS
  have := predicted_of_statement hS exEnv [0, 1] (exSituation _ (by decide)) "C(co)" eD13o false false
  have h1 : predicted (trainComp exEnv "C(co)" eD13o false false false) (exEnv.rows [0, 1]) = none := by
    decide +kernel
  have h2 : (trainedValue (trainComp exEnv "C(co)" eD13o false false false)).map (selectRows · [0, 1])
      = some [[some 0, some 0], [some 1, some 0]] := by decide +kernel
  rw [h1, h2] at this
  exact absurd this (by decide)

-- the counterexamples are exactly outside the guard
example : RowwiseOk eD14 = false := by decide
example : RowwiseOk eD13 = true ∧ D13Free exEnv eD13 = false := by decide +kernel
example : RowwiseOk eD13o = true ∧ D13Free exEnv eD13o = false := by decide +kernel


-- … and of the syntactic guard: `C(f, levels=lv_f)` is written with `levels`, `C(co)` names an
-- ordered categorical column, `C(f, Sum)` passes both
example : NoLevelsArg eD13 = false := by decide
example : UnorderedNames exEnv eD13o = false := by decide +kernel
example : NoLevelsArg (call2 "C" (var "f") (var "Sum")) = true ∧
    UnorderedNames exEnv (call2 "C" (var "f") (var "Sum")) = true := by decide +kernel

/-! ### the known-finding class D14 of the correspondence check lies outside the guard -/

mutual
theorem rowwiseOk_calls : ∀ (e : Expr) (callee : String) (as : Args), (callee, as) ∈ callsOf e →
    excludedCallees.contains callee = true → RowwiseOk e = false
  | .grouping _ e _, callee, as, hm, hc => by
    simp only [callsOf] at hm; simp only [RowwiseOk]; exact rowwiseOk_calls e callee as hm hc
  | .binary l _ r, callee, as, hm, hc => by
    simp only [callsOf, List.mem_append] at hm
    simp only [RowwiseOk, Bool.and_eq_false_iff]
    rcases hm with hm | hm
    · exact Or.inl (rowwiseOk_calls l callee as hm hc)
    · exact Or.inr (rowwiseOk_calls r callee as hm hc)
  | .unary _ r, callee, as, hm, hc => by
    simp only [callsOf] at hm; simp only [RowwiseOk]; exact rowwiseOk_calls r callee as hm hc
  | .call c _ args _, callee, as, hm, hc => by
    simp only [callsOf, List.mem_append] at hm
    simp only [RowwiseOk, Bool.and_eq_false_iff]
    rcases hm with hm | hm
    · right
      cases c
      case «variable» n =>
        simp only [List.mem_singleton, Prod.mk.injEq] at hm
        obtain ⟨rfl, rfl⟩ := hm
        simp only [hc, Bool.not_true]
      all_goals simp at hm
    · exact Or.inl (rowwiseOkArgs_calls args callee as hm hc)
  | .brace _ e _, callee, as, hm, hc => by
    simp only [callsOf] at hm; simp only [RowwiseOk]; exact rowwiseOk_calls e callee as hm hc
  | .assign _ _ v, callee, as, hm, hc => by
    simp only [callsOf] at hm; simp only [RowwiseOk]; exact rowwiseOk_calls v callee as hm hc
  | .variable _, _, _, hm, _ => by simp [callsOf] at hm
  | .subset _ _ _ _, _, _, hm, _ => by simp [callsOf] at hm
  | .quoted _, _, _, hm, _ => by simp [callsOf] at hm
  | .literal _, _, _, hm, _ => by simp [callsOf] at hm
theorem rowwiseOkArgs_calls : ∀ (args : Args) (callee : String) (as : Args), (callee, as) ∈ callsOfArgs args →
    excludedCallees.contains callee = true → RowwiseOkArgs args = false
  | .nil, _, _, hm, _ => by simp [callsOfArgs] at hm
  | .last e, callee, as, hm, hc => by
    simp only [callsOfArgs] at hm; simp only [RowwiseOkArgs]; exact rowwiseOk_calls e callee as hm hc
  | .more e _ rest, callee, as, hm, hc => by
    simp only [callsOfArgs, List.mem_append] at hm
    simp only [RowwiseOkArgs, Bool.and_eq_false_iff]
    rcases hm with hm | hm
    · exact Or.inl (rowwiseOk_calls e callee as hm hc)
    · exact Or.inr (rowwiseOkArgs_calls rest callee as hm hc)
end

/-- Consistency of the known-finding class with the guard: every (formula, frame, new frame) the
correspondence check attributes to D14 (`Spec.C06.classD14`) lies outside the row-wise fragment, so
no theorem above speaks about it. -/
theorem C06_classD14_outside_guard (trainEnv newEnv : Env) (e : Expr)
    (h : classD14 trainEnv newEnv e = true) : RowwiseOk e = false := by
  simp only [classD14, List.any_eq_true, Bool.and_eq_true, Bool.or_eq_true, beq_iff_eq] at h
  obtain ⟨⟨callee, as⟩, hm, hc, _⟩ := h
  apply rowwiseOk_calls e callee as hm
  simp only [excludedCallees, List.contains_cons, List.contains_nil, Bool.or_false, Bool.or_eq_true,
    beq_iff_eq]
  simpa [eq_comm] using hc


/-! ### non-vacuity: `center(x):f` and `(center(x) | g)` on a selection that drops a level and
repeats a row -/

def exTable : List (String × Expr) :=
  [("center(x)", call1 "center" (var "x")), ("f", var "f"), ("g", var "g"), ("C(f, Sum)", call2 "C" (var "f") (var "Sum"))]

def exTerm : TermSpec := { name := "center(x):f", comps := [("center(x)", false), ("f", true)] }
def exGroup : GroupSpec :=
  { name := "center(x)|g", expr := some { name := "center(x)", comps := [("center(x)", false)] },
    factor := { name := "g", comps := [("g", true)] } }
/-- rows 2, 2, 0: level `b` of `f` is dropped, row 2 is repeated, the mean of `x` differs (10/3 vs 3) -/
def exSel : List Nat := [2, 2, 0]

def termData (r : M TermOut) : Option Matrix :=
  match r with
  | .ok o => some o.data
  | .error _ => none

-- the guards hold and training succeeds, so the hypotheses of the theorems are satisfiable …
example : termOkB exEnv exTable exTerm = true := by decide +kernel
example : groupOkB exEnv exTable exGroup = true := by decide +kernel
example : designOkB exEnv exTable [none, some exTerm, some ⟨"C(f, Sum)", [("C(f, Sum)", false)]⟩] [exGroup] = true := by
  decide +kernel
example : termData (trainTerm exEnv exTable exTerm false false) =
    some [[some (-2), some 0, some 0], [some 0, some (-1), some 0], [some 0, some 0, some 1],
          [some 2, some 0, some 0]] := by decide +kernel
-- … the state remembered by `center` is the training mean 3 …
example : (match evalArg exEnv (call1 "center" (var "x")) none with
    | .ok (none, .vec xs false, .node (some m) [.leaf]) =>
      xs == [some (-2), some (-1), some 1, some 2] && m == 3
    | _ => false) = true := by
  decide +kernel
-- … and the instance of the theorem: the new matrix is rows 2, 2, 0 of the training matrix
-- (centred with the training mean 3, not with the mean 10/3 of the new rows)
example : ∀ out, trainTerm exEnv exTable exTerm false false = .ok out →
    newTerm out.st (exEnv.rows exSel) .error = .ok (selectRows out.data exSel, false) :=
  fun out h => C06_rows_term exEnv exSel (exSituation _ (by decide)) exTable exTerm false .error out
    (by decide +kernel) h
example : ∀ out, trainGroup exEnv exTable exGroup = .ok out →
    newGroup out.st (exEnv.rows exSel) .error = .ok (selectRows out.data exSel, false) :=
  fun out h => C06_rows_group exEnv exSel (exSituation _ (by decide)) exTable exGroup .error out
    (by decide +kernel) h
example : (match trainTerm exEnv exTable exTerm false false with
    | .ok out => (match newTerm out.st (exEnv.rows exSel) .error with
      | .ok (m, _) => some m
      | .error _ => none)
    | .error _ => none) =
    some [[some 0, some 0, some 1], [some 0, some 0, some 1], [some (-2), some 0, some 0]] := by
  decide +kernel

end FormulaeModel.C06
