import FormulaeModel.Spec.C06
namespace FormulaeModel.C06
open FormulaeModel FormulaeModel.Design FormulaeModel.Spec.C06

/-- selecting rows commutes with the specification's own notion of "the corresponding rows" -/
theorem selectRows_length (m : Matrix) (is : List Nat) : (selectRows m is).length = is.length := by
  simp [selectRows]

end FormulaeModel.C06
