import FormulaeModel.Proofs.WorldHistory
import FormulaeModel.Generated.Tables
/-
C07 — designs are isolated: no state leaks across evaluations, designs or calls.

Theorems (all universally quantified: every expression, state, frame, world, history):

* `C07_eval_pure`             the evaluator of call trees, run on a state of the shape of the tree
                              (prediction), returns the state it was given;
  `C07_eval_pure_trained`     … in particular on every state that an evaluation (training) returned;
* `C07_newComp_pure`, `C07_newTerm_pure`, `C07_newGroup_pure`, `C07_*_out`
                              lifted to components, terms, group-specific terms; forgetting the
                              returned state gives `newComp/newTerm/newGroup` of Model/Matrices.lean;
* `C07_eval_common_pure`, `C07_eval_group_pure`
                              `(step w (evalCommon i d)).1 = w` in every well-formed world, and
  `C07_reachable_wf`          every world reachable from a fresh process is well-formed;
* `C07_build_fresh`           `build` appends the design it creates and touches nothing else, and
                              what it creates and returns does not depend on the world;
* `C07_history_independence`  the output of `o` after `h` is its output after `relevant h o`;
* `C07_repeatable`            the same operation twice gives the same output;
* `C07_history_spec`          `Spec.C07.holds` on the outputs of every history of the model.
-/
namespace FormulaeModel.C07
open FormulaeModel FormulaeModel.Design FormulaeModel.World FormulaeModel.Spec.C07

-- ---------------------------------------------------------------------------------------------
-- ties to the regenerated tables (where the library keeps state, who may write it)
-- ---------------------------------------------------------------------------------------------
theorem tie_shape : Generated.c07ShapeOk = true := by decide

/-- `Config.FIELDS` is what the model's `setConfig` implements: one field, three choices, the
first one is the default, unknown field → KeyError, invalid choice → ValueError -/
theorem tie_config :
    Generated.c07ConfigFields = [(configKey, [UnseenMode.error, .warning, .silent].map modeName)]
    ∧ Generated.c07ConfigDefaultFirst = true ∧ Generated.c07ConfigSetattrErrors = true
    ∧ (Generated.c07ConfigFields.flatMap (·.2)).all (fun s => (modeOfString? s).isSome) = true
    ∧ (Generated.c07ConfigFields.flatMap (·.2)).head? = some (modeName World.init.config) := by decide

/-- the configuration is read where new data are evaluated (and nowhere else), and the library
never writes it -/
theorem tie_config_sites :
    Generated.c07ConfigReadSites = ["Call.eval_new_data_categoric", "Variable.eval_new_data_categoric"]
    ∧ Generated.c07ConfigWriteSites = [] := by decide

/-- no prediction path assigns to anything reachable from `self`; the one aliasing between a matrix
object and the one derived from it is the `slices` dictionary of the common part -/
theorem tie_prediction_writes :
    Generated.c07PredictionSelfWrites = []
    ∧ Generated.c07SharedSlices = ["CommonEffectsMatrix.evaluate_new_data"] := by decide

/-- one transform instance per call node: created in `LazyCall.eval` only while it is `None`, and
`LazyCall.eval` writes nothing else -/
theorem tie_lazycall :
    Generated.c07LazyCallInitNone = true ∧ Generated.c07LazyCallGuardedCreate = true
    ∧ Generated.c07LazyCallEvalWrites = ["self.stateful_transform"] := by decide

/-- the registry holds classes and functions (no instance), the stateful names are the known
ones; `__call__` of a stateful class writes `self` only under `if not self.params_set`;
`Polynomial` never sets `params_set` (its memo dictionaries carry the state instead) -/
theorem tie_transforms :
    Generated.c07Registry.all (fun p => p.2 == "class" || p.2 == "function") = true
    ∧ Generated.c07StatefulNames = ["bs", "center", "poly", "scale", "standardize"]
    ∧ Generated.c07StatefulClasses = ["BSpline", "Center", "Polynomial", "Scale"]
    ∧ Generated.c07UnguardedCallWrites = []
    ∧ Generated.c07ParamsSetTrue = ["BSpline", "Center", "Scale"] := by decide

-- ---------------------------------------------------------------------------------------------
-- evaluation writes nothing
-- ---------------------------------------------------------------------------------------------
/-- Prediction never changes transform state: for every expression and every state of the shape
of its call tree, the state returned by the evaluator is the state it was given. -/
theorem C07_eval_pure (env : Env) (e : Expr) (t : TS) (kw : Option String) (v : Val) (t' : TS)
    (hs : shapeOf e t = true) (h : evalArg env e (some t) = .ok (kw, v, t')) : t' = t :=
  evalArg_pure env e t kw v t' hs h

/-- … in particular for every state that an earlier evaluation (training on any data, from any
state) returned. -/
theorem C07_eval_pure_trained (env₀ env : Env) (e : Expr) (ts₀ : Option TS) (kw₀ kw : Option String)
    (v₀ v : Val) (t t' : TS) (h₀ : evalArg env₀ e ts₀ = .ok (kw₀, v₀, t))
    (h : evalArg env e (some t) = .ok (kw, v, t')) : t' = t :=
  evalArg_pure env e t kw v t' (evalArg_shape env₀ e ts₀ kw₀ v₀ t h₀) h

/-- the guard of `C07_eval_pure` is needed: on a state that no evaluation can have produced
(a `center` node whose instance has no parameter yet) prediction does write -/
def exCenter : Expr :=
  .call (.variable ⟨.IDENTIFIER, "center"⟩) ⟨.LEFT_PAREN, "("⟩
    (.last (.variable ⟨.IDENTIFIER, "x"⟩)) ⟨.RIGHT_PAREN, ")"⟩

def exFrame (xs : List Rat) : Frame :=
  [{ name := "x", kind := .numeric false, cells := xs.map Cell.num },
   { name := "g", kind := .string, cells := xs.map (fun _ => Cell.str "u") }]

/-- the parameter of the root node's transform instance after evaluating `e` -/
def ownAfter (env : Env) (e : Expr) (ts : Option TS) : Option (Option Rat) :=
  (evalArg env e ts).toOption.map (fun r => TS.own (some r.2.2))

theorem C07_eval_pure_counterexample :
    shapeOf exCenter (.node none [.leaf]) = false ∧
    TS.own (some (.node none [.leaf])) = none ∧
    ownAfter { frame := exFrame [1, 3] } exCenter (some (.node none [.leaf])) = some (some 2) := by
  decide +kernel

-- non-vacuity: a state produced by training has the shape, and prediction on other data succeeds
example : ownAfter { frame := exFrame [1, 3] } exCenter none = some (some 2) := by decide +kernel
example : shapeOf exCenter (.node (some 2) [.leaf]) = true := by decide
example : (match evalArg { frame := exFrame [5, 6, 7] } exCenter (some (.node (some 2) [.leaf])) with
     | .ok (_, .vec xs _, t') => (xs, TS.own (some t'))
     | _ => ([], none)) = ([some 3, some 4, some 5], some 2) := by decide +kernel

theorem C07_newComp_pure (st : CompState) (env : Env) (mode : UnseenMode) (o : Matrix × Bool)
    (st' : CompState) (hw : compWf st = true) (h : newCompS st env mode = .ok (o, st')) : st' = st :=
  newCompS_pure st env mode o st' hw h

theorem C07_newTerm_pure (t : TermState) (env : Env) (mode : UnseenMode) (o : Matrix × Bool)
    (t' : TermState) (hw : termWf t = true) (h : newTermS t env mode = .ok (o, t')) : t' = t :=
  newTermS_pure t env mode o t' hw h

theorem C07_newGroup_pure (g : GroupState) (env : Env) (mode : UnseenMode) (o : Matrix × Bool)
    (g' : GroupState) (hw : groupWf g = true) (h : newGroupS g env mode = .ok (o, g')) : g' = g :=
  newGroupS_pure g env mode o g' hw h

/-- the state-returning prediction functions are `newComp/newTerm/newGroup` plus the state -/
theorem C07_newComp_out (st : CompState) (env : Env) (mode : UnseenMode) :
    (newCompS st env mode).map (·.1) = newComp st env mode := newCompS_out st env mode
theorem C07_newTerm_out (t : TermState) (env : Env) (mode : UnseenMode) :
    (newTermS t env mode).map (·.1) = newTerm t env mode := newTermS_out t env mode
theorem C07_newGroup_out (g : GroupState) (env : Env) (mode : UnseenMode) :
    (newGroupS g env mode).map (·.1) = newGroup g env mode := newGroupS_out g env mode

/-- what training returns is well-formed (so the guards above hold for every built design) -/
theorem C07_build_wf (spec : BuildSpec) (frame : Frame) (d : DesignState) (b : Built)
    (h : buildDesign spec frame = .ok (d, b)) : d.wf = true ∧ d.train = b :=
  ⟨buildDesign_wf spec frame d b h, buildDesign_train spec frame d b h⟩

/-- every world reachable from a fresh process is well-formed -/
theorem C07_reachable_wf (h : List Op) : (run World.init h).wf = true :=
  run_wf World.init (by rfl) h

/-- Evaluating new data leaves the world — every design, the configuration — exactly as it was. -/
theorem C07_eval_common_pure (w : World) (hw : w.wf = true) (i : Nat) (frame : Frame) :
    (step w (.evalCommon i frame)).1 = w := by
  rw [step_world w hw]; simp [Op.created, Op.configured]

theorem C07_eval_group_pure (w : World) (hw : w.wf = true) (i : Nat) (frame : Frame) :
    (step w (.evalGroup i frame)).1 = w := by
  rw [step_world w hw]; simp [Op.created, Op.configured]

/-- … in particular after any history -/
theorem C07_eval_pure_reachable (h : List Op) (i : Nat) (frame : Frame) :
    (step (run World.init h) (.evalCommon i frame)).1 = run World.init h
    ∧ (step (run World.init h) (.evalGroup i frame)).1 = run World.init h :=
  ⟨C07_eval_common_pure _ (C07_reachable_wf h) i frame, C07_eval_group_pure _ (C07_reachable_wf h) i frame⟩

-- ---------------------------------------------------------------------------------------------
-- building allocates, and reads nothing
-- ---------------------------------------------------------------------------------------------
/-- `build` leaves every existing design and the configuration untouched: the designs afterwards
are the old ones followed by the new one (none if the build raised) — and neither the new design
nor the output depends on the world. -/
theorem C07_build_fresh (w : World) (spec : BuildSpec) (frame : Frame) :
    (step w (.build spec frame)).1.designs = w.designs ++ (Op.build spec frame).created
    ∧ (step w (.build spec frame)).1.config = w.config
    ∧ ∀ w' : World, (step w' (.build spec frame)).2 = (step w (.build spec frame)).2 := by
  refine ⟨?_, ?_, ?_⟩
  · simp only [step, Op.created]
    cases buildDesign spec frame with
    | error e => simp
    | ok r => obtain ⟨d, b⟩ := r; simp
  · simp only [step]
    cases buildDesign spec frame with
    | error e => rfl
    | ok r => rfl
  · intro w'
    rw [step_out, step_out]; rfl

/-- setting the configuration touches no design -/
theorem C07_config_frame (w : World) (key value : String) :
    (step w (.setConfig key value)).1.designs = w.designs := by
  simp only [step]
  split
  · rfl
  · split <;> rfl

-- ---------------------------------------------------------------------------------------------
-- histories
-- ---------------------------------------------------------------------------------------------
/-- The output of `o` after the history `h` equals its output in a fresh process that has only
seen the last configuration change of `h` and the `build` that created the design `o` refers to. -/
theorem C07_history_independence : HistoryIndependent := history_independence

/-- Evaluating the same frame twice gives the same output (and so does any repetition of an
evaluation after the history in between: by `C07_history_independence`). -/
theorem C07_repeatable (w : World) (hw : w.wf = true) (i : Nat) (frame : Frame) :
    (step (step w (.evalCommon i frame)).1 (.evalCommon i frame)).2 = (step w (.evalCommon i frame)).2
    ∧ (step (step w (.evalGroup i frame)).1 (.evalGroup i frame)).2 = (step w (.evalGroup i frame)).2 := by
  rw [C07_eval_common_pure w hw, C07_eval_group_pure w hw]
  exact ⟨rfl, rfl⟩

theorem outputs_eq_fresh (pre : List Op) : ∀ (h : List Op),
    outputs (run World.init pre) h = freshOutputs pre h
  | [] => rfl
  | o :: h => by
    simp only [outputs, freshOutputs]
    rw [history_independence pre o]
    have : (step (run World.init pre) o).1 = run World.init (pre ++ [o]) := by
      have run_append : ∀ (w : World) (a b : List Op), run w (a ++ b) = run (run w a) b := by
        intro w a
        induction a generalizing w with
        | nil => intro b; rfl
        | cons x a ih => intro b; simp [run, ih]
      rw [run_append]; rfl
    rw [this, outputs_eq_fresh (pre ++ [o]) h]

theorem holds_refl : ∀ (os : List Out), holds (os.zip os) [] = true
  | [] => rfl
  | o :: os => by
    have := holds_refl os
    simp only [holds, List.all_nil, Bool.and_true] at this ⊢
    simp [List.zip_cons_cons, this]

/-- The specification holds on every history of the model: every operation's output equals its
fresh-state output (in the model nothing else is observable: values are immutable). -/
theorem C07_history_spec (h : List Op) :
    holds ((outputs World.init h).zip (freshOutputs [] h)) [] = true := by
  have := outputs_eq_fresh [] h
  simp only [run] at this
  rw [← this]
  exact holds_refl _

-- ---------------------------------------------------------------------------------------------
-- non-vacuity: a history with two designs over the same stateful transform, a configuration
-- change and evaluations, whose outputs are genuine matrices
-- ---------------------------------------------------------------------------------------------
def exSpec : BuildSpec :=
  { table := [("center(x)", exCenter)], response := none,
    common := [{ name := "Intercept", comps := [] }, { name := "center(x)", comps := [("center(x)", false)] }],
    group := [], names := [] }

def exHistory : List Op :=
  [.build exSpec (exFrame [1, 3]), .setConfig configKey "silent", .build exSpec (exFrame [10, 20]),
   .evalCommon 1 (exFrame [5]), .evalCommon 0 (exFrame [5])]

example : (outputs World.init exHistory).drop 3 =
    [.evaluated [[some 1, some (-10)]] [⟨"Intercept", 0, 1⟩, ⟨"center(x)", 1, 2⟩] [] false,
     .evaluated [[some 1, some 3]] [⟨"Intercept", 0, 1⟩, ⟨"center(x)", 1, 2⟩] [] false] := by
  decide +kernel

example : (relevant (exHistory.take 4) (.evalCommon 0 (exFrame [5]))).length = 2 := by decide +kernel

end FormulaeModel.C07
