import FormulaeModel.Spec.C08
/-
C08 — theorems about the evaluation model: irrelevant frame structure.
(The row index does not exist in the model; index relabelling is exercised by the correspondence
only.  Permutation equivariance of training is stated and its proved parts are listed below.)
-/
namespace FormulaeModel.C08
open FormulaeModel FormulaeModel.Design

/-- column lookup is by name: columns the formula does not mention, added anywhere, change no lookup -/
theorem C08_col_lookup_extra (f extra : Frame) (name : String)
    (h : ∀ c ∈ extra, c.name ≠ name) :
    Frame.col? (f ++ extra) name = Frame.col? f name ∧
    (Frame.col? f name = none → Frame.col? (extra ++ f) name = none) ∧
    (∀ c, Frame.col? f name = some c → Frame.col? (extra ++ f) name = some c) := by
  have hnone : extra.find? (fun c => c.name == name) = none := by
    rw [List.find?_eq_none]
    intro c hc
    simpa using h c hc
  refine ⟨?_, ?_, ?_⟩
  · simp only [Frame.col?, List.find?_append]
    cases List.find? (fun c => c.name == name) f <;> simp [hnone]
  · intro hf
    simp only [Frame.col?, List.find?_append, hnone] at *
    simpa using hf
  · intro c hf
    simp only [Frame.col?, List.find?_append, hnone] at *
    simpa using hf

/-- `find?` of a predicate that at most one element satisfies does not depend on the order -/
theorem find?_perm {α} (p : α → Bool) {l₁ l₂ : List α} (hp : l₁.Perm l₂)
    (hu : ∀ a ∈ l₁, ∀ b ∈ l₁, p a = true → p b = true → a = b) : l₁.find? p = l₂.find? p := by
  induction hp with
  | nil => rfl
  | cons x _ ih =>
    simp only [List.find?_cons]
    cases hx : p x with
    | true => rfl
    | false => exact ih (fun a ha b hb => hu a (by simp [ha]) b (by simp [hb]))
  | swap x y l =>
    simp only [List.find?_cons]
    cases hx : p x <;> cases hy : p y <;> simp
    exact (hu y (by simp) x (by simp) hy hx)
  | trans h₁ _ ih₁ ih₂ =>
    rw [ih₁ hu]
    exact ih₂ (fun a ha b hb => hu a (h₁.mem_iff.mpr ha) b (h₁.mem_iff.mpr hb))

/-- reordering the columns does not change a lookup when column names are distinct -/
theorem C08_col_lookup_perm (f g : Frame) (name : String) (hp : f.Perm g)
    (hn : ∀ a ∈ f, ∀ b ∈ f, a.name = b.name → a = b) : Frame.col? f name = Frame.col? g name := by
  simp only [Frame.col?]
  apply find?_perm _ hp
  intro a ha b hb h1 h2
  apply hn a ha b hb
  have x : a.name = name := by simpa using h1
  have y : b.name = name := by simpa using h2
  rw [x, y]

/-- the sum behind `np.mean` does not depend on the row order -/
theorem sum_perm (xs ys : List Entry) (hp : xs.Perm ys) (init : Entry) :
    xs.foldl (fun acc x => entryOp (fun a b => some (a + b)) acc x) init
      = ys.foldl (fun acc x => entryOp (fun a b => some (a + b)) acc x) init := by
  apply List.Perm.foldl_eq' hp
  intro x _ y _ z
  cases x <;> cases y <;> cases z <;> simp [entryOp]
  all_goals grind

/-- fitted parameter of `center` (the mean) is invariant under row permutations -/
theorem C08_mean_perm (xs ys : List Entry) (hp : xs.Perm ys) : mean xs = mean ys := by
  unfold mean
  have hl := hp.length_eq
  have he : xs.isEmpty = ys.isEmpty := by
    cases xs <;> cases ys <;> simp_all
  rw [he, hl, sum_perm xs ys hp]

/-- hence `center` commutes with any reordering of the rows: same fitted mean, rows reordered -/
theorem C08_center_perm (xs : List Entry) (sigma : List Nat) (isInt : Bool)
    (hp : (sigma.map (fun i => xs.getD i none)).Perm xs) (v : Val) (m : Option Rat)
    (h : applyCallee "center" ⟨[.vec xs isInt], []⟩ none = .ok (v, m)) :
    ∃ ys, v = .vec ys false ∧
      applyCallee "center" ⟨[.vec (sigma.map (fun i => xs.getD i none)) isInt], []⟩ none
        = .ok (.vec (sigma.map (fun i => ys.getD i none)) false, m) := by
  simp only [applyCallee] at h ⊢
  rw [C08_mean_perm _ _ hp]
  cases hm : mean xs with
  | none => simp [hm] at h
  | some mu =>
    simp only [hm, pure, Except.pure, Except.ok.injEq, Prod.mk.injEq] at h ⊢
    obtain ⟨rfl, rfl⟩ := h
    refine ⟨_, rfl, ?_⟩
    simp only [List.map_map, and_true]
    congr 1
    apply List.map_congr_left
    intro i _
    simp only [Function.comp_apply, List.getD_eq_getElem?_getD, List.getElem?_map]
    cases xs[i]? <;> simp

end FormulaeModel.C08
