import FormulaeModel.Spec.C08
import FormulaeModel.Proofs.PermStack
import FormulaeModel.Proofs.PermUnused
import FormulaeModel.Driver.C04
set_option linter.unusedSimpArgs false
set_option linter.unusedVariables false
/-
C08 — Row equivariance and independence from irrelevant frame structure.

Theorems about the evaluation model (`Model/Design.lean`, `Model/Matrices.lean`), for every
well-formed frame, every permutation `sigma` of its rows (`IsPerm sigma n`: `sigma` is a
`List.Perm` of `0..n-1`; `Spec.C08.isPermutation` is proved equivalent) and **every** component
the model covers — no fragment guard: `C/T/S` with explicit levels, ordered categoricals, `binary`,
`center`, `offset`, `proportion`, responses `y[level]` are all inside.

1. what training remembers does not depend on the row order
   * `C08_dedup_perm`, `C08_sort_perm`, `C08_sortLevels_perm`   `sorted(set(xs))`
   * `C08_levels_perm`, `C08_levels_box_perm`                   levels + contrast matrix of a factor
   * `C08_mean_perm`, `C08_center_perm`                         the parameter of `center`
   * `C08_binary_perm`                                          the default success value of `binary`
   * `C08_box_perm`                                             the `levels=` check of `C/T/S`
2. `C08_evalArg_perm`      lazy evaluation in training mode: value rows permuted, same state tree
3. `C08_perm_comp`, `C08_perm_term`, `C08_perm_group`, `C08_perm_common`, `C08_perm_groups`,
   `C08_perm_trained`, `C08_perm_stacks`, `C08_perm`
                           training on the permuted frame = the permuted training matrix and the
                           SAME remembered state, labels, kinds, groups, slices
4. `C08_col_lookup_extra`, `C08_col_lookup_perm`, `C08_unused_evalArg`, `C08_unused_comp`,
   `C08_unused_term`, `C08_unused_group`, `C08_unused`, `C08_unused_formulaVars`
                           evaluation reads only the columns it names

Guards that remain (all explicit): the frame is rectangular (`Frame.wellFormed`), the caller's
namespace holds no data columns (`Env.namesScalar`: a column there would not be permuted), and a
term has at least one component (`spec.comps ≠ []`; the Intercept is not a term of this model:
the empty product has no rows to permute).

NOT provable in the model — stays with the correspondence check (harness/c08.py):
* the pandas row index: it does not exist in the model (a frame is a list of columns); index
  relabelling / non-unique indexes are exercised on the real code only;
* float rounding: `np.mean` / `np.sum` of permuted data agree only up to rounding in numpy, the
  model's rationals are exact (the harness uses data whose sums are exact);
* the parameters of `scale` / `bs` / `poly` (standard deviation, knots, orthogonal-polynomial
  coefficients): modelled separately in `Model/Transforms.lean` (C14), compared with tolerance by
  the harness, not part of `evalArg`;
* column *reordering* of the data frame when two columns carry the same name (pandas returns a
  frame, the model the first match): `C08_col_lookup_perm` assumes distinct names.
-/
namespace FormulaeModel.C08
open FormulaeModel FormulaeModel.Design FormulaeModel.Spec.C06

/-! ### 4a. column lookup -/

/-- column lookup is by name: columns the formula does not mention, added anywhere, change no lookup -/
theorem C08_col_lookup_extra (f extra : Frame) (name : String)
    (h : ∀ c ∈ extra, c.name ≠ name) :
    Frame.col? (f ++ extra) name = Frame.col? f name ∧
    (Frame.col? f name = none → Frame.col? (extra ++ f) name = none) ∧
    (∀ c, Frame.col? f name = some c → Frame.col? (extra ++ f) name = some c) := by
  have hnone : extra.find? (fun c => c.name == name) = none := by
    rw [List.find?_eq_none]
    intro c hc
    simpa using h c hc
  refine ⟨?_, ?_, ?_⟩
  · simp only [Frame.col?, List.find?_append]
    cases List.find? (fun c => c.name == name) f <;> simp [hnone]
  · intro hf
    simp only [Frame.col?, List.find?_append, hnone] at *
    simpa using hf
  · intro c hf
    simp only [Frame.col?, List.find?_append, hnone] at *
    simpa using hf

/-- `find?` of a predicate that at most one element satisfies does not depend on the order -/
theorem find?_perm {α} (p : α → Bool) {l₁ l₂ : List α} (hp : l₁.Perm l₂)
    (hu : ∀ a ∈ l₁, ∀ b ∈ l₁, p a = true → p b = true → a = b) : l₁.find? p = l₂.find? p := by
  induction hp with
  | nil => rfl
  | cons x _ ih =>
    simp only [List.find?_cons]
    cases hx : p x with
    | true => rfl
    | false => exact ih (fun a ha b hb => hu a (by simp [ha]) b (by simp [hb]))
  | swap x y l =>
    simp only [List.find?_cons]
    cases hx : p x <;> cases hy : p y <;> simp
    exact (hu y (by simp) x (by simp) hy hx)
  | trans h₁ _ ih₁ ih₂ =>
    rw [ih₁ hu]
    exact ih₂ (fun a ha b hb => hu a (h₁.mem_iff.mpr ha) b (h₁.mem_iff.mpr hb))

/-- reordering the columns does not change a lookup when column names are distinct -/
theorem C08_col_lookup_perm (f g : Frame) (name : String) (hp : f.Perm g)
    (hn : ∀ a ∈ f, ∀ b ∈ f, a.name = b.name → a = b) : Frame.col? f name = Frame.col? g name := by
  simp only [Frame.col?]
  apply find?_perm _ hp
  intro a ha b hb h1 h2
  apply hn a ha b hb
  have x : a.name = name := by simpa using h1
  have y : b.name = name := by simpa using h2
  rw [x, y]

/-! ### 1. what training remembers does not depend on the row order -/

/-- the sum behind `np.mean` does not depend on the row order -/
theorem sum_perm (xs ys : List Entry) (hp : xs.Perm ys) (init : Entry) :
    xs.foldl (fun acc x => entryOp (fun a b => some (a + b)) acc x) init
      = ys.foldl (fun acc x => entryOp (fun a b => some (a + b)) acc x) init :=
  foldl_sum_perm xs ys hp init

/-- fitted parameter of `center` (the mean) is invariant under row permutations -/
theorem C08_mean_perm (xs ys : List Entry) (hp : xs.Perm ys) : mean xs = mean ys := mean_perm xs ys hp

/-- hence `center` commutes with any reordering of the rows: same fitted mean, rows reordered -/
theorem C08_center_perm (xs : List Entry) (sigma : List Nat) (isInt : Bool)
    (hp : (sigma.map (fun i => xs.getD i none)).Perm xs) (v : Val) (m : Option Rat)
    (h : applyCallee "center" ⟨[.vec xs isInt], []⟩ none = .ok (v, m)) :
    ∃ ys, v = .vec ys false ∧
      applyCallee "center" ⟨[.vec (sigma.map (fun i => xs.getD i none)) isInt], []⟩ none
        = .ok (.vec (sigma.map (fun i => ys.getD i none)) false, m) := by
  simp only [applyCallee] at h ⊢
  rw [C08_mean_perm _ _ hp]
  cases hm : mean xs with
  | none => simp [hm] at h
  | some mu =>
    simp only [hm, pure, Except.pure, Except.ok.injEq, Prod.mk.injEq] at h ⊢
    obtain ⟨rfl, rfl⟩ := h
    refine ⟨_, rfl, ?_⟩
    simp only [List.map_map, and_true]
    congr 1
    apply List.map_congr_left
    intro i _
    simp only [Function.comp_apply, List.getD_eq_getElem?_getD, List.getElem?_map]
    cases xs[i]? <;> simp

/-- `set(xs)`: permuted data have the same members, each once -/
theorem C08_dedup_perm {α : Type} [DecidableEq α] (xs ys : List α) (h : xs.Perm ys) :
    (dedupL xs).Perm (dedupL ys) ∧ (dedupL xs).Nodup ∧ ∀ a, a ∈ dedupL xs ↔ a ∈ xs :=
  ⟨dedupL_perm h, nodup_dedupL xs, mem_dedupL xs⟩

/-- `sorted(xs)` (the model's insertion sort) returns the same list for permuted inputs whenever
`lt` is a strict total order on the elements -/
theorem C08_sort_perm {α : Type} (lt : α → α → Bool) (P : α → Prop) (ho : StrictTotalOn lt P)
    (xs ys : List α) (hp : xs.Perm ys) (hl : ∀ a ∈ xs, P a) : sortBy lt xs = sortBy lt ys :=
  sortBy_perm lt P ho hp hl

/-- **`sorted(set(levels))` does not depend on the order of the data** — string levels, integer
levels, and the TypeError for mixed levels alike -/
theorem C08_sortLevels_perm (xs ys : List Level) (h : xs.Perm ys) : sortLevels xs = sortLevels ys :=
  sortLevels_perm h

/-- **levels and contrast matrix of a categorical column** (`eval_categoric`) are those of the
unpermuted column (sorted unique values, or the declared order of an ordered categorical, which is
data independent); the coded rows are permuted -/
theorem C08_levels_perm (sigma : List Nat) (n : Nat) (hp : IsPerm sigma n) (name : String)
    (xs : List (Option Level)) (hx : xs.length = n) (d : Option (Bool × List String)) (full : Bool)
    (levels : List Level) (cm : ContrastMatrix) (m : Matrix)
    (h : evalCategoric name xs d full = .ok (levels, cm, m)) :
    evalCategoric name (pick sigma none xs) d full = .ok (levels, cm, selectRows m sigma) :=
  evalCategoric_perm hp name xs hx d full levels cm m h

/-- the same for a `CategoricalBox` (`C/T/S`: own contrast, explicit or derived levels) -/
theorem C08_levels_box_perm (sigma : List Nat) (n : Nat) (hp : IsPerm sigma n) (b : Box)
    (hx : b.data.length = n) (full : Bool) (levels : List Level) (cm : ContrastMatrix) (m : Matrix)
    (h : evalBox b full = .ok (levels, cm, m)) :
    evalBox { b with data := pick sigma none b.data } full = .ok (levels, cm, selectRows m sigma) :=
  evalBox_perm hp b hx full levels cm m h

/-- `CategoricalBox(data, contrast, levels)`: the check `set(levels) == set(data)` sees the same
set; the box of the permuted data carries the same contrast and levels -/
theorem C08_box_perm (sigma : List Nat) (n : Nat) (hp : IsPerm sigma n) (data : List (Option Level))
    (hl : data.length = n) (decl : Option (Bool × List String)) (c : Option Contrast)
    (l : Option (List Level)) (b : Box) (h : mkBox data decl c l = .ok b) :
    mkBox (pick sigma none data) decl c l = .ok { b with data := pick sigma none b.data } :=
  (mkBox_perm hp data hl decl c l b h).2

/-- `binary(x, success)`: the default success value (the smallest value) and the check that the
success value occurs are those of the unpermuted data -/
theorem C08_binary_perm (sigma : List Nat) (n : Nat) (hp : IsPerm sigma n) (x s v : Val) (hx : x.len n)
    (h : binaryFn x s = .ok v) : binaryFn (x.rows sigma) (s.rows sigma) = .ok (v.rows sigma) :=
  (binaryFn_perm hp x s v hx h).2

/-- the Boolean test the driver applies to the σ sent by the harness is `IsPerm` -/
theorem C08_isPermutation_iff (sigma : List Nat) (n : Nat) :
    Spec.C08.isPermutation sigma n = true ↔ sigma.Perm (List.range n) := isPerm_iff sigma n

/-! ### 2. lazy evaluation in training mode -/

/-- a well-formed training situation: rectangular frame, no data columns in the caller's namespace,
`sigma` a permutation of the row indices -/
structure Situation (env : Env) (sigma : List Nat) : Prop where
  wf : env.frame.wellFormed = true
  names : env.namesScalar = true
  perm : sigma.Perm (List.range env.frame.nrows)

/-- **Evaluating any expression for the first time on the row-permuted frame** gives the value
with its rows permuted and the *same* remembered state tree (fitted parameters of every stateful
transform in the call tree) — and the same keyword if the node is a keyword argument. -/
theorem C08_evalArg_perm (env : Env) (sigma : List Nat) (S : Situation env sigma) (e : Expr)
    (kw : Option String) (v : Val) (t : TS) (h : evalArg env e none = .ok (kw, v, t)) :
    evalArg (env.rows sigma) e none = .ok (kw, v.rows sigma, t) :=
  (evalArg_perm env S.wf S.names sigma S.perm e kw v t h).2

/-! ### 3. components, terms, group-specific terms, the design -/

/-- **One component** (`Variable` / `Call`, response or not, grouping factor or not, full or
reduced): trained on the permuted frame it remembers exactly the same state — levels, contrast
matrix, transform state, kind, offset / proportion constants, reference — has the same labels, and
its value is the training value with rows permuted. -/
theorem C08_perm_comp (env : Env) (sigma : List Nat) (S : Situation env sigma) (name : String) (e : Expr)
    (forced isResponse full : Bool) (out : CompOut)
    (h : trainComp env name e forced isResponse full = .ok out) :
    ∃ out', trainComp (env.rows sigma) name e forced isResponse full = .ok out' ∧
      out'.value = selectRows out.value sigma ∧ out'.labels = out.labels ∧
      out'.st.levels = out.st.levels ∧ out'.st.contrast = out.st.contrast ∧
      out'.st.tstate = out.st.tstate ∧ out'.st.kind = out.st.kind ∧ out'.st = out.st :=
  ⟨_, (trainComp_perm env S.wf S.names sigma S.perm name e forced isResponse full out h).1,
    rfl, rfl, rfl, rfl, rfl, rfl, rfl⟩

/-- **One term**: same component states and kind, same labels, data rows permuted
(`TermOut.perm o sigma = ⟨o.st, selectRows o.data sigma, o.labels⟩`). -/
theorem C08_perm_term (env : Env) (sigma : List Nat) (S : Situation env sigma) (table : List (String × Expr))
    (spec : TermSpec) (forced isResponse : Bool) (out : TermOut) (hne : spec.comps ≠ [])
    (h : trainTerm env table spec forced isResponse = .ok out) :
    trainTerm (env.rows sigma) table spec forced isResponse =
      .ok ⟨out.st, selectRows out.data sigma, out.labels⟩ :=
  (trainTerm_perm env S.wf S.names sigma S.perm table spec forced isResponse out hne h).1

/-- **One group-specific term** `(expr | factor)`: same state incl. the list of groups and the
factor's levels, same labels, Khatri-Rao block with rows permuted. -/
theorem C08_perm_group (env : Env) (sigma : List Nat) (S : Situation env sigma) (table : List (String × Expr))
    (spec : GroupSpec) (out : GroupOut)
    (hnf : spec.factor.comps ≠ []) (hne : ∀ ts, spec.expr = some ts → ts.comps ≠ [])
    (h : trainGroup env table spec = .ok out) :
    trainGroup (env.rows sigma) table spec = .ok ⟨out.st, selectRows out.data sigma, out.labels⟩ ∧
      (⟨out.st, selectRows out.data sigma, out.labels⟩ : GroupOut).st.groups = out.st.groups :=
  ⟨(trainGroup_perm env S.wf S.names sigma S.perm table spec out hnf hne h).1, rfl⟩

/-- every term of the design has a component -/
def specsOk (common : List (Option TermSpec)) (groups : List GroupSpec) : Prop :=
  (∀ s, some s ∈ common → s.comps ≠ []) ∧
  (∀ s ∈ groups, s.factor.comps ≠ [] ∧ ∀ ts, s.expr = some ts → ts.comps ≠ [])

/-- **The common-effects matrix** trained on the permuted frame. -/
theorem C08_perm_common (env : Env) (sigma : List Nat) (S : Situation env sigma) (table : List (String × Expr))
    (specs : List (Option TermSpec)) (parts : List (Option TermOut))
    (hne : ∀ s, some s ∈ specs → s.comps ≠ [])
    (h : trainCommon env table specs = .ok parts) :
    trainCommon (env.rows sigma) table specs = .ok (parts.map (permPart sigma)) ∧
      commonMatrix env.frame.nrows (parts.map (permPart sigma)) =
        selectRows (commonMatrix env.frame.nrows parts) sigma :=
  trainCommon_perm env S.wf S.names sigma S.perm table specs parts hne h

/-- **The group-effects matrix** trained on the permuted frame. -/
theorem C08_perm_groups (env : Env) (sigma : List Nat) (S : Situation env sigma) (table : List (String × Expr))
    (specs : List GroupSpec) (gs : List GroupOut)
    (hne : ∀ s ∈ specs, s.factor.comps ≠ [] ∧ ∀ ts, s.expr = some ts → ts.comps ≠ [])
    (h : trainGroups env table specs = .ok gs) :
    trainGroups (env.rows sigma) table specs = .ok (gs.map (·.perm sigma)) ∧
      groupMatrix env.frame.nrows (gs.map (·.perm sigma)) =
        selectRows (groupMatrix env.frame.nrows gs) sigma :=
  trainGroups_perm env S.wf S.names sigma S.perm table specs gs hne h

theorem permutedOk_of_eq (base permuted : Matrix) (sigma : List Nat) (h : permuted = selectRows base sigma) :
    Spec.C08.permutedOk base permuted sigma = true := by
  subst h; exact rowsEqual_refl _

/-- **C08 (assembled, matrices).** Training the design on the permuted frame succeeds, every term
keeps its state and labels (`permPart` / `GroupOut.perm` change the data only), and both matrices
satisfy the specification `Spec.C08.permutedOk` against the base run. -/
theorem C08_perm (env : Env) (sigma : List Nat) (S : Situation env sigma) (table : List (String × Expr))
    (common : List (Option TermSpec)) (groups : List GroupSpec)
    (parts : List (Option TermOut)) (gs : List GroupOut) (hok : specsOk common groups)
    (hc : trainCommon env table common = .ok parts) (hg : trainGroups env table groups = .ok gs) :
    ∃ parts' gs',
      trainCommon (env.rows sigma) table common = .ok parts' ∧
      trainGroups (env.rows sigma) table groups = .ok gs' ∧
      parts'.map (Option.map (·.st)) = parts.map (Option.map (·.st)) ∧
      parts'.map (Option.map (·.labels)) = parts.map (Option.map (·.labels)) ∧
      gs'.map (·.st) = gs.map (·.st) ∧ gs'.map (·.labels) = gs.map (·.labels) ∧
      Spec.C08.permutedOk (commonMatrix env.frame.nrows parts) (commonMatrix env.frame.nrows parts') sigma = true ∧
      Spec.C08.permutedOk (groupMatrix env.frame.nrows gs) (groupMatrix env.frame.nrows gs') sigma = true := by
  obtain ⟨h1, h2⟩ := C08_perm_common env sigma S table common parts hok.1 hc
  obtain ⟨h3, h4⟩ := C08_perm_groups env sigma S table groups gs hok.2 hg
  refine ⟨_, _, h1, h3, ?_, ?_, ?_, ?_, permutedOk_of_eq _ _ _ h2, permutedOk_of_eq _ _ _ h4⟩
  · rw [List.map_map]; apply List.map_congr_left; intro p _; cases p <;> rfl
  · rw [List.map_map]; apply List.map_congr_left; intro p _; cases p <;> rfl
  · rw [List.map_map]; rfl
  · rw [List.map_map]; rfl

/-! #### slices and labels of the stacked matrices (the objects the driver serialises) -/

/-- a trained design (as the driver keeps it) with every block's rows permuted -/
def permTrained (sigma : List Nat) (t : Driver.C04.Trained) : Driver.C04.Trained :=
  ⟨t.response.map (·.perm sigma), t.common.map (fun p => (p.1, permPart sigma p.2)),
   t.group.map (·.perm sigma)⟩

/-- every block of `t` was produced by training a term / group-specific term on `env` -/
structure TrainedBy (env : Env) (table : List (String × Expr)) (t : Driver.C04.Trained) : Prop where
  common : ∀ p ∈ t.common, ∀ o, p.2 = some o →
    ∃ spec : TermSpec, spec.comps ≠ [] ∧ trainTerm env table spec false false = .ok o
  group : ∀ g ∈ t.group, ∃ spec : GroupSpec, spec.factor.comps ≠ [] ∧
    (∀ ts, spec.expr = some ts → ts.comps ≠ []) ∧ trainGroup env table spec = .ok g

/-- training the same specifications on the permuted frame produces exactly `permTrained sigma t` -/
theorem C08_perm_trained (env : Env) (sigma : List Nat) (S : Situation env sigma) (table : List (String × Expr))
    (t : Driver.C04.Trained) (ht : TrainedBy env table t) :
    TrainedBy (env.rows sigma) table (permTrained sigma t) := by
  constructor
  · intro p hp o ho
    simp only [permTrained, List.mem_map] at hp
    obtain ⟨p0, hp0, rfl⟩ := hp
    cases hp2 : p0.2 with
    | none => simp [permPart, hp2] at ho
    | some o0 =>
      simp only [permPart, hp2, Option.some.injEq] at ho
      subst ho
      obtain ⟨spec, hne, hs⟩ := ht.common p0 hp0 o0 hp2
      exact ⟨spec, hne, C08_perm_term env sigma S table spec false false o0 hne hs⟩
  · intro g hg
    simp only [permTrained, List.mem_map] at hg
    obtain ⟨g0, hg0, rfl⟩ := hg
    obtain ⟨spec, h1, h2, hs⟩ := ht.group g0 hg0
    exact ⟨spec, h1, h2, (C08_perm_group env sigma S table spec g0 h1 h2 hs).1⟩

/-- **C08 (assembled, stacked objects).** For the common and the group matrix as the driver
builds them (`Driver.C04.commonStack` / `groupStack`): the matrix of the permuted run is the base
matrix with rows permuted, the slices and the column labels are identical. -/
theorem C08_perm_stacks (env : Env) (sigma : List Nat) (S : Situation env sigma) (table : List (String × Expr))
    (t : Driver.C04.Trained) (ht : TrainedBy env table t) :
    let n := env.frame.nrows
    let c := Driver.C04.commonStack n t
    let c' := Driver.C04.commonStack n (permTrained sigma t)
    let g := Driver.C04.groupStack n t
    let g' := Driver.C04.groupStack n (permTrained sigma t)
    c'.matrix = selectRows c.matrix sigma ∧ c'.slices = c.slices ∧ c'.labels = c.labels ∧
    g'.matrix = selectRows g.matrix sigma ∧ g'.slices = g.slices ∧ g'.labels = g.labels ∧
    Spec.C08.permutedOk c.matrix c'.matrix sigma = true ∧
    Spec.C08.permutedOk g.matrix g'.matrix sigma = true := by
  intro n c c' g g'
  have hp : IsPerm sigma n := S.perm
  -- common
  have hc' : c' = stack n ((t.common.map (fun p =>
      match p.2 with
      | none => Driver.C04.interceptPart n
      | some o => (p.1, o.data, o.labels))).map (permBlock sigma)) := by
    simp only [c', Driver.C04.commonStack, permTrained, List.map_map]
    congr 1
    apply List.map_congr_left
    intro p _
    cases hp2 : p.2 with
    | none =>
      simp only [Function.comp, permPart, hp2, permBlock, Driver.C04.interceptPart,
        selectRows_onesCol _ sigma hp.lt, hp.length]
    | some o => simp only [Function.comp, permPart, hp2, permBlock, TermOut.perm]
  have hcl : ∀ p ∈ t.common.map (fun p =>
      match p.2 with
      | none => Driver.C04.interceptPart n
      | some o => (p.1, o.data, o.labels)), p.2.1.length = n ∧ ∃ w, Uniform p.2.1 w := by
    intro q hq
    simp only [List.mem_map] at hq
    obtain ⟨p, hp', rfl⟩ := hq
    cases hp2 : p.2 with
    | none => exact ⟨by simp [Driver.C04.interceptPart, onesCol], 1, onesCol_uniform n⟩
    | some o =>
      obtain ⟨spec, hne, hs⟩ := ht.common p hp' o hp2
      exact ⟨(trainTerm_perm env S.wf S.names sigma S.perm table spec false false o hne hs).2,
        trainTerm_uniform _ _ _ _ _ _ hs⟩
  obtain ⟨c1, c2, c3⟩ := stack_perm n sigma hp _ (fun p h => (hcl p h).1) (fun p h => (hcl p h).2)
  -- group
  have hg' : g' = stack n ((t.group.map (fun g => (g.st.name, g.data, g.labels))).map (permBlock sigma)) := by
    simp only [g', Driver.C04.groupStack, permTrained, List.map_map]
    rfl
  have hgl : ∀ p ∈ t.group.map (fun g => (g.st.name, g.data, g.labels)),
      p.2.1.length = n ∧ ∃ w, Uniform p.2.1 w := by
    intro q hq
    simp only [List.mem_map] at hq
    obtain ⟨g0, hg0, rfl⟩ := hq
    obtain ⟨spec, h1, h2, hs⟩ := ht.group g0 hg0
    exact ⟨(trainGroup_perm env S.wf S.names sigma S.perm table spec g0 h1 h2 hs).2,
      trainGroup_uniform _ _ _ _ hs⟩
  obtain ⟨g1, g2, g3⟩ := stack_perm n sigma hp _ (fun p h => (hgl p h).1) (fun p h => (hgl p h).2)
  rw [← hc'] at c1 c2 c3
  rw [← hg'] at g1 g2 g3
  exact ⟨c1, c2, c3, g1, g2, g3, permutedOk_of_eq _ _ _ c1, permutedOk_of_eq _ _ _ g1⟩

/-! ### 4b. evaluation reads only the columns it names -/

/-- **Lazy evaluation** (training or prediction mode, errors included) of an expression is the
same on two frames that agree on the columns `CallVarsExtractor` finds in it. -/
theorem C08_unused_evalArg (f1 f2 : Frame) (names : List (String × Val)) (e : Expr) (ts : Option TS)
    (h : ∀ n ∈ NA.argVars e, f1.col? n = f2.col? n) :
    evalArg ⟨f1, names⟩ e ts = evalArg ⟨f2, names⟩ e ts :=
  evalArg_agree f1 f2 names e ts h

/-- **One component**: `compNames name e` = the names a component reads (= `var_names` of the
component, `NA.atomVars e`, whenever `e` is a call or a variable: `compNames_atom`). -/
theorem C08_unused_comp (f1 f2 : Frame) (names : List (String × Val)) (name : String) (e : Expr)
    (forced isResponse full : Bool) (hshape : isAtomShape e = true)
    (h : ∀ n ∈ NA.atomVars e, f1.col? n = f2.col? n) (hrows : f1.nrows = f2.nrows) :
    trainComp ⟨f1, names⟩ name e forced isResponse full =
      trainComp ⟨f2, names⟩ name e forced isResponse full :=
  trainComp_agree f1 f2 names name e forced isResponse full hrows (by rw [compNames_atom _ _ hshape]; exact h)

theorem C08_unused_term (f1 f2 : Frame) (names : List (String × Val)) (table : List (String × Expr))
    (spec : TermSpec) (forced isResponse : Bool)
    (h : ∀ n ∈ tableNames table, f1.col? n = f2.col? n) (hrows : f1.nrows = f2.nrows) :
    trainTerm ⟨f1, names⟩ table spec forced isResponse =
      trainTerm ⟨f2, names⟩ table spec forced isResponse :=
  trainTerm_agree f1 f2 names table spec forced isResponse hrows h

theorem C08_unused_group (f1 f2 : Frame) (names : List (String × Val)) (table : List (String × Expr))
    (spec : GroupSpec)
    (h : ∀ n ∈ tableNames table, f1.col? n = f2.col? n) (hrows : f1.nrows = f2.nrows) :
    trainGroup ⟨f1, names⟩ table spec = trainGroup ⟨f2, names⟩ table spec :=
  trainGroup_agree f1 f2 names table spec hrows h

/-- **C08 (unused columns).** Two frames with the same number of rows that agree on the columns
read through the component table — whatever else they contain, in whatever order — give the same
trained terms, hence the same matrices, labels, levels, slices and states (errors included). -/
theorem C08_unused (f1 f2 : Frame) (names : List (String × Val)) (table : List (String × Expr))
    (common : List (Option TermSpec)) (groups : List GroupSpec)
    (h : ∀ n ∈ tableNames table, f1.col? n = f2.col? n) (hrows : f1.nrows = f2.nrows) :
    trainCommon ⟨f1, names⟩ table common = trainCommon ⟨f2, names⟩ table common ∧
    trainGroups ⟨f1, names⟩ table groups = trainGroups ⟨f2, names⟩ table groups ∧
    commonMatrix f1.nrows = commonMatrix f2.nrows ∧ groupMatrix f1.nrows = groupMatrix f2.nrows :=
  ⟨trainCommon_agree f1 f2 names table common hrows h, trainGroups_agree f1 f2 names table groups hrows h,
    by rw [hrows], by rw [hrows]⟩

/-- … and for the component table of a formula (`Pipeline.atomTable`, restricted to components
proper) those columns are among `Model.var_names` of the formula (`NA.formulaVars`): frames that
agree on `var_names` give equal designs. -/
theorem C08_unused_formulaVars (formula : Expr) (f1 f2 : Frame) (names : List (String × Val))
    (common : List (Option TermSpec)) (groups : List GroupSpec)
    (h : ∀ n ∈ NA.formulaVars formula, f1.col? n = f2.col? n) (hrows : f1.nrows = f2.nrows) :
    let table := (Pipeline.atomTable formula).filter (fun p => isAtomShape p.2)
    trainCommon ⟨f1, names⟩ table common = trainCommon ⟨f2, names⟩ table common ∧
    trainGroups ⟨f1, names⟩ table groups = trainGroups ⟨f2, names⟩ table groups := by
  intro table
  have h' : ∀ n ∈ tableNames table, f1.col? n = f2.col? n :=
    fun n hn => h n (tableNames_formulaVars formula n hn)
  exact ⟨(C08_unused f1 f2 names table common groups h' hrows).1,
    (C08_unused f1 f2 names table common groups h' hrows).2.1⟩

/-- columns appended to / put in front of a frame under names the formula does not use change
nothing (instance of `C08_unused` through `C08_col_lookup_extra`) -/
theorem C08_extra_columns (f extra : Frame) (names : List (String × Val)) (table : List (String × Expr))
    (common : List (Option TermSpec)) (groups : List GroupSpec)
    (hfresh : ∀ c ∈ extra, c.name ∉ tableNames table) (hrows : (f ++ extra).nrows = f.nrows) :
    trainCommon ⟨f ++ extra, names⟩ table common = trainCommon ⟨f, names⟩ table common ∧
    trainGroups ⟨f ++ extra, names⟩ table groups = trainGroups ⟨f, names⟩ table groups := by
  have h : ∀ n ∈ tableNames table, (f ++ extra).col? n = f.col? n := by
    intro n hn
    exact (C08_col_lookup_extra f extra n (fun c hc hcn => hfresh c hc (hcn ▸ hn))).1
  exact ⟨(C08_unused _ _ names table common groups h hrows).1, (C08_unused _ _ names table common groups h hrows).2.1⟩

/-! ### non-vacuity, and the one guard on terms is needed -/

def tk (k : Kind) (s : String) : Token := ⟨k, s⟩
def var (s : String) : Expr := .variable (tk .IDENTIFIER s)
def call1 (f : String) (a : Expr) : Expr :=
  .call (var f) (tk .LEFT_PAREN "(") (.last a) (tk .RIGHT_PAREN ")")
def call2 (f : String) (a b : Expr) : Expr :=
  .call (var f) (tk .LEFT_PAREN "(") (.more a (tk .COMMA ",") (.last b)) (tk .RIGHT_PAREN ")")
def kwarg (k : String) (v : Expr) : Expr := .assign (var k) (tk .EQUAL "=") v

/-- a 3-level factor `f` whose first-seen order is not the sorted order, a numeric `x`, an integer
`k`, an ordered categorical `co`, a grouping column `g`, and an unused column `junk` with NaN -/
def exFrame : Frame :=
  [⟨"f", .string, [.str "c", .str "a", .str "b", .str "a"]⟩,
   ⟨"x", .numeric false, [.num 1, .num 2, .num 4, .num 5]⟩,
   ⟨"k", .numeric true, [.num 3, .num 1, .num 2, .num 2]⟩,
   ⟨"co", .categorical true ["lo", "mid", "hi"], [.str "lo", .str "mid", .str "hi", .str "lo"]⟩,
   ⟨"g", .string, [.str "v", .str "u", .str "u", .str "v"]⟩,
   ⟨"junk", .numeric false, [.na, .num 7, .na, .num 9]⟩]

def exEnv : Env := { frame := exFrame, names := [("lv_f", .levels [.s "c", .s "a", .s "b"])] }

/-- a permutation that moves every row and changes which level is seen first -/
def exSigma : List Nat := [2, 3, 0, 1]

theorem exSituation : Situation exEnv exSigma := ⟨by decide, by decide, by decide⟩

def exTable : List (String × Expr) :=
  [("center(x)", call1 "center" (var "x")), ("f", var "f"), ("g", var "g"),
   ("C(f, levels=lv_f)", call2 "C" (var "f") (kwarg "levels" (var "lv_f"))),
   ("binary(k)", call1 "binary" (var "k")), ("C(co)", call1 "C" (var "co"))]

def exTerm : TermSpec := { name := "center(x):f", comps := [("center(x)", false), ("f", true)] }
def exGroup : GroupSpec :=
  { name := "center(x)|g", expr := some { name := "center(x)", comps := [("center(x)", false)] },
    factor := { name := "g", comps := [("g", true)] } }

def termData (r : M TermOut) : Option Matrix :=
  match r with
  | .ok o => some o.data
  | .error _ => none

def termLabels (r : M TermOut) : Option (List String) :=
  match r with
  | .ok o => o.labels
  | .error _ => none

-- training succeeds on the base frame (so the hypotheses of the theorems are satisfiable) …
example : termData (trainTerm exEnv exTable exTerm false false) =
    some [[some 0, some 0, some (-2)], [some (-1), some 0, some 0], [some 0, some 1, some 0],
          [some 2, some 0, some 0]] := by decide +kernel
-- … the permuted frame sees level `b` first, still the columns are `a, b, c` and the rows 2,3,0,1 …
example : termData (trainTerm (exEnv.rows exSigma) exTable exTerm false false) =
    some [[some 0, some 1, some 0], [some 2, some 0, some 0], [some 0, some 0, some (-2)],
          [some (-1), some 0, some 0]] := by decide +kernel
example : termLabels (trainTerm (exEnv.rows exSigma) exTable exTerm false false) =
    termLabels (trainTerm exEnv exTable exTerm false false) := by decide +kernel
-- … as the theorems say (instances, incl. the components outside the C06 fragment: explicit
-- levels, `binary`, an ordered categorical)
example : ∀ out, trainTerm exEnv exTable exTerm false false = .ok out →
    trainTerm (exEnv.rows exSigma) exTable exTerm false false =
      .ok ⟨out.st, selectRows out.data exSigma, out.labels⟩ :=
  fun out h => C08_perm_term exEnv exSigma exSituation exTable exTerm false false out (by decide) h
example : ∀ out, trainGroup exEnv exTable exGroup = .ok out →
    trainGroup (exEnv.rows exSigma) exTable exGroup = .ok ⟨out.st, selectRows out.data exSigma, out.labels⟩ :=
  fun out h => (C08_perm_group exEnv exSigma exSituation exTable exGroup out (by decide)
    (by intro ts hts; cases hts; decide) h).1
example : (match trainComp exEnv "C(f, levels=lv_f)" (call2 "C" (var "f") (kwarg "levels" (var "lv_f")))
      false false true with
    | .ok o => some (o.value, o.st.levels)
    | .error _ => none) =
    some ([[some 1, some 0, some 0], [some 0, some 1, some 0], [some 0, some 0, some 1], [some 0, some 1, some 0]],
          [.s "c", .s "a", .s "b"]) := by decide +kernel
example : (match trainComp exEnv "binary(k)" (call1 "binary" (var "k")) false false false with
    | .ok o => some o.value
    | .error _ => none) = some [[some 0], [some 1], [some 0], [some 0]] := by decide +kernel
example : (match trainComp (exEnv.rows exSigma) "binary(k)" (call1 "binary" (var "k")) false false false with
    | .ok o => some o.value
    | .error _ => none) = some [[some 0], [some 0], [some 0], [some 1]] := by decide +kernel
-- unused columns: dropping `junk` and `co` and reversing the rest changes nothing
def exFrame2 : Frame :=
  [⟨"g", .string, [.str "v", .str "u", .str "u", .str "v"]⟩,
   ⟨"x", .numeric false, [.num 1, .num 2, .num 4, .num 5]⟩,
   ⟨"f", .string, [.str "c", .str "a", .str "b", .str "a"]⟩]
example : trainTerm ⟨exFrame, exEnv.names⟩ (exTable.take 3) exTerm false false =
    trainTerm ⟨exFrame2, exEnv.names⟩ (exTable.take 3) exTerm false false :=
  C08_unused_term exFrame exFrame2 exEnv.names (exTable.take 3) exTerm false false
    (by
      intro n hn
      have e : tableNames (exTable.take 3) = ["x", "f", "g"] := by decide +kernel
      rw [e] at hn
      simp only [List.mem_cons, List.not_mem_nil, or_false] at hn
      rcases hn with rfl | rfl | rfl <;> rfl)
    (by decide)

/-- `C08_perm_term` without the guard `spec.comps ≠ []` -/
def C08_perm_term_Statement : Prop :=
  ∀ (env : Env) (sigma : List Nat), Situation env sigma →
  ∀ (table : List (String × Expr)) (spec : TermSpec) (forced isResponse : Bool) (out : TermOut),
    trainTerm env table spec forced isResponse = .ok out →
    trainTerm (env.rows sigma) table spec forced isResponse =
      .ok ⟨out.st, selectRows out.data sigma, out.labels⟩

/-- The guard is needed in the *model* only: the empty product `reduceMatrices []` is the empty
matrix whatever the frame, so it has no rows to permute.  No such term exists in the library
(the Intercept is not built through `Term.set_data`; it is `none` in `trainCommon`). -/
theorem C08_perm_term_counterexample : ¬ C08_perm_term_Statement := by
  intro hS
  have h := hS exEnv exSigma exSituation [] ⟨"empty", []⟩ false false
    ⟨⟨"empty", [], "interaction"⟩, [], some []⟩ rfl
  have h' : trainTerm (exEnv.rows exSigma) [] ⟨"empty", []⟩ false false =
      .ok ⟨⟨"empty", [], "interaction"⟩, [], some []⟩ := rfl
  rw [h'] at h
  simp only [Except.ok.injEq, TermOut.mk.injEq, true_and, and_true] at h
  exact absurd h (by decide)

end FormulaeModel.C08
