import FormulaeModel.Proofs.Blocks
import FormulaeModel.Spec.C10
import FormulaeModel.Generated.Tables
import FormulaeModel.Properties.C05
/-
C10 — theorems about the model of `eval_new_data_categoric`, `GroupSpecificTerm.eval_new_data`
and `Config`.
-/
namespace FormulaeModel.C10
open FormulaeModel FormulaeModel.Design

/-- **error mode**: evaluation raises if and only if some value is unseen. -/
theorem C10_error_iff (st : CompState) (cm : ContrastMatrix) (hc : st.contrast = some cm)
    (xs : List (Option Level)) :
    (xs.any (isUnseen st.levels) = true →
      newCategoric st .error xs = .error (.valueError "levels not present in the original data set")) ∧
    (xs.any (isUnseen st.levels) = false →
      newCategoric st .error xs = (codeRows cm st.levels xs).map (fun m => (m, false))) := by
  constructor
  · intro h
    simp only [newCategoric, hc, h, bind, Except.bind]
    rfl
  · intro h
    simp only [newCategoric, hc, h, bind, Except.bind, pure, Except.pure]
    cases codeRows cm st.levels xs <;> rfl

/-- **warning / silent mode**: the result has one row per input value; the row of an unseen
value is all zeros (as wide as the coding), the row of a seen value is its row of the remembered
contrast matrix; a warning is issued exactly in `warning` mode. -/
theorem C10_zero_rows (st : CompState) (cm : ContrastMatrix) (hc : st.contrast = some cm)
    (mode : UnseenMode) (hm : mode ≠ .error) (xs : List (Option Level))
    (h : xs.any (isUnseen st.levels) = true) :
    newCategoric st mode xs = .ok
      (xs.map (fun x =>
        match x.bind (fun l => indexOf? l st.levels) with
        | some i => rowOfInts (cm.rows.getD i [])
        | none => List.replicate cm.labels.length (some (0 : Rat))),
       mode == .warning) := by
  have hme : (mode == UnseenMode.error) = false := by
    cases mode <;> simp_all
  simp only [newCategoric, hc, h, hme, bind, Except.bind, pure, Except.pure]
  rfl

/-- an unseen value has no index among the levels, so its row is the zero row -/
theorem C10_unseen_row_zero (levels : List Level) (x : Option Level) (h : isUnseen levels x = true) :
    x.bind (fun l => indexOf? l levels) = none := by
  cases x with
  | none => rfl
  | some l =>
    simp only [isUnseen, Bool.not_eq_true', List.contains_eq_mem, decide_eq_false_iff_not] at h
    simp only [Option.bind_some, indexOf?]
    have : ¬ (List.findIdx (fun y => y == l) levels < levels.length) := by
      intro hlt
      have := List.findIdx_getElem (w := hlt)
      simp only [beq_iff_eq] at this
      exact h (this ▸ List.getElem_mem _)
    simp [this]

/-- a zero row makes every interaction column involving it zero (no missing values) -/
theorem C10_interaction_zero_left (w : Nat) (y : List Rat) :
    rowProd (List.replicate w (some (0 : Rat))) (y.map some) =
      List.replicate (w * y.length) (some (0 : Rat)) := by
  induction w with
  | zero => simp [rowProd]
  | succ w ih =>
    simp only [rowProd, List.replicate_succ, List.flatMap_cons] at *
    rw [ih, Nat.succ_mul, Nat.add_comm, ← List.replicate_append_replicate]
    congr 1
    simp [Entry.mul, List.map_map, Function.comp_def, List.map_const']

theorem C10_interaction_zero_right (x : List Rat) (w : Nat) :
    rowProd (x.map some) (List.replicate w (some (0 : Rat))) =
      List.replicate (x.length * w) (some (0 : Rat)) := by
  induction x with
  | nil => simp [rowProd]
  | cons a x ih =>
    simp only [rowProd, List.map_cons, List.flatMap_cons, List.length_cons] at *
    rw [ih, Nat.succ_mul, Nat.add_comm, ← List.replicate_append_replicate]
    congr 1
    simp [Entry.mul, List.map_const']

/-- **new group**: an observation of an unseen group has the indicator row of the appended
(G+1)-th group, so (C05_block_row with G+1 groups) every existing slot is zero and the trailing
slot carries the effect values. -/
theorem C10_new_group_block (G : Nat) (x : List Rat) (g' k : Nat) (hg' : g' < G + 1)
    (hk : k < x.length) :
    (rowProd (C05.indicatorRow (G + 1) G) (x.map some))[g' * x.length + k]? =
      some (some (if g' = G then x[k] else 0)) :=
  C05.C05_block_row_values (G + 1) G x g' k hg' hk

/-- the appended indicator: all-zero rows get 1, the others 0, in one extra trailing column -/
theorem C10_appended_column (ji : Matrix) (isZeroRow : List Entry → Bool) (r : Nat) (hr : r < ji.length) :
    (ji.map (fun row => row ++ [some (if isZeroRow row then (1 : Rat) else 0)]))[r]'(by simpa using hr)
      = ji[r] ++ [some (if isZeroRow ji[r] then 1 else 0)] := by
  simp

/-- **configuration**: a key/value pair is accepted iff it is a documented field with a
documented value; the default is the first choice (`error`). -/
theorem C10_config_accepts (st : Config.State) (key value : String) :
    (∃ st', Config.set Spec.C10.documentedFields st key value = .ok st') ↔
      key = "EVAL_UNSEEN_CATEGORIES" ∧ (value = "error" ∨ value = "warning" ∨ value = "silent") := by
  simp only [Config.set, Spec.C10.documentedFields, List.find?_cons, List.find?_nil]
  by_cases hk : key = "EVAL_UNSEEN_CATEGORIES"
  · subst hk
    simp only [beq_self_eq_true, true_and]
    by_cases hv : ["error", "warning", "silent"].contains value = true
    · simp only [hv, if_true]
      constructor
      · intro _; simpa using hv
      · intro _; exact ⟨_, rfl⟩
    · have hv' : ["error", "warning", "silent"].contains value = false := by simpa using hv
      simp only [hv', Bool.false_eq_true, if_false]
      constructor
      · rintro ⟨_, h⟩; cases h
      · intro h; simp at hv; exact absurd h (by simpa [not_or] using hv)
  · have : ("EVAL_UNSEEN_CATEGORIES" == key) = false := by
      simp only [beq_eq_false_iff_ne, ne_eq]; exact fun h => hk h.symm
    simp [this, hk]

theorem C10_config_default :
    Config.get (Config.init Spec.C10.documentedFields) "EVAL_UNSEEN_CATEGORIES" = .ok "error" := by
  rfl

/-- tie: the field table read from config.py is the documented one -/
theorem config_tie : Generated.configFields = Spec.C10.documentedFields := by decide
theorem config_shape : Generated.configShapeOk = true := by decide

/-- after any sequence of accepted settings the value read is the last one set (the mode in force
at evaluation time is the current one) -/
theorem C10_config_last_wins (st st' : Config.State) (v : String)
    (h : Config.set Spec.C10.documentedFields st "EVAL_UNSEEN_CATEGORIES" v = .ok st') :
    Config.get st' "EVAL_UNSEEN_CATEGORIES" = .ok v := by
  simp only [Config.set, Spec.C10.documentedFields, List.find?_cons, beq_self_eq_true] at h
  split at h
  · simp only [Except.ok.injEq] at h
    subst h
    split
    · rename_i hany
      simp only [Config.get]
      induction st with
      | nil => simp at hany
      | cons p st ih =>
        simp only [List.map_cons, List.find?_cons]
        by_cases hp : p.1 = "EVAL_UNSEEN_CATEGORIES"
        · simp [hp]
        · have hp' : (p.1 == "EVAL_UNSEEN_CATEGORIES") = false := by simpa using hp
          simp only [hp', Bool.false_eq_true, if_false]
          simp only [List.any_cons, hp', Bool.false_or] at hany
          exact ih hany
    · rename_i hany
      simp only [Config.get]
      have : ∀ p ∈ st, (p.1 == "EVAL_UNSEEN_CATEGORIES") = false := by
        intro p hp
        simp only [List.any_eq_true, not_exists, not_and, Bool.not_eq_true] at hany
        exact hany p hp
      rw [List.find?_append]
      have hnone : st.find? (fun p => p.1 == "EVAL_UNSEEN_CATEGORIES") = none := by
        rw [List.find?_eq_none]; intro p hp; simp [this p hp]
      simp [hnone]
  · simp at h

end FormulaeModel.C10
